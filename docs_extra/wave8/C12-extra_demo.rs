//! EXTRA for property C12 ("cancellation is honoured promptly and faithfully"):
//! a scenario in which the UNCHANGED solver panics instead of returning
//! `Cancelled`. Same harness as demo_C12.rs, different packages and latencies.
//!
//! Whenever `should_cancel_with_value` returns a value at one of the points
//! where the solver asks for it, `Solver::solve` has to return `Cancelled`
//! carrying exactly that value, must not start another `get_candidates` /
//! `get_dependencies` request after it has seen the value, and must not report
//! a solution or a conflict instead. If no value is ever returned the polling
//! must not influence the result.
//!
//! The provider in this file records every call in a log and the test checks
//! the property against that log, for every index `k` of a call to
//! `should_cancel_with_value`: from the k-th call on the provider asks the
//! solver to stop (a latched flag, always with the same value `Stop(k)`).
//!
//! The provider answers requests asynchronously (some answers take longer than
//! others) and, like the providers of real package managers, looks at the
//! dependencies of the candidates while sorting them: `sort_candidates` asks the
//! `SolverCache` for the dependencies of all candidates concurrently and then
//! for the candidates of the packages they need. `sort_candidates` cannot
//! return an error, so when one of these requests is refused because the solve
//! is being cancelled it drops the requests that are still outstanding and
//! returns; the solver learns about the cancellation at its own next poll.

use std::{
    any::Any,
    cell::{Cell, RefCell},
    collections::BTreeMap,
    fmt::Display,
};

use futures::future::try_join_all;

use resolvo::{
    Candidates, Dependencies, DependencyProvider, HintDependenciesAvailable, Interner,
    KnownDependencies, NameId, Problem, Requirement, SolvableId, Solver, SolverCache, StringId,
    UnsolvableOrCancelled, VersionSetId, VersionSetUnionId,
};

// ---------------------------------------------------------------------------
// The packages
// ---------------------------------------------------------------------------

struct Package {
    name: u32,
    version: u32,
    requires: Vec<Requirement>,
    constrains: Vec<VersionSetId>,
}

/// A version set: the versions `min..=max` of package `name`.
struct Range {
    name: u32,
    min: u32,
    max: u32,
}

#[derive(Default)]
struct Repo {
    names: Vec<&'static str>,
    packages: Vec<Package>,
    ranges: Vec<Range>,
    unions: Vec<Vec<VersionSetId>>,
}

impl Repo {
    fn name(&mut self, name: &'static str) -> u32 {
        match self.names.iter().position(|n| *n == name) {
            Some(idx) => idx as u32,
            None => {
                self.names.push(name);
                self.names.len() as u32 - 1
            }
        }
    }

    fn range(&mut self, name: &'static str, min: u32, max: u32) -> VersionSetId {
        let name = self.name(name);
        self.ranges.push(Range { name, min, max });
        VersionSetId(self.ranges.len() as u32 - 1)
    }

    fn package(
        &mut self,
        name: &'static str,
        version: u32,
        requires: Vec<Requirement>,
        constrains: Vec<VersionSetId>,
    ) -> SolvableId {
        let name = self.name(name);
        self.packages.push(Package {
            name,
            version,
            requires,
            constrains,
        });
        SolvableId(self.packages.len() as u32 - 1)
    }

    fn contains(&self, set: VersionSetId, solvable: SolvableId) -> bool {
        let range = &self.ranges[set.0 as usize];
        let package = &self.packages[solvable.0 as usize];
        range.name == package.name && (range.min..=range.max).contains(&package.version)
    }

    fn sets_of(&self, requirement: Requirement) -> Vec<VersionSetId> {
        match requirement {
            Requirement::Single(set) => vec![set],
            Requirement::Union(union) => self.unions[union.0 as usize].clone(),
        }
    }

    /// Is `solution` a correct answer to the `root` requirements?
    fn check_solution(&self, solution: &[SolvableId], root: &[Requirement]) -> Result<(), String> {
        let mut installed = BTreeMap::new();
        for &solvable in solution {
            let name = self.packages[solvable.0 as usize].name;
            if installed.insert(name, solvable).is_some() {
                return Err(format!("two versions of {}", self.names[name as usize]));
            }
        }
        let fulfilled = |requirement: Requirement| {
            self.sets_of(requirement)
                .iter()
                .any(|&set| solution.iter().any(|&s| self.contains(set, s)))
        };
        if let Some(missing) = root.iter().find(|&&r| !fulfilled(r)) {
            return Err(format!("root requirement {missing:?} is not fulfilled"));
        }
        for &solvable in solution {
            let package = &self.packages[solvable.0 as usize];
            if let Some(missing) = package.requires.iter().find(|&&r| !fulfilled(r)) {
                return Err(format!("{missing:?} of {solvable:?} is not fulfilled"));
            }
            for &set in &package.constrains {
                let name = self.ranges[set.0 as usize].name;
                if installed.get(&name).is_some_and(|&s| !self.contains(set, s)) {
                    return Err(format!("{solvable:?} constrains {set:?} which is violated"));
                }
            }
        }
        Ok(())
    }
}

/// `x-1` and `y-1` need `p`, `x-2` needs `q`.
fn repo() -> (Repo, Vec<Requirement>) {
    let mut r = Repo::default();

    let x_any = r.range("x", 1, 9);
    let y_any = r.range("y", 1, 9);
    let p_any = r.range("p", 1, 9);
    let q_any = r.range("q", 1, 9);

    r.package("x", 1, vec![p_any.into()], vec![]);
    r.package("x", 2, vec![q_any.into()], vec![]);
    r.package("y", 1, vec![p_any.into()], vec![]);
    r.package("p", 1, vec![], vec![]);
    r.package("q", 1, vec![], vec![]);

    (r, vec![x_any.into(), y_any.into()])
}

// ---------------------------------------------------------------------------
// The provider
// ---------------------------------------------------------------------------

#[derive(Debug, Clone, PartialEq, Eq)]
enum Call {
    /// `should_cancel_with_value`, and whether it returned a value.
    ShouldCancel(bool),
    /// `get_candidates` was started.
    GetCandidates(&'static str),
    /// `get_dependencies` was started.
    GetDependencies(String),
}

/// The value handed to the solver. It carries the index of the first call to
/// `should_cancel_with_value` that returned it.
#[derive(Debug, PartialEq, Eq)]
struct Stop(usize);

struct Provider {
    repo: Repo,
    /// How often answering `get_dependencies` yields to the runtime, per package
    /// version. Everything else yields once.
    slow: BTreeMap<(&'static str, u32), usize>,
    /// From this call of `should_cancel_with_value` on the solver is asked to stop.
    stop_from: Option<usize>,
    should_cancel_calls: Cell<usize>,
    log: RefCell<Vec<Call>>,
}

impl Provider {
    fn new(repo: Repo, stop_from: Option<usize>) -> Self {
        Self {
            repo,
            // The dependencies of the newest `app` take a while.
            slow: BTreeMap::from([(("y", 1), 2), (("x", 2), 4)]),
            stop_from,
            should_cancel_calls: Cell::new(0),
            log: RefCell::default(),
        }
    }

    async fn work(&self, rounds: usize) {
        for _ in 0..rounds {
            tokio::task::yield_now().await;
        }
    }
}

impl Interner for Provider {
    fn display_solvable(&self, solvable: SolvableId) -> impl Display + '_ {
        let package = &self.repo.packages[solvable.0 as usize];
        format!("{}-{}", self.repo.names[package.name as usize], package.version)
    }

    fn display_name(&self, name: NameId) -> impl Display + '_ {
        self.repo.names[name.0 as usize]
    }

    fn display_version_set(&self, version_set: VersionSetId) -> impl Display + '_ {
        let range = &self.repo.ranges[version_set.0 as usize];
        format!("[{}, {}]", range.min, range.max)
    }

    fn display_string(&self, _string_id: StringId) -> impl Display + '_ {
        "?"
    }

    fn version_set_name(&self, version_set: VersionSetId) -> NameId {
        NameId(self.repo.ranges[version_set.0 as usize].name)
    }

    fn solvable_name(&self, solvable: SolvableId) -> NameId {
        NameId(self.repo.packages[solvable.0 as usize].name)
    }

    fn version_sets_in_union(
        &self,
        version_set_union: VersionSetUnionId,
    ) -> impl Iterator<Item = VersionSetId> {
        self.repo.unions[version_set_union.0 as usize].iter().copied()
    }
}

impl DependencyProvider for Provider {
    async fn filter_candidates(
        &self,
        candidates: &[SolvableId],
        version_set: VersionSetId,
        inverse: bool,
    ) -> Vec<SolvableId> {
        candidates
            .iter()
            .copied()
            .filter(|&s| self.repo.contains(version_set, s) != inverse)
            .collect()
    }

    async fn get_candidates(&self, name: NameId) -> Option<Candidates> {
        self.log
            .borrow_mut()
            .push(Call::GetCandidates(self.repo.names[name.0 as usize]));
        // The index of `p` is slow.
        self.work(if self.repo.names[name.0 as usize] == "p" { 8 } else { 1 })
            .await;
        let candidates = (0..self.repo.packages.len())
            .filter(|&i| self.repo.packages[i].name == name.0)
            .map(|i| SolvableId(i as u32))
            .collect();
        Some(Candidates {
            candidates,
            hint_dependencies_available: HintDependenciesAvailable::None,
            ..Candidates::default()
        })
    }

    /// Candidates with fewer requirements first, then the newest first.
    async fn sort_candidates(&self, solver: &SolverCache<Self>, solvables: &mut [SolvableId]) {
        // Look at all the candidates at the same time. Also ask for the candidates of
        // the packages they need, so that these requests are under way early.
        let look_ahead = try_join_all(solvables.iter().map(|&solvable| async move {
            let Dependencies::Known(known) = solver.get_or_cache_dependencies(solvable).await?
            else {
                return Ok(usize::MAX);
            };
            for &requirement in &known.requirements {
                for set in self.repo.sets_of(requirement) {
                    solver
                        .get_or_cache_candidates(self.version_set_name(set))
                        .await?;
                }
            }
            Ok::<_, Box<dyn Any>>(known.requirements.len())
        }))
        .await;

        // The solve is being cancelled, the order does not matter any more. This
        // function cannot return the value, the solver will ask for it again.
        let Ok(requirement_counts) = look_ahead else {
            return;
        };

        let mut keyed: Vec<_> = solvables
            .iter()
            .zip(requirement_counts)
            .map(|(&s, count)| {
                let version = self.repo.packages[s.0 as usize].version;
                (count, std::cmp::Reverse(version), s)
            })
            .collect();
        keyed.sort();
        for (slot, (_, _, s)) in solvables.iter_mut().zip(keyed) {
            *slot = s;
        }
    }

    async fn get_dependencies(&self, solvable: SolvableId) -> Dependencies {
        self.log
            .borrow_mut()
            .push(Call::GetDependencies(self.display_solvable(solvable).to_string()));
        let package = &self.repo.packages[solvable.0 as usize];
        let key = (self.repo.names[package.name as usize], package.version);
        self.work(self.slow.get(&key).copied().unwrap_or(1)).await;
        Dependencies::Known(KnownDependencies {
            requirements: package.requires.clone(),
            constrains: package.constrains.clone(),
        })
    }

    fn should_cancel_with_value(&self) -> Option<Box<dyn Any>> {
        let call = self.should_cancel_calls.get() + 1;
        self.should_cancel_calls.set(call);
        let stop = self.stop_from.filter(|&from| call >= from);
        self.log.borrow_mut().push(Call::ShouldCancel(stop.is_some()));
        stop.map(|from| Box::new(Stop(from)) as Box<dyn Any>)
    }
}

// ---------------------------------------------------------------------------
// Running the solver and checking the property
// ---------------------------------------------------------------------------

type SolveResult = Result<Vec<SolvableId>, UnsolvableOrCancelled>;

fn solve(stop_from: Option<usize>) -> (SolveResult, Vec<Call>) {
    let (repo, requirements) = repo();
    let runtime = tokio::runtime::Builder::new_current_thread()
        .build()
        .unwrap();
    let mut solver = Solver::new(Provider::new(repo, stop_from)).with_runtime(runtime);
    let result = solver.solve(Problem::new().requirements(requirements));
    let log = solver.provider().log.borrow().clone();
    (result, log)
}

fn names(repo: &Repo, solution: &[SolvableId]) -> Vec<String> {
    let mut names: Vec<_> = solution
        .iter()
        .map(|s| {
            let p = &repo.packages[s.0 as usize];
            format!("{}-{}", repo.names[p.name as usize], p.version)
        })
        .collect();
    names.sort();
    names
}

/// Checks the property for every call of `should_cancel_with_value` from which
/// on the solver can be asked to stop.
#[test]
fn cancellation_is_honoured_at_every_poll() {
    let (repo, requirements) = repo();

    // No cancellation: a correct solution.
    let (expected, log) = solve(None);
    let expected = expected.unwrap_or_else(|_| panic!("there is a solution"));
    repo.check_solution(&expected, &requirements)
        .unwrap_or_else(|e| panic!("wrong solution {:?}: {e}", names(&repo, &expected)));
    let calls = log
        .iter()
        .filter(|c| matches!(c, Call::ShouldCancel(_)))
        .count();
    assert!(calls >= 5, "the solver asks whether to stop");

    let mut violations = Vec::new();
    for k in 1..=calls + 1 {
        let outcome = std::panic::catch_unwind(|| solve(Some(k)));
        let (result, log) = match outcome {
            Ok(outcome) => outcome,
            Err(panic) => {
                let message = panic
                    .downcast_ref::<&str>()
                    .map(|m| m.to_string())
                    .or_else(|| panic.downcast_ref::<String>().cloned())
                    .unwrap_or_default();
                violations.push(format!(
                    "k={k}: the solver was handed Stop({k}) but solve panicked: {message}"
                ));
                continue;
            }
        };
        let told = log.iter().position(|c| *c == Call::ShouldCancel(true));

        let Some(told) = told else {
            // The solver never got to see a value, so nothing may change.
            match result {
                Ok(solution) if names(&repo, &solution) == names(&repo, &expected) => {}
                _ => violations.push(format!(
                    "k={k}: no value was returned, yet the result is different"
                )),
            }
            continue;
        };

        match result {
            Err(UnsolvableOrCancelled::Cancelled(value)) => match value.downcast_ref::<Stop>() {
                Some(Stop(from)) if *from == k => {}
                other => violations.push(format!(
                    "k={k}: the solver was handed Stop({k}) but returned {other:?}"
                )),
            },
            Ok(solution) => violations.push(format!(
                "k={k}: the solver was handed Stop({k}) but reported the solution {:?}",
                names(&repo, &solution)
            )),
            Err(UnsolvableOrCancelled::Unsolvable(_)) => violations.push(format!(
                "k={k}: the solver was handed Stop({k}) but reported a conflict"
            )),
        }

        let later_requests: Vec<_> = log[told + 1..]
            .iter()
            .filter(|c| !matches!(c, Call::ShouldCancel(_)))
            .collect();
        if !later_requests.is_empty() {
            violations.push(format!(
                "k={k}: requests started after the solver was handed Stop({k}): {later_requests:?}\n    log: {log:?}"
            ));
        }
    }

    assert!(
        violations.is_empty(),
        "cancellation is not honoured faithfully, {} violation(s):\n  {}",
        violations.len(),
        violations.join("\n  ")
    );
}
