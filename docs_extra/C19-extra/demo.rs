//! Extra finding for C19, on the UNMODIFIED code: the serde encoding of
//! `Mapping` ("dense array of `Option<V>`") is lossy in self-describing formats
//! such as JSON whenever a stored value itself serialises as `null`
//! (`V = ()`, `V = Option<T>` holding `None`, unit structs, ...).  `Some(())`
//! and `Some(None)` are both written as `null`, which is read back as an empty
//! slot, so the round trip silently drops stored entries (len/get/iter differ).
//!
//! Placement: copy this file to `tests/mut_C19_extra.rs` in the resolvo checkout.
//! Run with:
//!
//!     cargo test --offline --features serde --test mut_C19_extra
//!
//! These tests FAIL on the unmodified code (they assert the C19 round-trip
//! property as stated: "serialising and deserialising yields a mapping with the
//! same contents").
#![cfg(feature = "serde")]

use resolvo::{Mapping, StringId};

#[test]
fn option_valued_mapping_roundtrip() {
    let mut mapping: Mapping<StringId, Option<u32>> = Mapping::default();
    mapping.insert(StringId(0), Some(7));
    mapping.insert(StringId(1), None); // a stored value that happens to be `None`
    mapping.insert(StringId(2), Some(9));
    assert_eq!(mapping.len(), 3);

    let json = serde_json::to_string(&mapping).unwrap();
    assert_eq!(json, "[7,null,9]");
    let restored: Mapping<StringId, Option<u32>> = serde_json::from_str(&json).unwrap();

    // Property: same contents.
    assert_eq!(restored.len(), 3, "entry 1 -> None was dropped by the round trip");
    assert_eq!(restored.get(StringId(1)), Some(&None));
}

#[test]
fn unit_valued_mapping_roundtrip() {
    // A `Mapping<Id, ()>` used as a set of ids.
    let mut mapping: Mapping<StringId, ()> = Mapping::default();
    for id in [0u32, 2, 5] {
        mapping.insert(StringId(id), ());
    }
    let json = serde_json::to_string(&mapping).unwrap();
    let restored: Mapping<StringId, ()> = serde_json::from_str(&json).unwrap();

    assert_eq!(restored.len(), 3, "all entries were dropped by the round trip ({json})");
    assert_eq!(
        restored.iter().map(|(id, _)| id.0).collect::<Vec<_>>(),
        vec![0, 2, 5]
    );
}
