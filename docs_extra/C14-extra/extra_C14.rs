// Inputs on which the UNMODIFIED sources already violate property C14 ("soft requirements are
// best-effort and never harm the hard problem"). Found while looking for mutation sites.
//
// Placement: copy this file to   tests/extra_C14.rs   of the resolvo checkout.
// Run with:                      cargo test --offline --test extra_C14
//
// Each test states what C14 promises and therefore FAILS on the unmodified sources (3 failures).
// Only the public API of the crate is used.

use std::{
    collections::{BTreeSet, HashMap, HashSet},
    fmt::Display,
};

use resolvo::{
    Candidates, Dependencies, DependencyProvider, HintDependenciesAvailable, Interner,
    KnownDependencies, NameId, Problem, Requirement, SolvableId, Solver, SolverCache, StringId,
    VersionSetId, VersionSetUnionId,
};

#[derive(Clone, Debug)]
struct Solv {
    name: u32,
    version: u32,
    /// requirements: version set ids
    reqs: Vec<u32>,
    /// constrains: version set ids
    cons: Vec<u32>,
}

/// A small universe of packages. Solvable ids, name ids and version set ids are indices into the
/// vectors below. A version set is a package name plus the set of versions it admits.
#[derive(Clone, Debug, Default)]
struct Universe {
    names: Vec<String>,
    solv: Vec<Solv>,
    vsets: Vec<(u32, BTreeSet<u32>)>,
    /// packages for which `get_candidates` reports `HintDependenciesAvailable::All`
    hints: HashSet<u32>,
    /// solvables that `get_candidates` reports as excluded
    excluded: HashSet<u32>,
}

impl Universe {
    fn name(&mut self, n: &str) -> u32 {
        if let Some(p) = self.names.iter().position(|x| x == n) {
            return p as u32;
        }
        self.names.push(n.to_string());
        (self.names.len() - 1) as u32
    }

    /// Interns the version set "`name` in `versions`".
    fn vset(&mut self, name: &str, versions: &[u32]) -> u32 {
        let name = self.name(name);
        let v = (name, versions.iter().copied().collect::<BTreeSet<_>>());
        if let Some(p) = self.vsets.iter().position(|x| *x == v) {
            return p as u32;
        }
        self.vsets.push(v);
        (self.vsets.len() - 1) as u32
    }

    fn package(&mut self, name: &str, version: u32, reqs: Vec<u32>, cons: Vec<u32>) -> SolvableId {
        let name = self.name(name);
        self.solv.push(Solv {
            name,
            version,
            reqs,
            cons,
        });
        SolvableId((self.solv.len() - 1) as u32)
    }

    fn hint_dependencies_available(&mut self, name: &str) {
        let n = self.name(name);
        self.hints.insert(n);
    }

    fn matches(&self, vs: u32, s: u32) -> bool {
        let (n, set) = &self.vsets[vs as usize];
        let sv = &self.solv[s as usize];
        sv.name == *n && set.contains(&sv.version)
    }

    fn show(&self, s: SolvableId) -> String {
        let sv = &self.solv[s.0 as usize];
        format!("{}={}", self.names[sv.name as usize], sv.version)
    }

    /// Checks that `solution` is closed under requirements, respects all constrains and has at
    /// most one solvable per package. Returns the list of violations.
    fn violations(&self, solution: &[SolvableId]) -> Vec<String> {
        let mut out = vec![];
        let mut seen: HashMap<u32, SolvableId> = HashMap::new();
        for &s in solution {
            let sv = &self.solv[s.0 as usize];
            if let Some(other) = seen.insert(sv.name, s) {
                out.push(format!(
                    "{} and {} are both installed",
                    self.show(other),
                    self.show(s)
                ));
            }
            for &r in &sv.reqs {
                if !solution.iter().any(|c| self.matches(r, c.0)) {
                    out.push(format!(
                        "{} requires {} {:?} but no such solvable is installed",
                        self.show(s),
                        self.names[self.vsets[r as usize].0 as usize],
                        self.vsets[r as usize].1
                    ));
                }
            }
            for &c in &sv.cons {
                let n = self.vsets[c as usize].0;
                for &o in solution {
                    if self.solv[o.0 as usize].name == n && !self.matches(c, o.0) {
                        out.push(format!(
                            "{} constrains {} to {:?} but {} is installed",
                            self.show(s),
                            self.names[n as usize],
                            self.vsets[c as usize].1,
                            self.show(o)
                        ));
                    }
                }
            }
        }
        out
    }
}

impl Interner for Universe {
    fn display_solvable(&self, solvable: SolvableId) -> impl Display + '_ {
        self.show(solvable)
    }
    fn display_name(&self, name: NameId) -> impl Display + '_ {
        self.names[name.0 as usize].clone()
    }
    fn display_version_set(&self, version_set: VersionSetId) -> impl Display + '_ {
        format!("{:?}", self.vsets[version_set.0 as usize].1)
    }
    fn display_string(&self, _string_id: StringId) -> impl Display + '_ {
        "reason"
    }
    fn version_set_name(&self, version_set: VersionSetId) -> NameId {
        NameId(self.vsets[version_set.0 as usize].0)
    }
    fn solvable_name(&self, solvable: SolvableId) -> NameId {
        NameId(self.solv[solvable.0 as usize].name)
    }
    fn version_sets_in_union(
        &self,
        _version_set_union: VersionSetUnionId,
    ) -> impl Iterator<Item = VersionSetId> {
        // unions are not used in this demonstration
        std::iter::empty()
    }
}

impl DependencyProvider for Universe {
    async fn filter_candidates(
        &self,
        candidates: &[SolvableId],
        version_set: VersionSetId,
        inverse: bool,
    ) -> Vec<SolvableId> {
        candidates
            .iter()
            .copied()
            .filter(|s| self.matches(version_set.0, s.0) != inverse)
            .collect()
    }

    async fn get_candidates(&self, name: NameId) -> Option<Candidates> {
        let candidates: Vec<SolvableId> = (0..self.solv.len() as u32)
            .filter(|&i| self.solv[i as usize].name == name.0)
            .map(SolvableId)
            .collect();
        if candidates.is_empty() {
            return None;
        }
        Some(Candidates {
            hint_dependencies_available: if self.hints.contains(&name.0) {
                HintDependenciesAvailable::All
            } else {
                HintDependenciesAvailable::None
            },
            excluded: candidates
                .iter()
                .filter(|s| self.excluded.contains(&s.0))
                .map(|s| (*s, StringId(0)))
                .collect(),
            candidates,
            ..Candidates::default()
        })
    }

    async fn sort_candidates(&self, _solver: &SolverCache<Self>, solvables: &mut [SolvableId]) {
        // highest version first
        solvables.sort_by(|a, b| {
            self.solv[b.0 as usize]
                .version
                .cmp(&self.solv[a.0 as usize].version)
        });
    }

    async fn get_dependencies(&self, solvable: SolvableId) -> Dependencies {
        let sv = &self.solv[solvable.0 as usize];
        Dependencies::Known(KnownDependencies {
            requirements: sv
                .reqs
                .iter()
                .map(|r| Requirement::Single(VersionSetId(*r)))
                .collect(),
            constrains: sv.cons.iter().map(|c| VersionSetId(*c)).collect(),
        })
    }
}

fn solve(u: &Universe, hard: &[u32], soft: &[SolvableId]) -> Vec<String> {
    let mut solver = Solver::new(u.clone());
    let problem = Problem::new()
        .requirements(
            hard.iter()
                .map(|r| Requirement::Single(VersionSetId(*r)))
                .collect(),
        )
        .soft_requirements(soft.to_vec());
    let solution = match solver.solve(problem) {
        Ok(solution) => solution,
        Err(_) => panic!("soft requirements must never turn a solvable problem into an error"),
    };
    let violations = u.violations(&solution);
    assert!(violations.is_empty(), "invalid solution: {:#?}", violations);
    let mut names: Vec<String> = solution.iter().map(|s| u.show(*s)).collect();
    names.sort();
    names
}

/// EXTRA 1 -- a soft requirement whose first-ranked dependency closure is compatible with the hard
/// solution is skipped, because a *lower-ranked, never selected* candidate of one of its
/// dependencies is encoded eagerly (the provider hints that its dependencies are available) and
/// the constrains clause of that still undecided candidate is reported as "conflicting"
/// (`Clause::constrains` only looks at the forbidden solvable, not at the parent). A conflict
/// reported by the very first `encode` of a soft run makes `run_sat` give the soft requirement up.
///
/// hard: r 2            soft: x=1 -> q {1,2};   q=1 constrains r {1};   q=2 has no dependencies.
/// First-ranked closure of x=1 is {x=1, q=2}: compatible with {r=2}.
#[test]
fn extra1_eagerly_encoded_candidate_makes_compatible_soft_requirement_fail() {
    let mut u = Universe::default();
    let r_1 = u.vset("r", &[1]);
    let r_2 = u.vset("r", &[2]);
    let q_any = u.vset("q", &[1, 2]);
    let _r1 = u.package("r", 1, vec![], vec![]);
    let _r2 = u.package("r", 2, vec![], vec![]);
    let _q1 = u.package("q", 1, vec![], vec![r_1]);
    let _q2 = u.package("q", 2, vec![], vec![]);
    let x1 = u.package("x", 1, vec![q_any], vec![]);

    // Control: without the hint the soft requirement is accepted.
    assert_eq!(solve(&u, &[r_2], &[x1]), ["q=2", "r=2", "x=1"]);

    // With the hint the very same problem loses x=1 (actual result: ["r=2"]).
    u.hint_dependencies_available("q");
    assert_eq!(solve(&u, &[r_2], &[x1]), ["q=2", "r=2", "x=1"]);
}

/// EXTRA 2 -- an excluded solvable that is accepted as a soft requirement before the candidates
/// of its package were ever requested poisons every later soft requirement: as soon as the
/// package is requested, the exclusion is stored as a negative assertion that contradicts the
/// accepted solvable, `decide_assertions` fails at the start of *every* later propagation, and all
/// remaining soft requirements are rejected on their first level -- also trivially installable
/// ones that have nothing to do with it.
///
/// soft: [d=2 (excluded by the provider), e=1 -> d {1,2}, f=3 (no dependencies at all)]
#[test]
fn extra2_excluded_soft_requirement_poisons_all_later_soft_requirements() {
    let mut u = Universe::default();
    let d_any = u.vset("d", &[1, 2]);
    let _d1 = u.package("d", 1, vec![], vec![]);
    let d2 = u.package("d", 2, vec![], vec![]);
    let e1 = u.package("e", 1, vec![d_any], vec![]);
    let f3 = u.package("f", 3, vec![], vec![]);
    u.excluded.insert(d2.0);

    // Control: f=3 is accepted in any other context.
    assert_eq!(solve(&u, &[], &[d2, f3]), ["d=2", "f=3"]);
    assert_eq!(solve(&u, &[], &[e1, f3]), ["d=1", "e=1", "f=3"]);

    // f=3 is trivially installable, so whatever happens to d=2 and e=1 it has to be there
    // (actual result: ["d=2"]).
    let solution = solve(&u, &[], &[d2, e1, f3]);
    assert!(
        solution.contains(&"f=3".to_string()),
        "f=3 was skipped: {solution:?}"
    );
}

/// EXTRA 3 -- a list of soft requirements makes the solver panic (`unreachable!` in `decide`).
///
/// When a soft requirement fails, `run_sat_process_unsolvable` pushes the decision "not X" but
/// does not propagate it; that is left to the next `propagate`. If the *next* soft requirement
/// fails while it is being encoded (before anything is propagated), `undo_last` sets
/// `propagate_index = stack.len()`, which silently skips the still unpropagated "not X". If that
/// happens to all candidates of a requirement whose watches have meanwhile moved onto exactly
/// these candidates, a later soft requirement gets installed with a requirement none of whose
/// candidates can be selected, and `decide` hits its `unreachable!`.
///
/// hard: b 1
/// soft: a=1 -> p, z     p=1 -> q {1,2} (p hints that dependencies are available)
///                       z=1, q=1, q=2, w=1 all constrain b {2} (i.e. they exclude b=1)
///       q=2, q=1, w=1, p=1
///
/// None of the soft requirements can be installed, so the expected result is just {b=1}.
#[test]
fn extra3_unpropagated_rejection_of_soft_requirement_leads_to_panic() {
    let mut u = Universe::default();
    let b_1 = u.vset("b", &[1]);
    let b_2 = u.vset("b", &[2]);
    let z_1 = u.vset("z", &[1]);
    let q_any = u.vset("q", &[1, 2]);
    let p_1 = u.vset("p", &[1]);
    let _b1 = u.package("b", 1, vec![], vec![]);
    let _z1 = u.package("z", 1, vec![], vec![b_2]);
    let q1 = u.package("q", 1, vec![], vec![b_2]);
    let q2 = u.package("q", 2, vec![], vec![b_2]);
    let p1 = u.package("p", 1, vec![q_any], vec![]);
    let a1 = u.package("a", 1, vec![p_1, z_1], vec![]);
    let w1 = u.package("w", 1, vec![], vec![b_2]);
    u.hint_dependencies_available("p");

    // Control: each soft requirement on its own is skipped silently.
    for s in [a1, q2, q1, w1, p1] {
        assert_eq!(solve(&u, &[b_1], &[s]), ["b=1"]);
    }

    // Together, in this order, they make the solver panic.
    assert_eq!(solve(&u, &[b_1], &[a1, q2, q1, w1, p1]), ["b=1"]);
}
