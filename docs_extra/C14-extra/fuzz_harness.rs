// Random differential/oracle harness that was used to look for inputs (not a deliverable, kept for
// reference). Place as tests/fz.rs and run e.g.
//   FZ_N=30000 FZ_OUT=/tmp/out.txt cargo test --offline --test fz fuzz -- --nocapture
// Environment: FZ_START (first seed), FZ_N (number of seeds), FZ_OUT (one line per seed with the
// results, for diffing two builds), FZ_NOEXCL / FZ_NOHINT (generate no exclusions / no hints),
// FZ_DESCRIBE (print every generated problem), FZ_V (print every violation).
// Oracles: validity of the result, no error/panic/hang when the hard problem is solvable, a
// trivially installable soft solvable is included, and the result for the first k soft
// requirements is a prefix of the result for the first k+1.
#![allow(dead_code)]
use std::{
    cell::RefCell,
    collections::{BTreeSet, HashMap, HashSet},
    fmt::Display,
    io::Write,
};

use resolvo::{
    Candidates, Dependencies, DependencyProvider, HintDependenciesAvailable, Interner,
    KnownDependencies, NameId, Problem, Requirement, SolvableId, Solver, SolverCache, StringId,
    UnsolvableOrCancelled, VersionSetId, VersionSetUnionId,
};

#[derive(Clone, Debug)]
enum Req {
    Single(u32),
    Union(u32),
}

#[derive(Clone, Debug)]
struct Solv {
    name: u32,
    version: u32,
    unknown: bool,
    reqs: Vec<Req>,
    cons: Vec<u32>,
}

#[derive(Clone, Debug, Default)]
struct U {
    names: Vec<String>,
    solv: Vec<Solv>,
    vsets: Vec<(u32, BTreeSet<u32>)>,
    unions: Vec<Vec<u32>>,
    locked: HashMap<u32, u32>,
    favored: HashMap<u32, u32>,
    excluded: HashSet<u32>,
    hints: HashSet<u32>,
    fetched: RefCell<HashSet<u32>>,
}

impl U {
    fn name(&mut self, n: &str) -> u32 {
        if let Some(p) = self.names.iter().position(|x| x == n) {
            return p as u32;
        }
        self.names.push(n.to_string());
        (self.names.len() - 1) as u32
    }
    fn vset(&mut self, name: u32, versions: &[u32]) -> u32 {
        let v = (name, versions.iter().copied().collect::<BTreeSet<_>>());
        if let Some(p) = self.vsets.iter().position(|x| *x == v) {
            return p as u32;
        }
        self.vsets.push(v);
        (self.vsets.len() - 1) as u32
    }
    fn matches(&self, vs: u32, s: u32) -> bool {
        let (n, set) = &self.vsets[vs as usize];
        let sv = &self.solv[s as usize];
        sv.name == *n && set.contains(&sv.version)
    }
    fn req_vsets(&self, r: &Req) -> Vec<u32> {
        match r {
            Req::Single(v) => vec![*v],
            Req::Union(u) => self.unions[*u as usize].clone(),
        }
    }
    fn to_req(&self, r: &Req) -> Requirement {
        match r {
            Req::Single(v) => Requirement::Single(VersionSetId(*v)),
            Req::Union(u) => Requirement::Union(VersionSetUnionId(*u)),
        }
    }
    fn show(&self, s: u32) -> String {
        let sv = &self.solv[s as usize];
        format!("{}={}", self.names[sv.name as usize], sv.version)
    }
}

impl Interner for U {
    fn display_solvable(&self, solvable: SolvableId) -> impl Display + '_ {
        self.show(solvable.0)
    }
    fn display_name(&self, name: NameId) -> impl Display + '_ {
        self.names[name.0 as usize].clone()
    }
    fn display_version_set(&self, version_set: VersionSetId) -> impl Display + '_ {
        format!("{:?}", self.vsets[version_set.0 as usize].1)
    }
    fn display_string(&self, _string_id: StringId) -> impl Display + '_ {
        "str"
    }
    fn version_set_name(&self, version_set: VersionSetId) -> NameId {
        NameId(self.vsets[version_set.0 as usize].0)
    }
    fn solvable_name(&self, solvable: SolvableId) -> NameId {
        NameId(self.solv[solvable.0 as usize].name)
    }
    fn version_sets_in_union(
        &self,
        version_set_union: VersionSetUnionId,
    ) -> impl Iterator<Item = VersionSetId> {
        self.unions[version_set_union.0 as usize]
            .iter()
            .map(|v| VersionSetId(*v))
    }
}

impl DependencyProvider for U {
    async fn filter_candidates(
        &self,
        candidates: &[SolvableId],
        version_set: VersionSetId,
        inverse: bool,
    ) -> Vec<SolvableId> {
        candidates
            .iter()
            .copied()
            .filter(|s| self.matches(version_set.0, s.0) != inverse)
            .collect()
    }
    async fn get_candidates(&self, name: NameId) -> Option<Candidates> {
        self.fetched.borrow_mut().insert(name.0);
        let cands: Vec<SolvableId> = (0..self.solv.len() as u32)
            .filter(|&i| self.solv[i as usize].name == name.0)
            .map(SolvableId)
            .collect();
        if cands.is_empty() {
            return None;
        }
        Some(Candidates {
            favored: self.favored.get(&name.0).map(|s| SolvableId(*s)),
            locked: self.locked.get(&name.0).map(|s| SolvableId(*s)),
            excluded: cands
                .iter()
                .filter(|s| self.excluded.contains(&s.0))
                .map(|s| (*s, StringId(0)))
                .collect(),
            hint_dependencies_available: if self.hints.contains(&name.0) {
                HintDependenciesAvailable::All
            } else {
                HintDependenciesAvailable::None
            },
            candidates: cands,
        })
    }
    async fn sort_candidates(&self, _solver: &SolverCache<Self>, solvables: &mut [SolvableId]) {
        solvables.sort_by(|a, b| {
            self.solv[b.0 as usize]
                .version
                .cmp(&self.solv[a.0 as usize].version)
        });
    }
    async fn get_dependencies(&self, solvable: SolvableId) -> Dependencies {
        let sv = &self.solv[solvable.0 as usize];
        if sv.unknown {
            return Dependencies::Unknown(StringId(0));
        }
        Dependencies::Known(KnownDependencies {
            requirements: sv.reqs.iter().map(|r| self.to_req(r)).collect(),
            constrains: sv.cons.iter().map(|c| VersionSetId(*c)).collect(),
        })
    }
}

struct Rng(u64);
impl Rng {
    fn next(&mut self) -> u64 {
        self.0 ^= self.0 << 13;
        self.0 ^= self.0 >> 7;
        self.0 ^= self.0 << 17;
        self.0
    }
    fn below(&mut self, n: u64) -> u64 {
        self.next() % n
    }
    fn chance(&mut self, pct: u64) -> bool {
        self.below(100) < pct
    }
}

struct Case {
    u: U,
    reqs: Vec<Req>,
    cons: Vec<u32>,
    soft: Vec<u32>,
}

fn gen_case(seed: u64) -> Case {
    let mut r = Rng(seed.wrapping_mul(0x9E3779B97F4A7C15) | 1);
    for _ in 0..5 {
        r.next();
    }
    let mut u = U::default();
    let nn = 3 + r.below(5) as u32;
    let mut versions: Vec<Vec<u32>> = vec![];
    for n in 0..nn {
        u.names.push(format!("{}", (b'a' + n as u8) as char));
        let nv = 1 + r.below(4) as u32;
        versions.push((1..=nv).collect());
    }
    fn rand_vset(r: &mut Rng, u: &mut U, versions: &[Vec<u32>], nn: u32) -> u32 {
        let n = r.below(nn as u64) as u32;
        let vs: Vec<u32> = if r.chance(35) {
            versions[n as usize].clone()
        } else {
            let mut v: Vec<u32> = versions[n as usize]
                .iter()
                .copied()
                .filter(|_| r.chance(50))
                .collect();
            if v.is_empty() && r.chance(85) {
                v.push(versions[n as usize][r.below(versions[n as usize].len() as u64) as usize]);
            }
            v
        };
        u.vset(n, &vs)
    }
    fn rand_req(r: &mut Rng, u: &mut U, versions: &[Vec<u32>], nn: u32) -> Req {
        if r.chance(15) {
            let a = rand_vset(r, u, versions, nn);
            let b = rand_vset(r, u, versions, nn);
            u.unions.push(vec![a, b]);
            Req::Union((u.unions.len() - 1) as u32)
        } else {
            Req::Single(rand_vset(r, u, versions, nn))
        }
    }
    let dep_pct = 15 + r.below(30);
    let con_pct = 5 + r.below(25);
    for n in 0..nn {
        for &v in &versions[n as usize].clone() {
            let mut reqs = vec![];
            let mut cons = vec![];
            for _ in 0..3 {
                if r.chance(dep_pct) {
                    reqs.push(rand_req(&mut r, &mut u, &versions, nn));
                }
            }
            for _ in 0..2 {
                if r.chance(con_pct) {
                    cons.push(rand_vset(&mut r, &mut u, &versions, nn));
                }
            }
            u.solv.push(Solv {
                name: n,
                version: v,
                unknown: r.chance(4),
                reqs,
                cons,
            });
        }
    }
    let ns = u.solv.len() as u64;
    for n in 0..nn {
        if r.chance(10) {
            let s = r.below(ns) as u32;
            let nm = u.solv[s as usize].name;
            u.locked.insert(nm, s);
        }
        if r.chance(10) {
            let s = r.below(ns) as u32;
            let nm = u.solv[s as usize].name;
            u.favored.insert(nm, s);
        }
        if r.chance(30) && std::env::var("FZ_NOHINT").is_err() {
            u.hints.insert(n);
        }
    }
    for s in 0..ns as u32 {
        if r.chance(5) && std::env::var("FZ_NOEXCL").is_err() {
            u.excluded.insert(s);
        }
    }
    let mut reqs = vec![];
    for _ in 0..(r.below(3)) {
        reqs.push(rand_req(&mut r, &mut u, &versions, nn));
    }
    let mut cons = vec![];
    if r.chance(25) {
        cons.push(rand_vset(&mut r, &mut u, &versions, nn));
    }
    let mut soft = vec![];
    for _ in 0..(1 + r.below(8)) {
        soft.push(r.below(ns) as u32);
    }
    Case {
        u,
        reqs,
        cons,
        soft,
    }
}

/// Returns a list of violations of validity of `sol`.
fn check(u: &U, reqs: &[Req], cons: &[u32], sol: &[u32]) -> Vec<String> {
    let mut out = vec![];
    let sat = |r: &Req| {
        u.req_vsets(r)
            .iter()
            .any(|vs| sol.iter().any(|s| u.matches(*vs, *s)))
    };
    let con_ok = |c: u32| {
        let n = u.vsets[c as usize].0;
        sol.iter()
            .all(|s| u.solv[*s as usize].name != n || u.matches(c, *s))
    };
    for r in reqs {
        if !sat(r) {
            out.push(format!("root req {:?} unsatisfied", r));
        }
    }
    for c in cons {
        if !con_ok(*c) {
            out.push(format!("root constraint {:?} violated", c));
        }
    }
    let mut seen = HashMap::new();
    for &s in sol {
        let sv = &u.solv[s as usize];
        if let Some(o) = seen.insert(sv.name, s) {
            out.push(format!("duplicate package {} and {}", u.show(o), u.show(s)));
        }
        if sv.unknown {
            out.push(format!("{} has unknown deps", u.show(s)));
            continue;
        }
        for r in &sv.reqs {
            if !sat(r) {
                out.push(format!("{} req {:?} unsatisfied", u.show(s), r));
            }
        }
        for c in &sv.cons {
            if !con_ok(*c) {
                out.push(format!("{} constraint {:?} violated", u.show(s), u.vsets[*c as usize]));
            }
        }
    }
    out
}

fn run(c: &Case, soft: bool) -> Result<Result<Vec<u32>, String>, String> {
    run_n(c, if soft { c.soft.len() } else { 0 })
}

fn run_n(c: &Case, nsoft: usize) -> Result<Result<Vec<u32>, String>, String> {
    let c2 = Case { u: c.u.clone(), reqs: c.reqs.clone(), cons: c.cons.clone(), soft: c.soft.clone() };
    let (tx, rx) = std::sync::mpsc::channel();
    std::thread::spawn(move || {
        let _ = tx.send(run_n_inner(&c2, nsoft));
    });
    match rx.recv_timeout(std::time::Duration::from_secs(5)) {
        Ok(r) => r,
        Err(_) => Err("HANG".to_string()),
    }
}

fn run_n_inner(c: &Case, nsoft: usize) -> Result<Result<Vec<u32>, String>, String> {
    let soft = true;
    let c = &Case { u: c.u.clone(), reqs: c.reqs.clone(), cons: c.cons.clone(), soft: c.soft[..nsoft].to_vec() };
    let u = c.u.clone();
    let reqs: Vec<Requirement> = c.reqs.iter().map(|r| u.to_req(r)).collect();
    let cons: Vec<VersionSetId> = c.cons.iter().map(|c| VersionSetId(*c)).collect();
    let softs: Vec<SolvableId> = if soft {
        c.soft.iter().map(|s| SolvableId(*s)).collect()
    } else {
        vec![]
    };
    let res = std::panic::catch_unwind(std::panic::AssertUnwindSafe(|| {
        let mut solver = Solver::new(u);
        let problem = Problem::new()
            .requirements(reqs)
            .constraints(cons)
            .soft_requirements(softs);
        match solver.solve(problem) {
            Ok(s) => Ok(s.into_iter().map(|s| s.0).collect::<Vec<_>>()),
            Err(UnsolvableOrCancelled::Unsolvable(_)) => Err("unsat".to_string()),
            Err(UnsolvableOrCancelled::Cancelled(_)) => Err("cancelled".to_string()),
        }
    }));
    match res {
        Ok(r) => Ok(r),
        Err(p) => Err(p
            .downcast_ref::<String>()
            .cloned()
            .or_else(|| p.downcast_ref::<&str>().map(|s| s.to_string()))
            .unwrap_or_default()),
    }
}

fn describe(c: &Case) -> String {
    let u = &c.u;
    let mut s = String::new();
    for (i, sv) in u.solv.iter().enumerate() {
        s += &format!(
            "  [{}] {} unknown={} reqs={:?} cons={:?}{}{}\n",
            i,
            u.show(i as u32),
            sv.unknown,
            sv.reqs
                .iter()
                .map(|r| u
                    .req_vsets(r)
                    .iter()
                    .map(|v| format!("{}{:?}", u.names[u.vsets[*v as usize].0 as usize], u.vsets[*v as usize].1))
                    .collect::<Vec<_>>()
                    .join("|"))
                .collect::<Vec<_>>(),
            sv.cons
                .iter()
                .map(|v| format!("{}{:?}", u.names[u.vsets[*v as usize].0 as usize], u.vsets[*v as usize].1))
                .collect::<Vec<_>>(),
            if u.excluded.contains(&(i as u32)) { " EXCLUDED" } else { "" },
            if u.locked.values().any(|x| *x == i as u32) { " LOCKED" } else { "" },
        );
    }
    s += &format!("  hints={:?} favored={:?}\n", u.hints, u.favored);
    s += &format!(
        "  root reqs={:?} cons={:?} soft={:?}\n",
        c.reqs
            .iter()
            .map(|r| u
                .req_vsets(r)
                .iter()
                .map(|v| format!("{}{:?}", u.names[u.vsets[*v as usize].0 as usize], u.vsets[*v as usize].1))
                .collect::<Vec<_>>()
                .join("|"))
            .collect::<Vec<_>>(),
        c.cons
            .iter()
            .map(|v| format!("{}{:?}", u.names[u.vsets[*v as usize].0 as usize], u.vsets[*v as usize].1))
            .collect::<Vec<_>>(),
        c.soft.iter().map(|s| u.show(*s)).collect::<Vec<_>>()
    );
    s
}

#[test]
fn fuzz() {
    let n: u64 = std::env::var("FZ_N").ok().and_then(|s| s.parse().ok()).unwrap_or(2000);
    let start: u64 = std::env::var("FZ_START").ok().and_then(|s| s.parse().ok()).unwrap_or(0);
    let out = std::env::var("FZ_OUT").ok();
    let verbose = std::env::var("FZ_V").is_ok();
    std::panic::set_hook(Box::new(|_| {}));
    let mut f = out.map(|p| std::fs::File::create(p).unwrap());
    let mut bad = 0;
    for seed in start..start + n {
        let c = gen_case(seed);
        if std::env::var("FZ_DESCRIBE").is_ok() {
            eprintln!("seed {seed}\n{}", describe(&c));
        }
        let hard = run(&c, false);
        let soft = run(&c, true);
        let mut line = format!("{seed} hard={:?} soft={:?}", hard, soft);
        let mut viol = vec![];
        if let Ok(Ok(_)) = &hard {
            match &soft {
                Ok(Ok(sol)) => {
                    viol = check(&c.u, &c.reqs, &c.cons, sol);
                    viol.extend(check_incl(&c, sol));
                    // prefix oracle
                    let mut prev: Vec<u32> = match &hard { Ok(Ok(h)) => h.clone(), _ => vec![] };
                    for k in 1..=c.soft.len() {
                        match run_n(&c, k) {
                            Ok(Ok(cur)) => {
                                if cur.len() < prev.len() || cur[..prev.len()] != prev[..] {
                                    viol.push(format!("prefix violated at k={k}: {:?} -> {:?}", prev, cur));
                                }
                                prev = cur;
                            }
                            other => { viol.push(format!("prefix run {k} failed {:?}", other)); break; }
                        }
                    }
                }
                Ok(Err(e)) => viol.push(format!("soft turned into error {e}")),
                Err(p) => viol.push(format!("soft panicked: {p}")),
            }
        } else if let Ok(Err(_)) = &hard {
            if !matches!(&soft, Ok(Err(_))) {
                viol.push(format!("hard unsat but soft {:?}", soft));
            }
        } else if let Err(p) = &hard {
            viol.push(format!("hard panicked {p}"));
        }
        if !viol.is_empty() {
            bad += 1;
            line += &format!(" VIOL {:?}", viol);
            if verbose || bad <= 5 {
                eprintln!("seed {seed}: {:?}\n{}", viol, describe(&c));
                eprintln!("   hard={:?}\n   soft={:?}", hard, soft);
            }
        }
        if let Some(f) = f.as_mut() {
            writeln!(f, "{line}").unwrap();
        }
    }
    eprintln!("violations: {bad} / {n}");
}

fn mk(u: &mut U, name: &str, version: u32, reqs: Vec<Req>, cons: Vec<u32>) -> u32 {
    let n = u.name(name);
    u.solv.push(Solv { name: n, version, unknown: false, reqs, cons });
    (u.solv.len() - 1) as u32
}

#[test]
fn extra1() {
    let mut u = U::default();
    let r = u.name("r");
    let q = u.name("q");
    let _x = u.name("x");
    let r_1 = u.vset(r, &[1]);
    let r_2 = u.vset(r, &[2]);
    let q_any = u.vset(q, &[1, 2]);
    let _r1 = mk(&mut u, "r", 1, vec![], vec![]);
    let _r2 = mk(&mut u, "r", 2, vec![], vec![]);
    let _q1 = mk(&mut u, "q", 1, vec![], vec![r_1]);
    let _q2 = mk(&mut u, "q", 2, vec![], vec![]);
    let x1 = mk(&mut u, "x", 1, vec![Req::Single(q_any)], vec![]);
    u.hints.insert(q);
    let c = Case { u, reqs: vec![Req::Single(r_2)], cons: vec![], soft: vec![x1] };
    let res = run(&c, true);
    eprintln!("{:?}", res.as_ref().map(|r| r.as_ref().map(|s| s.iter().map(|s| c.u.show(*s)).collect::<Vec<_>>())));
}

/// Trivial inclusion oracle: a soft solvable without requirements that is not in the result must
/// have a visible reason.
fn check_incl(c: &Case, sol: &[u32]) -> Vec<String> {
    let u = &c.u;
    let mut out = vec![];
    for &x in &c.soft {
        if sol.contains(&x) {
            continue;
        }
        let sv = &u.solv[x as usize];
        if sv.unknown || !sv.reqs.is_empty() || !sv.cons.is_empty() {
            continue;
        }
        if u.excluded.contains(&x) {
            continue;
        }
        if let Some(l) = u.locked.get(&sv.name) {
            if *l != x {
                continue;
            }
        }
        if sol.iter().any(|s| u.solv[*s as usize].name == sv.name) {
            continue;
        }
        // constrained away by root or an installed solvable?
        let mut constrained = false;
        for cst in c.cons.iter().chain(sol.iter().flat_map(|s| u.solv[*s as usize].cons.iter())) {
            if u.vsets[*cst as usize].0 == sv.name && !u.matches(*cst, x) {
                constrained = true;
            }
        }
        if constrained {
            continue;
        }
        out.push(format!("trivially installable soft {} was skipped", u.show(x)));
    }
    out
}

#[test]
fn extra3() {
    let mut u = U::default();
    let b = u.name("b");
    let z = u.name("z");
    let q = u.name("q");
    let p = u.name("p");
    let b_1 = u.vset(b, &[1]);
    let b_2 = u.vset(b, &[2]);
    let z_1 = u.vset(z, &[1]);
    let q_any = u.vset(q, &[1, 2]);
    let p_1 = u.vset(p, &[1]);
    let _b1 = mk(&mut u, "b", 1, vec![], vec![]);
    let _z1 = mk(&mut u, "z", 1, vec![], vec![b_2]);
    let q1 = mk(&mut u, "q", 1, vec![], vec![b_2]);
    let q2 = mk(&mut u, "q", 2, vec![], vec![b_2]);
    let p1 = mk(&mut u, "p", 1, vec![Req::Single(q_any)], vec![]);
    let a1 = mk(&mut u, "a", 1, vec![Req::Single(p_1), Req::Single(z_1)], vec![]);
    let w1 = mk(&mut u, "w", 1, vec![], vec![b_2]);
    u.hints.insert(p);
    let c = Case { u, reqs: vec![Req::Single(b_1)], cons: vec![], soft: vec![a1, q2, q1, w1, p1] };
    let res = run(&c, true);
    eprintln!("{:?}", res.as_ref().map(|r| r.as_ref().map(|s| s.iter().map(|s| c.u.show(*s)).collect::<Vec<_>>())));
}
