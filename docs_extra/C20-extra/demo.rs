//! Inputs/schedules on which the UNMODIFIED code violates (a strict reading of)
//! property C20. Every test below states the property and FAILS on the unmodified
//! sources.
//!
//! Placement: copy this file to `tests/extra_C20.rs` of the resolvo crate.
//! Run with:   cargo test --offline --test extra_C20
//!
//! Only the public API of the crate is used. The provider yields exactly once in
//! `get_candidates` and `get_dependencies`, which is what any provider doing IO does.

use std::{
    cell::RefCell,
    fmt::Display,
    future::Future,
    pin::Pin,
    task::{Context, Poll},
};

use resolvo::{
    Candidates, Dependencies, DependencyProvider, HintDependenciesAvailable, Interner,
    KnownDependencies, NameId, Problem, Requirement, SolvableId, Solver, SolverCache, StringId,
    VersionSetId, VersionSetUnionId,
};

/// A future that returns `Pending` exactly once.
struct YieldOnce(bool);

impl Future for YieldOnce {
    type Output = ();

    fn poll(mut self: Pin<&mut Self>, cx: &mut Context<'_>) -> Poll<()> {
        if self.0 {
            Poll::Ready(())
        } else {
            self.0 = true;
            cx.waker().wake_by_ref();
            Poll::Pending
        }
    }
}

#[derive(Debug, Clone, PartialEq, Eq)]
enum Call {
    GetCandidates(NameId),
    Filter(VersionSetId, bool),
    Sort(Vec<SolvableId>),
    GetDependencies(SolvableId),
}

/// A tiny table driven provider with a call log.
///
/// * `NameId(i)` is `packages[i]` (name, solvable ids), all dependencies are hinted
///   to be available.
/// * `SolvableId(i)` requires the version sets `solvables[i]`.
/// * `VersionSetId(i)` is `version_sets[i]` (package, matching solvable ids).
struct TableProvider {
    packages: Vec<(&'static str, Vec<u32>)>,
    solvables: Vec<Vec<u32>>,
    version_sets: Vec<(u32, Vec<u32>)>,
    /// Whether `sort_candidates` looks at the dependencies of the candidates through
    /// the solver cache (like e.g. the conda provider does).
    sort_inspects_dependencies: bool,
    log: RefCell<Vec<Call>>,
}

impl TableProvider {
    fn count(&self, pred: impl Fn(&Call) -> bool) -> usize {
        self.log.borrow().iter().filter(|c| pred(c)).count()
    }
}

impl Interner for TableProvider {
    fn display_solvable(&self, solvable: SolvableId) -> impl Display + '_ {
        format!(
            "{}={}",
            self.display_name(self.solvable_name(solvable)),
            solvable.0
        )
    }

    fn display_name(&self, name: NameId) -> impl Display + '_ {
        self.packages[name.0 as usize].0
    }

    fn display_version_set(&self, version_set: VersionSetId) -> impl Display + '_ {
        format!("{:?}", self.version_sets[version_set.0 as usize].1)
    }

    fn display_string(&self, _string_id: StringId) -> impl Display + '_ {
        ""
    }

    fn version_set_name(&self, version_set: VersionSetId) -> NameId {
        NameId(self.version_sets[version_set.0 as usize].0)
    }

    fn solvable_name(&self, solvable: SolvableId) -> NameId {
        let idx = self
            .packages
            .iter()
            .position(|(_, solvables)| solvables.contains(&solvable.0))
            .expect("unknown solvable");
        NameId(idx as u32)
    }

    fn version_sets_in_union(
        &self,
        _version_set_union: VersionSetUnionId,
    ) -> impl Iterator<Item = VersionSetId> {
        std::iter::empty()
    }
}

impl DependencyProvider for TableProvider {
    async fn filter_candidates(
        &self,
        candidates: &[SolvableId],
        version_set: VersionSetId,
        inverse: bool,
    ) -> Vec<SolvableId> {
        self.log.borrow_mut().push(Call::Filter(version_set, inverse));
        let matching = &self.version_sets[version_set.0 as usize].1;
        candidates
            .iter()
            .copied()
            .filter(|s| matching.contains(&s.0) != inverse)
            .collect()
    }

    async fn get_candidates(&self, name: NameId) -> Option<Candidates> {
        self.log.borrow_mut().push(Call::GetCandidates(name));
        YieldOnce(false).await;
        let (_, solvables) = self.packages.get(name.0 as usize)?;
        Some(Candidates {
            candidates: solvables.iter().copied().map(SolvableId).collect(),
            hint_dependencies_available: HintDependenciesAvailable::All,
            ..Candidates::default()
        })
    }

    async fn sort_candidates(&self, solver: &SolverCache<Self>, solvables: &mut [SolvableId]) {
        self.log.borrow_mut().push(Call::Sort(solvables.to_vec()));
        if self.sort_inspects_dependencies {
            for &solvable in solvables.iter() {
                let _ = solver.get_or_cache_dependencies(solvable).await;
            }
        }
        solvables.sort_by(|a, b| b.0.cmp(&a.0));
    }

    async fn get_dependencies(&self, solvable: SolvableId) -> Dependencies {
        self.log.borrow_mut().push(Call::GetDependencies(solvable));
        YieldOnce(false).await;
        Dependencies::Known(KnownDependencies {
            requirements: self.solvables[solvable.0 as usize]
                .iter()
                .map(|&vs| Requirement::from(VersionSetId(vs)))
                .collect(),
            constrains: vec![],
        })
    }
}

fn runtime() -> tokio::runtime::Runtime {
    tokio::runtime::Builder::new_current_thread()
        .build()
        .unwrap()
}

/// x=0 and y=1 both require the *same* version set (2) of package `a`.
fn shared_requirement_provider() -> TableProvider {
    TableProvider {
        packages: vec![("x", vec![0]), ("y", vec![1]), ("a", vec![2, 3])],
        solvables: vec![vec![2], vec![2], vec![], vec![]],
        version_sets: vec![(0, vec![0]), (1, vec![1]), (2, vec![2, 3])],
        sort_inspects_dependencies: false,
        log: RefCell::default(),
    }
}

/// E1 (direct): two overlapping queries for the sorted candidates of the same
/// version set. Both miss the cache before the candidates of the package arrive and
/// neither looks at the cache again afterwards, so the provider has to filter and
/// sort the same version set twice.
#[test]
fn e1_direct_overlapping_sorted_queries_consult_provider_once() {
    let cache = SolverCache::new(shared_requirement_provider());
    let vs = VersionSetId(2);
    let (a, b) = runtime().block_on(futures::future::join(
        cache.get_or_cache_sorted_candidates(vs.into()),
        cache.get_or_cache_sorted_candidates(vs.into()),
    ));
    assert_eq!(a.unwrap(), b.unwrap());

    let provider = cache.provider();
    assert_eq!(provider.count(|c| matches!(c, Call::GetCandidates(_))), 1);
    assert_eq!(
        provider.count(|c| *c == Call::Filter(vs, false)),
        1,
        "filter_candidates consulted more than once for the same version set: {:?}",
        provider.log.borrow()
    );
    assert_eq!(
        provider.count(|c| matches!(c, Call::Sort(_))),
        1,
        "sort_candidates consulted more than once for the same version set: {:?}",
        provider.log.borrow()
    );
}

/// E1 (during a solve): the root requires x and y, x=0 and y=1 require the same
/// version set of `a`. The two requirements are encoded concurrently while the
/// candidates of `a` are in flight.
#[test]
fn e1_solve_shared_version_set_is_filtered_and_sorted_once() {
    let mut solver = Solver::new(shared_requirement_provider()).with_runtime(runtime());
    let problem = Problem::new().requirements(vec![VersionSetId(0).into(), VersionSetId(1).into()]);
    let mut solution = solver.solve(problem).expect("solvable");
    solution.sort();
    assert_eq!(solution, vec![SolvableId(0), SolvableId(1), SolvableId(3)]);

    let provider = solver.provider();
    let vs = VersionSetId(2);
    assert_eq!(
        provider.count(|c| *c == Call::Filter(vs, false)),
        1,
        "filter_candidates consulted more than once for the same version set: {:?}",
        provider.log.borrow()
    );
    assert_eq!(
        provider.count(|c| *c == Call::Sort(vec![SolvableId(2), SolvableId(3)])),
        1,
        "sort_candidates consulted more than once for the same version set: {:?}",
        provider.log.borrow()
    );
}

/// E2 (during a solve, queries issued from inside `sort_candidates`): there is no
/// in-flight bookkeeping for dependencies. The root requires two different version
/// sets of `a` that share the candidates; both `sort_candidates` calls ask the cache
/// for the dependencies of the shared candidates while the first request is still
/// in flight, and the provider is asked twice for the same solvable.
#[test]
fn e2_solve_dependencies_requested_once_per_solvable() {
    let provider = TableProvider {
        packages: vec![("a", vec![0, 1])],
        solvables: vec![vec![], vec![]],
        version_sets: vec![(0, vec![0, 1]), (0, vec![0, 1])],
        sort_inspects_dependencies: true,
        log: RefCell::default(),
    };
    let mut solver = Solver::new(provider).with_runtime(runtime());
    let problem = Problem::new().requirements(vec![VersionSetId(0).into(), VersionSetId(1).into()]);
    let solution = solver.solve(problem).expect("solvable");
    assert_eq!(solution, vec![SolvableId(1)]);

    let provider = solver.provider();
    for solvable in [SolvableId(0), SolvableId(1)] {
        assert_eq!(
            provider.count(|c| *c == Call::GetDependencies(solvable)),
            1,
            "get_dependencies consulted more than once for {}: {:?}",
            provider.display_solvable(solvable),
            provider.log.borrow()
        );
    }
}

/// E3 (history with an abandoned query): a second query for the candidates of a
/// package waits for the in-flight first query. When the first query is dropped
/// before the provider answered, the waiter is woken up (by `InFlightGuard`) but
/// then panics on `expect("after waiting for a request the result should be
/// available")` instead of asking the provider itself.
#[test]
fn e3_waiter_survives_abandoned_leader() {
    let cache = SolverCache::new(shared_requirement_provider());
    let name = NameId(2);
    let mut cx = Context::from_waker(futures::task::noop_waker_ref());

    let mut leader = Box::pin(cache.get_or_cache_candidates(name));
    let mut waiter = Box::pin(cache.get_or_cache_candidates(name));
    assert!(leader.as_mut().poll(&mut cx).is_pending());
    assert!(waiter.as_mut().poll(&mut cx).is_pending());
    drop(leader);

    // Drive the waiter to completion: it must deliver the candidates of `a`.
    let candidates = loop {
        if let Poll::Ready(result) = waiter.as_mut().poll(&mut cx) {
            break result.unwrap();
        }
    };
    assert_eq!(candidates.candidates, vec![SolvableId(2), SolvableId(3)]);
}
