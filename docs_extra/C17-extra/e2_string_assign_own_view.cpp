// EXTRA 2 (unmodified code): String::operator=(std::string_view) / operator=(const char*) drop
// the current buffer *before* copying from the view. If the view points into the string's own
// buffer (s = std::string_view(s).substr(1);  s = s.data() + 1;) the bytes are read after the
// buffer was freed. (operator=(const String&) has a self-assignment guard; these overloads do
// not.) The read happens inside the Rust library (not ASan-instrumented), so ASan does not flag
// it; make the allocator scribble over freed memory to see the effect:
//
// Build/run from /tmp/mut/C17 (after `cargo build --offline -p resolvo_cpp`):
//   GEN=$(dirname $(ls -t target/debug/build/resolvo_cpp-*/out/generated_include/resolvo_internal.h | head -1))
//   g++ -std=c++17 -g -O0 -I cpp/include -I "$GEN" MUT/extra/e2_string_assign_own_view.cpp \
//       target/debug/libresolvo_cpp.a -lpthread -ldl -lm -o target/extra_e2
//   ./target/extra_e2                       # may print the expected text by luck
//   GLIBC_TUNABLES=glibc.malloc.tcache_count=0 MALLOC_PERTURB_=90 ./target/extra_e2
//       # glibc scribbles over freed chunks (tcache bypassed): prints 'ZZZZ...' instead, exit 1
#include <resolvo_string.h>
#include <cstdio>
#include <iostream>
#include <string>
int main() {
    resolvo::String s("a-fairly-long-package-name-that-is-heap-allocated");
    std::string expected = std::string(std::string_view(s)).substr(2);
    s = std::string_view(s).substr(2);
    std::cout << "got:      " << s << "\nexpected: " << expected << "\n";
    return std::string_view(s) == expected ? 0 : 1;
}
