// EXTRA 1 (unmodified code): Vector::push_back(T&&) with an argument that refers to an element
// of the same vector reads freed memory. The const& overload was hardened ("take a copy
// first"), the rvalue overload was not: detach() reallocates (capacity is always == size after
// push_back growth), frees the old buffer, and only then move-constructs from `value`.
// std::vector guarantees v.push_back(std::move(v[i])) works.
//
// Build/run from /tmp/mut/C17 (after `cargo build --offline -p resolvo_cpp`):
//   GEN=$(dirname $(ls -t target/debug/build/resolvo_cpp-*/out/generated_include/resolvo_internal.h | head -1))
//   g++ -std=c++17 -g -O0 -fsanitize=address,undefined -I cpp/include -I "$GEN" \
//       MUT/extra/e1_push_back_rvalue_alias.cpp target/debug/libresolvo_cpp.a -lpthread -ldl -lm \
//       -o target/extra_e1 && ./target/extra_e1
// Observed: AddressSanitizer: heap-use-after-free (READ of size 4) in push_back(int&&).
#include <resolvo_vector.h>
#include <cstdio>
#include <utility>
int main() {
    resolvo::Vector<int> v{10, 20, 30};
    v.push_back(std::move(v[1]));  // also: v.push_back(static_cast<int&&>(v[1]))
    std::printf("%d\n", v[3]);
    return v[3] == 20 ? 0 : 1;
}
