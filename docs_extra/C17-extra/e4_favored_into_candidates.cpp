// EXTRA 4 (unmodified code): `Candidates::favored` / `Candidates::locked` are raw pointers that
// Rust dereferences AFTER it has consumed (and, when uniquely owned, freed) the `candidates`
// vector: in cpp/src/lib.rs get_candidates the struct literal evaluates
//     candidates: candidates.candidates.into_iter()...collect(),   // frees the C++ buffer
//     favored:    candidates.favored.as_ref().copied()...,         // reads through the pointer
// in that order. A provider that lets `favored`/`locked` point at the element inside the vector
// it returns (`r.favored = &r.candidates[k];` - the pointer survives the move into the
// out-parameter because Vector move-assignment just swaps buffers) therefore makes Rust read
// freed memory. Nothing in the header says the pointee must live elsewhere. The read is in
// uninstrumented Rust code, so ASan is silent; scribbling over freed memory shows it:
//
// Build/run from /tmp/mut/C17 (after `cargo build --offline -p resolvo_cpp`):
//   GEN=$(dirname $(ls -t target/debug/build/resolvo_cpp-*/out/generated_include/resolvo_internal.h | head -1))
//   g++ -std=c++17 -g -O0 -I cpp/include -I "$GEN" MUT/extra/e4_favored_into_candidates.cpp \
//       target/debug/libresolvo_cpp.a -lpthread -ldl -lm -o target/extra_e4
//   ./target/extra_e4                                                            # usually "same" by luck
//   GLIBC_TUNABLES=glibc.malloc.tcache_count=0 MALLOC_PERTURB_=90 ./target/extra_e4   # differs / panics
#include <resolvo.h>
#include <resolvo_pool.h>

#include <algorithm>
#include <cstdio>
#include <deque>
#include <sstream>
#include <vector>

using namespace resolvo;

struct Candidate {
    NameId name;
    uint32_t version;
    Dependencies dependencies;
};
struct VersionSet {
    NameId name;
    uint32_t lo, hi;  // [lo, hi)
};

struct Db : DependencyProvider {
    Pool<NameId, String> names;
    Pool<StringId, String> strings;
    std::vector<Candidate> candidates;
    std::vector<VersionSet> version_sets;
    std::vector<std::vector<VersionSetId>> unions;
    bool favored_points_into_result = false;
    std::deque<SolvableId> favored_storage;

    VersionSetId vs(std::string_view pkg, uint32_t lo, uint32_t hi) {
        auto n = names.alloc(pkg);
        version_sets.push_back({n, lo, hi});
        return VersionSetId{static_cast<uint32_t>(version_sets.size() - 1)};
    }
    Requirement req(std::string_view pkg, uint32_t lo, uint32_t hi) {
        return requirement_single(vs(pkg, lo, hi));
    }
    SolvableId add(std::string_view pkg, uint32_t version, Dependencies deps) {
        auto n = names.alloc(pkg);
        candidates.push_back({n, version, deps});
        return SolvableId{static_cast<uint32_t>(candidates.size() - 1)};
    }

    String display_name(NameId n) override { return names[n]; }
    String display_solvable(SolvableId s) override {
        std::stringstream ss;
        ss << names[candidates[s.id].name] << "=" << candidates[s.id].version;
        return String(ss.str());
    }
    String display_merged_solvables(Slice<SolvableId> s) override {
        if (s.empty()) return String();
        std::stringstream ss;
        ss << names[candidates[s[0].id].name];
        for (auto id : s) ss << " " << candidates[id.id].version;
        return String(ss.str());
    }
    String display_version_set(VersionSetId v) override {
        std::stringstream ss;
        ss << version_sets[v.id].lo << ".." << version_sets[v.id].hi;
        return String(ss.str());
    }
    String display_string(StringId s) override { return strings[s]; }
    NameId version_set_name(VersionSetId v) override { return version_sets[v.id].name; }
    NameId solvable_name(SolvableId s) override { return candidates[s.id].name; }
    Slice<VersionSetId> version_sets_in_union(VersionSetUnionId u) override {
        return {unions[u.id].data(), unions[u.id].size()};
    }
    Candidates get_candidates(NameId package) override {
        Candidates r;
        r.favored = nullptr;
        r.locked = nullptr;
        for (uint32_t i = 0; i < candidates.size(); ++i)
            if (candidates[i].name == package) r.candidates.push_back(SolvableId{i});
        // Favor the LOWEST version of every package.
        if (!r.candidates.empty()) {
            std::size_t k = 0;
            for (std::size_t i = 1; i < r.candidates.size(); ++i)
                if (candidates[r.candidates.at(i).id].version < candidates[r.candidates.at(k).id].version) k = i;
            if (favored_points_into_result) {
                r.favored = &r.candidates[k];  // element of the vector we are about to return
            } else {
                favored_storage.push_back(r.candidates.at(k));  // provider-owned, stable (deque)
                r.favored = &favored_storage.back();
            }
        }
        return r;
    }
    void sort_candidates(Slice<SolvableId> s) override {
        std::sort(s.begin(), s.end(), [&](SolvableId a, SolvableId b) {
            return candidates[a.id].version > candidates[b.id].version;
        });
    }
    Vector<SolvableId> filter_candidates(Slice<SolvableId> s, VersionSetId v, bool inverse) override {
        Vector<SolvableId> out;
        for (auto id : s) {
            bool m = candidates[id.id].version >= version_sets[v.id].lo &&
                     candidates[id.id].version < version_sets[v.id].hi;
            if (m != inverse) out.push_back(id);
        }
        return out;
    }
    Dependencies get_dependencies(SolvableId s) override { return candidates[s.id].dependencies; }
};


static void run(bool into_result, Vector<SolvableId> &out, String &err) {
    Db db;
    db.favored_points_into_result = into_result;
    db.add("a", 1, {});
    db.add("a", 2, {});
    db.add("a", 3, {});
    Vector<Requirement> reqs = {db.req("a", 1, 10)};
    Vector<VersionSetId> cons = {};
    Vector<SolvableId> soft = {};
    Problem p = {reqs, cons, soft};
    err = solve(db, p, out);
}

int main() {
    std::setvbuf(stdout, nullptr, _IONBF, 0);
    Vector<SolvableId> ref, got;
    String eref, egot;
    run(false, ref, eref);
    run(true, got, egot);
    std::printf("favored in provider storage : %zu solvable(s), first id %u\n", ref.size(),
                ref.size() ? ref.at(0).id : 999u);
    std::printf("favored inside returned vec : %zu solvable(s), first id %u\n", got.size(),
                got.size() ? got.at(0).id : 999u);
    bool same = ref == got && eref == egot;
    std::printf("%s\n", same ? "same" : "DIFFERENT");
    return same ? 0 : 1;
}
