// EXTRA 3 (unmodified code): resolvo::String(std::string_view{}) (default constructed view:
// data()==nullptr, size()==0) passes a null pointer to resolvo_string_from_bytes, which calls
// core::slice::from_raw_parts(null, 0). That is UB in Rust; with debug assertions (the default
// `cargo build` profile) the standard library's precondition check aborts the process:
//   "unsafe precondition(s) violated: slice::from_raw_parts requires the pointer to be aligned
//    and non-null ..."
// The C++ Slice constructor takes care never to send a null pointer; String does not.
//
// Build/run from /tmp/mut/C17 (after `cargo build --offline -p resolvo_cpp`):
//   GEN=$(dirname $(ls -t target/debug/build/resolvo_cpp-*/out/generated_include/resolvo_internal.h | head -1))
//   g++ -std=c++17 -g -O0 -I cpp/include -I "$GEN" MUT/extra/e3_string_from_null_view.cpp \
//       target/debug/libresolvo_cpp.a -lpthread -ldl -lm -o target/extra_e3 && ./target/extra_e3
#include <resolvo_string.h>
#include <cstdio>
#include <string_view>
int main() {
    std::string_view empty;  // data() == nullptr
    resolvo::String s(empty);
    std::printf("constructed, size=%zu\n", std::string_view(s).size());
    resolvo::String t("x");
    t = empty;  // same through operator=(std::string_view)
    std::printf("assigned\n");
    return 0;
}
