// EXTRA 5 (unmodified code, minor): resolvo.h documents for resolvo::solve "If the solve was
// unsuccesfull an error describing the reason is returned and the result vector will be empty."
// resolvo_solve never touches `result` on failure, so a reused result vector still holds the
// previous solution after a failed solve.
//
// Build/run from /tmp/mut/C17 (after `cargo build --offline -p resolvo_cpp`):
//   GEN=$(dirname $(ls -t target/debug/build/resolvo_cpp-*/out/generated_include/resolvo_internal.h | head -1))
//   g++ -std=c++17 -g -O0 -I cpp/include -I "$GEN" MUT/extra/e5_result_not_cleared_on_error.cpp \
//       target/debug/libresolvo_cpp.a -lpthread -ldl -lm -o target/extra_e5 && ./target/extra_e5
#include <resolvo.h>
#include <resolvo_pool.h>

#include <algorithm>
#include <cstdio>
#include <sstream>
#include <vector>

using namespace resolvo;

struct Candidate {
    NameId name;
    uint32_t version;
    Dependencies dependencies;
};
struct VersionSet {
    NameId name;
    uint32_t lo, hi;  // [lo, hi)
};

struct Db : DependencyProvider {
    Pool<NameId, String> names;
    Pool<StringId, String> strings;
    std::vector<Candidate> candidates;
    std::vector<VersionSet> version_sets;
    std::vector<std::vector<VersionSetId>> unions;

    VersionSetId vs(std::string_view pkg, uint32_t lo, uint32_t hi) {
        auto n = names.alloc(pkg);
        version_sets.push_back({n, lo, hi});
        return VersionSetId{static_cast<uint32_t>(version_sets.size() - 1)};
    }
    Requirement req(std::string_view pkg, uint32_t lo, uint32_t hi) {
        return requirement_single(vs(pkg, lo, hi));
    }
    SolvableId add(std::string_view pkg, uint32_t version, Dependencies deps) {
        auto n = names.alloc(pkg);
        candidates.push_back({n, version, deps});
        return SolvableId{static_cast<uint32_t>(candidates.size() - 1)};
    }

    String display_name(NameId n) override { return names[n]; }
    String display_solvable(SolvableId s) override {
        std::stringstream ss;
        ss << names[candidates[s.id].name] << "=" << candidates[s.id].version;
        return String(ss.str());
    }
    String display_merged_solvables(Slice<SolvableId> s) override {
        if (s.empty()) return String();
        std::stringstream ss;
        ss << names[candidates[s[0].id].name];
        for (auto id : s) ss << " " << candidates[id.id].version;
        return String(ss.str());
    }
    String display_version_set(VersionSetId v) override {
        std::stringstream ss;
        ss << version_sets[v.id].lo << ".." << version_sets[v.id].hi;
        return String(ss.str());
    }
    String display_string(StringId s) override { return strings[s]; }
    NameId version_set_name(VersionSetId v) override { return version_sets[v.id].name; }
    NameId solvable_name(SolvableId s) override { return candidates[s.id].name; }
    Slice<VersionSetId> version_sets_in_union(VersionSetUnionId u) override {
        return {unions[u.id].data(), unions[u.id].size()};
    }
    Candidates get_candidates(NameId package) override {
        Candidates r;
        r.favored = nullptr;
        r.locked = nullptr;
        for (uint32_t i = 0; i < candidates.size(); ++i)
            if (candidates[i].name == package) r.candidates.push_back(SolvableId{i});
        return r;
    }
    void sort_candidates(Slice<SolvableId> s) override {
        std::sort(s.begin(), s.end(), [&](SolvableId a, SolvableId b) {
            return candidates[a.id].version > candidates[b.id].version;
        });
    }
    Vector<SolvableId> filter_candidates(Slice<SolvableId> s, VersionSetId v, bool inverse) override {
        Vector<SolvableId> out;
        for (auto id : s) {
            bool m = candidates[id.id].version >= version_sets[v.id].lo &&
                     candidates[id.id].version < version_sets[v.id].hi;
            if (m != inverse) out.push_back(id);
        }
        return out;
    }
    Dependencies get_dependencies(SolvableId s) override { return candidates[s.id].dependencies; }
};


int main() {
    Db db;
    db.add("a", 1, {});
    Vector<SolvableId> result;
    {
        Vector<Requirement> reqs = {db.req("a", 1, 2)};
        Vector<VersionSetId> cons = {};
        Vector<SolvableId> soft = {};
        Problem p = {reqs, cons, soft};
        String err = solve(db, p, result);
        std::printf("solve #1: error='%s' result.size()=%zu\n", err.data(), result.size());
    }
    {
        Vector<Requirement> reqs = {db.req("a", 5, 6)};  // no such version -> unsolvable
        Vector<VersionSetId> cons = {};
        Vector<SolvableId> soft = {};
        Problem p = {reqs, cons, soft};
        String err = solve(db, p, result);
        std::printf("solve #2: error='%s' result.size()=%zu (documented: empty)\n", err.data(),
                    result.size());
    }
    return result.empty() ? 0 : 1;
}
