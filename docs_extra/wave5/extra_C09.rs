//! Demonstration for property C09: "Metadata is fetched lazily, causally and
//! at most once".
//!
//! The test contains its own small `DependencyProvider` that never gives any
//! availability hint (`HintDependenciesAvailable::None`) and that logs every
//! `get_candidates` / `get_dependencies` call. After each solve the log is
//! replayed and checked against the data of the provider:
//!
//! * at most once: no name / solvable is requested twice on one solver,
//! * causal: `get_dependencies(s)` only if `s` matches a version set of a
//!   requirement that was handed out before (by the root or by the
//!   dependencies of a solvable requested earlier); `get_candidates(n)` only
//!   if `n` is the name of a version set that was handed out before,
//! * lazy (all scenarios are conflict free: the highest ranked candidates fit
//!   together without any conflict): dependencies are requested for exactly
//!   the solvables of the solution and candidates for exactly the names the
//!   root and the solution mention.
//!
//! The solution itself is validated against the provider data as well.

use std::{
    cell::RefCell,
    collections::{BTreeMap, BTreeSet},
    fmt::Display,
};

use resolvo::{
    Candidates, Dependencies, DependencyProvider, HintDependenciesAvailable, Interner,
    KnownDependencies, NameId, Problem, Requirement, SolvableId, Solver, SolverCache, StringId,
    VersionSetId, VersionSetUnionId, utils::Pool,
};
use version_ranges::Ranges;

/// One alternative of a requirement: package name and half open version range.
type Alt = (&'static str, u32, u32);
/// A requirement: one or more alternatives (more than one makes it a union).
type Req = &'static [Alt];
/// A package: name, version, requirements.
type Pkg = (&'static str, u32, &'static [Req]);

const ANY: u32 = u32::MAX;

#[derive(Clone, Copy, Debug, PartialEq, Eq)]
enum Call {
    Candidates(NameId),
    Dependencies(SolvableId),
}

struct LoggingProvider {
    pool: Pool<Ranges<u32>>,
    /// name -> version -> solvable
    solvables: BTreeMap<NameId, BTreeMap<u32, SolvableId>>,
    dependencies: BTreeMap<SolvableId, Vec<Requirement>>,
    favored: BTreeMap<NameId, SolvableId>,
    log: RefCell<Vec<Call>>,
    /// When set, solving is cancelled as soon as the dependencies of this solvable are requested.
    cancel_on: std::cell::Cell<Option<SolvableId>>,
    cancelled: std::cell::Cell<bool>,
}

impl LoggingProvider {
    fn new(packages: &[Pkg], favored: &[(&'static str, u32)]) -> Self {
        let pool = Pool::<Ranges<u32>>::default();
        let mut solvables: BTreeMap<NameId, BTreeMap<u32, SolvableId>> = BTreeMap::new();
        for &(name, version, _) in packages {
            let name_id = pool.intern_package_name(name.to_string());
            let solvable = pool.intern_solvable(name_id, version);
            assert!(
                solvables
                    .entry(name_id)
                    .or_default()
                    .insert(version, solvable)
                    .is_none()
            );
        }
        let mut provider = LoggingProvider {
            pool,
            solvables,
            dependencies: BTreeMap::new(),
            favored: BTreeMap::new(),
            log: RefCell::new(Vec::new()),
            cancel_on: Default::default(),
            cancelled: Default::default(),
        };
        for &(name, version, reqs) in packages {
            let solvable = provider.solvable(name, version);
            let reqs = reqs.iter().map(|r| provider.requirement(r)).collect();
            provider.dependencies.insert(solvable, reqs);
        }
        for &(name, version) in favored {
            let name_id = provider.pool.intern_package_name(name.to_string());
            let solvable = provider.solvable(name, version);
            provider.favored.insert(name_id, solvable);
        }
        provider
    }

    fn solvable(&self, name: &str, version: u32) -> SolvableId {
        let name_id = self.pool.intern_package_name(name.to_string());
        self.solvables[&name_id][&version]
    }

    fn version_set(&self, (name, lo, hi): Alt) -> VersionSetId {
        let name_id = self.pool.intern_package_name(name.to_string());
        let range = if hi == ANY {
            Ranges::higher_than(lo)
        } else {
            Ranges::between(lo, hi)
        };
        self.pool.intern_version_set(name_id, range)
    }

    fn requirement(&self, req: Req) -> Requirement {
        let mut version_sets = req.iter().map(|&alt| self.version_set(alt));
        let first = version_sets.next().expect("empty requirement");
        if req.len() == 1 {
            first.into()
        } else {
            self.pool
                .intern_version_set_union(first, version_sets)
                .into()
        }
    }

    fn version_sets_of(&self, requirement: Requirement) -> Vec<VersionSetId> {
        match requirement {
            Requirement::Single(version_set) => vec![version_set],
            Requirement::Union(union) => self.pool.resolve_version_set_union(union).collect(),
        }
    }

    fn matches(&self, solvable: SolvableId, version_set: VersionSetId) -> bool {
        let record = self.pool.resolve_solvable(solvable);
        record.name == self.pool.resolve_version_set_package_name(version_set)
            && self
                .pool
                .resolve_version_set(version_set)
                .contains(&record.record)
    }

    fn show(&self, call: &Call) -> String {
        match *call {
            Call::Candidates(name) => format!("get_candidates({})", self.display_name(name)),
            Call::Dependencies(s) => format!("get_dependencies({})", self.display_solvable(s)),
        }
    }
}

impl Interner for LoggingProvider {
    fn display_solvable(&self, solvable: SolvableId) -> impl Display + '_ {
        let record = self.pool.resolve_solvable(solvable);
        format!("{}={}", self.display_name(record.name), record.record)
    }
    fn display_name(&self, name: NameId) -> impl Display + '_ {
        self.pool.resolve_package_name(name).clone()
    }
    fn display_version_set(&self, version_set: VersionSetId) -> impl Display + '_ {
        self.pool.resolve_version_set(version_set).clone()
    }
    fn display_string(&self, string_id: StringId) -> impl Display + '_ {
        self.pool.resolve_string(string_id).to_owned()
    }
    fn version_set_name(&self, version_set: VersionSetId) -> NameId {
        self.pool.resolve_version_set_package_name(version_set)
    }
    fn solvable_name(&self, solvable: SolvableId) -> NameId {
        self.pool.resolve_solvable(solvable).name
    }
    fn version_sets_in_union(
        &self,
        version_set_union: VersionSetUnionId,
    ) -> impl Iterator<Item = VersionSetId> {
        self.pool.resolve_version_set_union(version_set_union)
    }
}

impl DependencyProvider for LoggingProvider {
    async fn filter_candidates(
        &self,
        candidates: &[SolvableId],
        version_set: VersionSetId,
        inverse: bool,
    ) -> Vec<SolvableId> {
        candidates
            .iter()
            .copied()
            .filter(|&s| self.matches(s, version_set) != inverse)
            .collect()
    }

    async fn get_candidates(&self, name: NameId) -> Option<Candidates> {
        self.log.borrow_mut().push(Call::Candidates(name));
        let versions = self.solvables.get(&name)?;
        Some(Candidates {
            candidates: versions.values().copied().collect(),
            favored: self.favored.get(&name).copied(),
            locked: None,
            // This provider never claims that anything is cheaply available.
            hint_dependencies_available: HintDependenciesAvailable::None,
            excluded: Vec::new(),
        })
    }

    async fn sort_candidates(&self, _solver: &SolverCache<Self>, solvables: &mut [SolvableId]) {
        // Highest version first; does not look at any dependencies.
        solvables.sort_by_key(|&s| std::cmp::Reverse(self.pool.resolve_solvable(s).record));
    }

    async fn get_dependencies(&self, solvable: SolvableId) -> Dependencies {
        self.log.borrow_mut().push(Call::Dependencies(solvable));
        if self.cancel_on.get() == Some(solvable) {
            self.cancelled.set(true);
        }
        Dependencies::Known(KnownDependencies {
            requirements: self.dependencies[&solvable].clone(),
            constrains: Vec::new(),
        })
    }

    fn should_cancel_with_value(&self) -> Option<Box<dyn std::any::Any>> {
        self.cancelled.get().then(|| Box::new("cancelled") as Box<dyn std::any::Any>)
    }
}

/// Checks that `solution` is a valid solution of `root` w.r.t. the provider data.
fn check_solution(provider: &LoggingProvider, root: &[Requirement], solution: &[SolvableId]) {
    let installed: BTreeSet<SolvableId> = solution.iter().copied().collect();
    assert_eq!(installed.len(), solution.len(), "solvable listed twice");

    let names: BTreeSet<NameId> = solution.iter().map(|&s| provider.solvable_name(s)).collect();
    assert_eq!(names.len(), solution.len(), "two solvables of one package");

    let satisfied = |requirement: Requirement| {
        provider
            .version_sets_of(requirement)
            .into_iter()
            .any(|vs| installed.iter().any(|&s| provider.matches(s, vs)))
    };
    for &requirement in root {
        assert!(satisfied(requirement), "root requirement not satisfied");
    }
    for &solvable in solution {
        for &requirement in &provider.dependencies[&solvable] {
            assert!(
                satisfied(requirement),
                "requirement of {} not satisfied",
                provider.display_solvable(solvable)
            );
        }
    }
}

/// Replays the complete call log of a solver (all solves so far) and checks
/// "at most once" and "causal". `roots` are the root requirements of all the
/// solves so far.
fn check_once_and_causal(provider: &LoggingProvider, roots: &[Requirement]) {
    let log = provider.log.borrow();
    let mut handed_out: Vec<VersionSetId> = roots
        .iter()
        .flat_map(|&r| provider.version_sets_of(r))
        .collect();
    let mut seen: Vec<Call> = Vec::new();
    for call in log.iter() {
        assert!(
            !seen.contains(call),
            "{} was requested twice on one solver",
            provider.show(call)
        );
        seen.push(*call);
        match *call {
            Call::Candidates(name) => assert!(
                handed_out
                    .iter()
                    .any(|&vs| provider.version_set_name(vs) == name),
                "{}: no requirement obtained so far mentions that package",
                provider.show(call)
            ),
            Call::Dependencies(solvable) => {
                assert!(
                    handed_out.iter().any(|&vs| provider.matches(solvable, vs)),
                    "{}: not a matching candidate of any requirement obtained so far",
                    provider.show(call)
                );
                for &requirement in &provider.dependencies[&solvable] {
                    handed_out.extend(provider.version_sets_of(requirement));
                }
            }
        }
    }
}

/// Checks "lazy" for a conflict free problem solved on a fresh solver:
/// exactly the solution is fetched.
fn check_exactly_the_solution(
    provider: &LoggingProvider,
    root: &[Requirement],
    solution: &[SolvableId],
) {
    let log = provider.log.borrow();
    let show_solvables = |set: &BTreeSet<SolvableId>| {
        set.iter()
            .map(|&s| provider.display_solvable(s).to_string())
            .collect::<Vec<_>>()
            .join(", ")
    };
    let show_names = |set: &BTreeSet<NameId>| {
        set.iter()
            .map(|&n| provider.display_name(n).to_string())
            .collect::<Vec<_>>()
            .join(", ")
    };

    let fetched: BTreeSet<SolvableId> = log
        .iter()
        .filter_map(|c| match *c {
            Call::Dependencies(s) => Some(s),
            _ => None,
        })
        .collect();
    let expected: BTreeSet<SolvableId> = solution.iter().copied().collect();
    assert_eq!(
        fetched,
        expected,
        "dependencies were requested for [{}] but the solution is [{}]",
        show_solvables(&fetched),
        show_solvables(&expected)
    );

    let fetched_names: BTreeSet<NameId> = log
        .iter()
        .filter_map(|c| match *c {
            Call::Candidates(n) => Some(n),
            _ => None,
        })
        .collect();
    let expected_names: BTreeSet<NameId> = root
        .iter()
        .copied()
        .chain(
            solution
                .iter()
                .flat_map(|s| provider.dependencies[s].iter().copied()),
        )
        .flat_map(|r| provider.version_sets_of(r))
        .map(|vs| provider.version_set_name(vs))
        .collect();
    assert_eq!(
        fetched_names,
        expected_names,
        "candidates were requested for [{}] but the root and the solution mention [{}]",
        show_names(&fetched_names),
        show_names(&expected_names)
    );
}

/// Solves a conflict free problem on a fresh solver and checks everything.
fn run_conflict_free(
    packages: &[Pkg],
    favored: &[(&'static str, u32)],
    root: &[Req],
    expected: &[(&'static str, u32)],
) {
    let provider = LoggingProvider::new(packages, favored);
    let root: Vec<Requirement> = root.iter().map(|r| provider.requirement(r)).collect();
    let mut solver = Solver::new(provider);
    let solution = solver
        .solve(Problem::new().requirements(root.clone()))
        .expect("the problem has a solution");
    let provider = solver.provider();

    check_solution(provider, &root, &solution);

    // Conflict free: the solution consists of the first choices.
    let expected: BTreeSet<SolvableId> = expected
        .iter()
        .map(|&(n, v)| provider.solvable(n, v))
        .collect();
    assert_eq!(
        solution.iter().copied().collect::<BTreeSet<_>>(),
        expected,
        "unexpected solution"
    );

    check_once_and_causal(provider, &root);
    check_exactly_the_solution(provider, &root, &solution);
}


/// A solve that is cancelled right after `get_dependencies(a=1)` leaves the
/// dependencies of `a=1` in the cache. A later, conflict free, solve on the same
/// solver that merely has `a=1` as a lower ranked candidate then treats it as
/// "dependencies available", encodes it eagerly and asks for the candidates of
/// `b`, a package that neither the root nor the solution `a=2` mentions.
#[test]
fn cancelled_solve_then_conflict_free_solve() {
    let provider = LoggingProvider::new(
        &[
            ("a", 2, &[]),
            ("a", 1, &[&[("b", 0, ANY)]]),
            ("b", 1, &[&[("c", 0, ANY)]]),
            ("c", 1, &[]),
        ],
        &[],
    );
    let a1 = provider.solvable("a", 1);
    provider.cancel_on.set(Some(a1));
    let first = vec![provider.requirement(&[("a", 0, 2)])];
    let second = vec![provider.requirement(&[("a", 0, ANY)])];
    let mut solver = Solver::new(provider);

    assert!(matches!(
        solver.solve(Problem::new().requirements(first.clone())),
        Err(resolvo::UnsolvableOrCancelled::Cancelled(_))
    ));
    let provider = solver.provider();
    provider.cancel_on.set(None);
    provider.cancelled.set(false);
    let calls_before = provider.log.borrow().len();

    let solution = solver
        .solve(Problem::new().requirements(second.clone()))
        .expect("second problem has a solution");
    let provider = solver.provider();
    check_solution(provider, &second, &solution);
    assert_eq!(solution, vec![provider.solvable("a", 2)]);

    let all_roots: Vec<Requirement> = first.iter().chain(second.iter()).copied().collect();
    check_once_and_causal(provider, &all_roots);

    // Calls of the second solve only.
    let log = provider.log.borrow();
    let second_calls: Vec<String> = log[calls_before..].iter().map(|c| provider.show(c)).collect();
    assert_eq!(
        second_calls,
        vec!["get_dependencies(a=2)".to_string()],
        "the second solve should only have to fetch a=2"
    );
}
