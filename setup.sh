#!/bin/sh
# Offline setup after a fresh restore: build the Lean development (theorems + driver) and the harness.
set -e
cd "$(dirname "$0")"
export CARGO_NET_OFFLINE=true
python3 tools/extract_constants.py
(cd lean && lake build Resolvo drv)
cp /repo/Cargo.lock harness/Cargo.lock
cp /repo/rust-toolchain harness/rust-toolchain
(cd harness && cargo build --offline)
bash harness/cpp/build.sh || echo "C++ harness build failed (C17 will report it)"
echo setup-ok
