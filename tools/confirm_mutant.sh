#!/bin/bash
# usage: confirm_mutant.sh <patch.diff> <demo.rs> <demo-test-name>
# Confirms in a scratch worktree of /repo HEAD: suite passes with the patch, demo fails with it, demo passes without it.
set -u
PATCH=$1; DEMO=$2; NAME=$3
WT=/tmp/mut/confirm-$$
git -C /repo worktree add -q --detach $WT HEAD || exit 2
cd $WT
export CARGO_NET_OFFLINE=true CARGO_TARGET_DIR=/tmp/mut/confirm-target
res=""
cp "$DEMO" tests/$NAME.rs
if cargo test --offline --features "tokio serde version-ranges" --test $NAME >/tmp/mut/confirm-$$.log 2>&1; then res="$res demo_without_patch=pass"; else res="$res demo_without_patch=FAIL"; fi
rm tests/$NAME.rs
if git apply "$PATCH"; then
  if cargo test --workspace --offline >/tmp/mut/confirm-$$.suite.log 2>&1; then res="$res suite_with_patch=pass($(grep -c '\.\.\. ok' /tmp/mut/confirm-$$.suite.log))"; else res="$res suite_with_patch=FAIL"; fi
  cp "$DEMO" tests/$NAME.rs
  if cargo test --offline --features "tokio serde version-ranges" --test $NAME >/tmp/mut/confirm-$$.log2 2>&1; then res="$res demo_with_patch=PASS(unexpected)"; else res="$res demo_with_patch=fail(expected)"; fi
else
  res="$res patch_does_not_apply"
fi
cd /; git -C /repo worktree remove --force $WT
echo "$res"
