#!/usr/bin/env python3
"""corpus_verify.py — runs every corpus file on the current (unchanged) tree and drops the cases that do not pass:
a corpus case must be an input on which the unchanged tree satisfies every oracle and the exact correspondence."""
import sys, os, re
sys.path.insert(0, '/verif/tools')
mod = type(sys)('check'); mod.__file__ = '/verif/check'
src = open('/verif/check').read()
exec(compile(src.replace('if __name__ == "__main__":\n    sys.exit(main())', ''), '/verif/check', 'exec'), mod.__dict__)
print("build", mod.build_harness()[0])
for f in sorted(os.listdir('/verif/corpus')):
    fam = f[:-6]
    path = f'/verif/corpus/{f}'
    blocks, order = mod.parse_blocks(path)
    r = mod.run_family(fam, len(order), 0, replay=path)
    bad = {o['case'] for o in r.get('oracle_failures', [])} | {m['case'] for m in r.get('mismatches', [])}
    if r.get('error'):
        print(fam, 'ERROR', r['error'][:200]); continue
    print(fam, len(order), 'cases,', len(bad), 'dropped')
    if bad:
        with open(path, 'w') as out:
            k = 0
            for cid in order:
                if cid in bad: continue
                out.write(f"case {k} {fam}\n" + "\n".join(blocks[cid][1]) + "\nend\n"); k += 1
