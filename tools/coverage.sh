#!/bin/bash
# Measures how much of /repo/src the generated correspondence families execute (quality of the tie).
# Not part of any check: needs the nightly toolchain's llvm-tools (present in this sandbox). Scratch files under /tmp/cov.
# usage: tools/coverage.sh [cases-per-family]   -> prints the per-file report and the uncovered lines that are not
#        tracing/display/unreachable code
set -e
N=${1:-3000}
ROOT="$(cd "$(dirname "$0")/.." && pwd)"
B=$(dirname "$(find ~/.rustup/toolchains/nightly-x86_64-unknown-linux-gnu -name llvm-cov | head -1)")
rm -rf /tmp/cov && mkdir -p /tmp/cov/prof /tmp/cov/out && cp -r "$ROOT/harness" /tmp/cov/harness
cd /tmp/cov/harness && rm -f rust-toolchain && sed -i 's#target-dir = .*#target-dir = "/tmp/cov/target"#' .cargo/config.toml
LLVM_PROFILE_FILE=/tmp/cov/prof/build-%p-%m.profraw CARGO_NET_OFFLINE=true RUSTFLAGS="-C instrument-coverage --cap-lints allow" cargo +nightly build --offline >/dev/null 2>&1
export LLVM_PROFILE_FILE="/tmp/cov/prof/%p-%m.profraw"
for fam in solve soft lazy hints cancel cancel-async reuse reuse-async async async-cf amo-solve conflictfree cache snapshot pool mapping; do
  /tmp/cov/target/debug/harness $fam --seed 1 --cases $N --out-cases /tmp/cov/out/$fam.c --out-impl /tmp/cov/out/$fam.i >/dev/null 2>&1 || true
done
cd /tmp/cov && $B/llvm-profdata merge -sparse prof/*.profraw -o cov.profdata
$B/llvm-cov report target/debug/harness -instr-profile=cov.profdata --sources /repo/src 2>/dev/null | awk 'NR>2 {printf "%-36s lines %5s missed %5s (%s)\n", $1, $8, $9, $10}'
echo "--- uncovered lines outside tracing/display/unreachable code:"
$B/llvm-cov show target/debug/harness -instr-profile=cov.profdata --sources /repo/src 2>/dev/null | grep -E "^/repo|^ +[0-9]+\| +0\|" | grep -v "display\|unreachable\|write!\|fmt(\|format\|tracing\|^\s*[0-9]*|\s*0|\s*[})\]]" | cut -c1-150
