"""Free-text parts of MANIFEST.json (kept apart from the machine configuration)."""
HOOK_COMMITS = ["5be76af", "6e1aafb", "2edb2c1"]

NOT_APPLICABLE = {}

TEXT = {
    "C19": {
        "text": "Proof: Lean 4 theorems (Props/C19.lean) show that the literal model of Mapping (chunks/len/max, insert, unset, get, the iterator's stopping rule, serde as a dense option array) refines a function Nat -> Option V for every operation sequence, every id distribution and every positive chunk size: get/return values, len = number of stored pairs, is_empty, iter = exactly the stored pairs in strictly ascending order, serde round-trip preserves contents. The model is tied to src/internal/mapping.rs by exact I/O correspondence on thousands of generated op sequences against the real resolvo::Mapping (public API + serde_json) on every run, and the chunk size is re-read from the source. Because the model provably equals the reference map, any model/implementation disagreement is a concrete input on which the implementation differs from the reference.",
        "note": "Trusted: Lean kernel (+ propext, Classical.choice, Quot.sound), the Lean compiler running the model, the harness; the correspondence is sampled (differential testing). unsafe get_unchecked is modelled as checked indexing; serde_json text layer not modelled.",
        "technique": "Lean 4 refinement proof (model of Mapping refines Nat -> Option V) + differential correspondence with the real crate",
    },
    "C15": {
        "text": "Proof (tracker level): Lean 4 theorems (Props/C15.lean) about a literal model of AtMostOnceTracker::add (insertion-ordered variable set, helper list, the while-loop with its 2^k-1 threshold, clause emission order): for every sequence of add calls of any length, in any order and with any repetitions, (sound) every assignment satisfying the emitted clauses makes at most one registered candidate true, (complete) for each registered candidate and for 'none' there is a helper assignment satisfying all clauses, (stable) later adds only append, (threshold) the loop exit condition gives enough helper bits. Tied to src/solver/binary_encoding.rs by exact clause-by-clause comparison with the real tracker (through the verif-hooks accessor) for every n = 0..71 and random larger sequences. The lift to solver verdicts (pair => Unsolvable, single => solvable) is exercised by the solver families as they are added.",
        "note": "Trusted: Lean kernel (+ propext, Quot.sound, Classical.choice), driver, harness; helper variables are assumed to come from a counter that never collides with candidate variables (true of VariableMap).",
        "technique": "Lean 4 proof of soundness/completeness of the log-encoding for unbounded add sequences + exact clause correspondence via hook",
    },
}
