"""Free-text parts of MANIFEST.json (kept apart from the machine configuration)."""
HOOK_COMMITS = ["5be76af", "6e1aafb", "2edb2c1"]

NOT_APPLICABLE = {}

TEXT = {
    "C19": {
        "text": "Proof: Lean 4 theorems (Props/C19.lean) show that the literal model of Mapping (chunks/len/max, insert, unset, get, the iterator's stopping rule, serde as a dense option array) refines a function Nat -> Option V for every operation sequence, every id distribution and every positive chunk size: get/return values, len = number of stored pairs, is_empty, iter = exactly the stored pairs in strictly ascending order, serde round-trip preserves contents. The model is tied to src/internal/mapping.rs by exact I/O correspondence on thousands of generated op sequences against the real resolvo::Mapping (public API + serde_json) on every run, and the chunk size is re-read from the source. Because the model provably equals the reference map, any model/implementation disagreement is a concrete input on which the implementation differs from the reference.",
        "note": "Trusted: Lean kernel (+ propext, Classical.choice, Quot.sound), the Lean compiler running the model, the harness; the correspondence is sampled (differential testing). unsafe get_unchecked is modelled as checked indexing; serde_json text layer not modelled.",
        "technique": "Lean 4 refinement proof (model of Mapping refines Nat -> Option V) + differential correspondence with the real crate",
    },
    "C15": {
        "text": "Proof (tracker level): Lean 4 theorems (Props/C15.lean) about a literal model of AtMostOnceTracker::add (insertion-ordered variable set, helper list, the while-loop with its 2^k-1 threshold, clause emission order): for every sequence of add calls of any length, in any order and with any repetitions, (sound) every assignment satisfying the emitted clauses makes at most one registered candidate true, (complete) for each registered candidate and for 'none' there is a helper assignment satisfying all clauses, (stable) later adds only append, (threshold) the loop exit condition gives enough helper bits. Tied to src/solver/binary_encoding.rs by exact clause-by-clause comparison with the real tracker (through the verif-hooks accessor) for every n = 0..71 and random larger sequences. The lift to solver verdicts (pair => Unsolvable, single => solvable) is exercised by the solver families as they are added.",
        "note": "Trusted: Lean kernel (+ propext, Quot.sound, Classical.choice), driver, harness; helper variables are assumed to come from a counter that never collides with candidate variables (true of VariableMap).",
        "technique": "Lean 4 proof of soundness/completeness of the log-encoding for unbounded add sequences + exact clause correspondence via hook",
    },
    "C01": {
        "text": "Partial proof + verified per-run oracle. Proved in Lean for all universes/problems/selections: the executable checker validB decides the full statement of C01 (Valid: root requirements and constraints, requirements and constrains of every selected solvable with unions, no excluded / Unknown-dependency / locked-out solvable except directly named soft requirements, one solvable per package) and every non-learnt clause of a solver history accepted by the abstract system is satisfied by every valid selection. On every run the check (a) evaluates validB on every answer the real solver returns on thousands of generated universes (all hint patterns, unions, locks, exclusions, Unknown deps, missing packages, cycles, soft requirements; debug and release builds) and (b) replays the solver's recorded history through the verified abstract checker. The universal claim about the search procedure itself is not yet proved (refinement obligations listed in the evidence).",
        "note": "Trusted: Lean kernel (+propext, Classical.choice, Quot.sound), Spec.lean as the reading of C01, the harness/provider tables, the hook emission. Correspondence is sampled. WF provider contract assumed.",
        "technique": "Lean 4 proof that the validity oracle is exact + provenance soundness of accepted histories; oracle evaluated on every implementation answer",
    },
    "C02": {
        "text": "Proof of a certifying checker. Lean theorems (all universes, problems and histories, no size bound): (1) fail_sound / unsat_certified: if the solver history recorded by the verif-hooks feature is accepted by the abstract system (every clause has true provenance in the provider's data, every implied assignment is a unit consequence of its reason clause, every learnt clause is RUP-derivable from its recorded antecedents, the final conflict clause is falsified by a trail whose only decision is the root) then the hard problem has no valid solution; (2) decideSolvable (verified DPLL on a verified reference encoding) decides solvability; (3) Solvable is invariant under candidate order, ranks, favored candidates and hints. Every run replays every implementation history through (1) and compares every verdict with (2). Not proved: that the search always terminates with a verdict.",
        "note": "Trusted: Lean kernel, driver compilation, hook emission faithfulness (omissions cause rejection), harness. CandsKnown assumed for the reference procedure (checked by the driver per case).",
        "technique": "Lean 4 verified UNSAT-certificate checker (RUP + provenance + unit reasons) over the implementation's history, plus verified independent decision procedure",
    },
    "C03": {
        "text": "Partial proof + verified per-run oracles on the implementation's own conflict reports. For every Unsolvable answer the check takes the real ConflictGraph (public fields) and the clause ids the Conflict blames and decides: every edge states a true fact of the provider's data (requires edge: requirement belongs to its source and its targets are exactly that requirement's candidates, or the unresolved node iff it has none; constrains / lock / exclusion edges point at really non-matching / locked-out / excluded solvables; forbid edges join solvables of one package), every node is reachable from the root, and the facts shown in the graph alone (plus one-per-package inside forbid-connected components) admit no selection installing the root - decided by the verified DPLL (refutes_exact). Lean also proves that learnt clauses of accepted histories follow from their recorded antecedents (a forgotten learnt_why entry makes the history, or the blamed-clause refutation, fail).",
        "note": "The universal statement about analyze_unsolvable/Conflict::graph is not yet proved; petgraph is trusted for the implementation side only (the oracle reads the edge list).",
        "technique": "Lean 4 verified refutation oracle + provenance/RUP theorems, evaluated on every implementation conflict report",
    },
    "C04": {
        "text": "Exploration backed by verified oracles (claimed partial). Every generated case (solve, soft, conflict-free families; all hint patterns x exclusions x locks x soft x cycles x own-package constrains x repeated union members) runs the real solve, Conflict::graph, graphviz and display_user_friendly under catch_unwind with a per-case watchdog and an address-space limit, in debug-assertion and release builds; a panic, hang or runaway allocation on a well-formed provider is a failing input. Four genuine defects found this way were repaired (see known_findings.json). No universal termination/panic-freedom theorem about the search is proved.",
        "note": "Partial: universal termination and absence of panics are NOT proved; the check explores. Trusted: harness watchdog, WF filter of the driver.",
        "technique": "differential/robustness exploration in two build profiles with verified oracles (Lean) deciding well-formedness and outcomes; no universal proof",
    },
    "C05": {
        "text": "Partial proof + per-run oracle: Supported is defined inductively as in the property; Lean proves that the executable closure only contains supported solvables; the check evaluates supportedB on every solution the implementation returns, including shapes where the search backtracks over candidates whose dependencies were already selected.",
        "note": "The converse (closure completeness) and the universal statement about the search are not yet proved. Trusted as C01.",
        "technique": "Lean 4 soundness proof of the support-closure oracle + evaluation on every implementation answer",
    },
    "C06": {
        "text": "Partial: (1) a decide-checked obligation that the set of source locations iterating a hash container (re-extracted from /repo on every run) is exactly the set the model accounts for, and the exact correspondence of the hash-free deterministic model MDet with the real solver (result, solution order, full history); (2) run-time exploration of what no theorem can see: every case of the solve / soft / snapshot families is executed in three separate processes (fresh ahash seeds, ASLR) and twice per process with fresh solver instances, and result, solution order, conflict message text, conflict graph and snapshot contents must be byte-identical.",
        "note": "Hasher seeding and allocation order are runtime behaviour: explored, not proved. The message renderer is not modelled in Lean yet.",
        "technique": "decide-checked site-list obligation + exact deterministic-model correspondence + multi-process byte comparison",
    },
    "C07": {
        "text": "Partial proof + per-run oracle: Lean characterises the first choice in the SolverCache model (matching favored candidate first, otherwise a matching candidate of minimal rank; union members in listed order); the driver computes the preferred closure, decides C07's hypothesis (closure valid and each requirement met only by its own first choice) and requires the implementation's solution to equal the closure on every conflict-free case, over all hint patterns.",
        "note": "Universal statement about the search not yet proved. Trusted as C01.",
        "technique": "Lean 4 lemmas on candidate ordering + executable preferred-closure oracle compared with every implementation answer",
    },
    "C08": {
        "text": "Partial proof + per-run oracle: the hypothesis (some valid solution contains the first-ranked candidate of every single-package root requirement) is decided exactly by the verified DPLL on the verified reference encoding plus unit clauses (with_units_iff); when it holds the implementation's solution must contain all those candidates, on families with conflicts below the root requirements.",
        "note": "Universal statement about the search (explicit-first rule vs activity/backjumping) not yet proved.",
        "technique": "Lean 4 verified decision of the hypothesis + comparison with every implementation answer",
    },
    "C09": {
        "text": "Per-run verified-oracle check + cache-level proof: the provider call log of every sync run without hints must be causal (get_dependencies only for soft requirements or matching candidates of requirements already obtained; get_candidates only for names already mentioned) and duplicate-free; SolverCache's own at-most-once behaviour is proved on its model and the model's call log is compared exactly with the real SolverCache.",
        "note": "Exactness on conflict-free problems is checked through C07's preferred closure. Universal statement for the solver not yet proved.",
        "technique": "executable causality oracle over the real call log + Lean proof of cache idempotence + exact cache correspondence",
    },
    "C10": {
        "text": "Exploration with verified oracles (claimed partial). The real solver runs with an asynchronous provider whose get_candidates / get_dependencies (optionally filter/sort) futures are completed one at a time by a hand-written single-threaded executor following FIFO, LIFO or seeded random schedules; on every run the answer is checked with the verified validity oracle, the verdict against the verified reference decision procedure (so async and sync verdicts agree), obtained answers must never be requested again, and the executor reports a deadlock if the solver is pending while nothing is outstanding. A genuine termination defect after cancellation was found by the reuse-async family and repaired.",
        "note": "No Lean model of the FuturesUnordered / Event protocol yet; real executors' waker delivery is outside any model.",
        "technique": "schedule exploration of the real async solver with verified (Lean) oracles; no scheduler theorem yet",
    },
    "C11": {
        "text": "Exploration with an executable oracle. At every quiescent point of every explored schedule the harness records the set of outstanding provider requests; the oracle requires every get_candidates request already implied by dependency information the solver has received to be outstanding or answered (root fan-out at the first quiescent point included).",
        "note": "No theorem; a serialising await changes the recorded pending sets and is caught.",
        "technique": "pending-set oracle at quiescent points over explored schedules (exploration)",
    },
    "C13": {
        "text": "Proof for the checked model + correspondence of whole histories. Lean: for every finite history of solves on one solver (any problems, any earlier outcomes including Cancelled and Unsolvable, any cache contents, any cancellation plan, any fuel) every solution returned is valid (C01) and supported (C05) and every Unsolvable verdict is sound (C02) - because the theorems about solveChecked hold for every initial solver state. Tie: histories of 2-4 solves (with transient cancellations at random polls / provider requests) are run on the real solver and on MDet and must agree exactly, including the provider call log across solves. Per run: no refetch of obtained metadata; async histories must not deadlock after a cancellation with requests in flight (defect found and fixed).",
        "note": "The refinement gap (checkFailed never occurs) and termination are checked per run, not proved.",
        "technique": "Lean 4 induction over histories of the checked model + exact multi-solve correspondence + async reuse exploration",
    },
    "C12": {
        "text": "Partial proof + exact correspondence + per-run oracles. Lean (model MDet): a poll of should_cancel_with_value that sees the signal aborts with exactly that value, nothing else is logged, and the uncached get_candidates / get_dependencies it guards is never issued; a poll that does not see it has no effect. The harness measures the uncancelled run of each generated case and draws a plan from it (signal up at poll k for any k incl. never; signal raised while provider request j is served; persistent or transient), runs the real solver and the model under the plan and requires identical results, identical Cancelled values and identical provider call logs including every poll in order. Oracles on the implementation's log: Cancelled with the value seen, no provider request after observation or after the signal went up, a persistent signal is never answered with a solution or a conflict, no spurious Cancelled.",
        "note": "Sync runtime here; cancellation while async requests are in flight is exercised by the async/reuse families (C10, C13). The universal statement for the whole solve loop is tied by correspondence, not proved.",
        "technique": "Lean 4 lemmas on the model's poll sites + exact call-log correspondence under enumerated cancellation plans + oracles on the real log",
    },
    "C14": {
        "text": "Partial proof + per-run oracles on the soft family (compatible, incompatible, duplicate, other-version, excluded, locked-out, Unknown-dependency soft solvables in any order): validB with the documented exemption on every answer; a solvable hard problem (verified decideSolvable) must not yield Unsolvable; histories accepted by the abstract system (Lean: an accepted history never fails on a solvable problem); no panic in debug or release. Two genuine defects (two solvables of one package; debug assertion on an excluded soft solvable) were found and repaired.",
        "note": "C14(c) (a compatible soft solvable is included) is not yet checked; universal statement not proved.",
        "technique": "Lean 4 verified oracles (validB, decideSolvable, history checker) evaluated on every implementation run of the soft family",
    },
    "C16": {
        "text": "Partial proof + exact correspondence of the captured contents + verified oracles against the live provider. Lean proves the id discipline of SnapshotProvider (added ids fresh and distinct; every captured id incl. the highest resolvable; added ids resolve to the added sets) and reuses the Mapping serde theorem. Per run, for generated providers with sparse/shuffled ids and random seed subsets, the real DependencySnapshot must equal the model's breadth-first capture field by field (incl. per-package order), also after a serde_json round-trip; the problem (using the highest captured version set, plus 0-2 add_package_requirement calls) is solved live, via the snapshot and via the deserialised snapshot: verdicts must equal the verified decision procedure on the live data and solutions must be valid against the live data. Two genuine defects (Mapping::iter, id aliasing) were found and repaired.",
        "note": "Closure completeness of the model's BFS and order preservation for arbitrary sort functions are not proved; hash-set fields make the exact solution through a snapshot process-dependent (see C06).",
        "technique": "Lean 4 proofs of id freshness / resolution + exact capture correspondence + verified oracles on the live data",
    },
    "C18": {
        "text": "Proof: Lean theorems about a literal model of Arena (chunked append-only storage) and of the interning tables of Pool, for every interleaving of intern/resolve/lookup of any length and every positive chunk size: ids are dense in allocation order; a later alloc changes no existing (chunk, offset) address and no stored value; no chunk ever exceeds its reserved capacity; interning twice returns the same id and changes nothing; resolve(intern v) = v; different values never share an id; lookup agrees with intern. Tied to src/internal/arena.rs and src/utils/pool.rs by exact I/O correspondence on random op sequences against the real Pool, including a runtime check that references taken at intern time keep their machine address and contents after later insertions.",
        "note": "Memory validity of references obtained through UnsafeCell is not proved (model addresses = (chunk, offset)); relies on Vec::with_capacity not reallocating below capacity.",
        "technique": "Lean 4 invariant proof (arena shape + partial bijection) + differential correspondence incl. address stability",
    },
    "C20": {
        "text": "Proof: Lean theorems about the SolverCache model for every provider table and every operation sequence: matching / non-matching partition the candidate list in order; sorted candidates are the matching ones in sort order with the favored candidate rotated to the front and the relative order of the others unchanged; unions concatenate in listed order; answers are independent of cache state (repeated queries return identical contents) and a repeated query does not reach the provider; the availability query is true exactly for hinted or fetched solvables. Tied to src/solver/cache.rs by exact comparison of answers and provider call logs on the real public SolverCache (all hint patterns, favored inside/outside the version set, re-entrant calls from sort_candidates).",
        "note": "Provider contract assumed (pure filter, stable sort by key). elsa::FrozenMap first-insert-wins semantics trusted.",
        "technique": "Lean 4 proofs on a state-machine model of SolverCache + exact I/O and call-log correspondence",
    },
}
