#!/usr/bin/env python3
"""Regenerates lean/Resolvo/Generated/Constants.lean from /repo's *current* sources.

This is the (deliberately small) translator part of the tie between the model
and the code: constants and shape facts the hand-written model depends on are
re-read from the source on every run; `Resolvo/ModelFacts.lean` states what the
model covers and `lake build` fails (a `decide`-checked equality) when the two
disagree.
"""
import os, re, sys, hashlib

REPO = os.environ.get("VERIF_REPO", "/repo")
OUT = os.path.join(os.path.dirname(os.path.abspath(__file__)), "..", "lean", "Resolvo", "Generated", "Constants.lean")


def read(rel):
    with open(os.path.join(REPO, rel), encoding="utf-8") as f:
        return f.read()


def strip_tests(src):
    """Drop `#[cfg(test)] mod … { … }` blocks (brace matching)."""
    out = src
    while True:
        m = re.search(r"#\[cfg\(test\)\]\s*mod\s+\w+\s*\{", out)
        if not m:
            return out
        i = m.end()
        depth = 1
        while i < len(out) and depth:
            depth += {"{": 1, "}": -1}.get(out[i], 0)
            i += 1
        out = out[: m.start()] + out[i:]


def const_usize(src, name):
    m = re.search(r"const\s+%s\s*:\s*usize\s*=\s*(\d+)\s*;" % name, src)
    if not m:
        raise SystemExit(f"extract_constants: constant {name} not found")
    return int(m.group(1))


def enum_variants(src, name):
    m = re.search(r"enum\s+%s\s*\{" % name, src)
    if not m:
        raise SystemExit(f"extract_constants: enum {name} not found")
    i = m.end()
    depth = 1
    body = ""
    while depth:
        ch = src[i]
        depth += {"{": 1, "}": -1}.get(ch, 0)
        if depth:
            body += ch
        i += 1
    body = re.sub(r"//[^\n]*", "", body)
    # remove parenthesised payloads
    flat, d = "", 0
    for ch in body:
        if ch in "({":
            d += 1
        elif ch in ")}":
            d -= 1
        elif d == 0:
            flat += ch
    return [v.strip() for v in flat.split(",") if v.strip()]


def struct_fields(src, name):
    m = re.search(r"struct\s+%s\b[^{;]*\{" % name, src)
    if not m:
        raise SystemExit(f"extract_constants: struct {name} not found")
    i = m.end()
    depth = 1
    body = ""
    while depth:
        ch = src[i]
        depth += {"{": 1, "}": -1}.get(ch, 0)
        if depth:
            body += ch
        i += 1
    body = re.sub(r"//[^\n]*", "", body)
    return re.findall(r"^\s*(?:pub(?:\([^)]*\))?\s+)?(\w+)\s*:(?!:)", body, flags=re.M)


def cancel_poll_sites():
    sites = []
    for rel in ["src/solver/mod.rs", "src/solver/cache.rs", "src/solver/encoding.rs", "src/conflict.rs"]:
        src = strip_tests(read(rel))
        # enclosing fn + ordinal
        fn = None
        counts = {}
        for line in src.splitlines():
            m = re.search(r"\bfn\s+(\w+)", line)
            if m:
                fn = m.group(1)
            if "should_cancel_with_value()" in line and "fn should_cancel_with_value" not in line:
                k = (rel, fn)
                counts[k] = counts.get(k, 0) + 1
                sites.append(f"{os.path.basename(rel)}:{fn}#{counts[k]}")
    return sites


PANIC_PAT = re.compile(r"\b(assert!|assert_eq!|assert_ne!|debug_assert!|debug_assert_eq!|debug_assert_ne!|unreachable!|panic!|\.expect\(|\.unwrap\(\)|debug_expect_unchecked)")


def panic_sites(rels):
    sites = []
    for rel in rels:
        src = strip_tests(read(rel))
        fn = None
        counts = {}
        for line in src.splitlines():
            if line.strip().startswith("//"):
                continue
            m = re.search(r"\bfn\s+(\w+)", line)
            if m:
                fn = m.group(1)
            for mm in PANIC_PAT.finditer(line):
                kind = mm.group(1).strip(".(!)")
                k = (rel, fn, kind)
                counts[k] = counts.get(k, 0) + 1
                sites.append(f"{os.path.basename(rel)}:{fn}:{kind}#{counts[k]}")
    return sites


HASH_ITER_PAT = re.compile(r"\b(\w+)\s*\.\s*(iter|into_iter|into_values|values|keys|drain)\(\)|for\s+.*\s+in\s+&?(\w+)\b")


def hash_iteration_sites():
    """Source locations that iterate a hash container (HashMap/HashSet typed binding)."""
    sites = []
    for rel in ["src/solver/mod.rs", "src/solver/encoding.rs", "src/solver/variable_map.rs",
                "src/solver/cache.rs", "src/conflict.rs", "src/snapshot.rs"]:
        src = strip_tests(read(rel))
        # names bound to hash containers in this file
        names = set(re.findall(r"(?:let\s+(?:mut\s+)?|\b)(\w+)\s*:\s*(?:ahash::)?Hash(?:Map|Set)\s*<", src))
        names |= set(re.findall(r"let\s+(?:mut\s+)?(\w+)\s*(?::\s*[^=]+)?=\s*(?:ahash::)?Hash(?:Map|Set)::(?:default|new)\(\)", src))
        names |= set(re.findall(r"let\s+(?:mut\s+)?(\w+)\s*:\s*HashSet<_>", src))
        names |= set(re.findall(r"let\s+(?:mut\s+)?(\w+)\s*=[^;]*collect::<\s*HashSet", src))
        fn = None
        counts = {}
        for line in src.splitlines():
            if line.strip().startswith("//"):
                continue
            m = re.search(r"\bfn\s+(\w+)", line)
            if m:
                fn = m.group(1)
            hit = None
            for nm in names:
                if re.search(r"\b%s\s*(?:\.\s*borrow\(\)\s*)?\.\s*(iter|into_iter|into_values|values|keys|drain)\(\)" % re.escape(nm), line) \
                        or re.search(r"for\s+.*\s+in\s+&?(?:mut\s+)?(?:self\.)?(?:\w+\.)*%s\b\s*\{?" % re.escape(nm), line):
                    hit = nm
                    break
            if hit:
                k = (rel, fn, hit)
                counts[k] = counts.get(k, 0) + 1
                sites.append(f"{os.path.basename(rel)}:{fn}:{hit}#{counts[k]}")
            # adaptors that *produce* a hash container which is then consumed in the same expression
            # (itertools' into_group_map / counts return std HashMaps; from_iter into a hash container)
            m2 = re.search(r"\b(into_group_map(?:_by)?|into_grouping_map(?:_by)?|counts(?:_by)?)\s*\(|\b(Hash(?:Map|Set))::from_iter\s*\(", line)
            if m2:
                nm = m2.group(1) or (m2.group(2) + "::from_iter")
                k = (rel, fn, nm)
                counts[k] = counts.get(k, 0) + 1
                sites.append(f"{os.path.basename(rel)}:{fn}:{nm}#{counts[k]}")
    return sites


def lean_list(xs):
    return "[" + ", ".join('"%s"' % x for x in xs) + "]"


def main():
    mapping = read("src/internal/mapping.rs")
    arena = read("src/internal/arena.rs")
    clause = read("src/solver/clause.rs")
    vec_rs = read("cpp/src/vector.rs")
    vec_h = read("cpp/include/resolvo_vector.h")
    solver = read("src/solver/mod.rs")

    header_rs = struct_fields(vec_rs, "VectorHeader")
    m = re.search(r"struct\s+Header\s*\{([^}]*)\}", vec_h)
    header_cpp = re.findall(r"\b(\w+)\s*;", re.sub(r"//[^\n]*", "", m.group(1))) if m else []
    act = re.search(r"activity_add:\s*([0-9.]+),\s*activity_decay:\s*([0-9.]+)", solver)

    lines = [
        "-- GENERATED by /verif/tools/extract_constants.py from /repo sources on every run. Do not edit.",
        "namespace Resolvo.Generated",
        f"def mappingValuesPerChunk : Nat := {const_usize(mapping, 'VALUES_PER_CHUNK')}",
        f"def arenaChunkSize : Nat := {const_usize(arena, 'CHUNK_SIZE')}",
        f"def clauseKinds : List String := {lean_list(enum_variants(clause, 'Clause'))}",
        f"def vectorHeaderRust : List String := {lean_list(header_rs)}",
        f"def vectorHeaderCpp : List String := {lean_list(header_cpp)}",
        f"def activityAdd : String := \"{act.group(1) if act else '?'}\"",
        f"def activityDecay : String := \"{act.group(2) if act else '?'}\"",
        f"def cancelPollSites : List String := {lean_list(cancel_poll_sites())}",
        f"def hashIterationSites : List String := {lean_list(hash_iteration_sites())}",
        f"def panicSites : List String := {lean_list(panic_sites(['src/solver/mod.rs', 'src/solver/clause.rs', 'src/solver/encoding.rs', 'src/solver/cache.rs', 'src/solver/watch_map.rs', 'src/solver/decision_tracker.rs', 'src/solver/decision_map.rs', 'src/solver/variable_map.rs', 'src/conflict.rs', 'src/snapshot.rs']))}",
        "end Resolvo.Generated",
        "",
    ]
    text = "\n".join(lines)
    out = os.path.normpath(OUT)
    old = open(out).read() if os.path.exists(out) else None
    if old != text:
        os.makedirs(os.path.dirname(out), exist_ok=True)
        with open(out, "w") as f:
            f.write(text)
    if "--print" in sys.argv:
        sys.stdout.write(text)


if __name__ == "__main__":
    main()
