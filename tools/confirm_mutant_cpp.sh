#!/bin/bash
# usage: confirm_mutant_cpp.sh <patch.diff> <demo.cpp> [demo args...]
# Confirms in a scratch worktree of /repo HEAD: demo passes without the patch, the Rust suite passes with it, demo fails with it.
set -u
PATCH=$1; DEMO=$2; shift 2
WT=/tmp/mut/confirm-cpp-$$
git -C /repo worktree add -q --detach $WT HEAD || exit 2
cd $WT
export CARGO_NET_OFFLINE=true CARGO_TARGET_DIR=/tmp/mut/confirm-target
build_demo() {
  cargo build --offline -p resolvo_cpp >/tmp/mut/confirm-cpp-$$.build.log 2>&1 || return 1
  GEN=$(dirname "$(ls -t $CARGO_TARGET_DIR/debug/build/resolvo_cpp-*/out/generated_include/resolvo_internal.h | head -1)")
  g++ -std=c++17 -g -O0 -fsanitize=address,undefined -fno-sanitize-recover=undefined -I cpp/include -I "$GEN" "$DEMO" $CARGO_TARGET_DIR/debug/libresolvo_cpp.a -lpthread -ldl -lm -o /tmp/mut/confirm-cpp-$$.demo >>/tmp/mut/confirm-cpp-$$.build.log 2>&1
}
res=""
if build_demo && /tmp/mut/confirm-cpp-$$.demo "$@" >/tmp/mut/confirm-cpp-$$.log 2>&1; then res="$res demo_without_patch=pass"; else res="$res demo_without_patch=FAIL"; fi
if git apply "$PATCH"; then
  if cargo test --workspace --offline >/tmp/mut/confirm-cpp-$$.suite.log 2>&1; then res="$res suite_with_patch=pass"; else res="$res suite_with_patch=FAIL"; fi
  if build_demo && /tmp/mut/confirm-cpp-$$.demo "$@" >/tmp/mut/confirm-cpp-$$.log2 2>&1; then res="$res demo_with_patch=PASS(unexpected)"; else res="$res demo_with_patch=fail(expected)"; fi
else
  res="$res patch_does_not_apply"
fi
cd /; git -C /repo worktree remove --force $WT; rm -f /tmp/mut/confirm-cpp-$$.demo
echo "$res"
