#!/usr/bin/env python3
"""corpus_add.py <file-with-case-blocks>... — appends the case blocks (replay files, hand-written cases) to
/verif/corpus/<family>.cases, renumbering the case ids; exact duplicates are skipped."""
import os, sys, hashlib
ROOT = "/verif"
os.makedirs(f"{ROOT}/corpus", exist_ok=True)
def blocks(path):
    cur = None
    for l in open(path, errors="replace"):
        l = l.rstrip("\n")
        if l.startswith("case "):
            cur = (l.split()[2], [])
        elif l == "end" and cur:
            yield cur; cur = None
        elif cur is not None and not l.startswith("#"):
            cur[1].append(l)
for path in sys.argv[1:]:
    for fam, lines in blocks(path):
        cp = f"{ROOT}/corpus/{fam}.cases"
        have = set(); n = 0
        if os.path.exists(cp):
            for f2, l2 in blocks(cp):
                have.add(hashlib.sha256("\n".join(l2).encode()).hexdigest()); n += 1
        h = hashlib.sha256("\n".join(lines).encode()).hexdigest()
        if h in have:
            print("duplicate, skipped:", path); continue
        with open(cp, "a") as f:
            f.write(f"case {n} {fam}\n" + "\n".join(lines) + "\nend\n")
        print(f"added to {cp} as case {n}")
