"""Per-property and per-family configuration for ./check (see DESIGN.md §6)."""
import re


def exact(clines, ilines, mlines):
    """Exact I/O correspondence: implementation output must equal the model's."""
    return ilines, mlines, []


def split_oracles(clines, ilines, mlines):
    """Model output lines starting with `oracle-fail` are failures of a verified oracle on the
    implementation's own output; lines starting with `cmp ` on both sides are compared exactly;
    everything else is informational."""
    orc = [l for l in mlines if l.startswith("oracle-fail")]
    ci = [l for l in ilines if l.startswith("cmp ")]
    cm = [l for l in mlines if l.startswith("cmp ")]
    return ci, cm, orc


FAMILIES = {
    "mapping": {
        "rule": "random insert/unset/get/len/iter/serde sequences on the real resolvo::Mapping (5 id distributions: dense, sparse, chunk-boundary, strided, mixed; capacities 0/1/random/129); "
                "non-trivial = the sequence stores an id >= 128 (beyond the first chunk) or unsets a stored id, and iterates or serialises afterwards; distinct by sha256 of the op list",
        "nontrivial": lambda c, i: (any(l.startswith("insert ") and int(l.split()[1]) >= 128 for l in c)
                                    or any(l.startswith("unset ") for l in c)),
        "stats": lambda c, i: {"ops": len(c), "inserts": sum(l.startswith("insert") for l in c),
                               "unsets": sum(l.startswith("unset") for l in c), "iters": sum(l == "iter" for l in c),
                               "serde": sum(l == "serde" for l in c),
                               "beyond_first_chunk": int(any(l.startswith("insert ") and int(l.split()[1]) >= 128 for l in c)),
                               "panics": sum(l.startswith("panic") for l in i)},
        "compare": exact, "shrinkable": True, "shrink_keep_prefix": 1,
        "signature": lambda lines, item: "mapping:" + re.sub(r"\d+", "N", item.get("model", ""))[:40],
    },
    "amo": {
        "rule": "AtMostOnceTracker::add sequences through the verif hook: n = 0..71 candidates each once (every power-of-two boundary up to 64 crossed) then random n<=140, shuffled, ~20% repeated adds; "
                "non-trivial = at least 3 distinct variables (helper allocation happened); distinct by sha256",
        "nontrivial": lambda c, i: len(set(c[0].split()[2:])) >= 3,
        "stats": lambda c, i: {"vars": len(set(c[0].split()[2:])), "clauses": max(0, len(i[0].split()) - 1) if i else 0},
        "compare": exact, "shrinkable": False,
        "signature": lambda lines, item: "amo:clauses-differ",
    },
}

def solve_stats(c, i):
    res = [l.split()[1] for l in i if l.startswith("result ")]
    return {
        "ok": res.count("ok"), "unsat": res.count("unsat"), "cancelled": res.count("cancelled"), "panic": res.count("panic"),
        "learnt_clauses": sum(l.startswith("t learnt") for l in i),
        "cases_with_learning": int(any(l.startswith("t learnt") for l in i)),
        "cases_with_2plus_learnt": int(sum(l.startswith("t learnt") for l in i) >= 2),
        "restarts": sum(l == "t clear" for l in i),
        "unions": sum(l.startswith("union ") for l in c),
        "locks": sum((" lock " in l and " lock - " not in l) for l in c if l.startswith("pkg ")),
        "favored": sum((" fav " in l and " fav - " not in l) for l in c if l.startswith("pkg ")),
        "excluded": sum((" excl hint" not in l) for l in c if l.startswith("pkg ")),
        "hinted_pkgs": sum((" hint none" not in l) for l in c if l.startswith("pkg ")),
        "unknown_deps": sum(" unknown " in l for l in c if l.startswith("solv ")),
        "soft": sum(len(l.split(" soft")[1].split()) for l in c if l.startswith("problem ")),
        "solvables": sum(l.startswith("solv ") for l in c),
        "traces_validated": sum(l.startswith("result ") for l in i),
    }


SOLVE_FAMILY = {
    "feed_impl": True,
    "nontrivial": lambda c, i: any(l.startswith("t learnt") for l in i) or any(l.startswith("result unsat") for l in i)
    or sum(l.startswith("t assign") for l in i) >= 4,
    "stats": solve_stats,
    "compare": split_oracles,
    "shrinkable": "universe",
    "signature": lambda lines, item: re.sub(r"\[[^\]]*\]", "[..]", re.sub(r"\d+", "N", str(item.get("oracle") or item.get("model"))))[:120],
}

FAMILIES["solve"] = dict(SOLVE_FAMILY, rule="generated provider universes (1-8 packages, 1-9 candidates each, sparse/shuffled ids, version sets any/one/prefix/suffix/empty/random, "
    "unions incl. cross-package and repeated members, constrains incl. own package, locks, favored, exclusions, Unknown deps, missing packages, cycles, all hint patterns) "
    "in 3 shapes (general/tight/hinted), sync runtime; non-trivial = the run learnt a clause, or ended Unsolvable, or made >= 4 assignments; distinct by sha256 of the case")
FAMILIES["soft"] = dict(SOLVE_FAMILY, rule="as `solve` plus 1-4 soft requirements drawn from all solvables (compatible, incompatible, duplicates, other versions of installed packages, excluded, locked-out, Unknown deps)")
FAMILIES["conflictfree"] = dict(SOLVE_FAMILY, rule="as `solve` without locks/exclusions/Unknown/missing packages, biased to version sets matching everything, with favored candidates; "
    "non-trivial additionally requires the preferred candidates to be mutually compatible (C07 hypothesis, decided by the driver)")

TB_COMMON = []

PROPS = {
    "C19": {
        "level": "proof",
        "module": "Resolvo.Props.C19",
        "theorems": ["Resolvo.C19.step_refines", "Resolvo.C19.run_represents", "Resolvo.C19.get_refines",
                     "Resolvo.C19.iter_complete", "Resolvo.C19.iter_sorted", "Resolvo.C19.iter_nodup",
                     "Resolvo.C19.len_eq_iter_length", "Resolvo.C19.isEmpty_iff", "Resolvo.C19.serde_roundtrip"],
        "families": [("mapping", {"quick": 4000, "thorough": 120000})],
        "assumptions": ["the chunk size is the constant re-read from src/internal/mapping.rs on every run (theorems hold for every positive size)",
                        "serde_json's text layer is not modelled: a Mapping is serialised as the list the model says",
                        "pointer-level unsafe code (get_unchecked) is modelled as checked indexing"],
        "trusted_base": [],
    },
    "C15": {
        "level": "proof",
        "module": "Resolvo.Props.C15",
        "theorems": ["Resolvo.C15.amo_sound", "Resolvo.C15.amo_complete_one", "Resolvo.C15.amo_complete_none",
                     "Resolvo.C15.amo_stable", "Resolvo.C15.threshold"],
        "families": [("amo", {"quick": 400, "thorough": 6000})],
        "assumptions": ["helper variables come from a counter distinct from candidate variables (VariableMap::next_id)"],
        "trusted_base": [],
    },
}
