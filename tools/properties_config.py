"""Per-property and per-family configuration for ./check (see DESIGN.md §6)."""
import re


def exact(clines, ilines, mlines):
    """Exact I/O correspondence: implementation output must equal the model's."""
    return ilines, mlines, []


def split_oracles(clines, ilines, mlines):
    """Model output lines starting with `oracle-fail` are failures of a verified oracle on the
    implementation's own output; lines starting with `cmp ` on both sides are compared exactly;
    everything else is informational."""
    orc = [l for l in mlines if l.startswith("oracle-fail")]
    ci = [l for l in ilines if l.startswith("cmp ")]
    cm = [l for l in mlines if l.startswith("cmp ")]
    return ci, cm, orc


FAMILIES = {
    "mapping": {
        "rule": "random insert/unset/get/len/iter/serde sequences on the real resolvo::Mapping (5 id distributions: dense, sparse, chunk-boundary, strided, mixed; capacities 0/1/random/129); "
                "non-trivial = the sequence stores an id >= 128 (beyond the first chunk) or unsets a stored id, and iterates or serialises afterwards; distinct by sha256 of the op list",
        "nontrivial": lambda c, i: (any(l.startswith("insert ") and int(l.split()[1]) >= 128 for l in c)
                                    or any(l.startswith("unset ") for l in c)),
        "stats": lambda c, i: {"ops": len(c), "inserts": sum(l.startswith("insert") for l in c),
                               "unsets": sum(l.startswith("unset") for l in c), "iters": sum(l == "iter" for l in c),
                               "serde": sum(l == "serde" for l in c),
                               "beyond_first_chunk": int(any(l.startswith("insert ") and int(l.split()[1]) >= 128 for l in c)),
                               "panics": sum(l.startswith("panic") for l in i)},
        "compare": exact, "shrinkable": True, "shrink_keep_prefix": 1,
        "signature": lambda lines, item: "mapping:" + re.sub(r"\d+", "N", item.get("model", ""))[:40],
    },
    "amo": {
        "rule": "AtMostOnceTracker::add sequences through the verif hook: n = 0..71 candidates each once (every power-of-two boundary up to 64 crossed) then random n<=140, shuffled, ~20% repeated adds; "
                "non-trivial = at least 3 distinct variables (helper allocation happened); distinct by sha256",
        "nontrivial": lambda c, i: len(set(c[0].split()[2:])) >= 3,
        "stats": lambda c, i: {"vars": len(set(c[0].split()[2:])), "clauses": max(0, len(i[0].split()) - 1) if i else 0},
        "compare": exact, "shrinkable": False,
        "signature": lambda lines, item: "amo:clauses-differ",
    },
}

def solve_stats(c, i):
    res = [l.split()[1] for l in i if l.startswith("result ")]
    return {
        "ok": res.count("ok"), "unsat": res.count("unsat"), "cancelled": res.count("cancelled"), "panic": res.count("panic"),
        "learnt_clauses": sum(l.startswith("t learnt") for l in i),
        "cases_with_learning": int(any(l.startswith("t learnt") for l in i)),
        "cases_with_2plus_learnt": int(sum(l.startswith("t learnt") for l in i) >= 2),
        "restarts": sum(l == "t clear" for l in i),
        "unions": sum(l.startswith("union ") for l in c),
        "locks": sum((" lock " in l and " lock - " not in l) for l in c if l.startswith("pkg ")),
        "favored": sum((" fav " in l and " fav - " not in l) for l in c if l.startswith("pkg ")),
        "excluded": sum((" excl hint" not in l) for l in c if l.startswith("pkg ")),
        "hinted_pkgs": sum((" hint none" not in l) for l in c if l.startswith("pkg ")),
        "unknown_deps": sum(" unknown " in l for l in c if l.startswith("solv ")),
        "soft": sum(len(l.split(" soft")[1].split()) for l in c if l.startswith("problem ")),
        "solvables": sum(l.startswith("solv ") for l in c),
        "traces_validated": sum(l.startswith("result ") for l in i),
    }


SOLVE_FAMILY = {
    "feed_impl": True,
    "both_profiles": True,
    "nontrivial": lambda c, i: any(l.startswith("t learnt") for l in i) or any(l.startswith("result unsat") for l in i)
    or sum(l.startswith("t assign") for l in i) >= 4,
    "stats": solve_stats,
    "nt_rules": {
        "ok4": (lambda c, i, m: any(l.startswith("result ok") for l in i) and any(l.startswith("solution") and len(l.split()) >= 4 for l in i),
                "distinct cases whose answer is a solution with at least 3 solvables"),
        "unsat_or_learnt": (lambda c, i, m: any(l.startswith("result unsat") for l in i) or any(l.startswith("t learnt") for l in i),
                            "distinct cases that ended Unsolvable or learnt at least one clause"),
        "learnt": (lambda c, i, m: any(l.startswith("t learnt") for l in i), "distinct cases with at least one learnt clause (backtracking happened)"),
        "ok_after_learning": (lambda c, i, m: any(l.startswith("result ok") for l in i) and any(l.startswith("t learnt") or l == "t clear" for l in i),
                              "distinct satisfiable cases in which the search learnt a clause or restarted"),
        "preferred": (lambda c, i, m: any(l == "info preferred-consistent 1" for l in m), "distinct cases where C07's hypothesis holds (preferred closure consistent)"),
        "bestdirect": (lambda c, i, m: any(l == "info best-direct-applicable 1" for l in m) and any(l.startswith("t learnt") or l == "t clear" for l in i),
                       "distinct cases where C08's hypothesis holds and the search learnt a clause or restarted"),
        "calls5": (lambda c, i, m: any(l.startswith("calls") and sum(1 for w in l.split() if w[0] in "cd") >= 5 for l in i),
                   "distinct cases with at least 5 provider calls"),
        "soft_rejected_or_accepted": (lambda c, i, m: any(l.startswith("t softfail") for l in i) or any(l.startswith("t runsat") and not l.startswith("t runsat root") for l in i),
                                      "distinct cases in which at least one soft requirement went through its own run_sat"),
        "unsat_graph": (lambda c, i, m: any(l.startswith("info graph edges") and int(l.split()[3]) >= 3 for l in m),
                        "distinct Unsolvable cases whose conflict graph has at least 3 edges"),
        "cancelled": (lambda c, i, m: any(l.startswith("result cancelled") for l in i),
                      "distinct cases in which the run was actually cancelled (the plan fired at a poll the run reached)"),
        "async3": (lambda c, i, m: sum(l.startswith("ev complete") for l in i) >= 3, "distinct cases in which at least 3 asynchronous provider requests were completed by the executor"),
        "multi": (lambda c, i, m: sum(l.startswith("result ") for l in i) >= 2 and any(l.startswith(("result cancelled", "result unsat")) for l in i),
                  "distinct histories with at least two solves, one of which ended Cancelled or Unsolvable"),
        "any": (lambda c, i, m: True, "all distinct cases (every case exercises panic/termination checks)"),
    },
    "compare": split_oracles,
    "shrinkable": "universe",
    "signature": lambda lines, item: re.sub(r"\[[^\]]*\]", "[..]", re.sub(r"\d+", "N", str(item.get("oracle") or item.get("model"))))[:120],
}

FAMILIES["solve"] = dict(SOLVE_FAMILY, rule="generated provider universes (1-8 packages, 1-9 candidates each, sparse/shuffled ids, version sets any/one/prefix/suffix/empty/random, "
    "unions incl. cross-package and repeated members, constrains incl. own package, locks, favored, exclusions, Unknown deps, missing packages, cycles, all hint patterns) "
    "in 3 shapes (general/tight/hinted), sync runtime; non-trivial = the run learnt a clause, or ended Unsolvable, or made >= 4 assignments; distinct by sha256 of the case")
FAMILIES["soft"] = dict(SOLVE_FAMILY, rule="as `solve` plus 1-4 soft requirements drawn from all solvables (compatible, incompatible, duplicates, other versions of installed packages, excluded, locked-out, Unknown deps)")
FAMILIES["lazy"] = dict(SOLVE_FAMILY, rule="as `solve` (general and tight shapes) but with no availability hints anywhere, locks on 1/4 of the packages and constrains on 1/2 of the solvables - the setting of C09")
FAMILIES["hints"] = dict(SOLVE_FAMILY, rule="as `solve` but every package carries a dependency-availability hint (All, or a random subset); half of the universes are tight (2-5 candidates, 1-3 requirements each) with constrains on 1/2 of the solvables, "
    "so hinted candidates are frequently already false when a requirement first reveals them and are selected later after backtracking (the eager-encoding paths of the encoder)")
FAMILIES["cancel"] = dict(SOLVE_FAMILY, rule="universes of all shapes (general/tight/hinted/soft/lazy); the uncancelled run is measured first and a cancellation plan drawn from it: the signal is up at poll k (k uniform over all polls of the run, incl. never), "
    "or goes up while provider request number j is being served (j uniform over all requests); 1/3 transient (up only at that poll / until the next request starts)")
FAMILIES["cancel-async"] = dict(SOLVE_FAMILY, rule="as `cancel` with an asynchronous provider (1/2 of the cases with asynchronous filter/sort too) under a FIFO / LIFO / seeded random completion order; the cancellation plan is drawn from the uncancelled run under the same schedule, so the signal can strike while several requests (incl. the members of a union requirement) are in flight")
FAMILIES["reuse"] = dict(SOLVE_FAMILY, rule="2-4 solves on ONE solver over a generated universe (same problem again, or new requirements / constraints / soft lists), sync runtime; half of the cases with a transient cancellation placed at a random poll or provider request of the uncancelled history, so later solves run after a Cancelled (and after Unsolvable) outcome")
FAMILIES["reuse-async"] = dict(SOLVE_FAMILY, rule="as `reuse` with an asynchronous provider: every get_candidates / get_dependencies (1/3: also filter/sort) is a future completed by a manual single-threaded executor according to a schedule (FIFO, LIFO, seeded random); cancellation can strike while requests are in flight")
FAMILIES["async"] = dict(SOLVE_FAMILY, rule="one solve with an asynchronous provider under a manual single-threaded executor that completes one outstanding request at a time (FIFO / LIFO / seeded random schedules; 1/3 with filter_candidates and sort_candidates also asynchronous; special shapes: look-ahead exclusion 1/15, big union 1/30, wide fan-out - more than 128 requests implied at once - 1/150); the pending set at every quiescent point and every completion are recorded")
FAMILIES["async-cf"] = dict(SOLVE_FAMILY, rule="the conflict-free universes of `conflictfree` solved with the asynchronous provider and executor of `async` (all completion orders explored by FIFO/LIFO/random schedules)")
FAMILIES["amo-solve"] = dict(SOLVE_FAMILY, rule="one package with n = 1..70 candidates (every power-of-two boundary of the helper encoding crossed) revealed through a union whose members are a random partition of the candidates in random order, "
    "random ranks, hints on/off, root requirements in random order; the problem requires two different candidates (expected Unsolvable) or exactly one (expected solvable)")
FAMILIES["conflictfree"] = dict(SOLVE_FAMILY, rule="as `solve` without locks/exclusions/Unknown/missing packages, biased to version sets matching everything, with favored candidates; "
    "non-trivial additionally requires the preferred candidates to be mutually compatible (C07 hypothesis, decided by the driver)")

FAMILIES["cache"] = {
    "rule": "generated universes (as `solve`) + 5-40 random public SolverCache calls (get_or_cache_candidates / matching / non_matching / sorted (single and union) / dependencies, are_dependencies_available_for), "
            "1/3 of the cases with a provider whose sort_candidates calls back into the cache; 1/4 with an asynchronous get_dependencies (requests started, answered, abandoned); 3/20 with an asynchronous "
            "get_candidates and several concurrent get_or_cache_candidates futures for the same 1-2 packages (started, polled, dropped in any order while the provider answers at some point: "
            "the provider call log must show one request per package unless the future that sent it was dropped); non-trivial = at least one sorted query and one repeated query, or two concurrent futures for one package; distinct by sha256",
    "nontrivial": lambda c, i: (any(l.startswith("op sorted") for l in c) and len([l for l in c if l.startswith("op ")]) > len(set(l for l in c if l.startswith("op ")))) or
                               (lambda st: len(st) > len(set(st)))([l.split()[2] for l in c if l.startswith("op cstart")]),
    "stats": lambda c, i: {"ops": sum(l.startswith("op ") for l in c), "sorted": sum(l.startswith("op sorted") for l in c),
                           "peek": int("peek 1" in c), "asynccands": int("asynccands 1" in c), "asyncdeps": int("asyncdeps 1" in c), "panics": sum(l.startswith("panic") for l in i)},
    "compare": exact, "shrinkable": "universe",
    "signature": lambda lines, item: "cache:" + re.sub(r"\d+", "N", item.get("model", ""))[:30],
}

FAMILIES["snapshot"] = {
    "feed_impl": True,
    "rule": "generated providers (2/3 with sparse, shuffled ids; no favored/locked, which the format does not represent) captured from random seed subsets (names, version sets incl. the highest-numbered one, solvables); "
            "the snapshot contents are compared field by field with the model before and after a serde_json round-trip; the problem (incl. the highest captured version set) is solved live, through the snapshot and through the deserialised snapshot, with 0-2 add_package_requirement calls; "
            "non-trivial = at least 5 captured solvables and (sparse ids or an added requirement); distinct by sha256",
    "nontrivial": lambda c, i: sum(l.startswith("snap-deps") for l in i) >= 5,
    "stats": lambda c, i: {"captured_solvables": sum(l.startswith("snap-deps") for l in i), "adds": sum(l.startswith("add ") for l in c),
                           "ok": sum(l.startswith("viasnap ok") for l in i), "unsat": sum(l == "viasnap unsat" for l in i),
                           "panics": sum("panic" in l for l in i)},
    "compare": split_oracles, "shrinkable": "universe",
    "signature": lambda lines, item: re.sub(r"\[[^\]]*\]", "[..]", re.sub(r"\d+", "N", str(item.get("oracle") or item.get("model"))))[:100],
}

FAMILIES["pool"] = {
    "rule": "random interleavings (5-700 ops, vocabulary 3-400 words, so 128-element chunk boundaries are crossed) of intern_string / intern_package_name / lookup_package_name / intern_solvable / "
            "intern_version_set / intern_version_set_union (1/4 of them nested: the iterator handed over interns another union while it is consumed) / resolve_* (incl. out-of-range ids) on the real Pool; every reference obtained at intern time is re-resolved at `check-stable` points and its "
            "address and contents compared; non-trivial = more than 128 items interned in one table or a repeated value; distinct by sha256",
    "nontrivial": lambda c, i: len(c) > 130 or len([l for l in c if l.startswith(("str", "name"))]) > len(set(l for l in c if l.startswith(("str", "name")))),
    "stats": lambda c, i: {"ops": len(c), "panics": sum(l == "panic" for l in i), "stable_checks": sum(l.startswith("stable") for l in i),
                           "crossed_chunk": int(max([int(l.split()[1]) for l in i if l.startswith("id ") and l.split()[1] != "-"] + [0]) >= 128)},
    "compare": exact, "shrinkable": True, "shrink_keep_prefix": 0,
    "signature": lambda lines, item: "pool:" + re.sub(r"\d+", "N", item.get("model", ""))[:30],
}

TB_COMMON = []

SOLVE_Q = {"quick": 8000, "thorough": 150000}
SOFT_Q = {"quick": 8000, "thorough": 150000}
CF_Q = {"quick": 6000, "thorough": 100000}
HINTS_Q = {"quick": 6000, "thorough": 100000}
LAZY_Q = {"quick": 8000, "thorough": 150000}

PROPS = {
    "C01": {
        "facts": ['clause_kinds_covered'],
        "nt_rule": "ok4",
        "level": "proof", "module": "Resolvo.Props.C01", "imports": ["Resolvo.MDet.CheckedProofs"],
        "theorems": ["Resolvo.MDet.solveChecked_ok_valid", "Resolvo.C01.valid_decided", "Resolvo.C01.valid_unfold", "Resolvo.C01.valid_mono_exempt",
                     "Resolvo.validB_iff", "Resolvo.Abs.mu_satisfies"],
        "families": [("solve", SOLVE_Q), ("soft", SOFT_Q), ("conflictfree", CF_Q), ("hints", HINTS_Q), ("cancel-async", {"quick": 6000, "thorough": 100000}), ("reuse", {"quick": 8000, "thorough": 100000})],
        "profiles": ["debug", "release"],
        "explanation": "PROVED (Lean, all universes/problems/cancellation plans/cache states/fuel): solveChecked_ok_valid - every solution returned by the checked deterministic model of Solver::solve (MDet.solve followed by the verified checkers; objections are the explicit outcome checkFailed) satisfies the full statement of C01 incl. the soft exemption; validB decides Valid exactly. "
                       "TIE: MDet.solve is compared with the real Solver::solve on every generated case for exact equality of result, solution order, provider call log (with cancellation polls) and the complete solver history (variables, clauses, assignments with levels and reasons, undos, learnt clauses with antecedents); validB is also evaluated on the implementation's own answers (debug and release builds). "
                       "NOT PROVED (refinement gap, checked per run): that the model never yields checkFailed.",
        "assumptions": ["provider contract WF (candidates carry their package's name, are listed once, have table entries); malformed providers are outside C01"],
    },
    "C02": {
        "facts": ['clause_kinds_covered'],
        "nt_rule": "unsat_or_learnt",
        "level": "proof", "module": "Resolvo.Props.C02", "imports": ["Resolvo.MDet.CheckedProofs", "Resolvo.MDet.EncSound", "Resolvo.MDet.Tracker", "Resolvo.MDet.Undo"],
        "theorems": ["Resolvo.C02.try_add_decision_post", "Resolvo.MDet.tryAdd_post", "Resolvo.C02.encoder_never_excludes_a_solution", "Resolvo.C02.encoded_clauses_unsat_means_no_solution", "Resolvo.MDet.no_solution_of_encoded_unsat", "Resolvo.C02.decision_tracker_consistent", "Resolvo.MDet.solveRun_dtinv", "Resolvo.MDet.encoder_sound", "Resolvo.MDet.clause_sound", "Resolvo.MDet.solveChecked_unsat_sound", "Resolvo.MDet.solveChecked_ok_solvable", "Resolvo.C02.unsat_certified", "Resolvo.C02.decideSolvable_correct", "Resolvo.C02.ok_solvable",
                     "Resolvo.C02.verdict_invariant", "Resolvo.Abs.fail_sound", "Resolvo.Sat.rup_sound", "Resolvo.Sat.decideSat'_iff",
                     "Resolvo.encodeAll_iff", "Resolvo.Abs.step_linv", "Resolvo.Abs.step_sinv"],
        "families": [("solve", SOLVE_Q), ("soft", SOFT_Q), ("conflictfree", CF_Q), ("hints", HINTS_Q), ("reuse", {"quick": 8000, "thorough": 100000})],
        "explanation": "PROVED for the exact model itself, no checker in between (encoder_never_excludes_a_solution; every universe meeting the decidable provider contract, every problem / fuel / solver state carried over from earlier solves, sync and async, whatever the outcome): every valid selection of the hard problem satisfies, under the assignment it induces, every requires / constrains / lock / exclusion clause in the model's clause arena after the solve, read the way the model's own propagation reads it (positive literals of a requires clause from the cache of candidate variables) - no clause the encoder ever adds rules out a real solution; the at-most-one encoding is proved separately (C15) and what remains for the model itself is the CDCL core, covered by the checked model. Proof of a certifying checker: every Unsolvable verdict of the implementation is re-derived by a kernel-verified checker from the implementation's own history (fail_sound), and compared with a verified independent decision procedure (decideSolvable_iff). Termination/completeness of the search (C02 (d)) is not proved.",
        "assumptions": ["CandsKnown U (listed candidates have table entries) for the reference decision procedure",
                        "the verif-hooks history is emitted faithfully (an omitted event makes the checker reject, not accept)"],
    },
    "C03": {
        "facts": ['clause_kinds_covered'],
        "nt_rule": "unsat_graph",
        "level": "proof", "module": "Resolvo.Props.C03",
        "imports": ["Resolvo.RenderTruth", "Resolvo.MDet.CheckedProofs", "Resolvo.MDet.ModelGraph", "Resolvo.MDet.TruthSpec", "Resolvo.MDet.Truth"],
        "theorems": ["Resolvo.C03.edges_truthful_exact_model", "Resolvo.C03.model_clauses_truthful", "Resolvo.MDet.solveRun_tinv", "Resolvo.MDet.wfuB_sound", "Resolvo.Render.buildGraph_kinds_true", "Resolvo.C03.unsat_graph_checked", "Resolvo.MDet.solveChecked_unsat_graph", "Resolvo.C03.edges_truthful", "Resolvo.Render.buildGraph_edges_true", "Resolvo.Render.ginv_addClause", "Resolvo.C03.refutes_exact", "Resolvo.C03.learnt_from_antecedents", "Resolvo.C03.clauses_truthful", "Resolvo.Graph.graphRefutes_iff"],
        "families": [("solve", SOLVE_Q), ("soft", SOFT_Q), ("lazy", LAZY_Q), ("hints", HINTS_Q)],
        "explanation": "PROVED (Lean, exact model, no checker in between; all universes satisfying the decidable provider contract WFU - candidates carry their package's name, locked / excluded solvables are candidates -, all problems, solver states carried over from earlier solves incl. cache, cancellation plan, asynchronous completion order, fuel, all sets of blamed clauses): edges_truthful_exact_model - every edge of the conflict graph that the exact model of Conflict::graph builds from the clause arena and variable map of the exact model of Solver::solve states a true fact of the provider's data; the invariant behind it (solveRun_tinv / model_clauses_truthful: every clause the model ever allocates - requires, constrains, lock, exclusion, forbid - states a fact the provider gave) is carried through every function of the model, synchronous and asynchronous, by a Hoare logic over the model's monad (MDet/Truth.lean, MDet/TruthSpec.lean). TIE: the model's clause kinds and variable origins equal the implementation's on every case (mdet-trace) and the graph built from the model's own final state equals the implementation's graph on every generated conflict (mdet-graph-own); the driver evaluates WFU (wfuB) on every generated universe. PROVED (Lean, all universes / problems / solver states / fuel): unsat_graph_checked - every Unsolvable answer of the checked deterministic model of Solver::solve comes with a conflict graph (the exact model of Conflict::graph applied to the blamed clauses of the accepted history) in which every edge states a true fact of the provider's data, every node is reachable from the root, and the facts shown in the graph alone, with one-solvable-per-package for forbid-joined nodes, admit no selection that installs the root (the last two are decided on the graph inside the checked model by reachableB and the verified DPLL; an objection is the explicit outcome checkFailed, which has not occurred on any generated case). PROVED (all universes / accepted histories / blamed clause sets): edges_truthful - every edge of the conflict graph built by the exact model of Conflict::graph (Render.buildGraph: same nodes, edges and petgraph insertion order as the real graph) from clauses of an accepted history states a true fact of the provider's data (first sentence of C03, edge by edge); the refutation oracle is exact (verified DPLL on a formula read from the graph alone); learnt clauses of accepted histories are entailed by their recorded antecedents; all clauses of accepted histories have true provenance. CHECKED PER RUN on every Unsolvable answer: each edge of the implementation's ConflictGraph against the provider tables, reachability from the root, graphRefutes, and that the clause ids blamed by the Conflict refute the root on their own and contain no learnt clause. TIE: the edges of the ordered graph model and the message rendered from it equal the real graph's edges and the real message on every generated conflict. NOT PROVED: reachability of every node and refutation for every blamed set (decided exactly per run).",
    },
    "C04": {
        "nt_rule": "any",
        "level": "other", "module": "Resolvo.Props.C04", "imports": ["Resolvo.RenderProofs"],
        "theorems": ["Resolvo.C04.message_rendering_terminates", "Resolvo.C04.message_lines_bounded", "Resolvo.Render.stepOp_decreases", "Resolvo.Render.runLoop_terminates", "Resolvo.C04.oracle_total"],
        "families": [("solve", SOLVE_Q), ("soft", SOFT_Q), ("conflictfree", CF_Q), ("hints", HINTS_Q), ("cancel-async", {"quick": 6000, "thorough": 100000})],
        "profiles": ["debug", "release"],
        "explanation": "PROVED (conflict rendering, every conflict graph): Render.lean models Conflict::graph with petgraph's index / iteration order, simplify, get_installable_set, get_missing_set and DisplayUnsat; the rendering loop of the model terminates on every graph, cyclic or not (message_rendering_terminates: a potential function decreases with every iteration - an unreported solvable pays for its expansion, stack entries for themselves) and writes a number of lines polynomial in the size of the graph (message_lines_bounded). TIE: the model's message equals the real user-friendly message byte for byte on every generated conflict (tag mdet-message; box-drawing indentation, merged candidates, installable-first ordering included); size oracles on the real message and graphviz output (linear in nodes + edges). CHECKED PER RUN: every case runs under catch_unwind (solve, Conflict::graph, graphviz, display_user_friendly separately), a per-case watchdog (hang = failure) and an address-space limit (runaway output = failure), in debug-assertion and release builds. PROVED: only the totality/correctness of the oracles. NOT PROVED: termination and panic-freedom of the search for all inputs.",
        "assumptions": ["well-formed providers only (WF checked by the driver)"],
    },
    "C05": {
        "nt_rule": "ok_after_learning",
        "level": "proof", "module": "Resolvo.Props.C05", "imports": ["Resolvo.MDet.CheckedProofs", "Resolvo.MDet.Undo"],
        "theorems": ["Resolvo.C05.undo_until_drops_above_level", "Resolvo.MDet.undoUntil_post", "Resolvo.MDet.undoUntil_loop_post", "Resolvo.MDet.runM_undoLast_ok", "Resolvo.MDet.solveChecked_ok_supported", "Resolvo.C05.supportedB_sound", "Resolvo.C05.closure_sound"],
        "families": [("solve", SOLVE_Q), ("soft", SOFT_Q), ("conflictfree", CF_Q), ("hints", HINTS_Q), ("reuse", {"quick": 8000, "thorough": 100000})],
        "explanation": "PROVED (all inputs): every solvable in a solution returned by the checked model is Supported (solveChecked_ok_supported). TIE: exact correspondence of MDet.solve with the real solver (result, solution order, history) + supportedB on every implementation answer. NOT PROVED: that checkFailed never occurs (checked per run); completeness of the closure oracle.",
    },
    "C06": {
        "level": "other", "module": "Resolvo.ModelFacts", "theorems": [], "facts": ["hash_iteration_sites_covered"],
        "repro": [("solve", {"quick": 1500, "thorough": 30000}), ("soft", {"quick": 800, "thorough": 15000}), ("snapshot", {"quick": 800, "thorough": 15000})],
        "families": [("solve", SOLVE_Q)],
        "explanation": "PROVED/CHECKED AT BUILD: the list of source locations that iterate a hash container, re-extracted from /repo on every run, equals the list the model accounts for (ModelFacts.hash_iteration_sites_covered, a decide-checked equality) - a new `for .. in hash_map` is an unmatched obligation; the deterministic model MDet (which has no hash containers at all) reproduces the real solver's result, solution order and complete history exactly. "
                       "EXPLORED AT RUN TIME (what a theorem cannot see: hasher seeds, allocation addresses): every case runs in 3 separate processes and twice per process with fresh solver instances; results, solution order, conflict message text, conflict graph and snapshot contents must be byte-identical.",
        "assumptions": ["ahash RandomState is seeded per process; three processes sample three seeds"],
    },
    "C07": {
        "nt_rule": "preferred",
        "level": "proof", "module": "Resolvo.Props.C07", "imports": ["Resolvo.MDet.CheckedProofs", "Resolvo.Abs.Preferred", "Resolvo.MDet.EncSound"],
        "theorems": ["Resolvo.C07.clause_order_exact_model", "Resolvo.C07.requirement_cache_exact", "Resolvo.MDet.requires_clause_order", "Resolvo.C07.preferred_exact_accepted", "Resolvo.C07.preferred_exact_checked", "Resolvo.C07.never_tries_anything_else",
                     "Resolvo.Abs.accepted_all_agree", "Resolvo.Abs.decision_agrees", "Resolvo.Abs.go_subset_sel",
                     "Resolvo.C07.firstChoice_favored", "Resolvo.C07.firstChoice_ranked", "Resolvo.C07.union_order"],
        "families": [("conflictfree", CF_Q), ("async-cf", {"quick": 6000, "thorough": 100000}), ("solve", SOLVE_Q)],
        "explanation": "PROVED (Lean, all universes / problems without soft requirements / histories): preferred_exact_accepted - if the closure of first choices is a valid selection in which each requirement is met only by its own first choice (preferredConsistent, C07's hypothesis made executable), then every solver history accepted by the decision-guarded abstract system Abs.runOptD that ends in a valid solution ends in exactly that closure, and no other solvable is even tried on the way (never_tries_anything_else). "
                       "The proof is an invariant over the history: every trail entry agrees with the assignment the preferred selection induces - propagation derives only what all models of the clause database satisfy (provenance of clauses, unit reasons, RUP-checked learnt clauses), a decision picks the first undecided candidate (in SolverCache order: favored first, then sort_candidates order, union members as listed) of an unsatisfied requirement of a selected solvable, which is that requirement's first choice. preferred_exact_checked: the checked deterministic model of Solver::solve returns exactly the closure (no further hypothesis). firstChoice_*: what the first choice is. "
                       "TIE: (i) the real solver's complete history is submitted to Abs.runOptD on every generated case (refinement obligation R4, tag mdet-decide-guard: a decision that `decide` cannot produce is rejected) and its answer to validB; (ii) MDet.solve equals the real solver exactly (result, solution order, call log, history), sync and under every async completion order; (iii) the implementation's solution is compared with the closure whenever the hypothesis holds. "
                       "NOT PROVED: that the real decide() always passes the guard (checked per run); termination.",
        "assumptions": ["the verif-hooks history is emitted faithfully", "provider contract WF"],
    },
    "C08": {
        "nt_rule": "bestdirect",
        "level": "proof", "module": "Resolvo.Props.C08", "imports": ["Resolvo.MDet.CheckedProofs", "Resolvo.Abs.BestDirect"],
        "theorems": ["Resolvo.C08.best_direct_accepted", "Resolvo.C08.best_direct_checked", "Resolvo.Abs.best_direct", "Resolvo.Abs.stepD_binv", "Resolvo.Abs.root_decision_agrees",
                     "Resolvo.C08.bestHyp_of_applicable", "Resolvo.C08.with_units_iff", "Resolvo.C08.candNamesB_sound"],
        "families": [("solve", SOLVE_Q), ("conflictfree", CF_Q)],
        "explanation": "PROVED (Lean, all universes / problems without soft requirements / histories): best_direct_accepted - if all root requirements are single version sets and some valid selection contains the first-ranked candidate of each (bestDirectApplicable: decided exactly by the verified DPLL on the verified reference encoding plus one unit clause per first choice, with_units_iff), then every solver history accepted by the decision-guarded abstract system Abs.runOptD that ends in a valid solution ends in a solution containing all those candidates. "
                       "The proof (Abs/BestDirect.lean) is an invariant over the history: split the trail at the oldest decision on a requirement of a solvable other than the root; below the split every entry agrees with the witness selection (decisions on root requirements pick the first undecided candidate, which is the first choice because an earlier candidate can only be false if the witness makes it false; propagation - over clauses the witness satisfies, learnt clauses included - and backjumps with their asserted literals stay inside the witness), and once the split exists every root requirement already has a true candidate below it (the explicit-first part of the decision guard). Conflicts below the direct requirements therefore never downgrade one. best_direct_checked: the same for the checked deterministic model of Solver::solve. "
                       "TIE: the real solver's complete history is submitted to Abs.runOptD on every generated case (tag mdet-decide-guard; the guard now includes explicit-first: a requirement of another solvable is decided on only when every root requirement has been encoded and has a true candidate), its answer to validB; MDet equals the real solver exactly; when the hypothesis holds the implementation's solution must contain every first choice (shapes with conflicts below the root requirements). NOT PROVED: that the real decide() always passes the guard (checked per run); termination.",
        "assumptions": ["provider contract WF (candidates have table entries and carry their package's name: CandsKnown, CandNames - checked by the driver)", "the verif-hooks history is emitted faithfully"],
    },
    "C09": {
        "nt_rule": "calls5",
        "level": "other", "module": "Resolvo.Props.C09", "imports": ["Resolvo.MDet.OnceSpec", "Resolvo.MDet.Causal"],
        "theorems": ["Resolvo.C09.candidates_requested_causally", "Resolvo.C09.queued_tasks_causal", "Resolvo.MDet.Causal.solveRun_kinv", "Resolvo.MDet.Causal.kr_getCandidates", "Resolvo.MDet.Causal.kr_onDependencies", "Resolvo.C09.history_at_most_once", "Resolvo.C09.no_request_twice", "Resolvo.MDet.solveRun_once", "Resolvo.MDet.maintains_solve", "Resolvo.MDet.maintains_getCandidates", "Resolvo.MDet.maintains_getDeps", "Resolvo.C09.at_most_once_cache"],
        "families": [("lazy", LAZY_Q), ("conflictfree", CF_Q), ("soft", SOFT_Q), ("cache", {"quick": 1500, "thorough": 20000}), ("reuse", {"quick": 8000, "thorough": 100000})],
        "explanation": "PROVED (Lean, run level, the whole model of solve, every universe / problem / fuel / cancellation plan and every history of solves on one solver with a synchronous provider): history_at_most_once / no_request_twice - the requests in the provider call log are pairwise distinct (get_candidates never twice for a package, get_dependencies never twice for a solvable) and everything requested is answered from the cache from then on (invariant `Once` maintained by every function of the model, MDet/OnceSpec.lean); cache-level at-most-once (at_most_once_cache). The structured call log of the theorem renders to the model's call log (tag mdet-ghost), which equals the real solver's log entry by entry on every case. PROVED (same scope, with or without hints): candidates_requested_causally (sync and async, every completion order) - every get_candidates request of a solve was for a package name mentioned by a requirement (any union member) or a constrains entry of the root or of a solvable whose dependencies were already in the cache; queued_tasks_causal - requirement / constraint tasks exist only for solvables whose dependencies have been obtained and that really have that requirement / constraint (invariant KInv carried through every function of the model by a Hoare logic whose contexts are stable under growth of the dependency cache, MDet/Causal.lean; the per-solve request record of the theorem is checked against the call log, tag mdet-ghost). NOT PROVED: causality of get_dependencies requests (needs an invariant on the positive literals of learnt clauses) and exactness on conflict-free problems as theorems. CHECKED PER RUN: causal order and at-most-once of the provider call log of every sync run without hints; exact call-log correspondence of SolverCache with its model.",
    },
    "C10": {
        "nt_rule": "async3",
        "level": "proof", "module": "Resolvo.Props.C10", "theorems": ["Resolvo.C10.at_most_once_candidates", "Resolvo.MDet.asyncStep_cinv", "Resolvo.C10.callbacks_issue_nothing", "Resolvo.C10.request_guard", "Resolvo.MDet.listener_issues_nothing", "Resolvo.MDet.pollCands_spec", "Resolvo.C10.verdict_reference",
                     "Resolvo.C10.at_most_once_dependencies", "Resolvo.C10.at_most_once_dependencies_fresh", "Resolvo.MDet.asyncStep_dinv", "Resolvo.MDet.qr_runCallback", "Resolvo.C10.any_order_valid", "Resolvo.C10.any_order_unsat_sound", "Resolvo.C10.verdict_independent_of_order", "Resolvo.C10.any_order_soft_never_error", "Resolvo.C10.any_order_preferred"],
        "families": [("async", {"quick": 8000, "thorough": 150000}), ("reuse-async", {"quick": 4000, "thorough": 80000}), ("async-cf", {"quick": 4000, "thorough": 80000})],
        "explanation": "MODEL: MDet/Async.lean models Encoder::encode with a suspending provider exactly - FuturesUnordered's ready queue, the in-flight marker and Event listeners of get_or_cache_candidates, try_join_all over the version sets of a requirement, and the executor's quiescent points - for a single-threaded executor that completes one outstanding request at a time; the schedule (completion order) is an input. "
                       "TIE (every async case, incl. asynchronous filter/sort - their gates are modelled as two further suspension stages of a requirement's children): result, solution order, provider call log with the start (c/d) and answer-obtained (C/D) markers and cancellation polls, the executor's event log (`pending <set>` at every quiescent point, `complete <label>`) and the complete solver history are compared for exact equality with the real solver run under the same completion order (FIFO, LIFO, seeded random schedules; also after Cancelled/Unsolvable solves on a reused solver). "
                       "PROVED for the checked model under every completion order (any_order_valid, any_order_unsat_sound, verdict_independent_of_order, any_order_soft_never_error, any_order_preferred: the schedule, the mode and the rest of the solver state are universally quantified): a returned solution is valid per C01, Unsolvable is sound, no two completion orders (nor an async and the sync run) can disagree on the verdict, and compatible first choices are returned exactly. CHECKED PER RUN on every case incl. asynchronous filter/sort: validB on every answer, verdict = verified decideSolvable (= sync verdict), no provider request issued twice within a solve and none repeated once answered, no deadlock (solver pending with nothing outstanding), no panic. PROVED (run level, all universes / problems / solver states / completion orders): along every run of the model's encoder loop no package's candidates are requested twice and every requested package is answered or still in flight (at_most_once_candidates: asyncStep_cinv + the frame lemmas of MDet/Frame.lean showing that the clause-generating callbacks never touch the provider cache); step level: a get_candidates request is issued only when the answer is neither cached nor in flight (request_guard), an await that finds a request in flight issues nothing (listener_issues_nothing); exactness of the verdict reference; the checked-model theorems of C01/C02/C05 apply to the async model's answers as to the sync model's. PROVED as well (run level, every universe / problem / solver state / completion order): along every run of the model's encoder loop the dependencies of no solvable are requested twice (at_most_once_dependencies: asyncStep_dinv - the deps futures that exist are pairwise distinct and belong to processed solvables, a future that has not started has not been requested; the callbacks, the polls of other futures and the executor satisfy the relational specification QR: they only extend the push queue by futures of newly processed solvables). NOT PROVED: termination / deadlock-freedom (evaluated per run: a pending solver with nothing outstanding is a failure), at-most-once for queries issued from inside sort_candidates (in-flight table of fix bd5e696, evaluated per run); waker delivery and cooperative yielding of real multi-threaded executors are outside the model.",
        "assumptions": ["single-threaded executor that wakes a task only when the future it is parked on completes"],
    },
    "C11": {
        "nt_rule": "async3",
        "level": "proof", "module": "Resolvo.Props.C10",
        "theorems": ["Resolvo.C10.quiescent_every_future_started", "Resolvo.MDet.asyncStep_inv", "Resolvo.MDet.reach_inv", "Resolvo.MDet.pollTask_spec",
                     "Resolvo.C10.req_future_starts_every_version_set", "Resolvo.MDet.pollChildren_started", "Resolvo.MDet.pollChild_started"],
        "families": [("async", {"quick": 8000, "thorough": 150000}), ("reuse-async", {"quick": 4000, "thorough": 80000}), ("async-cf", {"quick": 4000, "thorough": 80000}), ("cancel-async", {"quick": 6000, "thorough": 100000})],
        "explanation": "PROVED (Lean, model of Encoder::encode with a suspending provider, all universes / problems / solver states / completion orders): one step of the encoder loop (pending_futures.next() + callback) preserves the invariant that every future pushed so far is still in the ready queue or has been started (asyncStep_inv), hence in every reachable state an empty ready queue - the executor is about to see Pending - means every pushed future has been started: its provider request is outstanding, or it listens to a request in flight, or it is parked on a filter/sort gate (quiescent_every_future_started); one poll of a requirement's future starts every version set of it (req_future_starts_every_version_set): no request waits for the answer to another one. "
                       "TIE: the model is compared with the real solver under the same completion order for exact equality of the set of outstanding requests at every quiescent point (`pending ...` events), the provider call log, and the solver history (FIFO / LIFO / seeded random schedules, also with asynchronous filter/sort and under cancellation). "
                       "ORACLE on the implementation's own log: c11Check requires every get_candidates request implied by dependency information already received to be outstanding or answered at every quiescent point. "
                       "NOT PROVED: that the futures pushed by the callbacks are exactly the requests `implied by the information received` (read off on_dependencies_available; checked per run by c11Check); real multi-threaded executors are outside the model.",
        "assumptions": ["single-threaded executor that wakes a task only when the future it is parked on completes"],
    },
    "C13": {
        "nt_rule": "multi",
        "level": "proof", "module": "Resolvo.Props.C13", "theorems": ["Resolvo.C13.each_valid", "Resolvo.C13.each_verdict"],
        "families": [("reuse", {"quick": 8000, "thorough": 100000}), ("reuse-async", {"quick": 4000, "thorough": 80000})],
        "explanation": "PROVED: in every history of solves on one solver of the checked model (any problems, any outcomes incl. Cancelled and Unsolvable, any cache contents) every returned solution is valid and supported and every Unsolvable verdict is sound. TIE: exact correspondence of whole sync histories (results, solution orders, call logs with polls, solver histories) between MDet and the real solver. CHECKED PER RUN: no refetch of obtained metadata across solves, termination/no deadlock after cancellation with requests in flight (async). NOT PROVED: checkFailed never occurs; termination.",
    },
    "C12": {
        "facts": ['poll_sites_covered'],
        "nt_rule": "cancelled",
        "level": "proof", "module": "Resolvo.Props.C12", "imports": ["Resolvo.MDet.LogSpec", "Resolvo.MDet.GhostSpec"],
        "theorems": ["Resolvo.C12.cancelled_faithful", "Resolvo.C12.cancelled_faithful_log", "Resolvo.MDet.history_ghost", "Resolvo.MDet.solveRun_ghost", "Resolvo.C12.fired_poll_cancels", "Resolvo.C12.every_request_polled", "Resolvo.C12.history_requests_polled",
                     "Resolvo.MDet.solveRun_chunk", "Resolvo.MDet.logspec_solve", "Resolvo.MDet.logspec_encode", "Resolvo.MDet.logspec_propagate", "Resolvo.MDet.logspec_bind",
                     "Resolvo.C12.poll_fires", "Resolvo.C12.poll_transparent", "Resolvo.C12.no_deps_request_after_signal", "Resolvo.C12.no_cands_request_after_signal"],
        "families": [("cancel", {"quick": 8000, "thorough": 150000}), ("cancel-async", {"quick": 6000, "thorough": 100000}), ("reuse-async", {"quick": 4000, "thorough": 80000})],
        "explanation": "PROVED (Lean, run level, for every universe / problem / fuel / solver state - any cancellation plan, warm or cold cache, synchronous provider or asynchronous provider under any completion order - and any history of solves): the entries a solve of the model adds to the provider call log form a chunk (MDet/LogSpec.lean: a relational Hoare logic over the model's monad, closed under sequencing, loops with fuel, for-loops with early exit; one lemma per function of State/Encode/Async/Solve, ~70 functions) such that "
                       "(cancelled_faithful) if solve ends Cancelled(v), the newest log entry is a poll that returned a value, v is the value of that very poll and no other poll of the solve returned one - nothing is started or even logged after cancellation was observed; (fired_poll_cancels) if any poll returned a value the solve ends Cancelled with it - never a solution or a conflict instead; (every_request_polled / history_requests_polled) every get_candidates / get_dependencies request is directly preceded by a poll that returned nothing. Step level: poll_fires, poll_transparent, no_*_request_after_signal. "
                       "TIE: the structured log the theorems speak about renders to the model's call log - proved (history_ghost: the twin relation is maintained by every function of the model, sync and async; cancelled_faithful_log restates the theorem on the call log itself) and re-checked on every case (tag mdet-ghost) - which is compared for exact equality - every poll, request and answer marker in order, result and cancellation value - with the real solver's log under cancellation plans drawn from the uncancelled run (signal up at poll k for every k incl. never; signal raised while provider request j is served; persistent and transient), sync and with requests in flight under FIFO/LIFO/random completion orders; the list of poll sites in the source is a decide-checked obligation (poll_sites_covered). "
                       "ORACLES on the implementation's own log: observed signal => Cancelled with that value, no request after observation, no request after the signal went up. NOT PROVED: 'if it never fires, polling has no effect on the result' as a theorem (the model's decisions never read the poll counter; covered by the exact correspondence of uncancelled runs).",
    },
    "C14": {
        "nt_rule": "soft_rejected_or_accepted",
        "level": "other", "module": "Resolvo.Props.C14", "imports": ["Resolvo.MDet.CheckedProofs"],
        "theorems": ["Resolvo.C14.soft_never_error", "Resolvo.C14.soft_result_valid", "Resolvo.C14.softInstallable_sound", "Resolvo.MDet.solveChecked_soft_never_error", "Resolvo.MDet.solveChecked_ok_valid", "Resolvo.C14.exempt_only_affects_lock_exclusion", "Resolvo.C14.never_error"],
        "families": [("soft", SOFT_Q)],
        "profiles": ["debug", "release"],
        "explanation": "PROVED for the checked model (every universe / problem / list of soft solvables in any order / solver state / fuel): soft_never_error - a solvable hard problem never ends Unsolvable; soft_result_valid - the result satisfies C01 for the hard requirements and every accepted soft solvable (dependencies installed, constraints hold, Unknown-dependency solvables rejected, one per package; only accepted soft solvables are exempt from their own package's lock / exclusion) - the first sentence of C14 and `silently skipped`. softInstallable_sound: the oracle of the inclusion sentence only objects with a witness extension that keeps the solution valid. A history accepted by the abstract system never reports Unsolvable for a solvable hard problem; the exemption affects only the lock/exclusion conjunct. THE INCLUSION SENTENCE (a compatible soft solvable is included) is decided per run by softInstallable and has one open known finding (soft-poisoned, see known_findings.json): it is false of the unchanged code when an excluded / locked-out soft solvable was accepted earlier. CHECKED PER RUN on the soft family: validB with exemption, verdict vs verified decideSolvable, history acceptance, no panic (debug and release).",
    },
    "C19": {
        "facts": ['chunk_sizes_positive'],
        "level": "proof",
        "module": "Resolvo.Props.C19",
        "theorems": ["Resolvo.C19.step_refines", "Resolvo.C19.run_represents", "Resolvo.C19.get_refines",
                     "Resolvo.C19.iter_complete", "Resolvo.C19.iter_sorted", "Resolvo.C19.iter_nodup",
                     "Resolvo.C19.len_eq_iter_length", "Resolvo.C19.isEmpty_iff", "Resolvo.C19.serde_roundtrip"],
        "families": [("mapping", {"quick": 8000, "thorough": 200000})],
        "assumptions": ["the stored values serialise injectively and never as JSON `null` (serde_json cannot tell Some(None) / Some(()) from an empty slot in the array-of-options format; resolvo itself stores Solvable, VersionSet, Package, String and sets only) - observed by a sub-agent on the unmodified code; outside the quantifier of C19 (histories and id distributions), see DESIGN.md", "the chunk size is the constant re-read from src/internal/mapping.rs on every run (theorems hold for every positive size)",
                        "serde_json's text layer is not modelled: a Mapping is serialised as the list the model says",
                        "pointer-level unsafe code (get_unchecked) is modelled as checked indexing"],
        "trusted_base": [],
    },
    "C15": {
        "level": "proof",
        "module": "Resolvo.Props.C15",
        "imports": ["Resolvo.Props.C15Model"],
        "theorems": ["Resolvo.C15.amo_sound", "Resolvo.C15.amo_complete_one", "Resolvo.C15.amo_complete_none",
                     "Resolvo.C15.amo_stable", "Resolvo.C15.threshold", "Resolvo.C15.pair_not_valid", "Resolvo.C15.pair_never_ok", "Resolvo.C15.single_never_unsat",
                     "Resolvo.C15.solvable_variable_unique", "Resolvo.C15.tracker_vars_of_package", "Resolvo.C15.forbid_clause_of_package"],
        "families": [("amo", {"quick": 400, "thorough": 6000}), ("amo-solve", {"quick": 1400, "thorough": 28000}), ("solve", SOLVE_Q), ("hints", HINTS_Q), ("reuse", {"quick": 8000, "thorough": 100000})],
        "assumptions": ["helper variables come from a counter distinct from candidate variables (VariableMap::next_id)"],
        "trusted_base": [],
    },
    "C16": {
        "level": "proof", "module": "Resolvo.Props.C16", "imports": ["Resolvo.SubUniverse"],
        "theorems": ["Resolvo.C16.snapshot_solvable_agree", "Resolvo.C16.snapshot_valid_agree", "Resolvo.solvable_agree", "Resolvo.valid_agree", "Resolvo.subAgreeB_sound",
                     "Resolvo.C16.added_fresh", "Resolvo.C16.added_distinct", "Resolvo.C16.captured_resolves", "Resolvo.C16.added_resolves",
                     "Resolvo.C16.mapping_roundtrip", "Resolvo.C16.closure_mono"],
        "families": [("snapshot", {"quick": 5000, "thorough": 100000})],
        "explanation": "PROVED (Lean, spec level, all universes / problems / snapshots / added version sets): if the captured solvables and version sets pass the closure certificate subAgreeB (the part is closed under `candidates of a version set` and `version sets of the requirements and constrains of a solvable`, contains what the problem mentions, and the universe the snapshot denotes gives the live provider's answers on it), then the problem is solvable for the snapshot iff it is solvable for the live provider (snapshot_solvable_agree: same verdict) and a selection of captured solvables is valid for the snapshot iff it is valid against the live data (snapshot_valid_agree); ids of added version sets never alias captured ids or each other; every captured id incl. the highest resolves to the captured set and every added id to its added set; Mapping serde round-trip keeps contents (C19). With C01/C02 for the solver run on the snapshot provider this gives verdict and validity through a snapshot. "
                       "TIE / CHECKED PER RUN: the real snapshot equals the model's capture field by field (solvables with name / order / hint / dependencies, version sets with matching sets, unions with their members in the provider's order, packages with candidate order and exclusions, strings), before and after serde_json round-trip; the certificate is evaluated on every generated snapshot (tag closure-certificate) and solutions must consist of captured solvables; "
                       "verdict through the snapshot and through the deserialised snapshot = verified decideSolvable on the live data (with the added version sets), solutions valid against the live data, ids returned by add_package_requirement fresh; preference preserved: when the live first choices are mutually compatible (C07) the snapshot must yield exactly them. "
                       "NOT PROVED: that the BFS capture always passes the certificate (fuel sufficiency; evaluated per run), order preservation for arbitrary sort functions (A16: sort induced by one total preorder per package).",
        "assumptions": ["A16: sort_candidates is induced by one per-package key", "favored/locked are not represented by the format"],
    },
    "C17": {
        "facts": ["vector_header_agrees"],
        "level": "other", "module": "Resolvo.Props.C17", "theorems": ["Resolvo.C17.cow_refines", "Resolvo.Cow.run_refines", "Resolvo.Cow.step_refines", "Resolvo.Cow.inv_safe", "Resolvo.C17.layout_agree", "Resolvo.C17.roundUp_of_dvd", "Resolvo.C17.frame"],
        "cpp": [("solve", "conflictfree", {"quick": 800, "thorough": 20000}), ("solve", "lazy", {"quick": 800, "thorough": 20000}),
                ("solve", "soft", {"quick": 800, "thorough": 20000}), ("containers", "containers", {"quick": 3000, "thorough": 60000})],
        "families": [],
        "explanation": "PROVED: Rust and C++ compute the same allocation size, alignment and data offset for every capacity (layout_agree) and list the same header fields (regenerated from both sources); spec-level frame property. "
                       "PROVED (all handle counts, all operation sequences on existing handles): the refcounted heap model of the header's algorithms (share on copy, detach before write, release-then-acquire copy assignment, swap on move, uncounted static empty block) keeps the reference-count invariant, refines the value-semantics spec, never touches a freed block and leaks none (cow_refines). "
                       "EXPLORED (memory safety cannot be carried by a theorem about a model): a C++ translation unit with a table-driven DependencyProvider, linked against the staticlib built from /repo/cpp with clang++ -fsanitize=address,undefined, solves the generated cases through resolvo::solve and must print exactly the Rust API's solution order / error text; generated container operation sequences (incl. self-assignment and push of an own element) run on the real Vector/String with ASan+UBSan+LeakSanitizer and must show the spec's contents after every operation. Three genuine defects found and repaired. "
                       "NOT COVERED: problems with Unknown dependencies (not expressible through the C++ interface), the Rust-side Vector/String operations (Miri), ABI/transmute layout beyond the header arithmetic.",
    },
    "C18": {
        "facts": ['chunk_sizes_positive'],
        "level": "proof", "module": "Resolvo.Props.C18",
        "theorems": ["Resolvo.C18.alloc_dense", "Resolvo.C18.addr_stable", "Resolvo.C18.resolve_stable", "Resolvo.C18.resolve_new",
                     "Resolvo.C18.capacity_never_exceeded", "Resolvo.C18.reachable_inv", "Resolvo.C18.tinv_intern", "Resolvo.C18.intern_twice",
                     "Resolvo.C18.resolve_intern", "Resolvo.C18.ids_injective", "Resolvo.C18.lookup_after_intern", "Resolvo.C18.table_resolve_stable"],
        "families": [("pool", {"quick": 3000, "thorough": 60000})],
        "assumptions": ["same (chunk, offset) means same machine address: Vec::with_capacity(CHUNK) does not reallocate below capacity (capacity_never_exceeded shows it is never exceeded)",
                        "UnsafeCell aliasing rules are not modelled (Miri-explorable, not proved)"],
    },
    "C20": {
        "level": "proof", "module": "Resolvo.Props.C20",
        "theorems": ["Resolvo.C20.partition", "Resolvo.C20.matching_exact", "Resolvo.C20.sorted_members", "Resolvo.C20.sorted_favored", "Resolvo.C20.sorted_unfavored",
                     "Resolvo.C20.sort_is_sorted", "Resolvo.C20.answer_state_independent", "Resolvo.C20.repeat_no_call", "Resolvo.C20.available_iff", "Resolvo.C20.inflight_not_available",
                     "Resolvo.C20.waiter_no_call", "Resolvo.C20.drop_waiter_keeps_request", "Resolvo.C20.one_request_per_package_in_flight"],
        "families": [("cache", {"quick": 6000, "thorough": 100000})],
        "assumptions": ["provider contract: filter_candidates is a pure membership filter that returns what it keeps in input order or (1/5 of the generated providers) in reverse input order - the trait promises no order -, sort_candidates a stable sort by a per-solvable key (the table provider of the harness)"],
    },
}
