#!/usr/bin/env python3
"""run_seeded.py [name...] [--props C01,C02] — applies each seeded patch to /repo, runs the checks, reverts, records detection in meta.json."""
import json, os, subprocess, sys
ROOT = "/verif"
names = [a for a in sys.argv[1:] if not a.startswith("--")]
props_override = None
for a in sys.argv[1:]:
    if a.startswith("--props"):
        props_override = a.split("=", 1)[1].split(",")
if not names:
    names = sorted(x for x in os.listdir(f"{ROOT}/seeded") if os.path.isdir(f"{ROOT}/seeded/{x}"))
for n in names:
    d = f"{ROOT}/seeded/{n}"
    meta = json.load(open(f"{d}/meta.json"))
    props = props_override or [meta["property"]] + meta.get("also_check", [])
    st = subprocess.run(["git", "-C", "/repo", "status", "--porcelain"], capture_output=True, text=True).stdout.strip()
    if st:
        print("repo not clean, abort:", st); sys.exit(2)
    r = subprocess.run(["git", "-C", "/repo", "apply", f"{d}/patch.diff"], capture_output=True, text=True)
    if r.returncode != 0:
        print(n, "patch does not apply:", r.stderr.strip()); continue
    try:
        for p in props:
            out = subprocess.run(["./check", p], cwd=ROOT, capture_output=True, text=True)
            lines = [l for l in out.stdout.splitlines() if l.startswith(("VIOLATION", "OK", "KNOWN"))]
            if out.returncode == 2:
                print(n, p, "no check for this property yet"); continue
            detected = out.returncode != 0
            meta.setdefault("detected_by", {})[p] = {"detected": detected, "output": lines[:3], "stderr_tail": out.stderr.strip().splitlines()[-2:]}
            print(n, p, "DETECTED" if detected else "missed", lines[:1])
    finally:
        subprocess.run(["git", "-C", "/repo", "checkout", "--", "."])
    json.dump(meta, open(f"{d}/meta.json", "w"), indent=1)
