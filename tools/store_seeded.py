#!/usr/bin/env python3
"""store_seeded.py <ID> <variant> <property> "<needs>" "<confirm result line>"  — copies a confirmed mutant into /verif/seeded/."""
import json, os, shutil, sys
mid, var, prop, needs, confirm = sys.argv[1:6]
src = f"/tmp/mut/{mid}/MUT/{var}"
dst = f"/verif/seeded/{mid}-{var}"
os.makedirs(dst, exist_ok=True)
ported = os.path.exists(f"{src}/patch.ported.diff")
shutil.copy(f"{src}/patch.ported.diff" if ported else f"{src}/patch.diff", f"{dst}/patch.diff")
if ported:
    shutil.copy(f"{src}/patch.diff", f"{dst}/patch.original.diff")
shutil.copy(f"{src}/demo.rs", f"{dst}/demo.rs")
if os.path.exists(f"{src}/README.md"):
    shutil.copy(f"{src}/README.md", f"{dst}/README.md")
meta = {"property": prop, "written_by": "independent sub-agent given only the property text and a scratch worktree",
        "needs_to_manifest": needs,
        "ported_to_current_tree": ported,
        "confirmed_by_me": {"how": "tools/confirm_mutant.sh in a scratch worktree of /repo HEAD: demo without patch, full suite with patch, demo with patch", "result": confirm},
        "detected_by": {}}
json.dump(meta, open(f"{dst}/meta.json", "w"), indent=1)
print("stored", dst)
