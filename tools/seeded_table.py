#!/usr/bin/env python3
"""Writes seeded/SUMMARY.md from seeded/*/meta.json."""
import json, os
root = "/verif/seeded"
rows = []
for n in sorted(os.listdir(root)):
    p = os.path.join(root, n, "meta.json")
    if not os.path.exists(p):
        continue
    m = json.load(open(p))
    det = m.get("detected_by", {})
    cells = []
    for pid, d in sorted(det.items()):
        out = (d.get("output") or [""])[0]
        how = "no-failing-input-found (correspondence/obligation)" if "no-failing-input-found" in out else ("failing input" if d.get("detected") else "")
        cells.append(f"{pid}: {'DETECTED ' + how if d.get('detected') else 'missed'}")
    rows.append((n, m.get("property"), m.get("needs_to_manifest", "")[:110], "; ".join(cells) or "not run yet"))
with open(os.path.join(root, "SUMMARY.md"), "w") as f:
    f.write("# Seeded breaking changes and the checks that catch them\n\n| change | breaks | needs | quick-tier result |\n|---|---|---|---|\n")
    for r in rows:
        f.write("| " + " | ".join(str(x).replace("|", "/") for x in r) + " |\n")
print(len(rows), "rows")
