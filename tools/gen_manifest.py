#!/usr/bin/env python3
"""Writes /verif/MANIFEST.json from tools/properties_config.py + tools/manifest_text.py."""
import json, os, sys
ROOT = os.path.dirname(os.path.dirname(os.path.abspath(__file__)))
sys.path.insert(0, os.path.join(ROOT, "tools"))
from properties_config import PROPS
from manifest_text import TEXT, NOT_APPLICABLE, HOOK_COMMITS

ids = [json.loads(l)["id"] for l in open(os.path.join(ROOT, "properties.jsonl"))]
checks = []
for pid in ids:
    if pid not in PROPS or pid not in TEXT:
        continue
    t = TEXT[pid]
    checks.append({
        "property_id": pid,
        "quick_cmd": f"./check {pid} --tier quick",
        "thorough_cmd": f"./check {pid} --tier thorough",
        "evidence_file": f"/verif/evidence/{pid}.json",
        "replay_cmd_template": f"./check {pid} --replay {{path}}",
        "engine": "lean4-proof+correspondence",
        "level_claimed": {"category": PROPS[pid]["level"], "text": t["text"], "design_ref": t.get("design_ref", f"DESIGN.md §6 {pid}")},
        "level_note": t["note"],
        "technique": t["technique"],
    })
na = [{"property_id": pid, "reason": NOT_APPLICABLE.get(pid, "check not built yet in this session; see DESIGN.md §11 build order")}
      for pid in ids if pid not in {c["property_id"] for c in checks}]
manifest = {
    "version": 1,
    "setup_cmd": "./setup.sh",
    "hooks": {
        "guard": "cargo feature `verif-hooks` (off by default)",
        "enable": "the harness depends on resolvo with features = [\"serde\", \"verif-hooks\"] (harness/Cargo.toml); cargo build --offline in /verif/harness",
        "baseline_off_cmd": "cd /repo && cargo test --workspace --no-fail-fast --offline",
        "source_commits": HOOK_COMMITS,
        "add_only": True,
    },
    "engines": [{
        "name": "lean4-proof+correspondence", "path": "/verif/check",
        "serves_properties": [c["property_id"] for c in checks],
        "kind_free_text": "Lean 4 theorems about a hand-written executable model (lean/Resolvo), tied to /repo on every run by a differential correspondence harness (harness/, Rust, calls the real crate in-process) speaking a line protocol with the compiled model driver (lean/Main.lean), plus constants regenerated from the source (tools/extract_constants.py)",
    }],
    "checks": checks,
    "not_applicable": na,
    "notes": "See DESIGN.md. Genuine defects found and repaired are listed in known_findings.json (fixed entries suppress nothing).",
}
json.dump(manifest, open(os.path.join(ROOT, "MANIFEST.json"), "w"), indent=1)
print(f"MANIFEST.json: {len(checks)} checks, {len(na)} not claimed")
