#!/bin/bash
# usage: tools/run_seeded_iso.sh <seeded-name> [prop...]
# Runs the checks against a seeded change WITHOUT touching /repo: a scratch worktree of /repo gets the patch, a scratch
# copy of /verif (sources only) is pointed at it (VERIF_REPO, harness/Cargo.toml), checks run there. Results are printed;
# the scratch copies stay in /tmp/iso for the next call (rebuilds are incremental) - remove /tmp/iso when done.
set -u
NAME=$1; shift
ROOT="$(cd "$(dirname "$0")/.." && pwd)"
ISO=/tmp/iso
mkdir -p $ISO
if [ ! -d $ISO/repo ]; then git -C /repo worktree add -q --detach $ISO/repo HEAD || exit 2; fi
git -C $ISO/repo checkout -q -- . && git -C $ISO/repo clean -fdq
git -C $ISO/repo checkout -q --detach "$(git -C /repo rev-parse HEAD)"
rsync -a --delete --exclude build --exclude replays --exclude .git --exclude 'lean/.lake' --exclude 'harness/target' "$ROOT/" $ISO/verif/
mkdir -p $ISO/verif/lean/.lake
sed -i "s#path = \"/repo\"#path = \"$ISO/repo\"#" $ISO/verif/harness/Cargo.toml
sed -i "s#/repo/Cargo.lock#$ISO/repo/Cargo.lock#; s#/repo/rust-toolchain#$ISO/repo/rust-toolchain#" $ISO/verif/setup.sh
git -C $ISO/repo apply "$ROOT/seeded/$NAME/patch.diff" || { echo "$NAME patch does not apply"; exit 3; }
PROPS="$@"; if [ -z "$PROPS" ]; then PROPS=$(python3 -c "import json;print(json.load(open('$ROOT/seeded/$NAME/meta.json'))['property'])"); fi
cd $ISO/verif
export VERIF_REPO=$ISO/repo
[ -x lean/.lake/build/bin/drv ] || ./setup.sh >/dev/null 2>&1
for p in $PROPS; do
  out=$(./check $p 2>&1 | grep "^VIOLATION\|^OK" | head -2)
  echo "$NAME $p: ${out:-no-verdict}"
done
git -C $ISO/repo checkout -q -- .
