import Resolvo.Data.Mapping
