import Resolvo.Drv.Util
import Resolvo.Drv.Mapping
import Resolvo.Drv.Amo
import Resolvo.Drv.Solve
import Resolvo.Drv.Cache
import Resolvo.Drv.Pool
import Resolvo.Drv.Snapshot
import Resolvo.Drv.Containers
open Resolvo.Drv

def runCase (c : Case) : List String :=
  match c.family with
  | "mapping" => runMapping c.lines
  | "amo" => runAmo c.lines
  | "solve" => runSolve c.lines
  | "cache" => runCache c.lines
  | "pool" => runPool c.lines
  | "snapshot" => runSnapshot c.lines
  | "containers" => runContainers c.lines
  | "soft" => runSolve c.lines
  | "lazy" => runSolve c.lines
  | "hints" => runSolve c.lines
  | "cancel" => runSolve c.lines
  | "cancel-async" => runSolve c.lines
  | "reuse" => runSolve c.lines
  | "reuse-async" => runSolve c.lines
  | "async" => runSolve c.lines
  | "amo-solve" => runSolve c.lines
  | "async-cf" => runSolve c.lines
  | "conflictfree" => runSolve c.lines
  | f => [s!"unknown-family {f}"]

partial def readAll (h : IO.FS.Stream) (acc : Array String) : IO (Array String) := do
  let line ← h.getLine
  if line.isEmpty then return acc
  readAll h (acc.push ((line.dropEndWhile (fun c => c == (Char.ofNat 10) || c == (Char.ofNat 13))).toString))

def main : IO Unit := do
  let stdin ← IO.getStdin
  let lines ← readAll stdin #[]
  let out ← IO.getStdout
  for c in parseCases lines.toList do
    out.putStrLn s!"case {c.id} {c.family}"
    for l in runCase c do
      out.putStrLn l
    out.putStrLn "end"
