import Resolvo.Render
import Resolvo.Abs.Sound
import Resolvo.CacheProofs
/-!
# Every edge of the conflict graph states a true fact of the provider's data (C03 (a))

`Render.buildGraph` is the exact model of `Conflict::graph`. Here: if the clauses it is built from have true
provenance (`Abs.Prov`, which every clause of an accepted history has), then every edge of the graph is true in the
sense of C03: a requires edge's requirement belongs to its source and its target is one of that requirement's
candidates (or the unresolved node, if there are none); constrains, lock and exclusion edges point at solvables that
really are non-matching, locked out or excluded; forbid edges join solvables of one package.
-/
namespace Resolvo.Render
open Resolvo Resolvo.Graph Resolvo.Abs

/-- the requirements / constrains of the solvable (or root) a node stands for -/
def nodeDeps (U : Universe) (P : Problem) : Node → Option (List Req × List Nat)
  | .root => some (P.reqs, P.constraints)
  | .solv s => match U.deps s with | .known reqs cons => some (reqs, cons) | .unknown _ => none
  | _ => none

/-- C03's notion of a true edge -/
def EdgeTrue (U : Universe) (P : Problem) (src dst : Node) : EKind → Prop
  | .req r => (∃ reqs cons, nodeDeps U P src = some (reqs, cons) ∧ r ∈ reqs) ∧
      ((∃ c, dst = .solv c ∧ c ∈ U.reqCands r) ∨ (dst = .unresolved ∧ U.reqCands r = []))
  | .constrains vs => (∃ reqs cons, nodeDeps U P src = some (reqs, cons) ∧ vs ∈ cons) ∧ ∃ t, dst = .solv t ∧ t ∈ U.nonMatching vs
  | .locked l => src = .root ∧ ∃ o p, dst = .solv o ∧ U.pkg? (U.nameOf o) = some p ∧ p.locked = some l ∧ o ≠ l
  | .excluded => ∃ s reason, src = .solv s ∧ dst = .excl reason ∧
      (U.deps s = .unknown reason ∨ ∃ p, U.pkg? (U.nameOf s) = some p ∧ (s, reason) ∈ p.excluded)
  | .forbid => ∃ a b, src = .solv a ∧ dst = .solv b ∧ U.nameOf a = U.nameOf b

/-- invariant of the construction -/
structure GInv (U : Universe) (P : Problem) (g : RG) (last : List (Nat × Nat)) : Prop where
  size : 2 ≤ g.nodes.size
  n0 : g.node 0 = .root
  n1 : g.node 1 = .unresolved
  edges : ∀ e ∈ g.edges.toList, e.1 < g.nodes.size ∧ e.2.1 < g.nodes.size ∧ EdgeTrue U P (g.node e.1) (g.node e.2.1) e.2.2
  last : ∀ name idx, (name, idx) ∈ last → idx < g.nodes.size ∧ ∃ a, g.node idx = .solv a ∧ U.nameOf a = name

theorem node_push_lt (g : RG) (n : Node) (i : Nat) (h : i < g.nodes.size) :
    ({ g with nodes := g.nodes.push n } : RG).node i = g.node i := by
  unfold RG.node
  simp [Array.getD_eq_getD_getElem?, Array.getElem?_push, Nat.ne_of_lt h]

theorem node_push_eq (g : RG) (n : Node) : ({ g with nodes := g.nodes.push n } : RG).node g.nodes.size = n := by
  unfold RG.node
  simp [Array.getD_eq_getD_getElem?]

theorem idxOf?_spec (l : List Node) (n : Node) (i : Nat) (h : l.idxOf? n = some i) : i < l.length ∧ l[i]? = some n := by
  induction l generalizing i with
  | nil => simp [List.idxOf?] at h
  | cons x xs ih =>
    rw [List.idxOf?_cons] at h
    split at h
    · next hx => cases h; simp at hx; simp [hx]
    · next hx =>
      cases hr : xs.idxOf? n with
      | none => rw [hr] at h; simp at h
      | some j =>
        rw [hr] at h
        simp at h
        subst h
        have := ih j hr
        exact ⟨by simp; omega, by simpa using this.2⟩

/-- `addNode` returns an index of the requested node and disturbs nothing -/
theorem addNode_spec (g : RG) (n : Node) :
    (addNode g n).2 < (addNode g n).1.nodes.size ∧ (addNode g n).1.node (addNode g n).2 = n ∧
    g.nodes.size ≤ (addNode g n).1.nodes.size ∧ (∀ i, i < g.nodes.size → (addNode g n).1.node i = g.node i) ∧
    (addNode g n).1.edges = g.edges := by
  unfold addNode
  cases h : g.nodes.toList.idxOf? n with
  | some i =>
    simp only []
    obtain ⟨h1, h2⟩ := idxOf?_spec _ n i h
    refine ⟨by simpa using h1, ?_, Nat.le_refl _, by (intros; first | trivial | rfl), by first | rfl | trivial⟩
    unfold RG.node
    rw [Array.getD_eq_getD_getElem?]
    have : g.nodes[i]? = some n := by simpa using h2
    rw [this]; rfl
  | none =>
    simp only []
    refine ⟨by simp, node_push_eq g n, by simp, fun i hi => node_push_lt g n i hi, by first | rfl | trivial⟩

theorem GInv.of_addNode {U : Universe} {P : Problem} {g : RG} {last : List (Nat × Nat)} (h : GInv U P g last) (n : Node) :
    GInv U P (addNode g n).1 last := by
  obtain ⟨_, _, hsz, hsame, hed⟩ := addNode_spec g n
  refine ⟨Nat.le_trans h.size hsz, ?_, ?_, ?_, ?_⟩
  · rw [hsame 0 (by have := h.size; omega)]; exact h.n0
  · rw [hsame 1 (by have := h.size; omega)]; exact h.n1
  · intro e he
    rw [hed] at he
    obtain ⟨e1, e2, e3⟩ := h.edges e he
    refine ⟨Nat.lt_of_lt_of_le e1 hsz, Nat.lt_of_lt_of_le e2 hsz, ?_⟩
    rw [hsame _ e1, hsame _ e2]; exact e3
  · intro name idx hm
    obtain ⟨l1, a, l2, l3⟩ := h.last name idx hm
    exact ⟨Nat.lt_of_lt_of_le l1 hsz, a, by rw [hsame _ l1]; exact l2, l3⟩

theorem GInv.of_addEdge {U : Universe} {P : Problem} {g : RG} {last : List (Nat × Nat)} (h : GInv U P g last)
    (s d : Nat) (k : EKind) (hs : s < g.nodes.size) (hd : d < g.nodes.size) (ht : EdgeTrue U P (g.node s) (g.node d) k) :
    GInv U P (addEdge g s d k) last := by
  refine ⟨h.size, h.n0, h.n1, ?_, h.last⟩
  intro e he
  unfold addEdge at he
  simp only [Array.toList_push, List.mem_append, List.mem_singleton] at he
  rcases he with he | he
  · exact h.edges e he
  · subst he; exact ⟨hs, hd, ht⟩

theorem mem_sortedCands (U : Universe) (vs c : Nat) : c ∈ sortedCands U vs ↔ c ∈ U.candsOf vs := by
  unfold sortedCands
  rw [mem_favoredFirst, mem_rankSort]

theorem mem_reqSorted (U : Universe) (r : Req) (c : Nat) : c ∈ reqSorted U r ↔ c ∈ U.reqCands r := by
  unfold reqSorted Universe.reqCands
  simp only [List.mem_flatMap]
  constructor
  · rintro ⟨v, hv, hc⟩; exact ⟨v, hv, (mem_sortedCands U v c).mp hc⟩
  · rintro ⟨v, hv, hc⟩; exact ⟨v, hv, (mem_sortedCands U v c).mpr hc⟩

/-- the node a variable stands for, under the provenance facts -/
theorem nodeDeps_of_parent (U : Universe) (P : Problem) (org : Org) (p : Nat) (reqs : List Req) (cons : List Nat)
    (h : oParentDeps U P org p = some (reqs, cons)) : nodeDeps U P (nodeOfOrigin org p) = some (reqs, cons) := by
  unfold oParentDeps at h
  unfold nodeOfOrigin
  cases hl : org.lookup p with
  | none => rw [hl] at h; cases h
  | some o =>
    rw [hl] at h
    cases o with
    | root => simp only [nodeDeps]; exact h
    | forbid n => cases h
    | solvable s => simp only [nodeDeps]; exact h

theorem node_of_solv (org : Org) (v s : Nat) (h : oSolv org v = some s) : nodeOfOrigin org v = .solv s ∧ solvOfOrigin org v = s := by
  unfold oSolv at h
  unfold nodeOfOrigin solvOfOrigin
  cases hl : org.lookup v with
  | none => rw [hl] at h; cases h
  | some o =>
    rw [hl] at h
    cases o with
    | root => cases h
    | forbid n => cases h
    | solvable s' => cases h; exact ⟨rfl, rfl⟩

/-- adding the candidates of a requirement keeps the invariant -/
theorem ginv_addCands (U : Universe) (P : Problem) (r : Req) (src : Node)
    (hsrc : ∃ reqs cons, nodeDeps U P src = some (reqs, cons) ∧ r ∈ reqs) (cands : List Nat) (hc : ∀ c ∈ cands, c ∈ U.reqCands r)
    (g : RG) (last : List (Nat × Nat)) (pn : Nat) (hpn : pn < g.nodes.size) (hnode : g.node pn = src) (h : GInv U P g last) :
    GInv U P (cands.foldl (fun g c => let (g, cn) := addNode g (.solv c); addEdge g pn cn (.req r)) g) last := by
  induction cands generalizing g with
  | nil => exact h
  | cons c rest ih =>
    simp only [List.foldl_cons]
    obtain ⟨a1, a2, a3, a4, _⟩ := addNode_spec g (.solv c)
    have h1 := h.of_addNode (.solv c)
    have hpn' : pn < (addNode g (.solv c)).1.nodes.size := Nat.lt_of_lt_of_le hpn a3
    have h2 := h1.of_addEdge pn (addNode g (.solv c)).2 (.req r) hpn' a1 (by
      rw [a4 pn hpn, hnode, a2]
      exact ⟨hsrc, Or.inl ⟨c, rfl, hc c List.mem_cons_self⟩⟩)
    apply ih (fun c' hc' => hc c' (List.mem_cons_of_mem _ hc')) _ (by simpa [addEdge] using hpn') (by
      have : (addEdge (addNode g (.solv c)).1 pn (addNode g (.solv c)).2 (.req r)).node pn = (addNode g (.solv c)).1.node pn := rfl
      rw [this, a4 pn hpn, hnode]) h2

/-- **one blamed clause with true provenance keeps every edge true** -/
theorem ginv_addClause (U : Universe) (P : Problem) (org : Org) (k : Kind) (hp : KindTrue U P org k)
    (g : RG) (last : List (Nat × Nat)) (h : GInv U P g last) :
    GInv U P (addClause U org (g, last) k).1 (addClause U org (g, last) k).2 := by
  unfold addClause
  cases k with
  | root => exact h
  | learnt i => exact h
  | excluded v reason =>
    obtain ⟨s, hs, hfact⟩ := hp
    simp only []
    obtain ⟨hn, _⟩ := node_of_solv org v s hs
    obtain ⟨a1, a2, a3, a4, _⟩ := addNode_spec g (nodeOfOrigin org v)
    obtain ⟨b1, b2, b3, b4, _⟩ := addNode_spec (addNode g (nodeOfOrigin org v)).1 (.excl reason)
    have h2 := (h.of_addNode (nodeOfOrigin org v)).of_addNode (.excl reason)
    apply h2.of_addEdge _ _ _ (Nat.lt_of_lt_of_le a1 b3) b1
    rw [b4 _ a1, a2, b2, hn]
    exact ⟨s, reason, rfl, rfl, hfact⟩
  | requires p r =>
    obtain ⟨reqs, cons, h1, h2⟩ := hp
    simp only []
    have hnd := nodeDeps_of_parent U P org p reqs cons h1
    obtain ⟨a1, a2, a3, a4, _⟩ := addNode_spec g (nodeOfOrigin org p)
    have hg1 := h.of_addNode (nodeOfOrigin org p)
    split
    · next hemp =>
      have hsz := hg1.size
      apply hg1.of_addEdge _ 1 _ a1 (by omega)
      rw [a2, hg1.n1]
      refine ⟨⟨reqs, cons, hnd, h2⟩, Or.inr ⟨rfl, ?_⟩⟩
      cases hrc : U.reqCands r with
      | nil => rfl
      | cons c rest =>
        exfalso
        have : c ∈ reqSorted U r := (mem_reqSorted U r c).mpr (by rw [hrc]; exact List.mem_cons_self)
        have hnil : reqSorted U r = [] := by simpa using hemp
        rw [hnil] at this; cases this
    · exact ginv_addCands U P r (nodeOfOrigin org p) ⟨reqs, cons, hnd, h2⟩ (reqSorted U r)
        (fun c hc => (mem_reqSorted U r c).mp hc) _ last _ a1 a2 hg1
  | lock l o =>
    obtain ⟨ls, os, pk, hl, ho, hpk, hlock, hne⟩ := hp
    simp only []
    obtain ⟨hn, _⟩ := node_of_solv org o os ho
    obtain ⟨_, hls⟩ := node_of_solv org l ls hl
    obtain ⟨a1, a2, a3, a4, _⟩ := addNode_spec g (nodeOfOrigin org o)
    have hg1 := h.of_addNode (nodeOfOrigin org o)
    have hsz := hg1.size
    apply hg1.of_addEdge 0 _ _ (by omega) a1
    rw [hg1.n0, a2, hn, hls]
    exact ⟨rfl, os, pk, rfl, hpk, hlock, hne⟩
  | forbid a hh pos name =>
    obtain ⟨s, hs, hname⟩ := hp
    simp only []
    obtain ⟨hn, _⟩ := node_of_solv org a s hs
    obtain ⟨a1, a2, a3, a4, aed⟩ := addNode_spec g (nodeOfOrigin org a)
    have hg1 := h.of_addNode (nodeOfOrigin org a)
    have hlast' : ∀ nm idx, (nm, idx) ∈ (name, (addNode g (nodeOfOrigin org a)).2) :: last.filter (fun e => e.1 != name) →
        idx < (addNode g (nodeOfOrigin org a)).1.nodes.size ∧ ∃ b, (addNode g (nodeOfOrigin org a)).1.node idx = .solv b ∧ U.nameOf b = nm := by
      intro nm idx hm
      rcases List.mem_cons.mp hm with h1 | h1
      · cases h1; exact ⟨a1, s, by rw [a2, hn], hname⟩
      · exact hg1.last nm idx (List.mem_filter.mp h1).1
    cases hprev : last.lookup name with
    | none =>
      simp only []
      exact ⟨hg1.size, hg1.n0, hg1.n1, hg1.edges, hlast'⟩
    | some pn =>
      simp only []
      have hmem : (name, pn) ∈ last := Resolvo.mem_of_lookup _ _ _ hprev
      obtain ⟨l1, b, l2, l3⟩ := hg1.last name pn hmem
      have hg2 : GInv U P (addEdge (addNode g (nodeOfOrigin org a)).1 pn (addNode g (nodeOfOrigin org a)).2 .forbid) last :=
        hg1.of_addEdge pn _ .forbid l1 a1 (by rw [l2, a2, hn]; exact ⟨b, s, rfl, rfl, l3.trans hname.symm⟩)
      exact ⟨hg2.size, hg2.n0, hg2.n1, hg2.edges, hlast'⟩
  | constrains p c vs =>
    obtain ⟨⟨reqs, cons, h1, h2⟩, t, h3, h4⟩ := hp
    simp only []
    have hnd := nodeDeps_of_parent U P org p reqs cons h1
    obtain ⟨hn, _⟩ := node_of_solv org c t h3
    obtain ⟨a1, a2, a3, a4, _⟩ := addNode_spec g (nodeOfOrigin org p)
    obtain ⟨b1, b2, b3, b4, _⟩ := addNode_spec (addNode g (nodeOfOrigin org p)).1 (nodeOfOrigin org c)
    have hg2 := (h.of_addNode (nodeOfOrigin org p)).of_addNode (nodeOfOrigin org c)
    apply hg2.of_addEdge _ _ _ (Nat.lt_of_lt_of_le a1 b3) b1
    rw [b4 _ a1, a2, b2, hn]
    exact ⟨⟨reqs, cons, hnd, h2⟩, t, rfl, h4⟩

theorem ginv_fold (U : Universe) (P : Problem) (org : Org) (ks : List Kind) (hp : ∀ k ∈ ks, KindTrue U P org k)
    (acc : RG × List (Nat × Nat)) (h : GInv U P acc.1 acc.2) :
    GInv U P (ks.foldl (addClause U org) acc).1 (ks.foldl (addClause U org) acc).2 := by
  induction ks generalizing acc with
  | nil => exact h
  | cons k rest ih =>
    simp only [List.foldl_cons]
    apply ih (fun c hc => hp c (List.mem_cons_of_mem _ hc))
    obtain ⟨g, last⟩ := acc
    exact ginv_addClause U P org k (hp k List.mem_cons_self) g last h

theorem ginv_init (U : Universe) (P : Problem) : GInv U P { nodes := #[.root, .unresolved] } [] :=
  ⟨by simp, rfl, rfl, fun e he => by simp at he, fun _ _ hm => by cases hm⟩

/-- removing the unused unresolved node renames an index but changes no edge (as a relation between nodes) -/
theorem dropUnresolved_edges (U : Universe) (P : Problem) (g : RG) (last : List (Nat × Nat)) (h : GInv U P g last) :
    ∀ x ∈ nodeEdges (dropUnresolved g), EdgeTrue U P x.1 x.2.1 x.2.2 := by
  intro x hx
  unfold dropUnresolved at hx
  split at hx
  · next hinc =>
    -- no edge points at index 1, and none leaves it (its node is `unresolved`, which is the source of no true edge)
    have hnot1 : ∀ e ∈ g.edges.toList, e.1 ≠ 1 ∧ e.2.1 ≠ 1 := by
      intro e he
      obtain ⟨_, _, e3⟩ := h.edges e he
      constructor
      · intro h1
        rw [h1, h.n1] at e3
        cases hk : e.2.2 <;> rw [hk] at e3 <;> simp [EdgeTrue, nodeDeps] at e3
      · intro h1
        have hmem : ∃ i, i < g.edges.size ∧ g.edges[i]? = some e := by
          obtain ⟨i, hi, hie⟩ := List.getElem_of_mem he
          exact ⟨i, by simpa using hi, by simp [← hie]⟩
        obtain ⟨i, hi, hie⟩ := hmem
        have : i ∈ g.inc 1 := by
          unfold RG.inc
          simp only [List.mem_reverse, List.mem_filter, List.mem_range, beq_iff_eq]
          refine ⟨hi, ?_⟩
          unfold RG.dst
          rw [Array.getD_eq_getD_getElem?, hie]; exact h1
        have hempty : g.inc 1 = [] := by simpa using hinc
        rw [hempty] at this; cases this
    dsimp only at hx
    split at hx
    · next hlast =>
      -- only root and unresolved exist
      unfold nodeEdges at hx
      simp only [List.mem_map] at hx
      obtain ⟨e, he, rfl⟩ := hx
      obtain ⟨e1, e2, e3⟩ := h.edges e he
      have hsz : g.nodes.size = 2 := by
        have := h.size
        have h2 : g.nodes.size - 1 = 1 := by simpa using hlast
        omega
      obtain ⟨n1, n2⟩ := hnot1 e he
      have he1 : e.1 = 0 := by omega
      have he2 : e.2.1 = 0 := by omega
      have hn : ∀ i, i = 0 → ({ g with nodes := g.nodes.pop, unresolved := none } : RG).node i = g.node i := by
        intro i hi; subst hi
        unfold RG.node
        simp [Array.getD_eq_getD_getElem?, Array.getElem?_pop, hsz]
      simp only []
      rw [hn _ he1, hn _ he2]; exact e3
    · next hlast =>
      unfold nodeEdges at hx
      simp only [Array.toList_map, List.map_map, List.mem_map, Function.comp_def] at hx
      obtain ⟨e, he, rfl⟩ := hx
      obtain ⟨e1, e2, e3⟩ := h.edges e he
      obtain ⟨n1, n2⟩ := hnot1 e he
      have hsz := h.size
      have hl : g.nodes.size - 1 ≠ 1 := by simpa using hlast
      -- the node behind a renamed index is the node behind the original one
      have hnode : ∀ i, i < g.nodes.size → i ≠ 1 →
          ({ nodes := (g.nodes.set! 1 (g.nodes.getD (g.nodes.size - 1) .root)).pop,
             edges := g.edges.map (fun e => (if e.1 == g.nodes.size - 1 then 1 else e.1, if e.2.1 == g.nodes.size - 1 then 1 else e.2.1, e.2.2)),
             unresolved := none } : RG).node (if i == g.nodes.size - 1 then 1 else i) = g.node i := by
        intro i hi hi1
        unfold RG.node
        by_cases hil : i = g.nodes.size - 1
        · subst hil
          simp only [beq_self_eq_true, if_true]
          simp [Array.getD_eq_getD_getElem?, Array.getElem?_pop, Array.set!_eq_setIfInBounds, Array.getElem?_setIfInBounds]
          have : 1 < g.nodes.size - 1 := by omega
          simp [this]
          have h2 : 1 < g.nodes.size := by omega
          simp [h2]
        · have hb : (i == g.nodes.size - 1) = false := by simpa using hil
          simp only [hb, Bool.false_eq_true, if_false]
          have hlt : i < g.nodes.size - 1 := by omega
          simp [Array.getD_eq_getD_getElem?, Array.getElem?_pop, Array.set!_eq_setIfInBounds, Array.getElem?_setIfInBounds, hlt, Ne.symm hi1]
          rw [Array.getElem_setIfInBounds_ne (h := Ne.symm hi1) (hj := hi)]
          simp [hi]
      simp only []
      rw [hnode _ e1 n1, hnode _ e2 n2]; exact e3
  · -- the unresolved node stays: nothing changes
    unfold nodeEdges at hx
    simp only [List.mem_map] at hx
    obtain ⟨e, he, rfl⟩ := hx
    exact (h.edges e he).2.2

/-- **the graph built from clause kinds that state true facts has only true edges** -/
theorem buildGraph_kinds_true (U : Universe) (P : Problem) (org : Org) (ks : List Kind) (hk : ∀ k ∈ ks, KindTrue U P org k) :
    ∀ x ∈ nodeEdges (buildGraph U org ks), EdgeTrue U P x.1 x.2.1 x.2.2 := by
  unfold buildGraph
  simp only []
  have h := ginv_fold U P org ks hk ({ nodes := #[.root, .unresolved] }, []) (ginv_init U P)
  exact dropUnresolved_edges U P _ _ h

/-- **C03 (a) for the exact model of `Conflict::graph`**: whatever clauses of an accepted history are blamed, every edge
    of the conflict graph built from them states a true fact of the provider's data. -/
theorem buildGraph_edges_true (U : Universe) (P : Problem) (st : St) (hs : SInv U P st) (ids : List Nat)
    (hids : ∀ id ∈ ids, id < st.db.length) :
    ∀ x ∈ nodeEdges (buildGraph U st.origins (ids.map (fun id => (st.db.getD id default).kind))), EdgeTrue U P x.1 x.2.1 x.2.2 := by
  apply buildGraph_kinds_true
  intro k hk
  obtain ⟨id, hid, rfl⟩ := List.mem_map.mp hk
  apply prov_kindTrue
  apply hs.prov
  have hlt := hids id hid
  rw [List.getD_eq_getElem?_getD, List.getElem?_eq_getElem hlt]
  exact List.getElem_mem hlt

end Resolvo.Render
