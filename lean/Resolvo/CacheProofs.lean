import Resolvo.Cache
/-! Lemmas about the `SolverCache` model: partition, stable sort, favored rotation. -/
namespace Resolvo

theorem mem_insertByRank (U : Universe) (x y : Nat) (l : List Nat) :
    y ∈ insertByRank U x l ↔ y = x ∨ y ∈ l := by
  induction l with
  | nil => simp [insertByRank]
  | cons z zs ih =>
    unfold insertByRank
    split
    · simp
    · simp only [List.mem_cons, ih]
      constructor
      · rintro (h | h | h)
        · exact Or.inr (Or.inl h)
        · exact Or.inl h
        · exact Or.inr (Or.inr h)
      · rintro (h | h | h)
        · exact Or.inr (Or.inl h)
        · exact Or.inl h
        · exact Or.inr (Or.inr h)

theorem mem_rankSort (U : Universe) (y : Nat) (l : List Nat) : y ∈ rankSort U l ↔ y ∈ l := by
  unfold rankSort
  induction l with
  | nil => simp
  | cons x xs ih => simp only [List.foldr_cons, mem_insertByRank, ih, List.mem_cons]

theorem length_insertByRank (U : Universe) (x : Nat) (l : List Nat) :
    (insertByRank U x l).length = l.length + 1 := by
  induction l with
  | nil => rfl
  | cons z zs ih => unfold insertByRank; split <;> simp [ih]

theorem length_rankSort (U : Universe) (l : List Nat) : (rankSort U l).length = l.length := by
  unfold rankSort
  induction l with
  | nil => rfl
  | cons x xs ih => simp only [List.foldr_cons, length_insertByRank, ih, List.length_cons]

/-- sortedness of the provider's sort: ranks are non-decreasing -/
def RankSorted (U : Universe) (l : List Nat) : Prop := l.Pairwise (fun a b => U.rank a ≤ U.rank b)

theorem insertByRank_sorted (U : Universe) (x : Nat) (l : List Nat) (h : RankSorted U l) :
    RankSorted U (insertByRank U x l) := by
  induction l with
  | nil => simp [insertByRank, RankSorted]
  | cons z zs ih =>
    unfold RankSorted at h
    rw [List.pairwise_cons] at h
    unfold insertByRank
    split
    · next hle =>
      unfold RankSorted
      rw [List.pairwise_cons]
      refine ⟨?_, List.pairwise_cons.mpr h⟩
      intro b hb
      rcases List.mem_cons.mp hb with rfl | hb
      · exact hle
      · exact Nat.le_trans hle (h.1 b hb)
    · next hnle =>
      unfold RankSorted
      rw [List.pairwise_cons]
      refine ⟨?_, ih h.2⟩
      intro b hb
      rcases (mem_insertByRank U x b zs).mp hb with rfl | hb
      · omega
      · exact h.1 b hb

theorem rankSort_sorted (U : Universe) (l : List Nat) : RankSorted U (rankSort U l) := by
  unfold rankSort
  induction l with
  | nil => simp [RankSorted]
  | cons x xs ih => exact insertByRank_sorted U x _ ih

theorem splitAtFirst_append (f : Nat) (pre post : List Nat) (hpre : f ∉ pre) :
    splitAtFirst f (pre ++ f :: post) = some (pre, post) := by
  induction pre with
  | nil => simp [splitAtFirst]
  | cons p ps ih =>
    have hp : p ≠ f := fun e => hpre (by simp [e])
    have hps : f ∉ ps := fun h => hpre (List.mem_cons_of_mem _ h)
    simp only [List.cons_append, splitAtFirst]
    have : (p == f) = false := by simp [hp]
    rw [this, ih hps]
    rfl

theorem splitAtFirst_not_mem (f : Nat) (l : List Nat) (h : f ∉ l) : splitAtFirst f l = none := by
  induction l with
  | nil => rfl
  | cons x xs ih =>
    have hx : x ≠ f := fun e => h (by simp [e])
    have hxs : f ∉ xs := fun hm => h (List.mem_cons_of_mem _ hm)
    simp only [splitAtFirst]
    have : (x == f) = false := by simp [hx]
    rw [this, ih hxs]
    rfl

/-- the favored rotation: `pre ++ f :: post ↦ f :: pre ++ post` (relative order of the others unchanged) -/
theorem favoredFirst_split (f : Nat) (pre post : List Nat) (hpre : f ∉ pre) :
    favoredFirst (some f) (pre ++ f :: post) = f :: pre ++ post := by
  unfold favoredFirst
  simp only [splitAtFirst_append f pre post hpre]

theorem favoredFirst_not_mem (f : Nat) (l : List Nat) (h : f ∉ l) : favoredFirst (some f) l = l := by
  unfold favoredFirst
  simp only [splitAtFirst_not_mem f l h]

theorem favoredFirst_none (l : List Nat) : favoredFirst none l = l := rfl

theorem mem_favoredFirst (fav : Option Nat) (l : List Nat) (y : Nat) : y ∈ favoredFirst fav l ↔ y ∈ l := by
  cases fav with
  | none => rfl
  | some f =>
    by_cases hf : f ∈ l
    · obtain ⟨pre, post, hl, hpre⟩ := List.eq_append_cons_of_mem hf
      rw [hl, favoredFirst_split f pre post hpre]
      simp only [List.mem_cons, List.mem_append, List.cons_append]
      constructor
      · rintro (h | h | h)
        · exact Or.inr (Or.inl h)
        · exact Or.inl h
        · exact Or.inr (Or.inr h)
      · rintro (h | h | h)
        · exact Or.inr (Or.inl h)
        · exact Or.inl h
        · exact Or.inr (Or.inr h)
    · rw [favoredFirst_not_mem f l hf]

end Resolvo
