import Resolvo.Spec
/-!
# Model of `SolverCache` answers (`src/solver/cache.rs`)

`matching` / `nonMatching` are `Universe.candsOf` / `Universe.nonMatching` (the provider's
`filter_candidates`). Sorted candidates: the provider's `sort_candidates` (stable sort by
`rank`) followed by `sorted[0..=pos].rotate_right(1)` for the favored candidate.
-/
namespace Resolvo

/-- insertion into a list sorted by `rank`, after all elements with rank ≤ (stable) -/
def insertByRank (U : Universe) (x : Nat) : List Nat → List Nat
  | [] => [x]
  | y :: ys => if U.rank x ≤ U.rank y then x :: y :: ys else y :: insertByRank U x ys

/-- `solvables.sort_by_key(rank)` — a stable sort -/
def rankSort (U : Universe) (l : List Nat) : List Nat := l.foldr (fun x acc => insertByRank U x acc) []
-- note: `foldr` inserts later elements first; `x` (earlier in the input than everything in `acc`)
-- goes before the first element whose rank is ≥ its own, so equal keys keep input order (stable).

/-- `if let Some(pos) = sorted.position(favored) { sorted[0..=pos].rotate_right(1) }` -/
def splitAtFirst (f : Nat) : List Nat → Option (List Nat × List Nat)
  | [] => none
  | x :: xs =>
    if x == f then some ([], xs)
    else match splitAtFirst f xs with
      | some (pre, post) => some (x :: pre, post)
      | none => none

def favoredFirst (fav : Option Nat) (l : List Nat) : List Nat :=
  match fav with
  | some f =>
    match splitAtFirst f l with
    | some (pre, post) => f :: pre ++ post
    | none => l
  | none => l

def pkgFavored (U : Universe) (vs : Nat) : Option Nat :=
  match U.pkg? (U.vsName vs) with | some p => p.favored | none => none

/-- `get_or_cache_sorted_candidates_for_version_set` -/
def sortedCands (U : Universe) (vs : Nat) : List Nat :=
  favoredFirst (pkgFavored U vs) (rankSort U (U.candsOf vs))

/-- `get_or_cache_sorted_candidates(requirement)`: union = concatenation in listed order -/
def reqSorted (U : Universe) (r : Req) : List Nat := (U.reqVersionSets r).flatMap (sortedCands U)

/-- hinted-so-far ∪ fetched: `are_dependencies_available_for` after the candidates of the
    given package names have been fetched and the given solvables' dependencies requested. -/
def hintedBy (p : Pkg) : List Nat :=
  match p.hint with | .none => [] | .all => p.cands | .some l => l

end Resolvo
