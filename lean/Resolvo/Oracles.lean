import Resolvo.Cache
import Resolvo.Enc.Reference
/-!
# Executable oracles evaluated on the implementation's own outputs

Each function decides one property's statement for a concrete universe/problem/answer.
(Those with a proved specification say so; the proofs are in `*Proofs.lean` / `Props/`.)
-/
namespace Resolvo
open Resolvo.Sat

/-! ### C05: support -/

def knownReqs (U : Universe) (s : Nat) : List Req :=
  match U.deps s with | .known reqs _ => reqs | .unknown _ => []

/-- one round: add every selected candidate of a requirement of a supported solvable -/
def supportStep (U : Universe) (sel : List Nat) (sup : List Nat) : List Nat :=
  sup ++ (sel.filter (fun c => !sup.contains c &&
    sup.any (fun s => (knownReqs U s).any (fun r => (U.reqCands r).contains c))))

def supportClosure (U : Universe) (P : Problem) (sel : List Nat) : List Nat :=
  let roots := sel.filter (fun c => P.reqs.any (fun r => (U.reqCands r).contains c) || P.soft.contains c)
  (List.range sel.length).foldl (fun sup _ => supportStep U sel sup) roots

/-- every selected solvable is reachable from the root requirements / accepted soft requirements
    through requirement edges met inside the selection -/
def supportedB (U : Universe) (P : Problem) (sel : List Nat) : Bool :=
  let sup := supportClosure U P sel
  sel.all (fun s => sup.contains s)

/-! ### C07 / C08: preferred candidates -/

def firstChoice (U : Universe) (r : Req) : Option Nat := (reqSorted U r).head?

/-- closure of first choices from the root (none if some requirement has no candidate) -/
def preferredClosure (U : Universe) (P : Problem) (fuel : Nat) : Option (List Nat) :=
  let rec go (fuel : Nat) (todo : List Req) (acc : List Nat) : Option (List Nat) :=
    match fuel, todo with
    | _, [] => some acc
    | 0, _ => none
    | fuel + 1, r :: rest =>
      match firstChoice U r with
      | none => none
      | some c =>
        if acc.contains c then go fuel rest acc
        else match U.deps c with
          | .unknown _ => none
          | .known reqs _ => go fuel (rest ++ reqs) (acc ++ [c])
  go fuel P.reqs []

/-- requirements whose first choice matters: the root's and those of the preferred solvables -/
def preferredReqs (U : Universe) (P : Problem) (pref : List Nat) : List Req :=
  P.reqs ++ pref.flatMap (knownReqs U)

/-- C07's hypothesis: the first choices form a valid selection in which each requirement is met
    only by its own first choice. Returns the preferred set when it holds. -/
def preferredConsistent (U : Universe) (P : Problem) : Option (List Nat) :=
  let nReqs := P.reqs.length + (U.solvs.map (fun s => (knownReqs U s.1).length)).sum + 1
  match preferredClosure U P (nReqs * (U.solvs.length + 2)) with
  | none => none
  | some pref =>
    if validB U P.hard pref [] &&
       (preferredReqs U P pref).all (fun r =>
          match firstChoice U r with
          | some c => (U.reqCands r).all (fun d => d == c || !pref.contains d)
          | none => false)
    then some pref else none

/-! ### C14 (c): a soft requirement is only skipped if it cannot be installed -/

/-- extend `base` by what `todo` still needs: a requirement already met by `base`/`acc` adds nothing, otherwise
    its first choice (and that one's requirements) is added; `none` if something needed cannot be had -/
def extendClosure (U : Universe) (base : List Nat) : Nat → List Req → List Nat → Option (List Nat)
  | _, [], acc => some acc
  | 0, _, _ => none
  | fuel + 1, r :: rest, acc =>
    if (U.reqCands r).any (fun c => base.contains c || acc.contains c) then extendClosure U base fuel rest acc
    else match firstChoice U r with
      | none => none
      | some c =>
        match U.deps c with
        | .unknown _ => none
        | .known reqs _ => extendClosure U base fuel (rest ++ reqs) (acc ++ [c])

/-- the solution `sel` could have been extended by the soft solvable `s` (and first choices for what it needs)
    without touching anything that is installed: then a run for `s` on top of `sel` cannot fail -/
def softInstallable (U : Universe) (P : Problem) (sel exempt : List Nat) (s : Nat) : Option (List Nat) :=
  if sel.contains s || U.excluded s || U.lockedOut s then none
  else match U.deps s with
    | .unknown _ => none
    | .known reqs _ =>
      let nReqs := (U.solvs.map (fun x => (knownReqs U x.1).length)).sum + reqs.length + 1
      match extendClosure U sel (nReqs * (U.solvs.length + 2)) reqs [s] with
      | none => none
      | some ext => if validB U P (sel ++ ext) exempt then some ext else none

def sameSet (a b : List Nat) : Bool := a.all (fun x => b.contains x) && b.all (fun x => a.contains x)

/-- C08: all root requirements single, and some valid solution contains every first choice. -/
def bestDirectApplicable (U : Universe) (P : Problem) : Option (List Nat) :=
  if P.reqs.all (fun r => match r with | .single _ => true | .union _ => false) then
    let fcs := P.reqs.filterMap (firstChoice U)
    if fcs.length == P.reqs.length &&
       decideSat' (encodeAll U P.hard ++ fcs.map (fun c => [(c, true)])) then some fcs else none
  else none

/-! ### C09: causal, at-most-once provider calls (sync log, no hints) -/

def noHints (U : Universe) : Bool := U.pkgs.all (fun np => match np.2.hint with | .none => true | _ => false)

def namesOfDeps (U : Universe) (reqs : List Req) (cons : List Nat) : List Nat :=
  (reqs.flatMap (U.reqVersionSets)).map U.vsName ++ cons.map U.vsName

/-- Walks the call log. State: requirements seen so far, names mentioned so far. -/
def causalCheck (U : Universe) (P : Problem) (calls : List String) : Option String :=
  let rec go (calls : List String) (reqs : List Req) (names : List Nat) (seenC : List Nat) (seenD : List Nat) : Option String :=
    match calls with
    | [] => none
    | c :: rest =>
      if c.startsWith "c" then
        let n := (c.drop 1).toString.toNat?.getD 0
        if seenC.contains n then some s!"get_candidates({n}) requested twice"
        else if !names.contains n then some s!"get_candidates({n}) before any dependency information mentions that name"
        else go rest reqs names (n :: seenC) seenD
      else if c.startsWith "d" then
        let s := (c.drop 1).toString.toNat?.getD 0
        if seenD.contains s then some s!"get_dependencies({s}) requested twice"
        else if !(P.soft.contains s || reqs.any (fun r => (U.reqCands r).contains s)) then
          some s!"get_dependencies({s}) but {s} is not a matching candidate of any requirement obtained so far"
        else match U.deps s with
          | .known rs cs => go rest (reqs ++ rs) (names ++ namesOfDeps U rs cs) seenC (s :: seenD)
          | .unknown _ => go rest reqs names seenC (s :: seenD)
      else go rest reqs names seenC seenD
  go calls P.reqs (namesOfDeps U P.reqs P.constraints) [] []

/-! ### C11: at every quiescent point every implied `get_candidates` request has been issued -/

/-- `events`: `pending a b …` (the outstanding provider requests when the solver returned Pending) and
    `complete x`. `known`: names whose candidates were fetched by earlier solves on the same solver. -/
def c11Check (U : Universe) (P : Problem) (events : List String) (known : List Nat) : Option String :=
  let rec go (evs : List String) (names : List Nat) (doneC : List Nat) : Option String :=
    match evs with
    | [] => none
    | e :: rest =>
      let ws := (e.splitOn " ").filter (· != "")
      match ws with
      | "pending" :: ps =>
        let pend := (ps.filter (·.startsWith "c")).map (fun w => (w.drop 1).toString.toNat?.getD 0)
        match names.find? (fun n => !(doneC.contains n || pend.contains n)) with
        | some n => some s!"the solver is blocked (outstanding: {" ".intercalate ps}) but get_candidates({n}), already implied by dependency information it has received, has not been issued"
        | none => go rest names doneC
      | ["complete", x] =>
        if x.startsWith "c" then go rest names (((x.drop 1).toString.toNat?.getD 0) :: doneC)
        else if x.startsWith "d" then
          let sv := (x.drop 1).toString.toNat?.getD 0
          match U.deps sv with
          | .known rs cs => go rest (names ++ namesOfDeps U rs cs) doneC
          | .unknown _ => go rest names doneC
        else go rest names doneC
      | _ => go rest names doneC
  go events (namesOfDeps U P.reqs P.constraints) known

/-- within one solve every repeated request counts, answered or still in flight -/
def dupWithin (calls : List String) : Option String :=
  let rec go : List String → List String → Option String
    | [], _ => none
    | c :: rest, seen =>
      if c.startsWith "c" || c.startsWith "d" then (if seen.contains c then some c else go rest (c :: seen)) else go rest seen
  go calls []

/-- A provider request repeated although its answer had already been obtained. In asynchronous
    logs `C<n>` / `D<s>` mark the moment the provider's future returned its answer (a request
    abandoned by cancellation may legitimately be issued again); in synchronous logs a request is
    answered at once. -/
def dupCalls (calls : List String) : Option String :=
  let hasMarkers := calls.any (fun c => c.startsWith "C" || c.startsWith "D")
  let rec go : List String → List String → Option String
    | [], _ => none
    | c :: rest, obtained =>
      if c.startsWith "c" || c.startsWith "d" then
        if obtained.contains c then some c
        else go rest (if hasMarkers then obtained else c :: obtained)
      else if c.startsWith "C" then go rest (("c" ++ (c.drop 1).toString) :: obtained)
      else if c.startsWith "D" then go rest (("d" ++ (c.drop 1).toString) :: obtained)
      else go rest obtained
  go calls []

end Resolvo
