import Resolvo.Data.CowVector
/-!
# The refcounted heap model refines the value-semantics spec (C17)

`Inv` is the invariant of the copy-on-write scheme (every live block's reference count equals the
number of handles pointing at it, freed blocks are unreferenced, the static empty block is never
counted, written or freed); `GInv` is the same with *ghost references* held by the temporaries an
operation creates, which lets every operation of the header be verified as the composition of its
primitive steps (`share`, `setHandle`, `dropBlock`, `alloc`, data writes).
-/
namespace Resolvo.Cow

/-! ### list facts -/

theorem count_set (l : List Nat) (i : Nat) (hi : i < l.length) (a b : Nat) :
    (l.set i b).count a + (if l[i] = a then 1 else 0) = l.count a + (if b = a then 1 else 0) := by
  induction l generalizing i with
  | nil => simp at hi
  | cons x xs ih =>
    cases i with
    | zero =>
      simp only [List.set_cons_zero, List.count_cons, List.getElem_cons_zero, beq_iff_eq]
      omega
    | succ j =>
      have hj : j < xs.length := by simpa using hi
      have := ih j hj
      simp only [List.set_cons_succ, List.count_cons, List.getElem_cons_succ, beq_iff_eq]
      omega

theorem count_pos_of_getElem (l : List Nat) (i : Nat) (hi : i < l.length) : 0 < l.count l[i] :=
  List.count_pos_iff.mpr (List.getElem_mem hi)

theorem count_two (l : List Nat) (i j : Nat) (hi : i < l.length) (hj : j < l.length) (hne : i ≠ j)
    (h : l[i] = l[j]) : 2 ≤ l.count l[i] := by
  induction l generalizing i j with
  | nil => simp at hi
  | cons x xs ih =>
    cases i with
    | zero =>
      cases j with
      | zero => exact absurd rfl hne
      | succ j' =>
        have hj' : j' < xs.length := by simpa using hj
        simp only [List.getElem_cons_zero, List.getElem_cons_succ] at h ⊢
        have := count_pos_of_getElem xs j' hj'
        simp only [List.count_cons, beq_self_eq_true, if_true]
        rw [h]; omega
    | succ i' =>
      have hi' : i' < xs.length := by simpa using hi
      cases j with
      | zero =>
        simp only [List.getElem_cons_zero, List.getElem_cons_succ] at h ⊢
        have := count_pos_of_getElem xs i' hi'
        simp only [List.count_cons]
        rw [← h]; simp
      | succ j' =>
        have hj' : j' < xs.length := by simpa using hj
        simp only [List.getElem_cons_succ] at h ⊢
        have := ih i' j' hi' hj' (by omega) h
        simp only [List.count_cons]
        omega


/-! ### accessors after the primitive updates -/

theorem block_setBlock (hp : Heap) (b : Nat) (blk : Block) (c : Nat) (hb : b < hp.blocks.length) :
    (hp.setBlock b blk).block c = if c = b then blk else hp.block c := by
  unfold Heap.block Heap.setBlock
  simp only [List.getD_eq_getElem?_getD, List.getElem?_set]
  by_cases h : c = b
  · subst h; simp [hb]
  · have : ¬ b = c := fun e => h e.symm
    simp [h, this]

@[simp] theorem blocks_length_setBlock (hp : Heap) (b : Nat) (blk : Block) :
    (hp.setBlock b blk).blocks.length = hp.blocks.length := by simp [Heap.setBlock]
@[simp] theorem handles_setBlock (hp : Heap) (b : Nat) (blk : Block) : (hp.setBlock b blk).handles = hp.handles := rfl
@[simp] theorem uaf_setBlock (hp : Heap) (b : Nat) (blk : Block) : (hp.setBlock b blk).uaf = hp.uaf := rfl
@[simp] theorem blocks_setHandle (hp : Heap) (h b : Nat) : (hp.setHandle h b).blocks = hp.blocks := rfl
@[simp] theorem uaf_setHandle (hp : Heap) (h b : Nat) : (hp.setHandle h b).uaf = hp.uaf := rfl
@[simp] theorem block_setHandle (hp : Heap) (h b c : Nat) : (hp.setHandle h b).block c = hp.block c := rfl
@[simp] theorem handles_length_setHandle (hp : Heap) (h b : Nat) :
    (hp.setHandle h b).handles.length = hp.handles.length := by simp [Heap.setHandle]
@[simp] theorem refs_setBlock (hp : Heap) (b : Nat) (blk : Block) (c : Nat) : (hp.setBlock b blk).refs c = hp.refs c := rfl
@[simp] theorem blockOf_setBlock (hp : Heap) (b : Nat) (blk : Block) (h : Nat) : (hp.setBlock b blk).blockOf h = hp.blockOf h := rfl

theorem blockOf_setHandle (hp : Heap) (h b k : Nat) (hh : h < hp.handles.length) :
    (hp.setHandle h b).blockOf k = if k = h then b else hp.blockOf k := by
  unfold Heap.blockOf Heap.setHandle
  simp only [List.getD_eq_getElem?_getD, List.getElem?_set]
  by_cases e : k = h
  · subst e; simp [hh]
  · have : ¬ h = k := fun x => e x.symm
    simp [e, this]

theorem blockOf_eq_getElem (hp : Heap) (h : Nat) (hh : h < hp.handles.length) : hp.blockOf h = hp.handles[h] := by
  unfold Heap.blockOf; simp [List.getD_eq_getElem?_getD, hh]

/-- reference counting of the handle table under `setHandle` -/
theorem refs_setHandle (hp : Heap) (h b c : Nat) (hh : h < hp.handles.length) :
    (hp.setHandle h b).refs c + (if hp.blockOf h = c then 1 else 0) = hp.refs c + (if b = c then 1 else 0) := by
  unfold Heap.refs Heap.setHandle
  rw [blockOf_eq_getElem hp h hh]
  exact count_set hp.handles h hh c b

theorem refs_pos_blockOf (hp : Heap) (h : Nat) (hh : h < hp.handles.length) : 0 < hp.refs (hp.blockOf h) := by
  rw [blockOf_eq_getElem hp h hh]; exact count_pos_of_getElem _ _ hh

theorem refs_two (hp : Heap) (h k : Nat) (hh : h < hp.handles.length) (hk : k < hp.handles.length) (hne : h ≠ k)
    (e : hp.blockOf h = hp.blockOf k) : 2 ≤ hp.refs (hp.blockOf h) := by
  rw [blockOf_eq_getElem hp h hh] at e ⊢
  rw [blockOf_eq_getElem hp k hk] at e
  exact count_two _ _ _ hh hk hne e

theorem block_alloc (hp : Heap) (d : List Nat) (cap c : Nat) :
    (hp.alloc d cap).1.block c = if c = hp.blocks.length then { refcount := 1, data := d, capacity := cap } else hp.block c := by
  unfold Heap.block Heap.alloc
  simp only [List.getD_eq_getElem?_getD]
  by_cases h : c = hp.blocks.length
  · subst h; simp
  · simp only [h, if_false]
    by_cases h2 : c < hp.blocks.length
    · rw [List.getElem?_append_left h2]
    · rw [List.getElem?_eq_none (by simp; omega), List.getElem?_eq_none (by omega)]

@[simp] theorem alloc_snd (hp : Heap) (d : List Nat) (cap : Nat) : (hp.alloc d cap).2 = hp.blocks.length := rfl
@[simp] theorem blocks_length_alloc (hp : Heap) (d : List Nat) (cap : Nat) :
    (hp.alloc d cap).1.blocks.length = hp.blocks.length + 1 := by simp [Heap.alloc]
@[simp] theorem handles_alloc (hp : Heap) (d : List Nat) (cap : Nat) : (hp.alloc d cap).1.handles = hp.handles := rfl
@[simp] theorem uaf_alloc (hp : Heap) (d : List Nat) (cap : Nat) : (hp.alloc d cap).1.uaf = hp.uaf := rfl
@[simp] theorem refs_alloc (hp : Heap) (d : List Nat) (cap c : Nat) : (hp.alloc d cap).1.refs c = hp.refs c := rfl
@[simp] theorem blockOf_alloc (hp : Heap) (d : List Nat) (cap h : Nat) : (hp.alloc d cap).1.blockOf h = hp.blockOf h := rfl

theorem touch_live (hp : Heap) (b : Nat) (h : (hp.block b).freed = false) : hp.touch b = hp := by
  unfold Heap.touch; simp [h]


/-! ### the invariant with ghost references -/

def upd (ex : Nat → Nat) (b v : Nat) : Nat → Nat := fun c => if c = b then v else ex c

structure GInv (hp : Heap) (ex : Nat → Nat) : Prop where
  uaf : hp.uaf = false
  len : 0 < hp.blocks.length
  z_rc : (hp.block 0).refcount = -1
  z_data : (hp.block 0).data = []
  z_live : (hp.block 0).freed = false
  hnd : ∀ h, h < hp.handles.length → hp.blockOf h < hp.blocks.length
  dead : ∀ b, 0 < b → b < hp.blocks.length → (hp.block b).freed = true → hp.refs b = 0 ∧ ex b = 0
  live : ∀ b, 0 < b → b < hp.blocks.length → (hp.block b).freed = false →
    (hp.block b).refcount = ((hp.refs b + ex b : Nat) : Int) ∧ 0 < hp.refs b + ex b
  out : ∀ b, hp.blocks.length ≤ b → ex b = 0
  cap : ∀ b, 0 < b → b < hp.blocks.length → (hp.block b).data.length ≤ (hp.block b).capacity

/-- the invariant between operations: no temporaries -/
def Inv (hp : Heap) : Prop := GInv hp (fun _ => 0)

theorem GInv.congr {hp : Heap} {ex ex' : Nat → Nat} (g : GInv hp ex) (h : ∀ c, ex c = ex' c) : GInv hp ex' := by
  have : ex = ex' := funext h
  rw [← this]; exact g

theorem GInv.handle_live {hp : Heap} {ex : Nat → Nat} (g : GInv hp ex) (h : Nat) (hh : h < hp.handles.length) :
    (hp.block (hp.blockOf h)).freed = false := by
  by_cases hz : hp.blockOf h = 0
  · rw [hz]; exact g.z_live
  · cases hf : (hp.block (hp.blockOf h)).freed with
    | false => rfl
    | true =>
      have := (g.dead _ (by omega) (g.hnd h hh) hf).1
      have := refs_pos_blockOf hp h hh
      omega

theorem GInv.refs_out {hp : Heap} {ex : Nat → Nat} (g : GInv hp ex) (b : Nat) (hb : hp.blocks.length ≤ b) : hp.refs b = 0 := by
  unfold Heap.refs
  rw [List.count_eq_zero]
  intro hm
  obtain ⟨i, hi, e⟩ := List.getElem_of_mem hm
  have := g.hnd i hi
  rw [blockOf_eq_getElem hp i hi, e] at this
  omega

/-! ### primitive steps -/

theorem share_eq (hp : Heap) (b : Nat) (hl : (hp.block b).freed = false) :
    hp.share b = if (hp.block b).refcount > 0 then hp.setBlock b { hp.block b with refcount := (hp.block b).refcount + 1 } else hp := by
  unfold Heap.share
  simp only [touch_live hp b hl]

theorem ginv_share {hp : Heap} {ex : Nat → Nat} (b : Nat) (g : GInv hp ex) (hb : b < hp.blocks.length)
    (hl : (hp.block b).freed = false) : GInv (hp.share b) (upd ex b (ex b + 1)) := by
  rw [share_eq hp b hl]
  by_cases hz : b = 0
  · subst hz
    have : ¬ (hp.block 0).refcount > 0 := by rw [g.z_rc]; omega
    simp only [this, if_false]
    exact { g with
      dead := fun c hc hc2 hf => by have := g.dead c hc hc2 hf; simp [upd, Nat.ne_of_gt hc]; exact this
      live := fun c hc hc2 hf => by have := g.live c hc hc2 hf; simp [upd, Nat.ne_of_gt hc]; exact this
      out := fun c hc => by have := g.out c hc; have hc0 : c ≠ 0 := by omega
                            simp [upd, hc0, this] }
  · have hpos : 0 < b := Nat.pos_of_ne_zero hz
    have hlv := g.live b hpos hb hl
    have hrc : (hp.block b).refcount > 0 := by rw [hlv.1]; omega
    simp only [hrc, if_true]
    refine { uaf := g.uaf, len := by simpa using g.len, z_rc := ?_, z_data := ?_, z_live := ?_, hnd := ?_, dead := ?_, live := ?_, out := ?_, cap := ?_ }
    · rw [block_setBlock _ _ _ _ hb]; simp [Ne.symm hz]; exact g.z_rc
    · rw [block_setBlock _ _ _ _ hb]; simp [Ne.symm hz]; exact g.z_data
    · rw [block_setBlock _ _ _ _ hb]; simp [Ne.symm hz]; exact g.z_live
    · intro h hh; simpa using g.hnd h hh
    · intro c hc hc2 hf
      rw [block_setBlock _ _ _ _ hb] at hf
      by_cases e : c = b
      · subst e; simp [hl] at hf
      · simp only [e, if_false] at hf
        have := g.dead c hc (by simpa using hc2) hf
        simpa [upd, e] using this
    · intro c hc hc2 hf
      rw [block_setBlock _ _ _ _ hb] at hf ⊢
      by_cases e : c = b
      · subst e; simp only [if_true, upd, refs_setBlock]
        constructor
        · rw [hlv.1]; omega
        · omega
      · simp only [e, if_false] at hf ⊢
        have := g.live c hc (by simpa using hc2) hf
        simpa [upd, e] using this
    · intro c hc
      have hc' : hp.blocks.length ≤ c := by simpa using hc
      have := g.out c hc'
      have hcb : c ≠ b := by omega
      simp [upd, this, hcb]
    · intro c hc hc2
      rw [block_setBlock _ _ _ _ hb]
      by_cases e : c = b
      · subst e; simpa using g.cap c hc hb
      · simpa [e] using g.cap c hc (by simpa using hc2)


/-- replacing a counted block by one that satisfies the invariant's clauses for the new ghost count -/
theorem ginv_setBlock {hp : Heap} {ex ex' : Nat → Nat} (b : Nat) (blk' : Block) (g : GInv hp ex)
    (hpos : 0 < b) (hb : b < hp.blocks.length) (hcap : blk'.data.length ≤ blk'.capacity)
    (hothers : ∀ c, c ≠ b → ex' c = ex c)
    (hdead : blk'.freed = true → hp.refs b = 0 ∧ ex' b = 0)
    (hlive : blk'.freed = false → blk'.refcount = ((hp.refs b + ex' b : Nat) : Int) ∧ 0 < hp.refs b + ex' b) :
    GInv (hp.setBlock b blk') ex' := by
  have hz : (0 : Nat) ≠ b := by omega
  refine { uaf := g.uaf, len := by simpa using g.len, z_rc := ?_, z_data := ?_, z_live := ?_, hnd := ?_, dead := ?_, live := ?_, out := ?_, cap := ?_ }
  · rw [block_setBlock _ _ _ _ hb]; simp [hz]; exact g.z_rc
  · rw [block_setBlock _ _ _ _ hb]; simp [hz]; exact g.z_data
  · rw [block_setBlock _ _ _ _ hb]; simp [hz]; exact g.z_live
  · intro h hh; simpa using g.hnd h hh
  · intro c hc hc2 hf
    rw [block_setBlock _ _ _ _ hb] at hf
    by_cases e : c = b
    · subst e; simp only [if_true] at hf; simpa using hdead hf
    · simp only [e, if_false] at hf
      have := g.dead c hc (by simpa using hc2) hf
      rw [hothers c e]; simpa using this
  · intro c hc hc2 hf
    rw [block_setBlock _ _ _ _ hb] at hf ⊢
    by_cases e : c = b
    · subst e; simp only [if_true] at hf ⊢; simpa using hlive hf
    · simp only [e, if_false] at hf ⊢
      have := g.live c hc (by simpa using hc2) hf
      rw [hothers c e]; simpa using this
  · intro c hc
    have hc' : hp.blocks.length ≤ c := by simpa using hc
    rw [hothers c (by omega)]; exact g.out c hc'
  · intro c hc hc2
    rw [block_setBlock _ _ _ _ hb]
    by_cases e : c = b
    · subst e; simpa using hcap
    · simpa [e] using g.cap c hc (by simpa using hc2)

theorem dropBlock_eq (hp : Heap) (b : Nat) (hl : (hp.block b).freed = false) :
    hp.dropBlock b = if (hp.block b).refcount > 0 then
        (if (hp.block b).refcount - 1 == 0 then hp.setBlock b { hp.block b with refcount := 0, freed := true }
         else hp.setBlock b { hp.block b with refcount := (hp.block b).refcount - 1 })
      else hp := by
  unfold Heap.dropBlock
  simp only [touch_live hp b hl]

/-- a temporary releases its reference -/
theorem ginv_drop {hp : Heap} {ex : Nat → Nat} (b : Nat) (g : GInv hp ex) (hb : b < hp.blocks.length)
    (hl : (hp.block b).freed = false) (hex : b = 0 ∨ 0 < ex b) : GInv (hp.dropBlock b) (upd ex b (ex b - 1)) := by
  rw [dropBlock_eq hp b hl]
  by_cases hz : b = 0
  · subst hz
    have : ¬ (hp.block 0).refcount > 0 := by rw [g.z_rc]; omega
    simp only [this, if_false]
    exact { g with
      dead := fun c hc hc2 hf => by have := g.dead c hc hc2 hf; simp [upd, Nat.ne_of_gt hc]; exact this
      live := fun c hc hc2 hf => by have := g.live c hc hc2 hf; simp [upd, Nat.ne_of_gt hc]; exact this
      out := fun c hc => by have := g.out c hc; have hc0 : c ≠ 0 := by omega
                            simp [upd, hc0, this] }
  · have hpos : 0 < b := Nat.pos_of_ne_zero hz
    have hexb : 0 < ex b := by cases hex with | inl h => exact absurd h hz | inr h => exact h
    have hlv := g.live b hpos hb hl
    have hrc : (hp.block b).refcount > 0 := by rw [hlv.1]; omega
    simp only [hrc, if_true]
    by_cases h1 : (hp.block b).refcount - 1 == 0
    · simp only [h1, if_true]
      have h1' : (hp.block b).refcount = 1 := by have := eq_of_beq h1; omega
      apply ginv_setBlock b _ g hpos hb (by simpa using g.cap b hpos hb)
      · intro c hc; simp [upd, hc]
      · intro _; simp only [upd, if_true]
        rw [hlv.1] at h1'
        constructor <;> omega
      · intro hf; simp at hf
    · simp only [h1]
      have h1' : (hp.block b).refcount ≠ 1 := by
        intro e; apply h1; rw [e]; rfl
      apply ginv_setBlock b _ g hpos hb (by simpa using g.cap b hpos hb)
      · intro c hc; simp [upd, hc]
      · intro hf; simp [hl] at hf
      · intro _; simp only [upd, if_true]
        rw [hlv.1] at h1' ⊢
        constructor <;> omega

/-- writing the elements of an exclusively owned block -/
theorem ginv_setData {hp : Heap} {ex : Nat → Nat} (b : Nat) (d : List Nat) (g : GInv hp ex) (hpos : 0 < b)
    (hb : b < hp.blocks.length) (hcap : d.length ≤ (hp.block b).capacity) :
    GInv (hp.setBlock b { hp.block b with data := d }) ex := by
  apply ginv_setBlock b _ g hpos hb (by simpa using hcap) (fun _ _ => rfl)
  · intro hf; exact g.dead b hpos hb (by simpa using hf)
  · intro hf; exact g.live b hpos hb (by simpa using hf)


/-- a handle is re-pointed: the reference it held becomes a ghost reference, a ghost reference to the
    new block becomes the handle's -/
theorem ginv_setHandle {hp : Heap} {ex : Nat → Nat} (h nb : Nat) (g : GInv hp ex) (hh : h < hp.handles.length)
    (hnb : nb < hp.blocks.length) (hl : (hp.block nb).freed = false) (hex : nb = 0 ∨ 0 < ex nb) :
    GInv (hp.setHandle h nb)
      (upd (upd ex nb (ex nb - 1)) (hp.blockOf h) ((upd ex nb (ex nb - 1)) (hp.blockOf h) + 1)) := by
  have hold := g.hnd h hh
  have holdlive := g.handle_live h hh
  have hrefs := fun c => refs_setHandle hp h nb c hh
  have holdpos := refs_pos_blockOf hp h hh
  refine { uaf := g.uaf, len := g.len, z_rc := g.z_rc, z_data := g.z_data, z_live := g.z_live, hnd := ?_, dead := ?_, live := ?_, out := ?_, cap := g.cap }
  · intro k hk
    rw [blockOf_setHandle hp h nb k hh]
    split
    · exact hnb
    · exact g.hnd k (by simpa using hk)
  · intro c hc hc2 hf
    have hf' : (hp.block c).freed = true := hf
    have hcnb : c ≠ nb := by intro e; rw [e, hl] at hf'; cases hf'
    have hcold : c ≠ hp.blockOf h := by intro e; rw [e, holdlive] at hf'; cases hf'
    have := g.dead c hc hc2 hf'
    have hr := hrefs c
    simp only [Ne.symm hcold, Ne.symm hcnb, if_false] at hr
    simp only [upd, hcold, hcnb, if_false]
    omega
  · intro c hc hc2 hf
    have hf' : (hp.block c).freed = false := hf
    have := g.live c hc hc2 hf'
    have hr := hrefs c
    show (hp.block c).refcount = _ ∧ _
    rw [this.1]
    by_cases e1 : hp.blockOf h = c <;> by_cases e2 : nb = c
    · subst e2
      have hexp : 0 < ex nb := by cases hex with | inl z => omega | inr p => exact p
      simp only [e1, if_true] at hr
      simp only [upd, e1, if_true]
      constructor
      · congr 1; omega
      · omega
    · simp only [e1, e2, if_true, if_false] at hr
      have e2' : c ≠ nb := Ne.symm e2
      simp only [upd, e1, e2', if_true, if_false]
      rw [e1] at holdpos
      constructor
      · congr 1; omega
      · omega
    · subst e2
      have hexp : 0 < ex nb := by cases hex with | inl z => omega | inr p => exact p
      have e1' : nb ≠ hp.blockOf h := Ne.symm e1
      simp only [e1, if_true, if_false] at hr
      simp only [upd, e1', if_true, if_false]
      constructor
      · congr 1; omega
      · omega
    · have e1' : c ≠ hp.blockOf h := Ne.symm e1
      have e2' : c ≠ nb := Ne.symm e2
      simp only [e1, e2, if_false] at hr
      simp only [upd, e1', e2', if_false]
      constructor
      · congr 1; omega
      · omega
  · intro c hc
    have hc' : hp.blocks.length ≤ c := hc
    have := g.out c hc'
    have e1 : c ≠ hp.blockOf h := by omega
    have e2 : c ≠ nb := by omega
    simp only [upd, e1, e2, if_false]; exact this

/-- a fresh block owned by a temporary -/
theorem ginv_alloc {hp : Heap} {ex : Nat → Nat} (d : List Nat) (cp : Nat) (g : GInv hp ex) (hd : d.length ≤ cp) :
    GInv (hp.alloc d cp).1 (upd ex hp.blocks.length 1) := by
  have hn := g.refs_out hp.blocks.length (Nat.le_refl _)
  have hexn := g.out hp.blocks.length (Nat.le_refl _)
  have hz : (0 : Nat) ≠ hp.blocks.length := by have := g.len; omega
  refine { uaf := g.uaf, len := by simp, z_rc := ?_, z_data := ?_, z_live := ?_, hnd := ?_, dead := ?_, live := ?_, out := ?_, cap := ?_ }
  · rw [block_alloc]; simp only [hz, if_false]; exact g.z_rc
  · rw [block_alloc]; simp only [hz, if_false]; exact g.z_data
  · rw [block_alloc]; simp only [hz, if_false]; exact g.z_live
  · intro h hh; have := g.hnd h hh; simp; omega
  · intro c hc hc2 hf
    rw [block_alloc] at hf
    by_cases e : c = hp.blocks.length
    · simp [e] at hf
    · simp only [e, if_false] at hf
      have hc3 : c < hp.blocks.length := by simp at hc2; omega
      have := g.dead c hc hc3 hf
      simpa [upd, e] using this
  · intro c hc hc2 hf
    rw [block_alloc] at hf ⊢
    by_cases e : c = hp.blocks.length
    · subst e; simp only [if_true, upd, refs_alloc]; rw [hn]; simp
    · simp only [e, if_false] at hf ⊢
      have hc3 : c < hp.blocks.length := by simp at hc2; omega
      have := g.live c hc hc3 hf
      simpa [upd, e] using this
  · intro c hc
    have hc' : hp.blocks.length + 1 ≤ c := by simpa using hc
    have e : c ≠ hp.blocks.length := by omega
    simp only [upd, e, if_false]; exact g.out c (by omega)
  · intro c hc hc2
    rw [block_alloc]
    by_cases e : c = hp.blocks.length
    · simp [e]; exact hd
    · simp only [e, if_false]
      have hc3 : c < hp.blocks.length := by simp at hc2; omega
      exact g.cap c hc hc3


/-! ### frame facts: reference counting never touches the elements or the handle table -/

theorem handles_share (hp : Heap) (b : Nat) : (hp.share b).handles = hp.handles := by
  unfold Heap.share Heap.touch; dsimp only; split <;> split <;> rfl

theorem handles_dropBlock (hp : Heap) (b : Nat) : (hp.dropBlock b).handles = hp.handles := by
  unfold Heap.dropBlock Heap.touch; dsimp only
  split <;> split <;> (try split) <;> rfl

theorem blocks_length_share (hp : Heap) (b : Nat) : (hp.share b).blocks.length = hp.blocks.length := by
  unfold Heap.share Heap.touch; dsimp only; split <;> split <;> simp [Heap.setBlock]

theorem blocks_length_dropBlock (hp : Heap) (b : Nat) : (hp.dropBlock b).blocks.length = hp.blocks.length := by
  unfold Heap.dropBlock Heap.touch; dsimp only
  split <;> split <;> (try split) <;> simp [Heap.setBlock]

theorem data_share (hp : Heap) (b c : Nat) (hb : b < hp.blocks.length) (hl : (hp.block b).freed = false) :
    ((hp.share b).block c).data = (hp.block c).data := by
  rw [share_eq hp b hl]
  split
  · rw [block_setBlock _ _ _ _ hb]; split
    · next e => subst e; rfl
    · rfl
  · rfl

theorem freed_share (hp : Heap) (b c : Nat) (hb : b < hp.blocks.length) (hl : (hp.block b).freed = false) :
    ((hp.share b).block c).freed = (hp.block c).freed := by
  rw [share_eq hp b hl]
  split
  · rw [block_setBlock _ _ _ _ hb]; split
    · next e => subst e; rfl
    · rfl
  · rfl

theorem data_dropBlock (hp : Heap) (b c : Nat) (hb : b < hp.blocks.length) (hl : (hp.block b).freed = false) :
    ((hp.dropBlock b).block c).data = (hp.block c).data := by
  rw [dropBlock_eq hp b hl]
  split
  · split <;> (rw [block_setBlock _ _ _ _ hb]; split)
    · next e => subst e; rfl
    · rfl
    · next e => subst e; rfl
    · rfl
  · rfl

theorem block_dropBlock_ne (hp : Heap) (b c : Nat) (hb : b < hp.blocks.length) (hl : (hp.block b).freed = false) (hc : c ≠ b) :
    (hp.dropBlock b).block c = hp.block c := by
  rw [dropBlock_eq hp b hl]
  split
  · split <;> (rw [block_setBlock _ _ _ _ hb]; simp [hc])
  · rfl

theorem contents_share (hp : Heap) (b k : Nat) (hb : b < hp.blocks.length) (hl : (hp.block b).freed = false) :
    (hp.share b).contents k = hp.contents k := by
  unfold Heap.contents Heap.blockOf
  rw [handles_share, data_share hp b _ hb hl]

theorem contents_dropBlock (hp : Heap) (b k : Nat) (hb : b < hp.blocks.length) (hl : (hp.block b).freed = false) :
    (hp.dropBlock b).contents k = hp.contents k := by
  unfold Heap.contents Heap.blockOf
  rw [handles_dropBlock, data_dropBlock hp b _ hb hl]

theorem contents_setHandle (hp : Heap) (h nb k : Nat) (hh : h < hp.handles.length) :
    (hp.setHandle h nb).contents k = if k = h then (hp.block nb).data else hp.contents k := by
  unfold Heap.contents
  rw [blockOf_setHandle hp h nb k hh]
  split <;> rfl


/-! ### the operations of the header -/

@[simp] theorem handles_length_share (hp : Heap) (b : Nat) : (hp.share b).handles.length = hp.handles.length := by rw [handles_share]
@[simp] theorem handles_length_dropBlock (hp : Heap) (b : Nat) : (hp.dropBlock b).handles.length = hp.handles.length := by rw [handles_dropBlock]

/-- what an operation must establish: the invariant, the same handle table size, and the new contents -/
structure Post (hp hp' : Heap) (f : Nat → List Nat) : Prop where
  inv : Inv hp'
  len : hp'.handles.length = hp.handles.length
  con : ∀ k, k < hp.handles.length → hp'.contents k = f k

theorem init_post (hp : Heap) (h : Nat) (xs : List Nat) (g : Inv hp) (hh : h < hp.handles.length) :
    Post hp (heapStep hp (.init h xs)) (fun k => if k = h then xs else hp.contents k) := by
  have hold := g.hnd h hh
  have holdlive := g.handle_live h hh
  have g1 := ginv_alloc xs xs.length g (Nat.le_refl _)
  have hnl : ((hp.alloc xs xs.length).1.block hp.blocks.length).freed = false := by rw [block_alloc]; simp
  have g2 := ginv_setHandle h hp.blocks.length g1 hh (by simp) hnl (Or.inr (by simp [upd]))
  have hne : hp.blockOf h ≠ hp.blocks.length := by omega
  have hol2 : (((hp.alloc xs xs.length).1.setHandle h hp.blocks.length).block (hp.blockOf h)).freed = false := by
    rw [block_setHandle, block_alloc]; simp only [hne, if_false]; exact holdlive
  have g3 := ginv_drop (hp.blockOf h) g2 (by simp; omega) hol2 (Or.inr (by simp [upd]))
  refine ⟨?_, ?_, ?_⟩
  · show GInv _ _
    refine GInv.congr g3 ?_
    intro c
    simp only [upd, blockOf_alloc]
    by_cases e1 : c = hp.blockOf h <;> by_cases e2 : c = hp.blocks.length <;> simp [e1, e2, hne]
  · show ((((hp.alloc xs xs.length).1.setHandle h hp.blocks.length)).dropBlock (hp.blockOf h)).handles.length = _
    simp
  · intro k hk
    show ((((hp.alloc xs xs.length).1.setHandle h hp.blocks.length)).dropBlock (hp.blockOf h)).contents k = _
    rw [contents_dropBlock _ _ _ (by simp; omega) hol2, contents_setHandle _ _ _ _ (by simpa using hh)]
    split
    · rw [block_alloc]; simp
    · unfold Heap.contents; rw [blockOf_alloc, block_alloc]
      have := g.hnd k hk
      have : hp.blockOf k ≠ hp.blocks.length := by omega
      simp [this]


/-- the sequence "share the source block, re-point the handle, release the old block" (copy construction
    followed by move assignment; also what copy assignment amounts to) -/
def shareRepoint (hp : Heap) (h gb : Nat) : Heap := ((hp.share gb).setHandle h gb).dropBlock (hp.blockOf h)

theorem shareRepoint_post (hp : Heap) (h g : Nat) (gi : Inv hp) (hh : h < hp.handles.length) (hg : g < hp.handles.length) :
    Post hp (shareRepoint hp h (hp.blockOf g)) (fun k => if k = h then hp.contents g else hp.contents k) := by
  have hold := gi.hnd h hh
  have holdlive := gi.handle_live h hh
  have hgb := gi.hnd g hg
  have hgblive := gi.handle_live g hg
  have g1 := ginv_share (hp.blockOf g) gi hgb hgblive
  have hl1 : ((hp.share (hp.blockOf g)).block (hp.blockOf g)).freed = false := by rw [freed_share _ _ _ hgb hgblive]; exact hgblive
  have g2 := ginv_setHandle h (hp.blockOf g) g1 (by simpa using hh) (by rw [blocks_length_share]; exact hgb) hl1 (Or.inr (by simp [upd]))
  have hbo : (hp.share (hp.blockOf g)).blockOf h = hp.blockOf h := by unfold Heap.blockOf; rw [handles_share]
  have hol2 : (((hp.share (hp.blockOf g)).setHandle h (hp.blockOf g)).block (hp.blockOf h)).freed = false := by
    rw [block_setHandle, freed_share _ _ _ hgb hgblive]; exact holdlive
  have g3 := ginv_drop (hp.blockOf h) g2 (by rw [blocks_setHandle, blocks_length_share]; exact hold) hol2 (Or.inr (by rw [hbo]; simp [upd]))
  refine ⟨?_, ?_, ?_⟩
  · show GInv _ _
    refine GInv.congr g3 ?_
    intro c
    rw [hbo]
    simp only [upd]
    by_cases e1 : c = hp.blockOf h <;> by_cases e2 : c = hp.blockOf g <;> simp [e1, e2]
  · show (((hp.share (hp.blockOf g)).setHandle h (hp.blockOf g)).dropBlock (hp.blockOf h)).handles.length = _
    simp
  · intro k hk
    show (((hp.share (hp.blockOf g)).setHandle h (hp.blockOf g)).dropBlock (hp.blockOf h)).contents k = _
    rw [contents_dropBlock _ _ _ (by rw [blocks_setHandle, blocks_length_share]; exact hold) hol2,
      contents_setHandle _ _ _ _ (by simpa using hh)]
    split
    · rw [data_share _ _ _ hgb hgblive]; rfl
    · rw [contents_share _ _ _ hgb hgblive]

theorem copy_post (hp : Heap) (h g : Nat) (gi : Inv hp) (hh : h < hp.handles.length) (hg : g < hp.handles.length) :
    Post hp (heapStep hp (.copy h g)) (fun k => if k = h then hp.contents g else hp.contents k) :=
  shareRepoint_post hp h g gi hh hg


/-! copy assignment releases the old block *before* it takes the new reference; with distinct blocks the
    two reference-count updates commute, so it is the same heap as `shareRepoint` -/

def dropBlk (blk : Block) : Block :=
  if blk.refcount > 0 then
    (if blk.refcount - 1 == 0 then { blk with refcount := 0, freed := true } else { blk with refcount := blk.refcount - 1 })
  else blk

def shareBlk (blk : Block) : Block := if blk.refcount > 0 then { blk with refcount := blk.refcount + 1 } else blk

theorem setBlock_self (hp : Heap) (b : Nat) (hb : b < hp.blocks.length) : hp.setBlock b (hp.block b) = hp := by
  unfold Heap.setBlock Heap.block
  have : hp.blocks.getD b default = hp.blocks[b] := by simp [List.getD_eq_getElem?_getD, hb]
  rw [this, List.set_getElem_self]

theorem dropBlock_eq' (hp : Heap) (b : Nat) (hb : b < hp.blocks.length) (hl : (hp.block b).freed = false) :
    hp.dropBlock b = hp.setBlock b (dropBlk (hp.block b)) := by
  rw [dropBlock_eq hp b hl]; unfold dropBlk
  split
  · split <;> rfl
  · rw [setBlock_self hp b hb]

theorem share_eq' (hp : Heap) (b : Nat) (hb : b < hp.blocks.length) (hl : (hp.block b).freed = false) :
    hp.share b = hp.setBlock b (shareBlk (hp.block b)) := by
  rw [share_eq hp b hl]; unfold shareBlk
  split
  · rfl
  · rw [setBlock_self hp b hb]

theorem block_setBlock_ne (hp : Heap) (b : Nat) (blk : Block) (c : Nat) (hc : c ≠ b) : (hp.setBlock b blk).block c = hp.block c := by
  unfold Heap.block Heap.setBlock
  simp only [List.getD_eq_getElem?_getD]
  rw [List.getElem?_set_ne (Ne.symm hc)]

theorem setBlock_comm (hp : Heap) (a b : Nat) (x y : Block) (h : a ≠ b) :
    (hp.setBlock a x).setBlock b y = (hp.setBlock b y).setBlock a x := by
  unfold Heap.setBlock
  simp only [List.set_comm _ _ h]

theorem assign_eq_shareRepoint (hp : Heap) (h a b : Nat) (ha : a < hp.blocks.length) (hb : b < hp.blocks.length)
    (hla : (hp.block a).freed = false) (hlb : (hp.block b).freed = false) (hne : a ≠ b) :
    ((hp.dropBlock a).setHandle h b).share b = ((hp.share b).setHandle h b).dropBlock a := by
  have e1 : hp.dropBlock a = hp.setBlock a (dropBlk (hp.block a)) := dropBlock_eq' hp a ha hla
  have e2 : hp.share b = hp.setBlock b (shareBlk (hp.block b)) := share_eq' hp b hb hlb
  rw [e1, e2]
  have hb1 : (((hp.setBlock a (dropBlk (hp.block a))).setHandle h b).block b) = hp.block b := by
    rw [block_setHandle, block_setBlock_ne _ _ _ _ (Ne.symm hne)]
  have ha1 : (((hp.setBlock b (shareBlk (hp.block b))).setHandle h b).block a) = hp.block a := by
    rw [block_setHandle, block_setBlock_ne _ _ _ _ hne]
  rw [share_eq' _ b (by simpa using hb) (by rw [hb1]; exact hlb), dropBlock_eq' _ a (by simpa using ha) (by rw [ha1]; exact hla), hb1, ha1]
  show ((hp.setBlock a _).setBlock b _).setHandle h b = ((hp.setBlock b _).setBlock a _).setHandle h b
  rw [setBlock_comm hp a b _ _ hne]

theorem assign_post (hp : Heap) (h g : Nat) (gi : Inv hp) (hh : h < hp.handles.length) (hg : g < hp.handles.length) :
    Post hp (heapStep hp (.assign h g)) (fun k => if k = h then hp.contents g else hp.contents k) := by
  show Post hp (if hp.blockOf g == hp.blockOf h then hp else ((hp.dropBlock (hp.blockOf h)).setHandle h (hp.blockOf g)).share (hp.blockOf g)) _
  by_cases e : hp.blockOf g = hp.blockOf h
  · simp only [e, beq_self_eq_true, if_true]
    refine ⟨gi, rfl, ?_⟩
    intro k hk
    split
    · next ek => subst ek; unfold Heap.contents; rw [e]
    · rfl
  · have : (hp.blockOf g == hp.blockOf h) = false := by simpa using e
    simp only [this]
    rw [assign_eq_shareRepoint hp h _ _ (gi.hnd h hh) (gi.hnd g hg) (gi.handle_live h hh) (gi.handle_live g hg) (Ne.symm e)]
    exact shareRepoint_post hp h g gi hh hg


/-- a heap with the same blocks and the same reference counts per block satisfies the same invariant -/
theorem ginv_same_blocks {hp hp' : Heap} {ex : Nat → Nat} (g : GInv hp ex) (hb : hp'.blocks = hp.blocks) (hu : hp'.uaf = hp.uaf)
    (hr : ∀ c, hp'.refs c = hp.refs c) (hn : ∀ k, k < hp'.handles.length → hp'.blockOf k < hp.blocks.length) : GInv hp' ex := by
  have hblk : ∀ c, hp'.block c = hp.block c := fun c => by unfold Heap.block; rw [hb]
  refine { uaf := by rw [hu]; exact g.uaf, len := by rw [hb]; exact g.len, z_rc := by rw [hblk]; exact g.z_rc,
           z_data := by rw [hblk]; exact g.z_data, z_live := by rw [hblk]; exact g.z_live,
           hnd := fun k hk => by rw [hb]; exact hn k hk,
           dead := fun c hc hc2 hf => by rw [hr]; exact g.dead c hc (by rw [← hb]; exact hc2) (by rw [← hblk]; exact hf),
           live := fun c hc hc2 hf => by rw [hr, hblk]; exact g.live c hc (by rw [← hb]; exact hc2) (by rw [← hblk]; exact hf),
           out := fun c hc => g.out c (by rw [← hb]; exact hc),
           cap := fun c hc hc2 => by rw [hblk]; exact g.cap c hc (by rw [← hb]; exact hc2) }

theorem move_post (hp : Heap) (h g : Nat) (gi : Inv hp) (hh : h < hp.handles.length) (hg : g < hp.handles.length) :
    Post hp (heapStep hp (.move h g))
      (fun k => if h = g then hp.contents k else if k = g then hp.contents h else if k = h then hp.contents g else hp.contents k) := by
  show Post hp ((hp.setHandle h (hp.blockOf g)).setHandle g (hp.blockOf h)) _
  have hg1 : g < (hp.setHandle h (hp.blockOf g)).handles.length := by simpa using hg
  have hbo1 : (hp.setHandle h (hp.blockOf g)).blockOf g = hp.blockOf g := by
    rw [blockOf_setHandle hp h _ g hh]; split
    · rfl
    · rfl
  have hbk : ∀ k, ((hp.setHandle h (hp.blockOf g)).setHandle g (hp.blockOf h)).blockOf k
      = if k = g then hp.blockOf h else if k = h then hp.blockOf g else hp.blockOf k := by
    intro k
    rw [blockOf_setHandle _ g _ k hg1, blockOf_setHandle hp h _ k hh]
  refine ⟨?_, by simp, ?_⟩
  · refine ginv_same_blocks gi rfl rfl ?_ ?_
    · intro c
      have r1 := refs_setHandle hp h (hp.blockOf g) c hh
      have r2 := refs_setHandle (hp.setHandle h (hp.blockOf g)) g (hp.blockOf h) c hg1
      rw [hbo1] at r2
      omega
    · intro k hk
      rw [hbk]
      split
      · exact gi.hnd h hh
      · split
        · exact gi.hnd g hg
        · exact gi.hnd k (by simpa using hk)
  · intro k hk
    unfold Heap.contents
    rw [hbk]
    show (hp.block _).data = _
    by_cases e : h = g
    · subst e; simp only [if_true]
      split
      · next e2 => subst e2; rfl
      · rfl
    · simp only [e, if_false]
      split
      · rfl
      · split <;> rfl


/-- after `detach` the handle owns its block exclusively, with room for `e` elements; nothing observable changed -/
structure Owned (hp : Heap) (h e : Nat) : Prop where
  pos : 0 < hp.blockOf h
  lt : hp.blockOf h < hp.blocks.length
  rc : (hp.block (hp.blockOf h)).refcount = 1
  room : e ≤ (hp.block (hp.blockOf h)).capacity
  alive : (hp.block (hp.blockOf h)).freed = false

theorem detach_post (hp : Heap) (h e : Nat) (gi : Inv hp) (hh : h < hp.handles.length) (he : (hp.contents h).length ≤ e) :
    Post hp (hp.detach h e) hp.contents ∧ Owned (hp.detach h e) h e := by
  have hold := gi.hnd h hh
  have holdlive := gi.handle_live h hh
  unfold Heap.detach
  simp only [touch_live hp _ holdlive]
  by_cases c : ((hp.block (hp.blockOf h)).refcount == 1 && decide (e ≤ (hp.block (hp.blockOf h)).capacity)) = true
  · simp only [c, if_true]
    simp only [Bool.and_eq_true, beq_iff_eq, decide_eq_true_eq] at c
    refine ⟨⟨gi, rfl, fun _ _ => rfl⟩, ?_⟩
    have hpos : 0 < hp.blockOf h := by
      apply Nat.pos_of_ne_zero; intro z
      have := gi.z_rc; rw [z] at c; omega
    exact ⟨hpos, hold, c.1, c.2, holdlive⟩
  · have c' : ((hp.block (hp.blockOf h)).refcount == 1 && decide (e ≤ (hp.block (hp.blockOf h)).capacity)) = false := by
      cases hc : ((hp.block (hp.blockOf h)).refcount == 1 && decide (e ≤ (hp.block (hp.blockOf h)).capacity)) with
      | false => rfl
      | true => exact absurd hc c
    simp only [c', Bool.false_eq_true, if_false, alloc_snd]
    have g1 := ginv_alloc (hp.block (hp.blockOf h)).data e gi he
    have hnl : ((hp.alloc (hp.block (hp.blockOf h)).data e).1.block hp.blocks.length).freed = false := by rw [block_alloc]; simp
    have g2 := ginv_setHandle h hp.blocks.length g1 hh (by simp) hnl (Or.inr (by simp [upd]))
    have hne : hp.blockOf h ≠ hp.blocks.length := by omega
    have hol2 : (((hp.alloc (hp.block (hp.blockOf h)).data e).1.setHandle h hp.blocks.length).block (hp.blockOf h)).freed = false := by
      rw [block_setHandle, block_alloc]; simp only [hne, if_false]; exact holdlive
    have g3 := ginv_drop (hp.blockOf h) g2 (by simp; omega) hol2 (Or.inr (by simp [upd]))
    have hbo : (((hp.alloc (hp.block (hp.blockOf h)).data e).1.setHandle h hp.blocks.length).dropBlock (hp.blockOf h)).blockOf h = hp.blocks.length := by
      unfold Heap.blockOf; rw [handles_dropBlock]
      exact (blockOf_setHandle _ h _ h (by simpa using hh)).trans (by simp)
    have hnb : (((hp.alloc (hp.block (hp.blockOf h)).data e).1.setHandle h hp.blocks.length).dropBlock (hp.blockOf h)).block hp.blocks.length
        = { refcount := 1, data := (hp.block (hp.blockOf h)).data, capacity := e } := by
      rw [block_dropBlock_ne _ _ _ (by simp; omega) hol2 (Ne.symm hne), block_setHandle, block_alloc]; simp
    refine ⟨⟨?_, ?_, ?_⟩, ?_⟩
    · show GInv _ _
      refine GInv.congr g3 ?_
      intro c
      simp only [upd, blockOf_alloc]
      by_cases e1 : c = hp.blockOf h <;> by_cases e2 : c = hp.blocks.length <;> simp [e1, e2, hne]
    · simp
    · intro k hk
      rw [contents_dropBlock _ _ _ (by simp; omega) hol2, contents_setHandle _ _ _ _ (by simpa using hh)]
      split
      · next ek => subst ek; rw [block_alloc]; simp; rfl
      · unfold Heap.contents; rw [blockOf_alloc, block_alloc]
        have := gi.hnd k hk
        have : hp.blockOf k ≠ hp.blocks.length := by omega
        simp [this]
    · refine ⟨by rw [hbo]; exact gi.len, by rw [hbo, blocks_length_dropBlock]; simp, by rw [hbo, hnb], by rw [hbo, hnb]; exact Nat.le_refl _, by rw [hbo, hnb]⟩

/-- an exclusively owned block is referenced by exactly one handle -/
theorem owned_unique {hp : Heap} {h e : Nat} (gi : Inv hp) (o : Owned hp h e) (hh : h < hp.handles.length)
    (k : Nat) (hk : k < hp.handles.length) (hne : k ≠ h) : hp.blockOf k ≠ hp.blockOf h := by
  intro eq
  have := refs_two hp h k hh hk (Ne.symm hne) eq.symm
  have l := (gi.live _ o.pos o.lt o.alive).1
  rw [o.rc] at l
  omega

/-- writing the elements of the exclusively owned block of `h` -/
theorem write_post (hp : Heap) (h e : Nat) (d : List Nat) (gi : Inv hp) (hh : h < hp.handles.length) (o : Owned hp h e)
    (hd : d.length ≤ e) :
    Post hp ((hp.touch (hp.blockOf h)).setBlock (hp.blockOf h) { hp.block (hp.blockOf h) with data := d })
      (fun k => if k = h then d else hp.contents k) := by
  rw [touch_live hp _ o.alive]
  refine ⟨ginv_setData _ d gi o.pos o.lt (Nat.le_trans hd o.room), rfl, ?_⟩
  intro k hk
  unfold Heap.contents
  rw [blockOf_setBlock, block_setBlock _ _ _ _ o.lt]
  by_cases ek : k = h
  · subst ek; simp
  · have := owned_unique gi o hh k hk ek
    simp only [this, ek, if_false]


theorem Post.trans {hp hp1 hp2 : Heap} {f g : Nat → List Nat} (p1 : Post hp hp1 f) (p2 : Post hp1 hp2 g) : Post hp hp2 g :=
  ⟨p2.inv, p2.len.trans p1.len, fun k hk => p2.con k (by rw [p1.len]; exact hk)⟩

theorem push_post (hp : Heap) (h x : Nat) (gi : Inv hp) (hh : h < hp.handles.length) :
    Post hp (heapStep hp (.push h x)) (fun k => if k = h then hp.contents h ++ [x] else hp.contents k) := by
  obtain ⟨p1, o⟩ := detach_post hp h ((hp.contents h).length + 1) gi hh (Nat.le_succ _)
  have hh1 : h < (hp.detach h ((hp.contents h).length + 1)).handles.length := by rw [p1.len]; exact hh
  have c1 : (hp.detach h ((hp.contents h).length + 1)).contents h = hp.contents h := p1.con h hh
  have p2 := write_post _ h _ ((hp.detach h ((hp.contents h).length + 1)).contents h ++ [x]) p1.inv hh1 o (by rw [c1]; simp)
  have := p1.trans p2
  refine ⟨this.inv, this.len, ?_⟩
  intro k hk
  have e := this.con k hk
  show ((Heap.touch _ _).setBlock _ _).contents k = _
  refine e.trans ?_
  split
  · rw [c1]
  · exact p1.con k hk

theorem set_post (hp : Heap) (h i x : Nat) (gi : Inv hp) (hh : h < hp.handles.length) :
    Post hp (heapStep hp (.set h i x)) (fun k => if k = h then (hp.contents h).set i x else hp.contents k) := by
  obtain ⟨p1, o⟩ := detach_post hp h (hp.contents h).length gi hh (Nat.le_refl _)
  have hh1 : h < (hp.detach h (hp.contents h).length).handles.length := by rw [p1.len]; exact hh
  have c1 : (hp.detach h (hp.contents h).length).contents h = hp.contents h := p1.con h hh
  have p2 := write_post _ h _ (((hp.detach h (hp.contents h).length).contents h).set i x) p1.inv hh1 o (by rw [c1]; simp)
  have := p1.trans p2
  refine ⟨this.inv, this.len, ?_⟩
  intro k hk
  have e := this.con k hk
  show ((Heap.touch _ _).setBlock _ _).contents k = _
  refine e.trans ?_
  split
  · rw [c1]
  · exact p1.con k hk

theorem clear_post (hp : Heap) (h : Nat) (gi : Inv hp) (hh : h < hp.handles.length) :
    Post hp (heapStep hp (.clear h)) (fun k => if k = h then [] else hp.contents k) := by
  have hold := gi.hnd h hh
  have holdlive := gi.handle_live h hh
  show Post hp (if (hp.block (hp.blockOf h)).refcount != 1 then (hp.setHandle h 0).dropBlock (hp.blockOf h)
      else (hp.touch (hp.blockOf h)).setBlock (hp.blockOf h) { hp.block (hp.blockOf h) with data := [] }) _
  by_cases c : (hp.block (hp.blockOf h)).refcount = 1
  · have : ((hp.block (hp.blockOf h)).refcount != 1) = false := by simp [c]
    simp only [this, Bool.false_eq_true, if_false]
    have hpos : 0 < hp.blockOf h := by
      apply Nat.pos_of_ne_zero; intro z
      have := gi.z_rc; rw [z] at c; omega
    exact write_post hp h 0 [] gi hh ⟨hpos, hold, c, Nat.zero_le _, holdlive⟩ (Nat.le_refl _)
  · have : ((hp.block (hp.blockOf h)).refcount != 1) = true := by simp [c]
    simp only [this, if_true]
    have g2 := ginv_setHandle h 0 gi hh gi.len gi.z_live (Or.inl rfl)
    have hol2 : ((hp.setHandle h 0).block (hp.blockOf h)).freed = false := holdlive
    by_cases hz : hp.blockOf h = 0
    · have g3 := ginv_drop (hp.blockOf h) g2 hold hol2 (Or.inl hz)
      refine ⟨?_, by simp, ?_⟩
      · show GInv _ _
        -- block 0 is not counted: any ghost count for it is as good as another
        have g4 : GInv ((hp.setHandle h 0).dropBlock (hp.blockOf h)) (fun c => if c = 0 then 0 else
            (upd (upd (upd (fun _ => 0) 0 ((fun _ => 0) 0 - 1)) (hp.blockOf h) (upd (fun _ => 0) 0 ((fun _ => 0) 0 - 1) (hp.blockOf h) + 1))
              (hp.blockOf h) ((upd (upd (fun _ => 0) 0 ((fun _ => 0) 0 - 1)) (hp.blockOf h) (upd (fun _ => 0) 0 ((fun _ => 0) 0 - 1) (hp.blockOf h) + 1)) (hp.blockOf h) - 1)) c) :=
          { g3 with
            dead := fun c hc hc2 hf => by have := g3.dead c hc hc2 hf; simpa [Nat.ne_of_gt hc] using this
            live := fun c hc hc2 hf => by have := g3.live c hc hc2 hf; simpa [Nat.ne_of_gt hc] using this
            out := fun c hc => by
              have := g3.out c hc
              have hc0 : c ≠ 0 := by have := g3.len; omega
              simpa [hc0] using this }
        refine GInv.congr g4 ?_
        intro c
        by_cases e0 : c = 0
        · simp [e0]
        · simp [e0, upd, hz]
      · intro k hk
        rw [contents_dropBlock (hp.setHandle h 0) _ _ hold hol2, contents_setHandle _ _ _ _ hh]
        split
        · exact gi.z_data
        · rfl
    · have g3 := ginv_drop (hp.blockOf h) g2 hold hol2 (Or.inr (by simp [upd, hz]))
      refine ⟨?_, by simp, ?_⟩
      · show GInv _ _
        refine GInv.congr g3 ?_
        intro c
        simp only [upd]
        by_cases e1 : c = hp.blockOf h <;> by_cases e2 : c = 0 <;> simp [e1, e2, hz]
      · intro k hk
        rw [contents_dropBlock (hp.setHandle h 0) _ _ hold hol2, contents_setHandle _ _ _ _ hh]
        split
        · exact gi.z_data
        · rfl


/-! ### refinement -/

/-- the handles an operation names exist -/
def Op.valid (n : Nat) : Op → Prop
  | .init h _ | .push h _ | .clear h | .set h _ _ => h < n
  | .copy h g | .assign h g | .move h g => h < n ∧ g < n

instance (n : Nat) (op : Op) : Decidable (op.valid n) := by
  cases op <;> unfold Op.valid <;> infer_instance

theorem abs_of_post {hp hp' : Heap} {f : Nat → List Nat} (p : Post hp hp' f) :
    hp'.abs = (List.range hp.handles.length).map f := by
  unfold Heap.abs
  rw [p.len]
  apply List.map_congr_left
  intro k hk
  exact p.con k (List.mem_range.mp hk)

theorem get_abs (hp : Heap) (k : Nat) (hk : k < hp.handles.length) : Spec.get hp.abs k = hp.contents k := by
  unfold Spec.get Heap.abs
  simp [List.getD_eq_getElem?_getD, hk]

theorem put_abs (n : Nat) (c : Nat → List Nat) (h : Nat) (v : List Nat) :
    Spec.put ((List.range n).map c) h v = (List.range n).map (fun k => if k = h then v else c k) := by
  unfold Spec.put
  apply List.ext_getElem
  · simp
  · intro i h1 h2
    simp only [List.length_set, List.length_map, List.length_range] at h1
    simp only [List.getElem_set, List.getElem_map, List.getElem_range]
    by_cases e : h = i
    · simp [e]
    · have : ¬ i = h := fun x => e x.symm
      simp [e, this]

theorem step_refines (hp : Heap) (op : Op) (gi : Inv hp) (hv : op.valid hp.handles.length) :
    Inv (heapStep hp op) ∧ (heapStep hp op).abs = specStep hp.abs op := by
  cases op with
  | init h xs =>
    have p := init_post hp h xs gi hv
    refine ⟨p.inv, ?_⟩
    rw [abs_of_post p]; show _ = Spec.put hp.abs h xs
    unfold Heap.abs; rw [put_abs]
  | copy h g =>
    have p := copy_post hp h g gi hv.1 hv.2
    refine ⟨p.inv, ?_⟩
    rw [abs_of_post p]; show _ = Spec.put hp.abs h (Spec.get hp.abs g)
    rw [get_abs hp g hv.2]; unfold Heap.abs; rw [put_abs]
  | assign h g =>
    have p := assign_post hp h g gi hv.1 hv.2
    refine ⟨p.inv, ?_⟩
    rw [abs_of_post p]; show _ = Spec.put hp.abs h (Spec.get hp.abs g)
    rw [get_abs hp g hv.2]; unfold Heap.abs; rw [put_abs]
  | move h g =>
    have p := move_post hp h g gi hv.1 hv.2
    refine ⟨p.inv, ?_⟩
    rw [abs_of_post p]
    show _ = if h == g then hp.abs else Spec.put (Spec.put hp.abs h (Spec.get hp.abs g)) g (Spec.get hp.abs h)
    by_cases e : h = g
    · simp only [e, beq_self_eq_true, if_true]; rfl
    · have : (h == g) = false := by simpa using e
      simp only [this, Bool.false_eq_true, if_false, e]
      rw [get_abs hp g hv.2, get_abs hp h hv.1]; unfold Heap.abs; rw [put_abs, put_abs]
  | push h x =>
    have p := push_post hp h x gi hv
    refine ⟨p.inv, ?_⟩
    rw [abs_of_post p]; show _ = Spec.put hp.abs h (Spec.get hp.abs h ++ [x])
    rw [get_abs hp h hv]; unfold Heap.abs; rw [put_abs]
  | clear h =>
    have p := clear_post hp h gi hv
    refine ⟨p.inv, ?_⟩
    rw [abs_of_post p]; show _ = Spec.put hp.abs h []
    unfold Heap.abs; rw [put_abs]
  | set h i x =>
    have p := set_post hp h i x gi hv
    refine ⟨p.inv, ?_⟩
    rw [abs_of_post p]; show _ = Spec.put hp.abs h ((Spec.get hp.abs h).set i x)
    rw [get_abs hp h hv]; unfold Heap.abs; rw [put_abs]

theorem handles_length_step (hp : Heap) (op : Op) (gi : Inv hp) (hv : op.valid hp.handles.length) :
    (heapStep hp op).handles.length = hp.handles.length := by
  cases op with
  | init h xs => exact (init_post hp h xs gi hv).len
  | copy h g => exact (copy_post hp h g gi hv.1 hv.2).len
  | assign h g => exact (assign_post hp h g gi hv.1 hv.2).len
  | move h g => exact (move_post hp h g gi hv.1 hv.2).len
  | push h x => exact (push_post hp h x gi hv).len
  | clear h => exact (clear_post hp h gi hv).len
  | set h i x => exact (set_post hp h i x gi hv).len

theorem inv_init (n : Nat) : Inv (Heap.init n) := by
  have hb : ∀ k, (Heap.init n).blockOf k = 0 := by
    intro k; unfold Heap.blockOf Heap.init
    simp only [List.getD_eq_getElem?_getD, List.getElem?_replicate]
    split <;> rfl
  refine { uaf := rfl, len := by simp [Heap.init], z_rc := rfl, z_data := rfl, z_live := rfl, hnd := ?_, dead := ?_, live := ?_, out := fun _ _ => rfl, cap := ?_ }
  · intro k _; rw [hb]; simp [Heap.init]
  · intro b hb1 hb2; simp [Heap.init] at hb2; omega
  · intro b hb1 hb2; simp [Heap.init] at hb2; omega
  · intro b hb1 hb2; simp [Heap.init] at hb2; omega

theorem abs_init (n : Nat) : (Heap.init n).abs = List.replicate n [] := by
  unfold Heap.abs
  have : (Heap.init n).handles.length = n := by simp [Heap.init]
  rw [this]
  apply List.ext_getElem
  · simp
  · intro i h1 h2
    simp only [List.getElem_map, List.getElem_range, List.getElem_replicate]
    unfold Heap.contents Heap.blockOf Heap.init
    simp only [List.getD_eq_getElem?_getD, List.getElem?_replicate]
    split <;> rfl

/-- every sequence of operations on existing handles: the heap model keeps its invariant and denotes
    exactly what the value-semantics spec computes -/
theorem run_refines (ops : List Op) (hp : Heap) (gi : Inv hp) (hv : ∀ op ∈ ops, op.valid hp.handles.length) :
    Inv (ops.foldl heapStep hp) ∧ (ops.foldl heapStep hp).abs = ops.foldl specStep hp.abs := by
  induction ops generalizing hp with
  | nil => exact ⟨gi, rfl⟩
  | cons op ops ih =>
    have h1 := step_refines hp op gi (hv op (by simp))
    have hl := handles_length_step hp op gi (hv op (by simp))
    have := ih (heapStep hp op) h1.1 (fun o ho => by rw [hl]; exact hv o (by simp [ho]))
    simp only [List.foldl_cons]
    rw [← h1.2]; exact this

/-- the invariant rules out what the sanitizers look for: no freed block is ever read or written, no handle
    points at a freed block, and no block is leaked (every live block is reachable from a handle) -/
theorem inv_safe (hp : Heap) (gi : Inv hp) :
    hp.uaf = false ∧ (∀ h, h < hp.handles.length → (hp.block (hp.blockOf h)).freed = false) ∧ hp.leaked = [] := by
  refine ⟨gi.uaf, gi.handle_live, ?_⟩
  unfold Heap.leaked
  rw [List.filter_eq_nil_iff]
  intro b hb
  have hb2 := List.mem_range.mp hb
  by_cases hz : b = 0
  · simp [hz]
  · cases hf : (hp.block b).freed with
    | true => simp
    | false =>
      have := (gi.live b (Nat.pos_of_ne_zero hz) hb2 hf).2
      simp only [Nat.add_zero] at this
      simp [hz, Nat.ne_of_gt this]

end Resolvo.Cow
