/-!
# Model of `Arena` (`src/internal/arena.rs`) and `Pool` (`src/utils/pool.rs`)

`Arena`: append-only storage in chunks of `chunkSize` elements; `alloc` returns the next dense
id; an element with id `i` lives at address `(i / chunkSize, i % chunkSize)` forever.
`Pool`: interning tables built from arenas and insert-only maps (association lists here).
-/
namespace Resolvo.Arena

structure A (α : Type) where
  chunkSize : Nat
  chunks : List (List α)
  len : Nat
deriving Repr

variable {α : Type}

/-- `Arena::with_capacity(n)` (`new` = `with_capacity(1)`) -/
def withCapacity (c n : Nat) : A α :=
  let n := Nat.max 1 n
  { chunkSize := c, chunks := List.replicate ((n + c - 1) / c) [], len := 0 }

/-- `Arena::alloc` -/
def alloc (a : A α) (x : α) : A α × Nat :=
  let id := a.len
  let chunkIdx := id / a.chunkSize
  let chunks := if chunkIdx ≥ a.chunks.length then a.chunks ++ [[]] else a.chunks
  ({ a with chunks := chunks.modify chunkIdx (fun ch => ch ++ [x]), len := id + 1 }, id)

/-- raw read at an address -/
def at? (a : A α) (chunk offset : Nat) : Option α := (a.chunks[chunk]?).bind (fun ch => ch[offset]?)

/-- `Index::index` (`assert!(index < len)`; `none` models the panic) -/
def get? (a : A α) (id : Nat) : Option α :=
  if id < a.len then at? a (id / a.chunkSize) (id % a.chunkSize) else none

end Resolvo.Arena

namespace Resolvo.Pool
open Resolvo.Arena

/-- An interning table: arena of values + insert-only map value ↦ id. -/
structure Tbl (α : Type) where
  arena : A α
  ids : List (α × Nat)
deriving Repr

variable {α : Type} [BEq α]

def Tbl.new (c : Nat) : Tbl α := { arena := withCapacity c 1, ids := [] }

/-- lookup-before-alloc interning -/
def Tbl.intern (t : Tbl α) (x : α) : Tbl α × Nat :=
  match t.ids.lookup x with
  | some id => (t, id)
  | none =>
    let (arena, id) := alloc t.arena x
    ({ arena := arena, ids := (x, id) :: t.ids }, id)

def Tbl.lookup (t : Tbl α) (x : α) : Option Nat := t.ids.lookup x
def Tbl.resolve (t : Tbl α) (id : Nat) : Option α := get? t.arena id

/-- `Pool<VS, N>` with strings for names, naturals for version-set payloads and records. -/
structure P where
  names : Tbl String
  strings : Tbl String
  versionSets : Tbl (Nat × Nat)          -- (name id, version set value)
  solvables : A (Nat × Nat)              -- (name id, record)
  unions : A (List Nat)
deriving Repr

def P.new (c : Nat) : P :=
  { names := Tbl.new c, strings := Tbl.new c, versionSets := Tbl.new c,
    solvables := withCapacity c 1, unions := withCapacity c 1 }

end Resolvo.Pool
