/-!
# Model of `resolvo::Mapping` (`src/internal/mapping.rs`)

A literal, executable model: storage is a list of chunks, each a list of
`chunkSize` option slots; `len` counts occupied slots; `max` is the highest id
ever inserted. Every function mirrors the Rust function of the same name.
The chunk size is a parameter (`Generated/Constants.lean` instantiates it with
the value found in the source); all theorems hold for every positive size.
-/
namespace Resolvo.Mapping

structure M (V : Type) where
  chunkSize : Nat
  chunks : List (List (Option V))
  len : Nat
  max : Nat
deriving Repr

variable {V : Type}

def emptyChunk (c : Nat) : List (Option V) := List.replicate c none

/-- `Mapping::with_capacity(n)`. -/
def withCapacity (c : Nat) (n : Nat) : M V :=
  let n := Nat.max 1 n
  let nChunks := (n - 1) / c + 1
  { chunkSize := c, chunks := List.replicate nChunks (emptyChunk c), len := 0, max := 0 }

/-- `Mapping::new()`. -/
def new (c : Nat) : M V := withCapacity c 1

/-- `chunks.resize_with(n, empty)` when `n` is larger than the current length. -/
def growTo (m : M V) (n : Nat) : List (List (Option V)) :=
  m.chunks ++ List.replicate (n - m.chunks.length) (emptyChunk m.chunkSize)

/-- Raw slot read: `chunks[chunk][offset]` with `None` when out of range. -/
def slotOf (c : Nat) (chunks : List (List (Option V))) (id : Nat) : Option V :=
  match chunks[id / c]? with
  | none => none
  | some ch => (ch[id % c]?).join

def slot (m : M V) (id : Nat) : Option V := slotOf m.chunkSize m.chunks id

/-- `Mapping::get`. -/
def get (m : M V) (id : Nat) : Option V :=
  if id / m.chunkSize ≥ m.chunks.length then none else slot m id

def setSlot (chunks : List (List (Option V))) (c : Nat) (id : Nat) (x : Option V) :
    List (List (Option V)) :=
  chunks.modify (id / c) (fun ch => ch.set (id % c) x)

/-- `Mapping::insert`; returns the new mapping and the previous value. -/
def insert (m : M V) (id : Nat) (v : V) : M V × Option V :=
  let chunk := id / m.chunkSize
  let chunks := if chunk ≥ m.chunks.length then growTo m (chunk + 1) else m.chunks
  let m1 := { m with chunks := chunks }
  let prev := slot m1 id
  ({ m1 with chunks := setSlot chunks m.chunkSize id (some v),
             len := if prev.isNone then m.len + 1 else m.len,
             max := Nat.max m.max id }, prev)

/-- `Mapping::unset`. -/
def unset (m : M V) (id : Nat) : M V × Option V :=
  if id / m.chunkSize ≥ m.chunks.length then (m, none)
  else
    let prev := slot m id
    ({ m with chunks := setSlot m.chunks m.chunkSize id none,
              len := if prev.isSome then m.len - 1 else m.len }, prev)

/-- `Mapping::get_mut` followed by a write through the returned reference: the previous value, and the mapping
    with the slot overwritten when it was occupied (unchanged otherwise, also for ids beyond the allocated chunks). -/
def getMut (m : M V) (id : Nat) (v : V) : M V × Option V :=
  if id / m.chunkSize ≥ m.chunks.length then (m, none)
  else
    match slot m id with
    | some old => ({ m with chunks := setSlot m.chunks m.chunkSize id (some v) }, some old)
    | none => (m, none)

/-- `Mapping::slots` / `Mapping::capacity` -/
def slots (m : M V) : Nat := m.chunks.length * m.chunkSize

/-- `MappingIter`: repeated `next()` from `offset` until it returns `None`
    (the iterator is fused). The stopping rule is the one in the source
    (`offset > max`); `fuel` only makes the recursion structural and is
    proved sufficient (`iter` passes `max + 1`). -/
def iterFrom (m : M V) : Nat → Nat → List (Nat × V)
  | 0, _ => []
  | fuel + 1, offset =>
    if offset > m.max then []
    else
      match slot m offset with
      | some v => (offset, v) :: iterFrom m fuel (offset + 1)
      | none => iterFrom m fuel (offset + 1)

/-- `Mapping::iter().collect()`. -/
def iter (m : M V) : List (Nat × V) := iterFrom m (m.max + 1) 0

/-- `Serialize`: `chunks.iter().flatten().take(max + 1)`. -/
def serialize (m : M V) : List (Option V) := (m.chunks.flatten).take (m.max + 1)

def insertAll (m : M V) : Nat → List (Option V) → M V
  | _, [] => m
  | i, none :: rest => insertAll m (i + 1) rest
  | i, some v :: rest => insertAll (insert m i v).1 (i + 1) rest

/-- `Deserialize`: `with_capacity(values.len())` then insert every `Some`. -/
def deserialize (c : Nat) (values : List (Option V)) : M V :=
  insertAll (withCapacity c values.length) 0 values

def isEmpty (m : M V) : Bool := m.len == 0

end Resolvo.Mapping
