import Resolvo.Data.Arena
namespace Resolvo.Arena
variable {α : Type}

/-- Shape invariant: chunks before `len / c` are full, chunk `len / c` (if present) holds
    `len % c` elements, later chunks are empty, and there is room for the next `alloc` to add at
    most one chunk. -/
structure Inv (a : A α) : Prop where
  pos : 0 < a.chunkSize
  full : ∀ k ch, k < a.len / a.chunkSize → a.chunks[k]? = some ch → ch.length = a.chunkSize
  cur : ∀ ch, a.chunks[a.len / a.chunkSize]? = some ch → ch.length = a.len % a.chunkSize
  later : ∀ k ch, a.len / a.chunkSize < k → a.chunks[k]? = some ch → ch.length = 0
  room : a.len / a.chunkSize ≤ a.chunks.length
  absentZero : a.chunks.length ≤ a.len / a.chunkSize → a.len % a.chunkSize = 0

theorem inv_withCapacity (c n : Nat) (hc : 0 < c) : Inv (withCapacity c n : A α) := by
  refine ⟨hc, ?_, ?_, ?_, ?_, ?_⟩
  · intro k ch hk; simp [withCapacity, Nat.zero_div] at hk
  · intro ch h
    simp only [withCapacity, Nat.zero_div, Nat.zero_mod] at h ⊢
    have := List.mem_of_getElem? h
    rw [List.mem_replicate] at this
    rw [this.2]; rfl
  · intro k ch _ h
    simp only [withCapacity] at h
    have := List.mem_of_getElem? h
    rw [List.mem_replicate] at this
    rw [this.2]; rfl
  · simp [withCapacity, Nat.zero_div]
  · intro _; simp [withCapacity]

/-- the chunk list `alloc` works on -/
def allocChunks (a : A α) : List (List α) :=
  if a.len / a.chunkSize ≥ a.chunks.length then a.chunks ++ [[]] else a.chunks

theorem allocChunks_get (a : A α) (hi : Inv a) (k : Nat) :
    (allocChunks a)[k]? = if k = a.chunks.length ∧ a.len / a.chunkSize ≥ a.chunks.length then some [] else a.chunks[k]? := by
  unfold allocChunks
  split
  · next hge =>
    by_cases hk : k < a.chunks.length
    · rw [List.getElem?_append_left hk]
      have : ¬ (k = a.chunks.length ∧ a.len / a.chunkSize ≥ a.chunks.length) := by omega
      simp [this]
    · by_cases hk2 : k = a.chunks.length
      · subst hk2; simp [hge]
      · rw [List.getElem?_eq_none (by simp; omega)]
        have : ¬ (k = a.chunks.length ∧ a.len / a.chunkSize ≥ a.chunks.length) := by omega
        simp only [this, if_false]
        rw [List.getElem?_eq_none (by omega)]
  · next hlt =>
    have : ¬ (k = a.chunks.length ∧ a.len / a.chunkSize ≥ a.chunks.length) := by omega
    simp [this]

theorem alloc_id (a : A α) (x : α) : (alloc a x).2 = a.len := rfl
theorem alloc_len (a : A α) (x : α) : (alloc a x).1.len = a.len + 1 := rfl
theorem alloc_chunkSize (a : A α) (x : α) : (alloc a x).1.chunkSize = a.chunkSize := rfl

theorem alloc_chunks (a : A α) (x : α) :
    (alloc a x).1.chunks = (allocChunks a).modify (a.len / a.chunkSize) (fun ch => ch ++ [x]) := rfl

/-- the chunk receiving the new element exists and has `len % c` elements -/
theorem cur_chunk (a : A α) (hi : Inv a) :
    ∃ ch, (allocChunks a)[a.len / a.chunkSize]? = some ch ∧ ch.length = a.len % a.chunkSize := by
  rw [allocChunks_get a hi]
  by_cases hge : a.len / a.chunkSize ≥ a.chunks.length
  · have heq : a.len / a.chunkSize = a.chunks.length := Nat.le_antisymm hi.room hge
    refine ⟨[], by simp [heq], ?_⟩
    rw [hi.absentZero hge]; rfl
  · have hlt : a.len / a.chunkSize < a.chunks.length := by omega
    have : ¬ (a.len / a.chunkSize = a.chunks.length ∧ a.len / a.chunkSize ≥ a.chunks.length) := by omega
    simp only [this, if_false]
    exact ⟨a.chunks[a.len / a.chunkSize], List.getElem?_eq_getElem hlt, hi.cur _ (List.getElem?_eq_getElem hlt)⟩

theorem at?_allocChunks (a : A α) (hi : Inv a) (k o : Nat) :
    ((allocChunks a)[k]?).bind (fun ch => ch[o]?) = at? a k o := by
  unfold at?
  rw [allocChunks_get a hi]
  split
  · next h =>
    rw [List.getElem?_eq_none (by omega)]
    simp
  · rfl

/-- **Address stability.** After `alloc`, every address holds what it held before, except the one
    new address `(len / c, len % c)`, which holds the new element. -/
theorem at?_alloc (a : A α) (hi : Inv a) (x : α) (k o : Nat) :
    at? (alloc a x).1 k o =
      if k = a.len / a.chunkSize ∧ o = a.len % a.chunkSize then some x else at? a k o := by
  obtain ⟨ch, hch, hlen⟩ := cur_chunk a hi
  rw [← at?_allocChunks a hi k o]
  unfold at?
  rw [alloc_chunks, List.getElem?_modify]
  by_cases hk : k = a.len / a.chunkSize
  · subst hk
    simp only [if_true, true_and, hch, Option.map_eq_map, Option.map_some, Option.bind_some]
    by_cases ho : o = a.len % a.chunkSize
    · simp only [ho, if_true]
      rw [← hlen]; simp
    · simp only [ho, if_false]
      by_cases hlt : o < ch.length
      · rw [List.getElem?_append_left hlt]
      · have h1 : (ch ++ [x])[o]? = none := List.getElem?_eq_none (by simp; omega)
        have h2 : ch[o]? = none := List.getElem?_eq_none (by omega)
        rw [h1, h2]
  · have hne : ¬ (a.len / a.chunkSize = k) := fun e => hk e.symm
    simp only [hne, if_false, hk, false_and]
    cases (allocChunks a)[k]? <;> rfl

theorem div_mod_inj {c x y : Nat} (h1 : x / c = y / c) (h2 : x % c = y % c) : x = y := by
  have hx := Nat.div_add_mod x c
  have hy := Nat.div_add_mod y c
  rw [h1, h2] at hx; omega

/-- elements beyond `len` are never visible, stored elements never change, the new one is there -/
theorem get?_alloc (a : A α) (hi : Inv a) (x : α) (id : Nat) :
    get? (alloc a x).1 id = if id = a.len then some x else get? a id := by
  unfold get?
  rw [alloc_len, alloc_chunkSize, at?_alloc a hi]
  by_cases hid : id = a.len
  · subst hid; simp
  · simp only [hid, if_false]
    by_cases hlt : id < a.len
    · have h1 : id < a.len + 1 := by omega
      have hne : ¬ (id / a.chunkSize = a.len / a.chunkSize ∧ id % a.chunkSize = a.len % a.chunkSize) :=
        fun h => hid (div_mod_inj h.1 h.2)
      simp [hlt, h1, hne]
    · have h1 : ¬ id < a.len + 1 := by omega
      simp [hlt, h1]

theorem inv_alloc (a : A α) (hi : Inv a) (x : α) : Inv (alloc a x).1 := by
  obtain ⟨ch, hch, hlen⟩ := cur_chunk a hi
  have hpos := hi.pos
  have hmod := Nat.mod_lt a.len hpos
  have hdm := Nat.div_add_mod a.len a.chunkSize
  -- how (len+1)/c and (len+1)%c relate to len/c and len%c
  have hcases : (a.len % a.chunkSize + 1 < a.chunkSize ∧ (a.len + 1) / a.chunkSize = a.len / a.chunkSize ∧
        (a.len + 1) % a.chunkSize = a.len % a.chunkSize + 1) ∨
      (a.len % a.chunkSize + 1 = a.chunkSize ∧ (a.len + 1) / a.chunkSize = a.len / a.chunkSize + 1 ∧
        (a.len + 1) % a.chunkSize = 0) := by
    by_cases h : a.len % a.chunkSize + 1 < a.chunkSize
    · left
      have e : a.len + 1 = a.chunkSize * (a.len / a.chunkSize) + (a.len % a.chunkSize + 1) := by omega
      refine ⟨h, ?_, ?_⟩
      · rw [e, Nat.mul_add_div hpos, Nat.div_eq_of_lt h]; omega
      · rw [e, Nat.mul_add_mod, Nat.mod_eq_of_lt h]
    · right
      have h' : a.len % a.chunkSize + 1 = a.chunkSize := by omega
      have e : a.len + 1 = a.chunkSize * (a.len / a.chunkSize + 1) := by rw [Nat.mul_add, Nat.mul_one]; omega
      refine ⟨h', ?_, ?_⟩
      · rw [e, Nat.mul_div_cancel_left _ hpos]
      · rw [e, Nat.mul_mod_right]
  have hget : ∀ k, (alloc a x).1.chunks[k]? =
      if k = a.len / a.chunkSize then some (ch ++ [x]) else (allocChunks a)[k]? := by
    intro k
    rw [alloc_chunks, List.getElem?_modify]
    by_cases hk : k = a.len / a.chunkSize
    · subst hk; simp [hch]
    · have hne : ¬ (a.len / a.chunkSize = k) := fun e => hk e.symm
      simp only [hne, if_false, hk]
      cases (allocChunks a)[k]? <;> rfl
  have hlenchunks : (alloc a x).1.chunks.length = (allocChunks a).length := by
    rw [alloc_chunks]; simp
  have hacl : a.chunks.length ≤ (allocChunks a).length ∧ a.len / a.chunkSize < (allocChunks a).length := by
    unfold allocChunks; split
    · next hge => simp; have := hi.room; omega
    · next hlt => exact ⟨Nat.le_refl _, by omega⟩
  have hold : ∀ k ch', k ≠ a.len / a.chunkSize → (allocChunks a)[k]? = some ch' →
      (a.chunks[k]? = some ch' ∨ ch' = []) := by
    intro k ch' _ h
    rw [allocChunks_get a hi] at h
    split at h
    · right; cases h; rfl
    · left; exact h
  refine ⟨hpos, ?_, ?_, ?_, ?_, ?_⟩
  · -- full
    intro k ch' hk hsome
    rw [alloc_len, alloc_chunkSize] at hk
    rw [alloc_chunkSize]
    rw [hget] at hsome
    by_cases hkk : k = a.len / a.chunkSize
    · simp only [hkk, if_true, Option.some.injEq] at hsome
      subst hsome
      rcases hcases with ⟨_, h2, _⟩ | ⟨h1, _, _⟩
      · omega
      · simp [hlen]; omega
    · simp only [hkk, if_false] at hsome
      have hklt : k < a.len / a.chunkSize := by
        rcases hcases with ⟨_, h2, _⟩ | ⟨_, h2, _⟩ <;> omega
      rcases hold k ch' hkk hsome with h | h
      · exact hi.full k ch' hklt h
      · -- an empty appended chunk sits at index chunks.length > len/c: impossible for k < len/c
        rw [allocChunks_get a hi] at hsome
        split at hsome
        · next hc => have := hi.room; omega
        · exact hi.full k ch' hklt hsome
  · -- cur
    intro ch' hsome
    rw [alloc_len, alloc_chunkSize] at hsome ⊢
    rw [hget] at hsome
    rcases hcases with ⟨_, h2, h3⟩ | ⟨h1, h2, h3⟩
    · rw [h2] at hsome
      simp only [if_true, Option.some.injEq] at hsome
      subst hsome
      simp [hlen, h3]
    · rw [h2] at hsome
      have hne : ¬ (a.len / a.chunkSize + 1 = a.len / a.chunkSize) := by omega
      simp only [hne, if_false] at hsome
      rw [h3]
      rcases hold _ ch' hne hsome with h | h
      · exact hi.later _ ch' (by omega) h
      · rw [h]; rfl
  · -- later
    intro k ch' hk hsome
    rw [alloc_len, alloc_chunkSize] at hk
    rw [hget] at hsome
    have hkk : k ≠ a.len / a.chunkSize := by
      rcases hcases with ⟨_, h2, _⟩ | ⟨_, h2, _⟩ <;> omega
    simp only [hkk, if_false] at hsome
    have hkgt : a.len / a.chunkSize < k := by
      rcases hcases with ⟨_, h2, _⟩ | ⟨_, h2, _⟩ <;> omega
    rcases hold k ch' hkk hsome with h | h
    · exact hi.later k ch' hkgt h
    · rw [h]; rfl
  · -- room
    rw [alloc_len, alloc_chunkSize, hlenchunks]
    rcases hcases with ⟨_, h2, _⟩ | ⟨_, h2, _⟩ <;> omega
  · -- absentZero
    intro habs
    rw [alloc_len, alloc_chunkSize] at habs ⊢
    rw [hlenchunks] at habs
    rcases hcases with ⟨_, h2, _⟩ | ⟨_, _, h3⟩
    · omega
    · exact h3

/-- no chunk ever exceeds its reserved capacity (so the inner `Vec` never reallocates) -/
theorem chunk_le_capacity (a : A α) (hi : Inv a) (k : Nat) (ch : List α) (h : a.chunks[k]? = some ch) :
    ch.length ≤ a.chunkSize := by
  rcases Nat.lt_trichotomy k (a.len / a.chunkSize) with hk | hk | hk
  · rw [hi.full k ch hk h]; exact Nat.le_refl _
  · subst hk; rw [hi.cur ch h]; exact Nat.le_of_lt (Nat.mod_lt _ hi.pos)
  · rw [hi.later k ch hk h]; exact Nat.zero_le _

end Resolvo.Arena
