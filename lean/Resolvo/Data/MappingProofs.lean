import Resolvo.Data.Mapping
/-! Helper lemmas for the `Mapping` model. Property theorems are in `Props/C19.lean`. -/
namespace Resolvo.Mapping
variable {V : Type}

/-- Structural well-formedness: positive chunk size, every chunk has exactly `chunkSize` slots. -/
structure Shape (m : M V) : Prop where
  pos : 0 < m.chunkSize
  len_chunks : ∀ ch ∈ m.chunks, ch.length = m.chunkSize

/-- Number of occupied slots among ids `< B`. -/
def countBelow (m : M V) (B : Nat) : Nat := (List.range B).countP (fun i => (slot m i).isSome)

/-- Full invariant maintained by every operation. -/
structure Inv (m : M V) : Prop extends Shape m where
  nonempty : 0 < m.chunks.length
  max_lt : m.max / m.chunkSize < m.chunks.length
  keys_le : ∀ id v, slot m id = some v → id ≤ m.max
  len_eq : m.len = countBelow m (m.max + 1)

theorem div_mod_inj {c a b : Nat} (h1 : a / c = b / c) (h2 : a % c = b % c) : a = b := by
  have ha := Nat.div_add_mod a c
  have hb := Nat.div_add_mod b c
  rw [h1, h2] at ha
  omega

theorem slotOf_setSlot (c : Nat) (chunks : List (List (Option V))) (hpos : 0 < c)
    (hl : ∀ ch ∈ chunks, ch.length = c) (id : Nat) (x : Option V)
    (hin : id / c < chunks.length) (j : Nat) :
    slotOf c (setSlot chunks c id x) j = if j = id then x else slotOf c chunks j := by
  unfold slotOf setSlot
  rw [List.getElem?_modify]
  by_cases hj : j = id
  · subst hj
    have h1 : chunks[j / c]? = some chunks[j / c] := List.getElem?_eq_getElem hin
    rw [h1]
    simp only [if_true, Option.map_eq_map, Option.map_some]
    have hlen := hl _ (List.getElem_mem hin)
    have hlt : j % c < (chunks[j / c]).length := by rw [hlen]; exact Nat.mod_lt _ hpos
    rw [List.getElem?_set_self hlt]
    simp
  · simp only [hj, if_false]
    by_cases hc : id / c = j / c
    · simp only [hc, if_true]
      cases hget : chunks[j / c]? with
      | none => simp
      | some ch =>
        have hne : id % c ≠ j % c := by
          intro hm; exact hj (div_mod_inj hc.symm hm.symm)
        simp only [Option.map_eq_map, Option.map_some]
        rw [List.getElem?_set_ne hne]
    · simp only [hc, if_false]
      cases chunks[j / c]? <;> simp

theorem len_setSlot (c : Nat) (chunks : List (List (Option V)))
    (hl : ∀ ch ∈ chunks, ch.length = c) (id : Nat) (x : Option V) :
    ∀ ch ∈ setSlot chunks c id x, ch.length = c := by
  intro ch hch
  simp only [setSlot] at hch
  obtain ⟨i, hi, rfl⟩ := List.getElem_of_mem hch
  rw [List.getElem_modify]
  simp only [List.length_modify] at hi
  split
  · simp; exact hl _ (List.getElem_mem _)
  · exact hl _ (List.getElem_mem _)

theorem length_setSlot (chunks : List (List (Option V))) (c id : Nat) (x : Option V) :
    (setSlot chunks c id x).length = chunks.length := by simp [setSlot]

theorem len_growTo (m : M V) (hs : Shape m) (n : Nat) : ∀ ch ∈ growTo m n, ch.length = m.chunkSize := by
  intro ch hch
  simp only [growTo, List.mem_append, List.mem_replicate] at hch
  rcases hch with h | ⟨_, rfl⟩
  · exact hs.len_chunks _ h
  · simp [emptyChunk]

theorem length_growTo (m : M V) (n : Nat) (h : m.chunks.length ≤ n) : (growTo m n).length = n := by
  simp [growTo]; omega

theorem getElem?_replicate_none (n i : Nat) :
    ((List.replicate n (none : Option V))[i]?).join = none := by
  cases hq : (List.replicate n (none : Option V))[i]? with
  | none => rfl
  | some q =>
    have := List.mem_of_getElem? hq
    rw [List.mem_replicate] at this
    obtain ⟨_, rfl⟩ := this
    rfl

theorem slotOf_replicate (c n id : Nat) :
    slotOf c (List.replicate n (emptyChunk c : List (Option V))) id = none := by
  unfold slotOf
  cases hr : (List.replicate n (emptyChunk c : List (Option V)))[id / c]? with
  | none => rfl
  | some ch =>
    have hmem := List.mem_of_getElem? hr
    rw [List.mem_replicate] at hmem
    obtain ⟨_, rfl⟩ := hmem
    exact getElem?_replicate_none _ _

theorem slotOf_growTo (m : M V) (n : Nat) (j : Nat) : slotOf m.chunkSize (growTo m n) j = slot m j := by
  unfold slot slotOf growTo
  by_cases hj : j / m.chunkSize < m.chunks.length
  · rw [List.getElem?_append_left hj]
  · have hj' : m.chunks.length ≤ j / m.chunkSize := Nat.le_of_not_lt hj
    rw [List.getElem?_append_right hj']
    have : m.chunks[j / m.chunkSize]? = none := List.getElem?_eq_none hj'
    rw [this]
    have := slotOf_replicate (V := V) m.chunkSize (n - m.chunks.length) (j % m.chunkSize + (j / m.chunkSize - m.chunks.length) * m.chunkSize)
    cases hr : (List.replicate (n - m.chunks.length) (emptyChunk m.chunkSize : List (Option V)))[j / m.chunkSize - m.chunks.length]? with
    | none => rfl
    | some ch =>
      have hmem := List.mem_of_getElem? hr
      rw [List.mem_replicate] at hmem
      obtain ⟨_, rfl⟩ := hmem
      exact getElem?_replicate_none _ _

/-- The chunk list `insert` works on (after the optional resize). -/
def insChunks (m : M V) (id : Nat) : List (List (Option V)) :=
  if id / m.chunkSize ≥ m.chunks.length then growTo m (id / m.chunkSize + 1) else m.chunks

theorem slotOf_insChunks (m : M V) (id j : Nat) : slotOf m.chunkSize (insChunks m id) j = slot m j := by
  unfold insChunks; split
  · exact slotOf_growTo _ _ _
  · rfl

theorem len_insChunks (m : M V) (hs : Shape m) (id : Nat) : ∀ ch ∈ insChunks m id, ch.length = m.chunkSize := by
  unfold insChunks; split
  · exact len_growTo _ hs _
  · exact hs.len_chunks

theorem in_insChunks (m : M V) (id : Nat) : id / m.chunkSize < (insChunks m id).length := by
  unfold insChunks; split
  · next h => rw [length_growTo _ _ (by omega)]; omega
  · next h => omega

theorem length_insChunks_ge (m : M V) (id : Nat) : m.chunks.length ≤ (insChunks m id).length := by
  unfold insChunks; split
  · next h => rw [length_growTo _ _ (by omega)]; omega
  · exact Nat.le_refl _

theorem insert_eq (m : M V) (id : Nat) (v : V) :
    insert m id v =
      ({ chunkSize := m.chunkSize,
         chunks := setSlot (insChunks m id) m.chunkSize id (some v),
         len := if (slot m id).isNone then m.len + 1 else m.len,
         max := Nat.max m.max id }, slot m id) := by
  have hs := slotOf_insChunks m id id
  unfold insChunks at hs
  unfold insert insChunks
  simp only [slot] at hs ⊢
  simp only [hs]
  rfl

theorem slot_insert (m : M V) (hs : Shape m) (id : Nat) (v : V) (j : Nat) :
    slot (insert m id v).1 j = if j = id then some v else slot m j := by
  rw [insert_eq]
  show slotOf m.chunkSize (setSlot (insChunks m id) m.chunkSize id (some v)) j = _
  rw [slotOf_setSlot m.chunkSize (insChunks m id) hs.pos (len_insChunks m hs id) id (some v) (in_insChunks m id) j,
    slotOf_insChunks]

theorem insert_prev (m : M V) (id : Nat) (v : V) : (insert m id v).2 = slot m id := by
  rw [insert_eq]

theorem shape_insert (m : M V) (hs : Shape m) (id : Nat) (v : V) : Shape (insert m id v).1 := by
  rw [insert_eq]
  exact ⟨hs.pos, len_setSlot m.chunkSize _ (len_insChunks m hs id) id (some v)⟩

theorem countP_range_update (p q : Nat → Bool) (id : Nat) (hpq : ∀ j, j ≠ id → p j = q j) (B : Nat) :
    (List.range B).countP q + (if id < B ∧ p id then 1 else 0)
      = (List.range B).countP p + (if id < B ∧ q id then 1 else 0) := by
  induction B with
  | zero => simp
  | succ n ih =>
    rw [List.range_succ, List.countP_append, List.countP_append]
    simp only [List.countP_cons, List.countP_nil]
    by_cases hn : n = id
    · subst hn
      have h1 : ¬ (n < n) := Nat.lt_irrefl n
      simp only [h1, false_and, if_false, Nat.add_zero] at ih
      simp only [Nat.lt_succ_self, true_and]
      cases p n <;> cases q n <;> simp <;> omega
    · have := hpq n hn
      rw [this]
      by_cases hlt : id < n
      · have : id < n + 1 := by omega
        simp only [hlt, this, true_and] at ih ⊢
        omega
      · have : ¬ id < n + 1 := by omega
        simp only [hlt, this, false_and, if_false] at ih ⊢
        omega

theorem countBelow_mono_of_keys (m : M V) (hk : ∀ id v, slot m id = some v → id ≤ m.max) (B : Nat)
    (hB : m.max + 1 ≤ B) : countBelow m B = countBelow m (m.max + 1) := by
  induction B with
  | zero => omega
  | succ n ih =>
    by_cases hn : m.max + 1 = n + 1
    · rw [hn]
    · have hle : m.max + 1 ≤ n := by omega
      rw [← ih hle]
      unfold countBelow
      rw [List.range_succ, List.countP_append]
      simp only [List.countP_cons, List.countP_nil]
      cases hsl : slot m n with
      | none => simp
      | some v => have := hk n v hsl; omega

theorem countBelow_congr (m m' : M V) (id : Nat) (h : ∀ j, j ≠ id → slot m' j = slot m j) (B : Nat)
    (hB : id < B) :
    countBelow m' B + (if (slot m id).isSome then 1 else 0)
      = countBelow m B + (if (slot m' id).isSome then 1 else 0) := by
  have := countP_range_update (fun i => (slot m i).isSome) (fun i => (slot m' i).isSome) id
    (by intro j hj; simp [h j hj]) B
  simpa [countBelow, hB] using this

theorem inv_insert (m : M V) (hi : Inv m) (id : Nat) (v : V) : Inv (insert m id v).1 := by
  have hshape := shape_insert m hi.toShape id v
  have hslot := slot_insert m hi.toShape id v
  have hmax : (insert m id v).1.max = Nat.max m.max id := by rw [insert_eq]
  have hlen : (insert m id v).1.len = if (slot m id).isNone then m.len + 1 else m.len := by rw [insert_eq]
  have hcs : (insert m id v).1.chunkSize = m.chunkSize := by rw [insert_eq]
  have hclen : (insert m id v).1.chunks.length = (insChunks m id).length := by
    rw [insert_eq]; simp [length_setSlot]
  refine { toShape := hshape, nonempty := ?_, max_lt := ?_, keys_le := ?_, len_eq := ?_ }
  · rw [hclen]; have := length_insChunks_ge m id; have := hi.nonempty; omega
  · rw [hclen, hcs, hmax]
    have h1 := in_insChunks m id
    have h2 := length_insChunks_ge m id
    have h3 := hi.max_lt
    by_cases hle : m.max ≤ id
    · have : Nat.max m.max id = id := Nat.max_eq_right hle
      rw [this]; exact h1
    · have : Nat.max m.max id = m.max := Nat.max_eq_left (by omega)
      rw [this]; omega
  · intro j w hj
    rw [hslot] at hj
    rw [hmax]
    by_cases hji : j = id
    · subst hji; exact Nat.le_max_right _ _
    · simp only [hji, if_false] at hj
      have := hi.keys_le j w hj
      exact Nat.le_trans this (Nat.le_max_left _ _)
  · rw [hlen, hmax]
    have hB1 : m.max + 1 ≤ Nat.max m.max id + 1 := Nat.succ_le_succ (Nat.le_max_left _ _)
    have hB2 : id < Nat.max m.max id + 1 := Nat.lt_succ_of_le (Nat.le_max_right _ _)
    have hc := countBelow_congr m (insert m id v).1 id
      (by intro j hj; rw [hslot]; simp [hj]) (Nat.max m.max id + 1) hB2
    have hm := countBelow_mono_of_keys m hi.keys_le _ hB1
    have hself : slot (insert m id v).1 id = some v := by rw [hslot]; simp
    rw [hself, hm, ← hi.len_eq] at hc
    cases hsl : slot m id with
    | none => simp [hsl] at hc ⊢; omega
    | some w => simp [hsl] at hc ⊢; omega

theorem unset_eq_of_in (m : M V) (id : Nat) (h : id / m.chunkSize < m.chunks.length) :
    unset m id =
      ({ chunkSize := m.chunkSize, chunks := setSlot m.chunks m.chunkSize id none,
         len := if (slot m id).isSome then m.len - 1 else m.len, max := m.max }, slot m id) := by
  unfold unset
  have : ¬ (id / m.chunkSize ≥ m.chunks.length) := by omega
  simp [this]

theorem unset_eq_of_out (m : M V) (id : Nat) (h : m.chunks.length ≤ id / m.chunkSize) :
    unset m id = (m, none) := by
  unfold unset; simp [h]

theorem slot_none_of_out (m : M V) (id : Nat) (h : m.chunks.length ≤ id / m.chunkSize) : slot m id = none := by
  unfold slot slotOf
  rw [List.getElem?_eq_none h]

theorem slot_unset (m : M V) (hs : Shape m) (id : Nat) (j : Nat) :
    slot (unset m id).1 j = if j = id then none else slot m j := by
  by_cases h : id / m.chunkSize < m.chunks.length
  · rw [unset_eq_of_in m id h]
    exact slotOf_setSlot m.chunkSize m.chunks hs.pos hs.len_chunks id none h j
  · have hge : m.chunks.length ≤ id / m.chunkSize := by omega
    rw [unset_eq_of_out m id hge]
    by_cases hj : j = id
    · subst hj; simp [slot_none_of_out m j hge]
    · simp [hj]

theorem unset_prev (m : M V) (id : Nat) : (unset m id).2 = slot m id := by
  by_cases h : id / m.chunkSize < m.chunks.length
  · rw [unset_eq_of_in m id h]
  · have hge : m.chunks.length ≤ id / m.chunkSize := by omega
    rw [unset_eq_of_out m id hge, slot_none_of_out m id hge]

theorem unset_fields (m : M V) (id : Nat) :
    (unset m id).1.chunkSize = m.chunkSize ∧ (unset m id).1.max = m.max ∧
    (unset m id).1.chunks.length = m.chunks.length ∧
    (unset m id).1.len = if (slot m id).isSome then m.len - 1 else m.len := by
  by_cases h : id / m.chunkSize < m.chunks.length
  · rw [unset_eq_of_in m id h]; simp [length_setSlot]
  · have hge : m.chunks.length ≤ id / m.chunkSize := by omega
    rw [unset_eq_of_out m id hge, slot_none_of_out m id hge]; simp

theorem shape_unset (m : M V) (hs : Shape m) (id : Nat) : Shape (unset m id).1 := by
  by_cases h : id / m.chunkSize < m.chunks.length
  · rw [unset_eq_of_in m id h]
    exact ⟨hs.pos, len_setSlot m.chunkSize _ hs.len_chunks id none⟩
  · have hge : m.chunks.length ≤ id / m.chunkSize := by omega
    rw [unset_eq_of_out m id hge]; exact hs

theorem inv_unset (m : M V) (hi : Inv m) (id : Nat) : Inv (unset m id).1 := by
  have hslot := slot_unset m hi.toShape id
  obtain ⟨hcs, hmax, hclen, hlen⟩ := unset_fields m id
  refine { toShape := shape_unset m hi.toShape id, nonempty := ?_, max_lt := ?_,
           keys_le := ?_, len_eq := ?_ }
  · rw [hclen]; exact hi.nonempty
  · rw [hclen, hcs, hmax]; exact hi.max_lt
  · intro j w hj
    rw [hslot] at hj
    rw [hmax]
    by_cases hji : j = id
    · simp [hji] at hj
    · simp only [hji, if_false] at hj; exact hi.keys_le j w hj
  · rw [hlen, hmax]
    cases hsl : slot m id with
    | none =>
      simp only [Option.isSome_none, Bool.false_eq_true, if_false]
      rw [hi.len_eq]
      unfold countBelow
      apply List.countP_congr
      intro j _
      rw [hslot j]
      by_cases hji : j = id
      · subst hji; simp [hsl]
      · simp [hji]
    | some w =>
      simp only [Option.isSome_some, if_true]
      have hle := hi.keys_le id w hsl
      have hc := countBelow_congr m (unset m id).1 id
        (by intro j hj; rw [hslot]; simp [hj]) (m.max + 1) (by omega)
      have hself := hslot id
      simp only [if_true] at hself
      rw [hself, hsl] at hc
      simp at hc
      rw [hi.len_eq]
      omega

theorem slot_withCapacity (c n id : Nat) : slot (withCapacity c n : M V) id = none := by
  unfold withCapacity slot; exact slotOf_replicate _ _ _

theorem inv_withCapacity (c n : Nat) (hc : 0 < c) : Inv (withCapacity c n : M V) := by
  have hsl : ∀ id, slot (withCapacity c n : M V) id = none := slot_withCapacity c n
  refine { pos := hc, len_chunks := ?_, nonempty := ?_, max_lt := ?_, keys_le := ?_, len_eq := ?_ }
  · intro ch hch
    simp only [withCapacity, List.mem_replicate] at hch
    obtain ⟨_, rfl⟩ := hch
    simp [emptyChunk, withCapacity]
  · simp [withCapacity]
  · simp [withCapacity, Nat.zero_div]
  · intro id v h; rw [hsl] at h; cases h
  · show (0 : Nat) = _
    unfold countBelow
    symm
    apply List.countP_eq_zero.mpr
    intro a _
    rw [hsl]; simp

/-! ### iteration -/

theorem mem_iterFrom (m : M V) (fuel offset : Nat) (hf : m.max + 1 - offset ≤ fuel) (k : Nat) (v : V) :
    (k, v) ∈ iterFrom m fuel offset ↔ (offset ≤ k ∧ k ≤ m.max ∧ slot m k = some v) := by
  induction fuel generalizing offset with
  | zero =>
    simp only [iterFrom, List.not_mem_nil, false_iff]
    omega
  | succ n ih =>
    rw [iterFrom]
    by_cases hgt : offset > m.max
    · simp only [hgt, if_true, List.not_mem_nil, false_iff]; omega
    · simp only [hgt, if_false]
      have ih' := ih (offset + 1) (by omega)
      cases hsl : slot m offset with
      | none =>
        simp only
        rw [ih']
        constructor
        · rintro ⟨h1, h2, h3⟩; exact ⟨by omega, h2, h3⟩
        · rintro ⟨h1, h2, h3⟩
          refine ⟨?_, h2, h3⟩
          by_cases he : k = offset
          · subst he; rw [hsl] at h3; cases h3
          · omega
      | some w =>
        simp only [List.mem_cons, Prod.mk.injEq]
        rw [ih']
        constructor
        · rintro (⟨rfl, rfl⟩ | ⟨h1, h2, h3⟩)
          · exact ⟨Nat.le_refl _, by omega, hsl⟩
          · exact ⟨by omega, h2, h3⟩
        · rintro ⟨h1, h2, h3⟩
          by_cases he : k = offset
          · subst he; rw [hsl] at h3; cases h3; exact Or.inl ⟨rfl, rfl⟩
          · exact Or.inr ⟨by omega, h2, h3⟩

theorem iterFrom_ge (m : M V) (fuel offset : Nat) (k : Nat) (v : V)
    (h : (k, v) ∈ iterFrom m fuel offset) : offset ≤ k := by
  induction fuel generalizing offset with
  | zero => simp [iterFrom] at h
  | succ n ih =>
    rw [iterFrom] at h
    by_cases hgt : offset > m.max
    · simp [hgt] at h
    · simp only [hgt, if_false] at h
      cases hsl : slot m offset with
      | none => rw [hsl] at h; have := ih (offset + 1) h; omega
      | some w =>
        rw [hsl] at h
        simp only [List.mem_cons, Prod.mk.injEq] at h
        rcases h with ⟨rfl, _⟩ | h
        · exact Nat.le_refl _
        · have := ih (offset + 1) h; omega

theorem iterFrom_sorted (m : M V) (fuel offset : Nat) :
    ((iterFrom m fuel offset).map Prod.fst).Pairwise (· < ·) := by
  induction fuel generalizing offset with
  | zero => simp [iterFrom]
  | succ n ih =>
    rw [iterFrom]
    by_cases hgt : offset > m.max
    · simp [hgt]
    · simp only [hgt, if_false]
      have ih' := ih (offset + 1)
      cases hsl : slot m offset with
      | none => exact ih'
      | some w =>
        simp only [List.map_cons, List.pairwise_cons]
        refine ⟨?_, ih'⟩
        intro k hk
        rw [List.mem_map] at hk
        obtain ⟨⟨k', v'⟩, hmem, rfl⟩ := hk
        have := iterFrom_ge m n (offset + 1) k' v' hmem
        simp only
        omega

theorem length_iterFrom (m : M V) (fuel offset : Nat) (hf : m.max + 1 - offset ≤ fuel)
    (ho : offset ≤ m.max + 1) :
    (iterFrom m fuel offset).length + countBelow m offset = countBelow m (m.max + 1) := by
  induction fuel generalizing offset with
  | zero =>
    have : offset = m.max + 1 := by omega
    simp [iterFrom, this]
  | succ n ih =>
    rw [iterFrom]
    by_cases hgt : offset > m.max
    · have : offset = m.max + 1 := by omega
      simp [hgt, this]
    · simp only [hgt, if_false]
      have ih' := ih (offset + 1) (by omega) (by omega)
      have hstep : countBelow m (offset + 1) = countBelow m offset + (if (slot m offset).isSome then 1 else 0) := by
        unfold countBelow
        rw [List.range_succ, List.countP_append]
        simp [List.countP_cons]
      cases hsl : slot m offset with
      | none => simp only [hsl] at hstep ⊢; simp at hstep; omega
      | some w => simp only [hsl, List.length_cons] at hstep ⊢; simp at hstep; omega

/-! ### serde -/

theorem flatten_getElem? (chunks : List (List (Option V))) (c : Nat) (hc : 0 < c)
    (hl : ∀ ch ∈ chunks, ch.length = c) (i : Nat) :
    chunks.flatten[i]? = match chunks[i / c]? with
      | none => none
      | some ch => ch[i % c]? := by
  induction chunks generalizing i with
  | nil => simp
  | cons ch rest ih =>
    have hch : ch.length = c := hl ch (List.mem_cons_self)
    have hrest : ∀ ch' ∈ rest, ch'.length = c := fun ch' h => hl ch' (List.mem_cons_of_mem _ h)
    rw [List.flatten_cons]
    by_cases hi : i < c
    · have hd : i / c = 0 := Nat.div_eq_of_lt hi
      have hm : i % c = i := Nat.mod_eq_of_lt hi
      rw [List.getElem?_append_left (by omega), hd, hm]
      simp
    · have hge : c ≤ i := Nat.le_of_not_lt hi
      rw [List.getElem?_append_right (by omega), hch, ih hrest (i - c)]
      have hd : i / c = (i - c) / c + 1 := by
        have h := Nat.sub_add_cancel hge
        have h2 : (i - c + c) / c = (i - c) / c + 1 := Nat.add_div_right _ hc
        rw [h] at h2; exact h2
      have hm : i % c = (i - c) % c := by
        have h := Nat.sub_add_cancel hge
        have h2 : (i - c + c) % c = (i - c) % c := Nat.add_mod_right _ _
        rw [h] at h2; exact h2
      rw [hd, hm]
      simp

theorem serialize_getElem? (m : M V) (hs : Shape m) (i : Nat) :
    ((serialize m)[i]?).join = if i ≤ m.max then slot m i else none := by
  unfold serialize
  rw [List.getElem?_take]
  by_cases hi : i < m.max + 1
  · have : i ≤ m.max := by omega
    simp only [hi, if_true, this]
    rw [flatten_getElem? m.chunks m.chunkSize hs.pos hs.len_chunks i]
    unfold slot slotOf
    cases m.chunks[i / m.chunkSize]? <;> rfl
  · have : ¬ i ≤ m.max := by omega
    simp [hi, this]

theorem length_serialize (m : M V) (hi : Inv m) : (serialize m).length = m.max + 1 := by
  unfold serialize
  rw [List.length_take]
  have hlen : m.chunks.flatten.length = m.chunks.length * m.chunkSize := by
    have : ∀ (cs : List (List (Option V))), (∀ ch ∈ cs, ch.length = m.chunkSize) →
        cs.flatten.length = cs.length * m.chunkSize := by
      intro cs
      induction cs with
      | nil => simp
      | cons a as ih =>
        intro h
        rw [List.flatten_cons, List.length_append, ih (fun ch hch => h ch (List.mem_cons_of_mem _ hch)),
          h a List.mem_cons_self, List.length_cons, Nat.succ_mul]
        omega
    exact this _ hi.len_chunks
  rw [hlen]
  have h1 := hi.max_lt
  have hpos := hi.pos
  have : m.max < m.chunks.length * m.chunkSize := by
    have := Nat.div_add_mod m.max m.chunkSize
    have hm := Nat.mod_lt m.max hpos
    have h2 : (m.max / m.chunkSize + 1) * m.chunkSize ≤ m.chunks.length * m.chunkSize :=
      Nat.mul_le_mul_right _ h1
    rw [Nat.succ_mul] at h2
    rw [Nat.mul_comm] at this
    omega
  omega

theorem insertAll_spec (m : M V) (hi : Inv m) (start : Nat) (values : List (Option V)) :
    Inv (insertAll m start values) ∧
    ∀ j, slot (insertAll m start values) j =
      if start ≤ j ∧ (values[j - start]?).join.isSome then (values[j - start]?).join else slot m j := by
  induction values generalizing m start with
  | nil => simp [insertAll, hi]
  | cons x rest ih =>
    cases x with
    | none =>
      simp only [insertAll]
      obtain ⟨h1, h2⟩ := ih m hi (start + 1)
      refine ⟨h1, ?_⟩
      intro j
      rw [h2 j]
      by_cases hj : start + 1 ≤ j
      · have e : j - start = (j - (start + 1)) + 1 := by omega
        have hs : start ≤ j := by omega
        simp only [hj, hs, true_and, e, List.getElem?_cons_succ]
      · by_cases hs : start ≤ j
        · have e : j - start = 0 := by omega
          simp [hj, hs, e]
        · simp [hj, hs]
    | some v =>
      simp only [insertAll]
      have hi' := inv_insert m hi start v
      obtain ⟨h1, h2⟩ := ih (insert m start v).1 hi' (start + 1)
      refine ⟨h1, ?_⟩
      intro j
      rw [h2 j, slot_insert m hi.toShape]
      by_cases hj : start + 1 ≤ j
      · have e : j - start = (j - (start + 1)) + 1 := by omega
        have hs : start ≤ j := by omega
        have hne : j ≠ start := by omega
        simp only [hj, hs, true_and, e, List.getElem?_cons_succ, hne, if_false]
      · by_cases hs : start ≤ j
        · have e : j = start := by omega
          subst e
          have hn : ¬ (j + 1 ≤ j) := by omega
          simp [hn]
        · have hne : j ≠ start := by omega
          simp [hj, hs, hne]

/-- writing through `get_mut` is an `insert` of a key that is present -/
theorem getMut_eq_insert (m : M V) (hi : Inv m) (id : Nat) (v old : V) (h : slot m id = some old) :
    getMut m id v = ((insert m id v).1, some old) := by
  have hin : id / m.chunkSize < m.chunks.length := by
    apply Nat.lt_of_not_ge
    intro hge
    rw [slot_none_of_out m id hge] at h; cases h
  have hle : id ≤ m.max := hi.keys_le id old h
  unfold getMut
  rw [if_neg (Nat.not_le.mpr hin), h]
  rw [insert_eq]
  simp only [h, Option.isNone_some, Bool.false_eq_true, if_false]
  have hmax : Nat.max m.max id = m.max := Nat.max_eq_left hle
  have hch : insChunks m id = m.chunks := by
    unfold insChunks
    rw [if_neg (Nat.not_le.mpr hin)]
  rw [hmax, hch]

theorem getMut_absent (m : M V) (id : Nat) (v : V) (h : slot m id = none) : getMut m id v = (m, none) := by
  unfold getMut
  split
  · rfl
  · rw [h]

end Resolvo.Mapping
