/-!
# Model of the copy-on-write `Vector<T>` shared by Rust and C++ (`cpp/src/vector.rs`, `resolvo_vector.h`)

Two levels:
* `Spec`: every handle denotes an independent list (what a user of the container relies on);
* `Heap`: blocks `{refcount, data, capacity, freed}` and a handle table, with the operations
  implemented the way the C++ header implements them (share + refcount on copy, `detach` before a
  write, `drop` frees at refcount 0, the static empty block has refcount −1 and is never written
  or freed). Reading a freed block is the explicit outcome `useAfterFree`.
`Props/C17.lean` proves that the heap level refines the spec level and keeps its invariant.
-/
namespace Resolvo.Cow

/-- operations on vector handles (the ones the C++ harness issues) -/
inductive Op where
  | init (h : Nat) (xs : List Nat)
  | copy (h g : Nat)        -- h = Vector(g)  (copy-construct a temporary, move-assign it)
  | assign (h g : Nat)      -- h = g          (copy assignment, self-assignment allowed)
  | move (h g : Nat)        -- h = std::move(g)   (swap)
  | push (h : Nat) (x : Nat)
  | clear (h : Nat)
  | set (h i x : Nat)       -- h[i] = x through the non-const operator[]
deriving Repr, Inhabited

/-! ### Spec: independent lists -/

abbrev Spec := List (List Nat)      -- handle ↦ contents

def Spec.get (s : Spec) (h : Nat) : List Nat := s.getD h []
def Spec.put (s : Spec) (h : Nat) (v : List Nat) : Spec := s.set h v

def specStep (s : Spec) : Op → Spec
  | .init h xs => s.put h xs
  | .copy h g => s.put h (s.get g)
  | .assign h g => s.put h (s.get g)
  | .move h g => if h == g then s else (s.put h (s.get g)).put g (s.get h)
  | .push h x => s.put h (s.get h ++ [x])
  | .clear h => s.put h []
  | .set h i x => s.put h ((s.get h).set i x)

/-! ### Heap: refcounted blocks -/

structure Block where
  refcount : Int
  data : List Nat
  capacity : Nat
  freed : Bool := false
deriving Repr, Inhabited

structure Heap where
  blocks : List Block       -- block 0 is the static empty vector (refcount −1)
  handles : List Nat        -- handle ↦ block index
  uaf : Bool := false       -- a freed block was read or written
deriving Repr, Inhabited

def Heap.init (nHandles : Nat) : Heap :=
  { blocks := [{ refcount := -1, data := [], capacity := 0 }], handles := List.replicate nHandles 0 }

def Heap.block (hp : Heap) (b : Nat) : Block := hp.blocks.getD b default
def Heap.blockOf (hp : Heap) (h : Nat) : Nat := hp.handles.getD h 0
def Heap.setBlock (hp : Heap) (b : Nat) (blk : Block) : Heap := { hp with blocks := hp.blocks.set b blk }
def Heap.setHandle (hp : Heap) (h b : Nat) : Heap := { hp with handles := hp.handles.set h b }
def Heap.touch (hp : Heap) (b : Nat) : Heap := if (hp.block b).freed then { hp with uaf := true } else hp

/-- contents a handle denotes -/
def Heap.contents (hp : Heap) (h : Nat) : List Nat := (hp.block (hp.blockOf h)).data

/-- `with_capacity` + fill: a fresh block with refcount 1 -/
def Heap.alloc (hp : Heap) (data : List Nat) (cap : Nat) : Heap × Nat :=
  ({ hp with blocks := hp.blocks ++ [{ refcount := 1, data := data, capacity := cap }] }, hp.blocks.length)

/-- `drop()`: decrement if counted; free at zero -/
def Heap.dropBlock (hp : Heap) (b : Nat) : Heap :=
  let blk := hp.block b
  let hp := hp.touch b
  if blk.refcount > 0 then
    if blk.refcount - 1 == 0 then hp.setBlock b { blk with refcount := 0, freed := true }
    else hp.setBlock b { blk with refcount := blk.refcount - 1 }
  else hp

/-- copy constructor: share the block -/
def Heap.share (hp : Heap) (b : Nat) : Heap :=
  let blk := hp.block b
  let hp := hp.touch b
  if blk.refcount > 0 then hp.setBlock b { blk with refcount := blk.refcount + 1 } else hp

/-- `detach(expected_capacity)` on handle h -/
def Heap.detach (hp : Heap) (h : Nat) (expected : Nat) : Heap :=
  let b := hp.blockOf h
  let blk := hp.block b
  let hp := hp.touch b
  if blk.refcount == 1 && expected ≤ blk.capacity then hp
  else
    let (hp1, nb) := hp.alloc blk.data expected
    -- `*this = std::move(new_array)`: swap, then the temporary (holding the old block) is destroyed
    (hp1.setHandle h nb).dropBlock b

def heapStep (hp : Heap) : Op → Heap
  | .init h xs =>
    let old := hp.blockOf h
    let (hp1, nb) := hp.alloc xs xs.length
    (hp1.setHandle h nb).dropBlock old
  | .copy h g =>
    let gb := hp.blockOf g
    let old := hp.blockOf h
    -- temporary shares g's block; move-assign swaps; temporary (old block of h) destroyed
    ((hp.share gb).setHandle h gb).dropBlock old
  | .assign h g =>
    let gb := hp.blockOf g
    let old := hp.blockOf h
    if gb == old then hp
    else ((hp.dropBlock old).setHandle h gb).share gb
  | .move h g =>
    let hb := hp.blockOf h
    let gb := hp.blockOf g
    (hp.setHandle h gb).setHandle g hb
  | .push h x =>
    let hp := hp.detach h ((hp.contents h).length + 1)
    let b := hp.blockOf h
    let blk := hp.block b
    (hp.touch b).setBlock b { blk with data := blk.data ++ [x] }
  | .clear h =>
    let b := hp.blockOf h
    let blk := hp.block b
    if blk.refcount != 1 then
      -- `*this = Vector()`: the default vector points at the static block
      (hp.setHandle h 0).dropBlock b
    else (hp.touch b).setBlock b { blk with data := [] }
  | .set h i x =>
    let hp := hp.detach h (hp.contents h).length
    let b := hp.blockOf h
    let blk := hp.block b
    (hp.touch b).setBlock b { blk with data := blk.data.set i x }

/-- abstraction: what every handle denotes -/
def Heap.abs (hp : Heap) : Spec := (List.range hp.handles.length).map hp.contents

/-- number of handles pointing at block b -/
def Heap.refs (hp : Heap) (b : Nat) : Nat := hp.handles.count b

/-- the invariant of the COW scheme -/
def Heap.wf (hp : Heap) : Bool :=
  !hp.uaf &&
  (hp.block 0).refcount == -1 && (hp.block 0).data == [] && !(hp.block 0).freed &&
  hp.handles.all (fun b => b < hp.blocks.length && !(hp.block b).freed) &&
  (List.range hp.blocks.length).all (fun b => b == 0 ||
    ((hp.block b).freed || ((hp.block b).refcount == (hp.refs b : Int) && hp.refs b > 0)) &&
    (!(hp.block b).freed || hp.refs b == 0)) &&
  (List.range hp.blocks.length).all (fun b => (hp.block b).data.length ≤ (hp.block b).capacity || b == 0)

/-- all live blocks are released once every handle is reset to the empty vector -/
def Heap.leaked (hp : Heap) : List Nat :=
  (List.range hp.blocks.length).filter (fun b => b != 0 && !(hp.block b).freed && hp.refs b == 0)

end Resolvo.Cow
