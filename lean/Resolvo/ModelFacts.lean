import Resolvo.Generated.Constants
/-!
# What the hand-written model covers, checked against facts re-read from `/repo` on every run

`Generated/Constants.lean` is regenerated from the current sources by `tools/extract_constants.py`.
Each equality below is a `decide`-checked proof obligation: when the *shape* of the code changes
(a new clause kind, a new or removed cancellation poll site, a new place that iterates a hash
container, a changed `Vector` header) the build of this module fails and the checks that depend on
it report a broken obligation. Changed *constants* (chunk sizes) re-instantiate the model instead.
-/
namespace Resolvo.ModelFacts
open Resolvo.Generated

/-- the clause kinds the model (`Abs.Kind`, `MDet`) covers -/
theorem clause_kinds_covered :
    clauseKinds = ["InstallRoot", "Requires", "ForbidMultipleInstances", "Constrains", "Lock", "Learnt", "Excluded"] := by decide

/-- the cancellation poll sites the model has (`MDet.propagate`, `MDet.getCandidates`, `MDet.getDeps`) -/
theorem poll_sites_covered :
    cancelPollSites = ["mod.rs:propagate#1", "cache.rs:get_or_cache_candidates#1", "cache.rs:get_or_cache_dependencies#1"] := by decide

/-- the places that iterate a hash container: `simplify`'s `maybe_merge.into_values()` (result is a map
    keyed by solvable id, so the order is irrelevant) and the snapshot capture (matching sets are stored as
    sets; since b972046 union members are a `Vec` in the provider's order) — the model has no other place
    where hash order could leak -/
theorem hash_iteration_sites_covered :
    hashIterationSites = ["conflict.rs:simplify:maybe_merge#1",
      "snapshot.rs:from_provider_async:matching_candidates#1",
      "snapshot.rs:from_provider_async:matching_candidates#2"] := by decide

/-- Rust `VectorHeader` and C++ `Header` have the same fields in the same order -/
theorem vector_header_agrees : vectorHeaderRust = vectorHeaderCpp ∧ vectorHeaderRust = ["refcount", "size", "capacity"] := by decide

theorem chunk_sizes_positive : 0 < mappingValuesPerChunk ∧ 0 < arenaChunkSize := by decide

end Resolvo.ModelFacts
