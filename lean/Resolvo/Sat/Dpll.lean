import Resolvo.Sat.Cnf
/-! `decideSat f = true ↔ ∃ a, a ⊨ f`. -/
namespace Resolvo.Sat

def upd (a : Nat → Bool) (v : Nat) (b : Bool) : Nat → Bool := fun x => if x = v then b else a x

theorem assign_cons (v : Nat) (b : Bool) (c : Clause) (f : Cnf) :
    assign v b (c :: f) =
      if c.any (fun l => l.1 == v && l.2 == b) then assign v b f
      else c.filter (fun l => l.1 != v) :: assign v b f := by
  unfold assign
  rw [List.filter_cons]
  cases h : c.any (fun l => l.1 == v && l.2 == b) <;> simp [h]

theorem assign_nil (v : Nat) (b : Bool) : assign v b [] = [] := rfl

/-- If `a'` satisfies the simplified formula, then `a'` updated with `v := b` satisfies `f`. -/
theorem assign_sound (a' : Nat → Bool) (v : Nat) (b : Bool) (f : Cnf)
    (h : evalCnf a' (assign v b f) = true) : evalCnf (upd a' v b) f = true := by
  induction f with
  | nil => rfl
  | cons c f ih =>
    rw [assign_cons] at h
    unfold evalCnf at *
    rw [List.all_cons, Bool.and_eq_true]
    split at h
    · next hsat =>
      refine ⟨?_, ih h⟩
      obtain ⟨l, hl, hlv⟩ := List.any_eq_true.mp hsat
      simp only [Bool.and_eq_true, beq_iff_eq] at hlv
      apply List.any_eq_true.mpr
      exact ⟨l, hl, by simp [evalLit, upd, hlv.1, hlv.2]⟩
    · rw [List.all_cons, Bool.and_eq_true] at h
      refine ⟨?_, ih h.2⟩
      obtain ⟨l, hl, hlv⟩ := List.any_eq_true.mp h.1
      rw [List.mem_filter] at hl
      apply List.any_eq_true.mpr
      refine ⟨l, hl.1, ?_⟩
      have hne : l.1 ≠ v := by simpa using hl.2
      simpa [evalLit, upd, hne] using hlv

/-- If `a` satisfies `f`, it satisfies `f` simplified under `v := a v`. -/
theorem assign_complete (a : Nat → Bool) (v : Nat) (f : Cnf)
    (h : evalCnf a f = true) : evalCnf a (assign v (a v) f) = true := by
  induction f with
  | nil => rfl
  | cons c f ih =>
    unfold evalCnf at *
    rw [List.all_cons, Bool.and_eq_true] at h
    rw [assign_cons]
    split
    · exact ih h.2
    · next hns =>
      rw [List.all_cons, Bool.and_eq_true]
      refine ⟨?_, ih h.2⟩
      obtain ⟨l, hl, hlv⟩ := List.any_eq_true.mp h.1
      apply List.any_eq_true.mpr
      refine ⟨l, ?_, hlv⟩
      rw [List.mem_filter]
      refine ⟨hl, ?_⟩
      simp only [bne_iff_ne, ne_eq]
      intro he
      apply hns
      apply List.any_eq_true.mpr
      refine ⟨l, hl, ?_⟩
      simp only [evalLit, beq_iff_eq] at hlv
      simp [he, ← hlv]

def litCount : Cnf → Nat
  | [] => 0
  | c :: f => c.length + litCount f

theorem litCount_assign_le (v : Nat) (b : Bool) (f : Cnf) : litCount (assign v b f) ≤ litCount f := by
  induction f with
  | nil => exact Nat.le_refl _
  | cons c f ih =>
    rw [assign_cons]
    split
    · simp only [litCount]; omega
    · simp only [litCount]
      have := List.length_filter_le (fun l : Lit => l.1 != v) c
      omega

theorem litCount_assign_lt (v : Nat) (b : Bool) (f : Cnf) (h : ∃ c ∈ f, ∃ l ∈ c, l.1 = v) :
    litCount (assign v b f) < litCount f := by
  induction f with
  | nil => obtain ⟨c, hc, _⟩ := h; cases hc
  | cons c f ih =>
    obtain ⟨c0, hc0, l, hl, hlv⟩ := h
    rw [assign_cons]
    rcases List.mem_cons.mp hc0 with rfl | hin
    · have hpos : 0 < c0.length := List.length_pos_of_mem hl
      have hle := litCount_assign_le v b f
      split
      · simp only [litCount]; omega
      · simp only [litCount]
        have : (c0.filter (fun l : Lit => l.1 != v)).length < c0.length := by
          apply List.length_filter_lt_length_iff_exists.mpr
          exact ⟨l, hl, by simp [hlv]⟩
        omega
    · have := ih ⟨c0, hin, l, hl, hlv⟩
      split
      · simp only [litCount]; omega
      · simp only [litCount]
        have := List.length_filter_le (fun l : Lit => l.1 != v) c
        omega

theorem pick_mem (f : Cnf) (l : Lit) (h : pick f = some l) : ∃ c ∈ f, l ∈ c := by
  unfold pick at h
  split at h
  · next c' l' rest hfind =>
    have := List.mem_of_find?_eq_some hfind
    cases h
    exact ⟨_, this, List.mem_cons_self⟩
  · split at h
    · next l' c' f' =>
      cases h
      exact ⟨_, List.mem_cons_self, List.mem_cons_self⟩
    · cases h

theorem pick_some (f : Cnf) (hne : f ≠ []) (hnoempty : f.any (fun c => c.isEmpty) = false) :
    ∃ l, pick f = some l := by
  unfold pick
  split
  · exact ⟨_, rfl⟩
  · cases f with
    | nil => exact absurd rfl hne
    | cons c f =>
      cases c with
      | nil => simp at hnoempty
      | cons l c => exact ⟨l, rfl⟩

theorem solve_sound (fuel : Nat) (f : Cnf) (h : solve fuel f = true) : ∃ a, evalCnf a f = true := by
  induction fuel generalizing f with
  | zero =>
    simp only [solve, List.isEmpty_iff] at h
    subst h; exact ⟨fun _ => false, rfl⟩
  | succ n ih =>
    rw [solve] at h
    split at h
    · next he => rw [List.isEmpty_iff] at he; subst he; exact ⟨fun _ => false, rfl⟩
    · split at h
      · cases h
      · split at h
        · cases h
        · next l _ =>
          rw [Bool.or_eq_true] at h
          rcases h with h | h
          · obtain ⟨a', ha'⟩ := ih _ h
            exact ⟨_, assign_sound a' l.1 l.2 f ha'⟩
          · obtain ⟨a', ha'⟩ := ih _ h
            exact ⟨_, assign_sound a' l.1 (!l.2) f ha'⟩

theorem no_empty_of_sat (a : Nat → Bool) (f : Cnf) (h : evalCnf a f = true) :
    f.any (fun c => c.isEmpty) = false := by
  cases hany : f.any (fun c => c.isEmpty) with
  | false => rfl
  | true =>
    obtain ⟨c, hc, hce⟩ := List.any_eq_true.mp hany
    rw [List.isEmpty_iff] at hce
    subst hce
    have := List.all_eq_true.mp h [] hc
    simp [evalClause] at this

theorem solve_complete (fuel : Nat) (f : Cnf) (a : Nat → Bool) (h : evalCnf a f = true)
    (hf : litCount f ≤ fuel) : solve fuel f = true := by
  induction fuel generalizing f with
  | zero =>
    have hne := no_empty_of_sat a f h
    cases f with
    | nil => rfl
    | cons c f =>
      cases c with
      | nil => simp at hne
      | cons l c => simp [litCount] at hf
  | succ n ih =>
    rw [solve]
    split
    · rfl
    · next hnonempty =>
      have hne := no_empty_of_sat a f h
      rw [hne]
      simp only [Bool.false_eq_true, if_false]
      have hfne : f ≠ [] := by intro e; subst e; simp at hnonempty
      obtain ⟨l, hl⟩ := pick_some f hfne hne
      rw [hl]
      simp only
      obtain ⟨c, hc, hlc⟩ := pick_mem f l hl
      have hlt : ∀ b, litCount (assign l.1 b f) ≤ n := by
        intro b
        have := litCount_assign_lt l.1 b f ⟨c, hc, l, hlc, rfl⟩
        omega
      have hcomp := assign_complete a l.1 f h
      rw [Bool.or_eq_true]
      by_cases hb : a l.1 = l.2
      · left; rw [← hb]; exact ih _ hcomp (hlt _)
      · right
        have : a l.1 = !l.2 := by cases ha : a l.1 <;> cases hl2 : l.2 <;> simp_all
        rw [← this]; exact ih _ hcomp (hlt _)

/-- Fuel used by `decideSat'`: total number of literal occurrences. -/
def decideSat' (f : Cnf) : Bool := solve (litCount f) f

/-- **The DPLL procedure decides satisfiability.** -/
theorem decideSat'_iff (f : Cnf) : decideSat' f = true ↔ ∃ a, evalCnf a f = true :=
  ⟨solve_sound _ f, fun ⟨a, h⟩ => solve_complete _ f a h (Nat.le_refl _)⟩

end Resolvo.Sat
