import Resolvo.Sat.Cnf
/-! Reverse-unit-propagation check: does clause `c` follow from `f` by unit propagation alone? -/
namespace Resolvo.Sat

/-- value of a literal under a partial assignment given as a list of true literals -/
def litVal (asg : List Lit) (l : Lit) : Option Bool :=
  if asg.contains l then some true else if asg.contains (neg l) then some false else none

/-- Inspect one clause: `conflict` (all literals false), `unit l` (exactly one unassigned, no true),
    or `other`. -/
inductive Look where
  | conflict
  | unit (l : Lit)
  | other

def look (asg : List Lit) (c : Clause) : Look :=
  if c.any (fun l => litVal asg l == some true) then .other
  else match c.filter (fun l => litVal asg l == none) with
    | [] => .conflict
    | l :: rest => if rest.all (fun l' => l' == l) then .unit l else .other

/-- One sweep over the clauses: returns `none` on conflict, else the (possibly extended) assignment. -/
def sweep (f : Cnf) (asg : List Lit) : Option (List Lit) :=
  f.foldl (fun acc c => match acc with
    | none => none
    | some a => match look a c with
      | .conflict => none
      | .unit l => some (l :: a)
      | .other => some a) (some asg)

/-- Unit propagation to a fixed point (at most `fuel` sweeps); `true` = conflict reached. -/
def propagatesToConflict : Nat → Cnf → List Lit → Bool
  | 0, _, _ => false
  | fuel + 1, f, asg =>
    match sweep f asg with
    | none => true
    | some asg' => if asg'.length == asg.length then false else propagatesToConflict fuel f asg'

/-- RUP: assuming every literal of `c` false, unit propagation over `f` reaches a conflict. -/
def rup (f : Cnf) (c : Clause) : Bool :=
  propagatesToConflict (f.length + 1) f (c.map neg)

end Resolvo.Sat
