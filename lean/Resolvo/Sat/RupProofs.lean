import Resolvo.Sat.Rup
/-! Soundness of the RUP check. -/
namespace Resolvo.Sat

theorem evalLit_neg (a : Nat → Bool) (l : Lit) : evalLit a (neg l) = !evalLit a l := by
  simp only [evalLit, neg]
  cases a l.1 <;> cases l.2 <;> rfl

theorem neg_neg (l : Lit) : neg (neg l) = l := by
  simp [neg]

/-- all literals of the partial assignment are true under `a` -/
def Agrees (a : Nat → Bool) (asg : List Lit) : Prop := ∀ l ∈ asg, evalLit a l = true

theorem litVal_true (a : Nat → Bool) (asg : List Lit) (h : Agrees a asg) (l : Lit)
    (hv : litVal asg l = some true) : evalLit a l = true := by
  unfold litVal at hv
  split at hv
  · next hc => exact h l (List.contains_iff_mem.mp hc)
  · split at hv <;> simp at hv

theorem litVal_false (a : Nat → Bool) (asg : List Lit) (h : Agrees a asg) (l : Lit)
    (hv : litVal asg l = some false) : evalLit a l = false := by
  unfold litVal at hv
  split at hv
  · simp at hv
  · split at hv
    · next hc =>
      have := h (neg l) (List.contains_iff_mem.mp hc)
      rw [evalLit_neg] at this
      cases he : evalLit a l <;> simp_all
    · simp at hv

theorem litVal_cases (asg : List Lit) (l : Lit) :
    litVal asg l = some true ∨ litVal asg l = some false ∨ litVal asg l = none := by
  unfold litVal
  split
  · exact Or.inl rfl
  · split
    · exact Or.inr (Or.inl rfl)
    · exact Or.inr (Or.inr rfl)

/-- What `look` establishes for a clause true under `a`. -/
theorem look_sound (a : Nat → Bool) (asg : List Lit) (h : Agrees a asg) (c : Clause)
    (hc : evalClause a c = true) :
    look asg c ≠ .conflict ∧ ∀ l, look asg c = .unit l → evalLit a l = true := by
  obtain ⟨l0, hl0, hv0⟩ := List.any_eq_true.mp hc
  unfold look
  split
  · exact ⟨by simp, by intro l hl; cases hl⟩
  · next hnt =>
    have hnotTrue : ∀ l ∈ c, litVal asg l ≠ some true := by
      intro l hl ht
      apply hnt
      exact List.any_eq_true.mpr ⟨l, hl, by simp [ht]⟩
    -- l0 is true under a, so it cannot be `some false`; hence it is unassigned
    have hl0none : litVal asg l0 = none := by
      rcases litVal_cases asg l0 with h1 | h1 | h1
      · exact absurd h1 (hnotTrue l0 hl0)
      · have := litVal_false a asg h l0 h1; rw [hv0] at this; cases this
      · exact h1
    have hmem : l0 ∈ c.filter (fun l => litVal asg l == none) :=
      List.mem_filter.mpr ⟨hl0, by simp [hl0none]⟩
    split
    · next hnil => rw [hnil] at hmem; cases hmem
    · next l rest hf =>
      constructor
      · split <;> simp
      · intro l' hl'
        split at hl'
        · next hall =>
          cases hl'
          rw [hf] at hmem
          rcases List.mem_cons.mp hmem with e | e
          · rw [← e]; exact hv0
          · have := List.all_eq_true.mp hall l0 e
            have : l0 = l := by simpa using this
            rw [← this]; exact hv0
        · cases hl'

theorem sweep_sound (a : Nat → Bool) (f : Cnf) (hf : evalCnf a f = true) (asg : List Lit)
    (h : Agrees a asg) : ∃ asg', sweep f asg = some asg' ∧ Agrees a asg' := by
  unfold sweep
  have key : ∀ (g : Cnf), (∀ c ∈ g, evalClause a c = true) → ∀ asg, Agrees a asg →
      ∃ asg', g.foldl (fun acc c => match acc with
        | none => none
        | some a => match look a c with
          | .conflict => none
          | .unit l => some (l :: a)
          | .other => some a) (some asg) = some asg' ∧ Agrees a asg' := by
    intro g
    induction g with
    | nil => intro _ asg h; exact ⟨asg, rfl, h⟩
    | cons c g ih =>
      intro hg asg h
      have hc := hg c List.mem_cons_self
      obtain ⟨hnc, hunit⟩ := look_sound a asg h c hc
      simp only [List.foldl_cons]
      cases hl : look asg c with
      | conflict => exact absurd hl hnc
      | unit l =>
        simp only []
        apply ih (fun c' hc' => hg c' (List.mem_cons_of_mem _ hc'))
        intro l' hl'
        rcases List.mem_cons.mp hl' with e | e
        · rw [e]; exact hunit l hl
        · exact h l' e
      | other =>
        simp only []
        exact ih (fun c' hc' => hg c' (List.mem_cons_of_mem _ hc')) asg h
  exact key f (fun c hc => List.all_eq_true.mp hf c hc) asg h

theorem propagates_sound (a : Nat → Bool) (f : Cnf) (hf : evalCnf a f = true) (fuel : Nat)
    (asg : List Lit) (h : Agrees a asg) : propagatesToConflict fuel f asg = false := by
  induction fuel generalizing asg with
  | zero => rfl
  | succ n ih =>
    unfold propagatesToConflict
    obtain ⟨asg', hs, ha'⟩ := sweep_sound a f hf asg h
    rw [hs]
    simp only []
    split
    · rfl
    · exact ih asg' ha'

/-- **RUP soundness**: a clause accepted by `rup` is entailed by the formula. -/
theorem rup_sound (f : Cnf) (c : Clause) (h : rup f c = true) (a : Nat → Bool)
    (hf : evalCnf a f = true) : evalClause a c = true := by
  cases hc : evalClause a c with
  | true => rfl
  | false =>
    have hag : Agrees a (c.map neg) := by
      intro l hl
      obtain ⟨l', hl', rfl⟩ := List.mem_map.mp hl
      rw [evalLit_neg]
      have : evalLit a l' = false := by
        cases he : evalLit a l' with
        | false => rfl
        | true =>
          have : evalClause a c = true := List.any_eq_true.mpr ⟨l', hl', he⟩
          rw [hc] at this; cases this
      rw [this]; rfl
    have := propagates_sound a f hf (f.length + 1) (c.map neg) hag
    unfold rup at h
    rw [this] at h; cases h

end Resolvo.Sat
