/-! Generic CNF over natural-number variables, and a DPLL decision procedure (core only). -/
namespace Resolvo.Sat

/-- A literal: variable and the value that makes it true. -/
abbrev Lit := Nat × Bool
abbrev Clause := List Lit
abbrev Cnf := List Clause

def neg (l : Lit) : Lit := (l.1, !l.2)
def evalLit (a : Nat → Bool) (l : Lit) : Bool := a l.1 == l.2
def evalClause (a : Nat → Bool) (c : Clause) : Bool := c.any (evalLit a)
def evalCnf (a : Nat → Bool) (f : Cnf) : Bool := f.all (evalClause a)

/-- Simplify `f` under `v := b`: drop satisfied clauses, drop falsified literals. -/
def assign (v : Nat) (b : Bool) (f : Cnf) : Cnf :=
  (f.filter (fun c => !c.any (fun l => l.1 == v && l.2 == b))).map (fun c => c.filter (fun l => l.1 != v))

/-- Branching heuristic: the variable of a unit clause if there is one (with the polarity that
    satisfies it), else the first literal of the first clause. -/
def pick (f : Cnf) : Option Lit :=
  match f.find? (fun c => c.length == 1) with
  | some (l :: _) => some l
  | _ => match f with
    | (l :: _) :: _ => some l
    | _ => none

/-- DPLL. `fuel` bounds the number of branching steps; `decideSat` passes the number of
    variables, which `Dpll.lean` proves sufficient. -/
def solve : Nat → Cnf → Bool
  | 0, f => f.isEmpty
  | fuel + 1, f =>
    if f.isEmpty then true
    else if f.any (fun c => c.isEmpty) then false
    else match pick f with
      | none => false
      | some l => solve fuel (assign l.1 l.2 f) || solve fuel (assign l.1 (!l.2) f)

def varsOf (f : Cnf) : List Nat := (f.flatMap (fun c => c.map (·.1))).eraseDups

def decideSat (f : Cnf) : Bool := solve (varsOf f).length f

end Resolvo.Sat
