/-!
# Specification — independent of SAT

What a dependency provider *is* (finite tables), what a problem is, and what it
means for a set of solvables to be a valid solution. Nothing here mentions
clauses, literals, watches or levels. This file (together with the statements
in `Props/`) is what a reader has to believe to know what the theorems mean.

Ids are natural numbers: solvable ids, name ids, version-set ids, union ids,
string ids — exactly the numbers the Rust API uses.
-/
namespace Resolvo

/-- `resolvo::Requirement`. -/
inductive Req where
  | single (vs : Nat)
  | union (u : Nat)
deriving DecidableEq, Repr, Inhabited

/-- `resolvo::Dependencies`. -/
inductive Deps where
  | known (reqs : List Req) (constrains : List Nat)
  | unknown (reason : Nat)
deriving DecidableEq, Repr, Inhabited

/-- `resolvo::HintDependenciesAvailable`. -/
inductive Hint where
  | none
  | all
  | some (l : List Nat)
deriving DecidableEq, Repr, Inhabited

/-- `resolvo::Candidates`: the answer of `get_candidates(name)`. -/
structure Pkg where
  cands : List Nat
  favored : Option Nat := Option.none
  locked : Option Nat := Option.none
  excluded : List (Nat × Nat) := []
  hint : Hint := Hint.none
deriving Repr, Inhabited

structure SolvInfo where
  name : Nat
  /-- sort key: `sort_candidates` orders by ascending `rank` (stable). -/
  rank : Nat
  deps : Deps
deriving Repr, Inhabited

structure VsInfo where
  name : Nat
  /-- the solvables `filter_candidates(_, vs, inverse := false)` keeps -/
  matching : List Nat
deriving Repr, Inhabited

/-- A provider universe as finite tables. A name without an entry in `pkgs` is an
    unknown package (`get_candidates` returns `None`). -/
structure Universe where
  pkgs : List (Nat × Pkg) := []
  solvs : List (Nat × SolvInfo) := []
  vsets : List (Nat × VsInfo) := []
  unions : List (Nat × List Nat) := []
  /-- the provider's `filter_candidates` returns its result in reverse input order (the trait promises no order) -/
  filterRev : Bool := false
deriving Repr, Inhabited

namespace Universe
variable (U : Universe)

def pkg? (n : Nat) : Option Pkg := U.pkgs.lookup n
def solv? (s : Nat) : Option SolvInfo := U.solvs.lookup s
/-- `Interner::solvable_name` -/
def nameOf (s : Nat) : Nat := match U.solv? s with | some i => i.name | none => 0
def rank (s : Nat) : Nat := match U.solv? s with | some i => i.rank | none => 0
/-- `get_dependencies` -/
def deps (s : Nat) : Deps := match U.solv? s with | some i => i.deps | none => .known [] []
/-- `Interner::version_set_name` -/
def vsName (vs : Nat) : Nat := match U.vsets.lookup vs with | some i => i.name | none => 0
/-- `filter_candidates` membership test -/
def matchesVs (vs s : Nat) : Bool := match U.vsets.lookup vs with | some i => i.matching.contains s | none => false
/-- `Interner::version_sets_in_union`, in listed order -/
def unionOf (u : Nat) : List Nat := (U.unions.lookup u).getD []

/-- all candidates of the package a version set refers to (empty for an unknown package) -/
def pkgCands (vs : Nat) : List Nat := match U.pkg? (U.vsName vs) with | some p => p.cands | none => []
/-- the order in which `filter_candidates` hands back what it keeps -/
def reord (l : List Nat) : List Nat := if U.filterRev then l.reverse else l
theorem mem_reord (l : List Nat) (x : Nat) : x ∈ U.reord l ↔ x ∈ l := by
  unfold reord; split <;> simp
/-- `filter_candidates(cands, vs, false)` -/
def candsOf (vs : Nat) : List Nat := U.reord ((U.pkgCands vs).filter (U.matchesVs vs))
/-- `filter_candidates(cands, vs, true)` -/
def nonMatching (vs : Nat) : List Nat := U.reord ((U.pkgCands vs).filter (fun s => !U.matchesVs vs s))
/-- `Requirement::version_sets` -/
def reqVersionSets : Req → List Nat
  | .single vs => [vs]
  | .union u => U.unionOf u
/-- the candidates that can satisfy a requirement: a union is met by a candidate of any member -/
def reqCands (r : Req) : List Nat := (U.reqVersionSets r).flatMap U.candsOf

/-- `s` is on its package's exclusion list -/
def excluded (s : Nat) : Bool :=
  match U.pkg? (U.nameOf s) with
  | some p => p.excluded.any (fun e => e.1 == s)
  | none => false
/-- `s`'s package has a locked candidate and it is not `s` -/
def lockedOut (s : Nat) : Bool :=
  match U.pkg? (U.nameOf s) with
  | some p => match p.locked with | some l => l != s | none => false
  | none => false
end Universe

/-- `resolvo::Problem`. -/
structure Problem where
  reqs : List Req := []
  constraints : List Nat := []
  soft : List Nat := []
deriving Repr, Inhabited

def Problem.hard (P : Problem) : Problem := { P with soft := [] }

/-- `deps` (a solvable's, or the root's) are met by `sel`. -/
def DepsMet (U : Universe) (sel : List Nat) (reqs : List Req) (constrains : List Nat) : Prop :=
  (∀ r ∈ reqs, ∃ c ∈ U.reqCands r, c ∈ sel) ∧
  (∀ vs ∈ constrains, ∀ t ∈ U.nonMatching vs, t ∉ sel)

/-- **C01's notion of a valid solution.** `exempt` are the solvables that enjoy the documented
    exemption from their own package's lock/exclusion list (directly named soft requirements). -/
def Valid (U : Universe) (P : Problem) (sel : List Nat) (exempt : List Nat) : Prop :=
  DepsMet U sel P.reqs P.constraints ∧
  (∀ s ∈ sel, ∃ reqs cons, U.deps s = .known reqs cons ∧ DepsMet U sel reqs cons) ∧
  (∀ s ∈ sel, s ∉ exempt → U.excluded s = false ∧ U.lockedOut s = false) ∧
  (∀ s ∈ sel, ∀ t ∈ sel, U.nameOf s = U.nameOf t → s = t)

/-- The hard problem has a solution. -/
def Solvable (U : Universe) (P : Problem) : Prop := ∃ sel, Valid U P.hard sel []

/-! ### Boolean twins (executable; used as oracles on the implementation's answers) -/

def depsMetB (U : Universe) (sel : List Nat) (reqs : List Req) (constrains : List Nat) : Bool :=
  reqs.all (fun r => (U.reqCands r).any (fun c => sel.contains c)) &&
  constrains.all (fun vs => (U.nonMatching vs).all (fun t => !sel.contains t))

def validB (U : Universe) (P : Problem) (sel : List Nat) (exempt : List Nat) : Bool :=
  depsMetB U sel P.reqs P.constraints &&
  sel.all (fun s => match U.deps s with
    | .known reqs cons => depsMetB U sel reqs cons
    | .unknown _ => false) &&
  sel.all (fun s => exempt.contains s || (!U.excluded s && !U.lockedOut s)) &&
  sel.all (fun s => sel.all (fun t => U.nameOf s != U.nameOf t || s == t))

/-- Which conjunct of `Valid` fails first (for reports). -/
def validWhy (U : Universe) (P : Problem) (sel : List Nat) (exempt : List Nat) : String :=
  if !depsMetB U sel P.reqs P.constraints then "root-requirements-or-constraints"
  else if !sel.all (fun s => match U.deps s with
    | .known reqs cons => depsMetB U sel reqs cons
    | .unknown _ => false) then "dependencies-of-a-selected-solvable (or Unknown dependencies)"
  else if !sel.all (fun s => exempt.contains s || (!U.excluded s && !U.lockedOut s)) then "excluded-or-locked-out"
  else if !sel.all (fun s => sel.all (fun t => U.nameOf s != U.nameOf t || s == t)) then "two-solvables-of-one-package"
  else "valid"

end Resolvo
