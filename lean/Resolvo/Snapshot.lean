import Resolvo.Cache
/-!
# Model of `DependencySnapshot::from_provider` and `SnapshotProvider` (`src/snapshot.rs`)

Capture = breadth-first closure from the seeds over "package ↦ its candidates and excluded
solvables (+ reasons)", "solvable ↦ its package, the version sets of its requirements / constrains
(union members individually) or its Unknown reason", "version set ↦ its package and matching
candidates". What is stored per element is the provider's answer. `order` is the position of a
solvable in `sort_candidates` applied to its package's whole candidate list.
-/
namespace Resolvo.Snap

inductive Elem where
  | pkg (n : Nat)
  | vs (v : Nat)
  | solv (s : Nat)
  | str (r : Nat)
deriving DecidableEq, Repr, Inhabited

structure SnapSolv where
  name : Nat
  order : Nat
  deps : Deps
  hint : Bool
deriving Repr, Inhabited

structure Snapshot where
  solvables : List (Nat × SnapSolv) := []
  versionSets : List (Nat × VsInfo) := []
  unions : List (Nat × List Nat) := []
  packages : List (Nat × Pkg) := []
  strings : List Nat := []
deriving Repr, Inhabited

/-- elements discovered when processing `e` -/
def neighbours (U : Universe) : Elem → List Elem
  | .pkg n =>
    let p := (U.pkg? n).getD { cands := [] }
    p.cands.map .solv ++ p.excluded.flatMap (fun e => [.solv e.1, .str e.2])
  | .solv s =>
    .pkg (U.nameOf s) ::
    (match U.deps s with
     | .unknown r => [.str r]
     | .known reqs cons => cons.map .vs ++ reqs.flatMap (fun r => (U.reqVersionSets r).map .vs))
  | .str _ => []
  | .vs v => .pkg (U.vsName v) :: (U.candsOf v).map .solv

/-- worklist closure; `fuel` bounds the number of processed elements -/
def closure (U : Universe) : Nat → List Elem → List Elem → List Elem
  | 0, _, seen => seen
  | _, [], seen => seen
  | fuel + 1, e :: queue, seen =>
    let new := ((neighbours U e).eraseDups).filter (fun x => !seen.contains x && !queue.contains x)
    closure U fuel (queue ++ new) (seen ++ new)

def insertSorted (k : Nat) : List Nat → List Nat
  | [] => [k]
  | x :: xs => if k < x then k :: x :: xs else if k == x then x :: xs else x :: insertSorted k xs

def sortNat (l : List Nat) : List Nat := l.foldl (fun acc k => insertSorted k acc) []

/-- the universe size bounds the number of elements -/
def fuelFor (U : Universe) : Nat :=
  2 * (U.pkgs.length + U.solvs.length + U.vsets.length + U.unions.length + 8) * (U.solvs.length + U.vsets.length + 8)

/-- `DependencySnapshot::from_provider(provider, names, version_sets, solvables)` -/
def capture (U : Universe) (names vss solvs : List Nat) : Snapshot :=
  let seeds := (names.map Elem.pkg ++ vss.map Elem.vs ++ solvs.map Elem.solv).eraseDups
  let all := closure U (fuelFor U) seeds seeds
  let ss := sortNat (all.filterMap (fun e => match e with | .solv s => some s | _ => none))
  let vs := sortNat (all.filterMap (fun e => match e with | .vs v => some v | _ => none))
  let ps := sortNat (all.filterMap (fun e => match e with | .pkg n => some n | _ => none))
  let strs := sortNat (all.filterMap (fun e => match e with | .str r => some r | _ => none))
  let pkgs : List (Nat × Pkg) := ps.map (fun n => (n, { (U.pkg? n).getD { cands := [] } with favored := none, locked := none, hint := .none }))
  let orderOf (s : Nat) : Nat :=
    match pkgs.lookup (U.nameOf s) with
    | some p => if p.cands.contains s then (rankSort U p.cands).idxOf s else 0
    | none => 0
  let us := sortNat ((ss.flatMap (fun s => match U.deps s with
      | .known reqs _ => reqs.filterMap (fun r => match r with | .union u => some u | _ => none)
      | _ => [])))
  { solvables := ss.map (fun s => (s, { name := U.nameOf s, order := orderOf s, deps := U.deps s, hint := true })),
    versionSets := vs.map (fun v => (v, { name := U.vsName v, matching := sortNat (U.candsOf v) })),
    unions := us.map (fun u => (u, U.unionOf u)),
    packages := pkgs,
    strings := strs }

/-- the universe a `SnapshotProvider` denotes (plus version sets added afterwards) -/
def toUniverse (sn : Snapshot) (added : List (Nat × VsInfo)) : Universe :=
  { pkgs := sn.packages.map (fun np => (np.1, { np.2 with hint := .some (np.2.cands.filter (fun s => match sn.solvables.lookup s with | some x => x.hint | none => false)) })),
    solvs := sn.solvables.map (fun ss => (ss.1, { name := ss.2.name, rank := ss.2.order, deps := ss.2.deps })),
    vsets := sn.versionSets ++ added,
    unions := sn.unions }

/-- `Mapping::max()` of the captured version sets (0 when empty) -/
def maxVs (sn : Snapshot) : Nat := sn.versionSets.foldl (fun m e => Nat.max m e.1) 0

/-- `add_package_requirement`: the id handed out for the k-th added version set -/
def addedId (sn : Snapshot) (k : Nat) : Nat := maxVs sn + 1 + k

/-- `SnapshotProvider::version_set` lookup: captured ids resolve to the captured set, added ids to the added one -/
def resolveVs (sn : Snapshot) (added : List VsInfo) (id : Nat) : Option VsInfo :=
  if id ≥ maxVs sn + 1 then added[id - (maxVs sn + 1)]? else sn.versionSets.lookup id

end Resolvo.Snap
