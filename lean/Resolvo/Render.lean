import Resolvo.Graph
import Resolvo.Cache
import Resolvo.Abs.Check
/-!
# Model of `Conflict::graph` (with petgraph's index and iteration order), `ConflictGraph::simplify`,
# `get_installable_set`, `get_missing_set` and `DisplayUnsat` (`src/conflict.rs`)

The text of the user-friendly conflict message depends on the order in which nodes and edges were inserted into the
petgraph `DiGraph` (node indices ascend in insertion order; `edges(n)` / `neighbors(n)` / `edges_directed` yield the most
recently added edge first; `remove_node` moves the last node into the freed index), on `DfsPostOrder`, on the stable
`sorted_by_key`, on `chunk_by` over *consecutive* edges, and on the explicit stack of `fmt_graph`. All of that is
reproduced here so that the model's message can be compared with the real one byte for byte.

The rendering loop is fuelled by `renderFuel`, a potential function of the graph; `Props/C04.lean` proves that the
fuel always suffices (the loop terminates on every graph, cyclic ones included — the defect repaired in 5039a4b was a
violation of exactly this) and bounds the number of lines.
-/
namespace Resolvo.Render
open Resolvo Resolvo.Graph

structure RG where
  nodes : Array Node := #[]
  /-- (source index, target index, weight), by edge index -/
  edges : Array (Nat × Nat × EKind) := #[]
  unresolved : Option Nat := none
deriving Inhabited

def RG.src (g : RG) (e : Nat) : Nat := (g.edges.getD e (0, 0, .forbid)).1
def RG.dst (g : RG) (e : Nat) : Nat := (g.edges.getD e (0, 0, .forbid)).2.1
def RG.kind (g : RG) (e : Nat) : EKind := (g.edges.getD e (0, 0, .forbid)).2.2
def RG.node (g : RG) (n : Nat) : Node := g.nodes.getD n .root

/-- `graph.edges(n)`: outgoing edge indices, most recently added first -/
def RG.out (g : RG) (n : Nat) : List Nat := ((List.range g.edges.size).filter (fun e => g.src e == n)).reverse
/-- `graph.edges_directed(n, Incoming)` -/
def RG.inc (g : RG) (n : Nat) : List Nat := ((List.range g.edges.size).filter (fun e => g.dst e == n)).reverse

/-! ### `Conflict::graph` -/

def addNode (g : RG) (n : Node) : RG × Nat :=
  match g.nodes.toList.idxOf? n with
  | some i => (g, i)
  | none => ({ g with nodes := g.nodes.push n }, g.nodes.size)

def addEdge (g : RG) (s d : Nat) (k : EKind) : RG := { g with edges := g.edges.push (s, d, k) }

def nodeOfOrigin (origins : List (Nat × Abs.Origin)) (v : Nat) : Node :=
  match origins.lookup v with
  | some (.solvable s) => .solv s
  | _ => .root

def solvOfOrigin (origins : List (Nat × Abs.Origin)) (v : Nat) : Nat :=
  match origins.lookup v with
  | some (.solvable s) => s
  | _ => 0

/-- one blamed clause -/
def addClause (U : Universe) (origins : List (Nat × Abs.Origin)) (acc : RG × List (Nat × Nat)) (k : Abs.Kind) :
    RG × List (Nat × Nat) :=
  let (g, last) := acc
  match k with
  | .root => acc
  | .learnt _ => acc
  | .excluded v reason =>
    let (g, pn) := addNode g (nodeOfOrigin origins v)
    let (g, en) := addNode g (.excl reason)
    (addEdge g pn en .excluded, last)
  | .requires p r =>
    let (g, pn) := addNode g (nodeOfOrigin origins p)
    let cands := reqSorted U r
    if cands.isEmpty then (addEdge g pn 1 (.req r), last)
    else (cands.foldl (fun g c => let (g, cn) := addNode g (.solv c); addEdge g pn cn (.req r)) g, last)
  | .lock l o =>
    let (g, n2) := addNode g (nodeOfOrigin origins o)
    (addEdge g 0 n2 (.locked (solvOfOrigin origins l)), last)
  | .forbid a _ _ name =>
    let (g, n1) := addNode g (nodeOfOrigin origins a)
    let prev := last.lookup name
    let last := (name, n1) :: last.filter (fun e => e.1 != name)
    (match prev with
     | some pn => (addEdge g pn n1 .forbid, last)
     | none => (g, last))
  | .constrains p c vs =>
    let (g, pn) := addNode g (nodeOfOrigin origins p)
    let (g, cn) := addNode g (nodeOfOrigin origins c)
    (addEdge g pn cn (.constrains vs), last)

/-- `DiGraph::remove_node(1)` for the unused unresolved node: the last node takes index 1 -/
def dropUnresolved (g : RG) : RG :=
  if (g.inc 1).isEmpty then
    let last := g.nodes.size - 1
    if last == 1 then { g with nodes := g.nodes.pop, unresolved := none }
    else
      { nodes := (g.nodes.set! 1 (g.nodes.getD last .root)).pop,
        edges := g.edges.map (fun e => (if e.1 == last then 1 else e.1, if e.2.1 == last then 1 else e.2.1, e.2.2)),
        unresolved := none }
  else { g with unresolved := some 1 }

def buildGraph (U : Universe) (origins : List (Nat × Abs.Origin)) (kinds : List Abs.Kind) : RG :=
  let g0 : RG := { nodes := #[.root, .unresolved] }
  dropUnresolved ((kinds.foldl (addClause U origins) (g0, [])).1)

/-- the edges of a graph as (source node, target node, kind) -/
def nodeEdges (g : RG) : List (Node × Node × EKind) := g.edges.toList.map (fun e => (g.node e.1, g.node e.2.1, e.2.2))

/-! ### `simplify` -/

def insertNat (x : Nat) : List Nat → List Nat
  | [] => [x]
  | y :: ys => if x ≤ y then x :: y :: ys else y :: insertNat x ys
def sortNats (l : List Nat) : List Nat := l.foldr insertNat []

/-- merged candidates: solvable ↦ the solvables (in node order) it is shown together with -/
def simplify (U : Universe) (g : RG) : List (Nat × List Nat) :=
  let cands : List (Nat × Nat × (Nat × List Nat × List Nat)) := (List.range g.nodes.size).filterMap (fun n =>
    match g.node n with
    | .solv s => some (n, s, (U.nameOf s, sortNats ((g.inc n).map g.src), sortNats ((g.out n).map g.dst)))
    | _ => none)
  let keys := (cands.map (·.2.2)).eraseDups
  let groups := keys.map (fun k => (cands.filter (fun c => c.2.2 == k)).map (·.2.1))
  (groups.filter (fun m => m.length > 1)).flatMap (fun m => m.map (fun id => (id, m)))

/-! ### `DfsPostOrder`, installable and missing sets -/

/-- the nodes in the order `DfsPostOrder::next` yields them -/
def dfsPost (g : RG) (root : Nat) : List Nat :=
  let rec go : Nat → List Nat → List Nat → List Nat → List Nat → List Nat
    | 0, _, _, _, acc => acc.reverse
    | fuel + 1, stack, discovered, finished, acc =>
      match stack with
      | [] => acc.reverse
      | nx :: rest =>
        if !discovered.contains nx then
          let succs := ((g.out nx).map g.dst)
          -- `stack.push(succ)` for every undiscovered successor, in iteration order: the last pushed is on top
          let stack' := (succs.filter (fun s => !(nx :: discovered).contains s)).foldl (fun st s => s :: st) (nx :: rest)
          go fuel stack' (nx :: discovered) finished acc
        else if !finished.contains nx then go fuel rest discovered (nx :: finished) (nx :: acc)
        else go fuel rest discovered finished acc
  go (2 * (g.nodes.size + g.edges.size) + 4) [root] [] [] []

def isConflictKind : EKind → Bool
  | .req _ => false
  | _ => true

/-- consecutive groups of equal requirement among requires edges (in the given order) -/
def chunkReq (g : RG) (edges : List Nat) : List (Req × List Nat) :=
  let rec go : List Nat → Option (Req × List Nat) → List (Req × List Nat) → List (Req × List Nat)
    | [], cur, acc => (match cur with | some c => (c.1, c.2.reverse) :: acc | none => acc).reverse
    | e :: rest, cur, acc =>
      match g.kind e with
      | .req r =>
        (match cur with
         | some (r', es) => if r' == r then go rest (some (r', e :: es)) acc else go rest (some (r, [e])) ((r', es.reverse) :: acc)
         | none => go rest (some (r, [e])) acc)
      | _ => go rest cur acc
  go edges none []

def installableSet (g : RG) : List Nat :=
  (dfsPost g 0).foldl (fun inst nx =>
    if g.unresolved == some nx then inst
    else if (g.inc nx).any (fun e => g.kind e == .excluded) then inst
    else if (g.out nx).any (fun e => isConflictKind (g.kind e)) then inst
    else if (chunkReq g (g.out nx)).all (fun grp => grp.2.any (fun e => inst.contains (g.dst e))) then nx :: inst
    else inst) []

def missingSet (g : RG) : List Nat :=
  match g.unresolved with
  | none => []
  | some u =>
    (dfsPost g 0).foldl (fun miss nx =>
      if (g.out nx).any (fun e => isConflictKind (g.kind e)) then miss
      else if (chunkReq g (g.out nx)).any (fun grp => grp.2.all (fun e => miss.contains (g.dst e))) then nx :: miss
      else miss) [u]

/-! ### display helpers (the harness's table provider prints ids) -/

def nameStr (n : Nat) : String := s!"p{n}"
def vsStr (U : Universe) (v : Nat) : String := s!"{nameStr (U.vsName v)} vs{v}"
def reqStr (U : Universe) : Req → String
  | .single v => vsStr U v
  | .union u => " | ".intercalate ((U.unionOf u).map (vsStr U))

def insertStr (x : String) : List String → List String
  | [] => [x]
  | y :: ys => if x ≤ y then x :: y :: ys else y :: insertStr x ys

/-- `Interner::display_merged_solvables` -/
def mergedStr (U : Universe) (ids : List Nat) : String :=
  match ids with
  | [] => ""
  | s0 :: _ =>
    let versions := ((ids.map toString).foldr insertStr []).eraseDups
    s!"{nameStr (U.nameOf s0)} {" | ".intercalate versions}"

/-- `Indenter`: `levels` oldest first, `true` = `ChildOrder::Last` -/
structure Ind where
  levels : List Bool := []
  top : Bool := true
deriving Inhabited

def Ind.push (i : Ind) (last : Bool := false) : Ind := { i with levels := i.levels ++ [last] }
def Ind.setLast (i : Ind) : Ind := { i with levels := i.levels.dropLast ++ [true] }
def Ind.indent (i : Ind) : String :=
  let deepest := i.levels.length - 1
  (i.levels.zipIdx.foldl (fun s (lv : Bool × Nat) =>
    if lv.2 == 0 && !i.top then s
    else
      let pre := match (lv.2 == deepest, lv.1) with
        | (true, false) => "├─"
        | (true, true) => "└─"
        | (false, false) => "│ "
        | (false, true) => "  "
      s ++ pre ++ " ") "")

inductive Op where
  | req (r : Req) (edges : List Nat)
  | cand (n : Nat)
deriving Inhabited

structure Ctx where
  U : Universe
  g : RG
  merged : List (Nat × List Nat)
  inst : List Nat

/-- `sorted_by_key(|..| any installable)`: stable, groups without an installable option first -/
def sortGroups (c : Ctx) (groups : List (Req × List Nat)) : List (Req × List Nat) :=
  let hasInst (grp : Req × List Nat) := grp.2.any (fun e => c.inst.contains (c.g.dst e))
  groups.filter (fun grp => !hasInst grp) ++ groups.filter hasInst

def setFirstLast (l : List (Op × Ind)) : List (Op × Ind) :=
  match l with
  | [] => []
  | (o, i) :: rest => (o, i.setLast) :: rest

def solvOfNode? : Node → Option Nat
  | .solv s => some s
  | _ => none

/-- the children of a requirement, after the "skip merged candidates already seen" pass -/
def dedupChildren (c : Ctx) (children : List Nat) (ind : Ind) : List (Op × Ind) :=
  let rec go : List Nat → List Nat → List (Op × Ind) → List (Op × Ind)
    | [], _, acc => acc.reverse
    | n :: rest, seen, acc =>
      match solvOfNode? (c.g.node n) with
      | none => go rest seen acc
      | some s =>
        if seen.contains s then go rest seen acc
        else
          let seen := match c.merged.lookup s with | some ids => seen ++ ids | none => seen
          go rest seen ((Op.cand n, ind.push) :: acc)
  setFirstLast (go children [] [])

/-- a requirement popped from the stack: the line written and the candidates pushed (top of the stack first) -/
def reqBody (c : Ctx) (r : Req) (edges : List Nat) (ind : Ind) : List String × List (Op × Ind) :=
  let topLevel := ind.levels.length == 1
  let indent := ind.indent
  let installable := edges.any (fun e => c.inst.contains (c.g.dst e))
  let req := reqStr c.U r
  let target := c.g.dst (edges.headD 0)
  let missing := edges.length == 1 && c.g.node target == .unresolved
  if missing then
    ([if topLevel then s!"{indent}No candidates were found for {req}." else s!"{indent}{req}, for which no candidates were found."], [])
  else if installable then
    let line := if topLevel then s!"{indent}{req} can be installed with any of the following options:"
      else s!"{indent}{req}, which can be installed with any of the following options:"
    let children := (edges.filter (fun e => c.inst.contains (c.g.dst e))).map c.g.dst
    -- (`solvable_or_root()` on the child: a root child would be skipped, other node kinds cannot be installable)
    ([line], (dedupChildren c children ind).reverse)
  else
    let line := if topLevel then s!"{indent}{req} cannot be installed because there are no viable options:"
      else s!"{indent}{req}, which cannot be installed because there are no viable options:"
    ([line], (dedupChildren c (edges.map c.g.dst) ind).reverse)

/-- `reported.extend(..)` / `reported.insert(..)` for a candidate, and how it is displayed -/
def reportNode (c : Ctx) (s : Nat) (reported : List Node) : String × List Node :=
  match c.merged.lookup s with
  | some ids => (mergedStr c.U ids, reported ++ ids.map Node.solv)
  | none => (mergedStr c.U [s], reported ++ [Node.solv s])

/-- consecutive duplicates removed (`Itertools::dedup`) -/
def dedupConsecutive (l : List Nat) : List Nat := l.foldl (fun acc v => if acc.getLast? == some v then acc else acc ++ [v]) []

/-- an unreported candidate popped from the stack, once its display string is known -/
def candBody (c : Ctx) (n : Nat) (ind : Ind) (version : String) : List String × List (Op × Ind) :=
  let indent := ind.indent
  let out := c.g.out n
  let excluded := out.findSome? (fun e => if c.g.kind e == .excluded then (match c.g.node (c.g.dst e) with | .excl r => some r | _ => none) else none)
  let alreadyInstalled := out.any (fun e => c.g.kind e == .forbid)
  let constrainsConflict := out.any (fun e => match c.g.kind e with | .constrains _ => true | _ => false)
  match excluded with
  | some r => ([s!"{indent}{version} is excluded because str{r}"], [])
  | none =>
    if out.isEmpty then ([s!"{indent}{version}"], [])
    else if alreadyInstalled then ([s!"{indent}{version}, which conflicts with the versions reported above."], [])
    else if constrainsConflict then
      let vss := dedupConsecutive (out.filterMap (fun e => match c.g.kind e with | .constrains v => some v | _ => none))
      let ind2 := ind.push
      let lines := vss.zipIdx.map (fun (vi : Nat × Nat) =>
        let i := if vi.2 + 1 == vss.length then ind2.setLast else ind2
        s!"{i.indent}{nameStr (c.U.vsName vi.1)} vs{vi.1}, which conflicts with any installable versions previously reported")
      (s!"{indent}{version} would constrain" :: lines, [])
    else
      let groups := sortGroups c (chunkReq c.g out)
      let reqs := setFirstLast (groups.map (fun grp => (Op.req grp.1 grp.2, ind.push)))
      ([s!"{indent}{version} would require"], reqs.reverse)

/-- one iteration of the `while let Some(..) = stack.pop()` loop: lines written, entries pushed (top first), new `reported` -/
def stepOp (c : Ctx) (op : Op) (ind : Ind) (reported : List Node) : List String × List (Op × Ind) × List Node :=
  match op with
  | .req r edges => ((reqBody c r edges ind).1, (reqBody c r edges ind).2, reported)
  | .cand n =>
    if reported.contains (c.g.node n) then ([], [], reported)
    else
      match c.g.node n with
      | .solv s =>
        ((candBody c n ind (reportNode c s reported).1).1, (candBody c n ind (reportNode c s reported).1).2, (reportNode c s reported).2)
      | _ => ((candBody c n ind "<root>").1, (candBody c n ind "<root>").2, reported)

/-- the weight of a stack entry in the potential function -/
def opWeight : Op → Nat
  | .req _ edges => edges.length + 2
  | .cand _ => 1

/-- an upper bound of what expanding one candidate can push -/
def candBudget (g : RG) : Nat := 3 * g.edges.size + 2

/-- the potential: unreported nodes pay for their future expansion, stack entries for themselves -/
def potential (g : RG) (reportedCount : Nat) (stack : List (Op × Ind)) : Nat :=
  (g.nodes.size + 1 - reportedCount) * (candBudget g + 1) + (stack.map (fun x => opWeight x.1)).sum

def runLoop (c : Ctx) : Nat → List (Op × Ind) → List Node → List String → Option (List String)
  | 0, [], _, acc => some acc.reverse
  | 0, _ :: _, _, _ => none
  | _ + 1, [], _, acc => some acc.reverse
  | fuel + 1, (op, ind) :: rest, reported, acc =>
    let (lines, pushed, reported') := stepOp c op ind reported
    runLoop c fuel (pushed ++ rest) reported' (lines.reverse ++ acc)

def renderFuel (g : RG) (stack : List (Op × Ind)) : Nat := potential g 0 stack + 1

/-- `fmt_graph` -/
def fmtGraph (c : Ctx) (topEdges : List Nat) (topIndent : Bool) : Option (List String) :=
  let ind0 : Ind := { top := topIndent }
  let groups := sortGroups c (chunkReq c.g topEdges)
  let stack := (setFirstLast (groups.map (fun grp => (Op.req grp.1 grp.2, ind0.push)))).reverse
  runLoop c (renderFuel c.g stack) stack [] []

/-- `impl Display for DisplayUnsat` -/
def render (U : Universe) (g : RG) : Option String :=
  let c : Ctx := { U := U, g := g, merged := simplify U g, inst := installableSet g }
  let miss := missingSet g
  let rootEdges := g.out 0
  let topMissing := rootEdges.filter (fun e => miss.contains (g.dst e))
  let topConflicts := rootEdges.filter (fun e => !miss.contains (g.dst e))
  let part1 := if topMissing.isEmpty then some [] else fmtGraph c topMissing false
  let part2 := if topConflicts.isEmpty then some [] else
    match fmtGraph c topConflicts true with
    | none => none
    | some ls =>
      let ind0 : Ind := { top := true }
      let locked := rootEdges.zipIdx.filterMap (fun (ei : Nat × Nat) =>
        let ind := ind0.push (ei.2 + 1 == rootEdges.length)
        match g.kind ei.1 with
        | .constrains v => some s!"{ind.indent}the constraint {nameStr (U.vsName v)} vs{v} cannot be fulfilled"
        | .locked l => some s!"{ind.indent}{mergedStr U [l]} is locked, but another version is required as reported above"
        | _ => none)
      some ("The following packages are incompatible" :: ls ++ locked)
  match part1, part2 with
  | some a, some b => some ("".intercalate ((a ++ b).map (· ++ "\n")))
  | _, _ => none

/-! ### `ConflictGraph::graphviz` (with `simplify = true`) -/

def graphviz (U : Universe) (g : RG) : String :=
  let merged := simplify U g
  let body := (List.range g.nodes.size).foldl (fun (acc : String) nx =>
    let node := g.node nx
    let isSolvNode := match node with | .root => true | .solv _ => true | _ => false
    let skip := match node with
      | .solv s => (match merged.lookup s with | some ids => ids.head? != some s | none => false)
      | _ => false
    if !isSolvNode || skip then acc
    else
      let idStr := match node with | .solv s => toString s | _ => "root"
      ((g.out nx).foldl (fun (st : String × List Nat) e =>
        let (acc, added) := st
        let target := g.node (g.dst e)
        let color := match g.kind e with
          | .req _ => if target != Node.unresolved then "black" else "red"
          | _ => "red"
        let label := match g.kind e with
          | .req r => reqStr U r
          | .constrains v => s!"vs{v}"
          | .forbid => "already installed"
          | .locked _ => "already installed"
          | .excluded => "excluded"
        let line (t : String) := s!"\"{idStr}\" -> \"{t}\"[color={color}, label=\"{label}\"];"
        match target with
        | .solv s2 =>
          (match merged.lookup s2 with
           | some ids =>
             let first := ids.headD s2
             if added.contains first then (acc, added) else (acc ++ line (toString first), first :: added)
           | none => (acc ++ line (toString s2), added))
        | .root => (acc ++ line "root", added)
        | .unresolved => (acc ++ line "unresolved", added)
        | .excl r => (acc ++ line s!"reason: str{r}", added)) (acc, [])).1) ""
  "digraph {" ++ body ++ "}"

end Resolvo.Render
