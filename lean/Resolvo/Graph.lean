import Resolvo.Spec
import Resolvo.Sat.Dpll
/-!
# Conflict graphs (`Conflict::graph`) and the oracles of C03

A graph is a list of edges between nodes (root, solvable, unresolved-dependency, exclusion
reason). `edgesTrueB` checks every edge against the provider's data; `reachableB` recomputes
reachability from the root; `cnfOfGraph` reads the graph — and nothing else — as a formula:
root unit, one clause per (source, requirement) group, a binary/unit clause per conflict edge,
pairwise at-most-one inside each forbid-connected component. `graphRefutes` runs the verified
DPLL on it.
-/
namespace Resolvo.Graph
open Resolvo Resolvo.Sat

inductive Node where
  | root
  | solv (s : Nat)
  | unresolved
  | excl (reason : Nat)
deriving DecidableEq, Repr, Inhabited

inductive EKind where
  | req (r : Req)
  | constrains (vs : Nat)
  | locked (l : Nat)
  | forbid
  | excluded
deriving DecidableEq, Repr, Inhabited

structure Edge where
  src : Node
  dst : Node
  kind : EKind
deriving DecidableEq, Repr, Inhabited

abbrev G := List Edge

def depsOfNode (U : Universe) (P : Problem) : Node → Option (List Req × List Nat)
  | .root => some (P.reqs, P.constraints)
  | .solv s => match U.deps s with | .known reqs cons => some (reqs, cons) | .unknown _ => none
  | _ => none

def sameSetN (a b : List Nat) : Bool := a.all (fun x => b.contains x) && b.all (fun x => a.contains x)

/-- all targets of the (src, requirement) group -/
def groupTargets (g : G) (src : Node) (r : Req) : List Node :=
  (g.filter (fun e => e.src == src && e.kind == .req r)).map (·.dst)

/-- One edge states a true fact of the universe. -/
def edgeTrueB (U : Universe) (P : Problem) (g : G) (e : Edge) : Bool :=
  match e.kind with
  | .req r =>
    (match depsOfNode U P e.src with
     | some (reqs, _) => reqs.contains r
     | none => false) &&
    (let ts := groupTargets g e.src r
     if (U.reqCands r).isEmpty then ts.all (· == .unresolved)
     else ts.all (fun t => match t with | .solv c => (U.reqCands r).contains c | _ => false) &&
          (U.reqCands r).all (fun c => ts.contains (.solv c)))
  | .constrains vs =>
    (match depsOfNode U P e.src with
     | some (_, cons) => cons.contains vs
     | none => false) &&
    (match e.dst with | .solv t => (U.nonMatching vs).contains t | _ => false)
  | .locked l =>
    e.src == .root &&
    (match e.dst with
     | .solv o => (match U.pkg? (U.nameOf o) with
        | some p => p.locked == some l && o != l
        | none => false)
     | _ => false)
  | .excluded =>
    (match e.src, e.dst with
     | .solv s, .excl reason =>
       (match U.deps s with | .unknown r => r == reason | _ => false) ||
       (match U.pkg? (U.nameOf s) with | some p => p.excluded.any (fun x => x.1 == s && x.2 == reason) | none => false)
     | _, _ => false)
  | .forbid =>
    (match e.src, e.dst with
     | .solv a, .solv b => U.nameOf a == U.nameOf b
     | _, _ => false)

def edgesTrueB (U : Universe) (P : Problem) (g : G) : Bool := g.all (edgeTrueB U P g)

def nodesOf (g : G) : List Node := (g.flatMap (fun e => [e.src, e.dst])).eraseDups

/-- reachability from the root by repeated expansion (at most |nodes| rounds) -/
def reachable (g : G) : List Node :=
  (List.range (nodesOf g).length).foldl (fun seen _ =>
    seen ++ ((g.filter (fun e => seen.contains e.src && !seen.contains e.dst)).map (·.dst)).eraseDups) [.root]

def reachableB (g : G) (nodes : List Node) : Bool := nodes.all (fun n => (reachable g).contains n)

/-! ### the graph as a formula -/

def varOf : Node → Option Nat
  | .root => some 0
  | .solv s => some (s + 1)
  | _ => none

def negOf (n : Node) : Clause := match varOf n with | some v => [(v, false)] | none => []

/-- forbid-connected component of a node (undirected closure over forbid edges) -/
def forbidComponent (g : G) (n : Node) : List Node :=
  let fe := g.filter (fun e => e.kind == .forbid)
  (List.range (fe.length + 1)).foldl (fun comp _ =>
    comp ++ ((fe.filter (fun e => (comp.contains e.src && !comp.contains e.dst))).map (·.dst) ++
             (fe.filter (fun e => (comp.contains e.dst && !comp.contains e.src))).map (·.src)).eraseDups) [n]

def cnfOfGraph (g : G) : Cnf :=
  let reqGroups := (g.filterMap (fun e => match e.kind with | .req r => some (e.src, r) | _ => none)).eraseDups
  [[(0, true)]] ++
  reqGroups.map (fun (src, r) => negOf src ++ (groupTargets g src r).filterMap (fun t => (varOf t).map (fun v => (v, true)))) ++
  g.filterMap (fun e => match e.kind with
    | .constrains _ => some (negOf e.src ++ negOf e.dst)
    | .locked _ => some (negOf e.src ++ negOf e.dst)
    | .excluded => some (negOf e.src)
    | _ => none) ++
  (g.filter (fun e => e.kind == .forbid)).flatMap (fun e =>
    let comp := forbidComponent g e.src
    comp.flatMap (fun a => (comp.filter (fun b => a != b)).map (fun b => negOf a ++ negOf b)))

/-- the facts shown in the graph alone admit no selection that installs the root -/
def graphRefutes (g : G) : Bool := !decideSat' (cnfOfGraph g)

theorem graphRefutes_iff (g : G) : graphRefutes g = true ↔ ¬ ∃ a, evalCnf a (cnfOfGraph g) = true := by
  unfold graphRefutes
  rw [← decideSat'_iff]
  cases decideSat' (cnfOfGraph g) <;> simp

end Resolvo.Graph
