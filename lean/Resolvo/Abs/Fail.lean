import Resolvo.Abs.Sound
/-!
# An accepted history that records a failure proves the hard problem unsolvable
-/
namespace Resolvo.Abs
open Resolvo Resolvo.Sat

/-- The assignment a valid selection induces on the solver's variables: root true, a solvable's
    variable true iff selected, a helper variable true iff some selected solvable has a clause
    `(¬a ∨ h)` asking for it. -/
def mu (st : St) (sel : List Nat) (v : Nat) : Bool :=
  match st.origins.lookup v with
  | some .root => true
  | some (.solvable s) => sel.contains s
  | some (.forbid _) => st.db.any (fun cl => match cl.kind with
      | .forbid a h true _ => h == v && (match oSolv st.origins a with | some s => sel.contains s | none => false)
      | _ => false)
  | none => false

theorem mu_solv (st : St) (sel : List Nat) (v s : Nat) (h : oSolv st.origins v = some s) :
    mu st sel v = sel.contains s := by
  unfold oSolv at h
  unfold mu
  cases hl : st.origins.lookup v with
  | none => rw [hl] at h; cases h
  | some o =>
    rw [hl] at h
    cases o with
    | root => cases h
    | forbid n => cases h
    | solvable s' => cases h; rfl

theorem evalLit_neg_of_false (a : Nat → Bool) (v : Nat) (h : a v = false) : evalLit a (v, false) = true := by
  simp [evalLit, h]

theorem evalLit_pos_of_true (a : Nat → Bool) (v : Nat) (h : a v = true) : evalLit a (v, true) = true := by
  simp [evalLit, h]

/-- requirements / constrains of a parent that `mu` makes true are met by a valid selection -/
theorem parent_met (U : Universe) (P : Problem) (st : St) (hi : SInv U P st) (sel : List Nat)
    (hv : Valid U P.hard sel []) (p : Nat) (reqs : List Req) (cons : List Nat)
    (hpd : oParentDeps U P st.origins p = some (reqs, cons)) (hp : mu st sel p = true) :
    DepsMet U sel reqs cons := by
  unfold oParentDeps at hpd
  unfold mu at hp
  cases hl : st.origins.lookup p with
  | none => rw [hl] at hpd; cases hpd
  | some o =>
    rw [hl] at hpd hp
    cases o with
    | root => cases hpd; exact hv.1
    | forbid n => cases hpd
    | solvable s =>
      simp only [] at hpd hp
      have hs : s ∈ sel := List.contains_iff_mem.mp hp
      obtain ⟨reqs', cons', hd, hm⟩ := hv.2.1 s hs
      rw [hd] at hpd
      cases hpd
      exact hm

/-- **I1**: every non-learnt clause of an accepted history is satisfied by the assignment that a
    valid selection induces. -/
theorem mu_satisfies (U : Universe) (P : Problem) (st : St) (hi : SInv U P st) (sel : List Nat)
    (hv : Valid U P.hard sel []) : SatNL (mu st sel) st.db := by
  intro cl hcl hnl
  have hp := hi.prov cl hcl
  unfold Prov at hp
  cases hk : cl.kind with
  | learnt idx => simp [isLearnt, hk] at hnl
  | root =>
    rw [hk] at hp
    rw [hp]
    have : mu st sel 0 = true := by unfold mu; rw [hi.rootOrigin]
    simp [evalClause, evalLit, this]
  | requires p r =>
    rw [hk] at hp
    obtain ⟨reqs, cons, vars, h1, h2, _, h4, _, h6⟩ := hp
    rw [h6]
    cases hmp : mu st sel p with
    | false => simp [evalClause, evalLit, hmp]
    | true =>
      have hm := parent_met U P st hi sel hv p reqs cons h1 hmp
      obtain ⟨c, hc, hcs⟩ := hm.1 r h2
      have hcm := h4 c hc
      rw [List.mem_filterMap] at hcm
      obtain ⟨v, hvm, hvs⟩ := hcm
      have : mu st sel v = true := by rw [mu_solv st sel v c hvs]; exact List.contains_iff_mem.mpr hcs
      apply List.any_eq_true.mpr
      exact ⟨(v, true), List.mem_cons_of_mem _ (List.mem_map.mpr ⟨v, hvm, rfl⟩), evalLit_pos_of_true _ _ this⟩
  | constrains p c vs =>
    rw [hk] at hp
    obtain ⟨reqs, cons, t, h1, h2, h3, h4, h5⟩ := hp
    rw [h5]
    cases hmp : mu st sel p with
    | false => simp [evalClause, evalLit, hmp]
    | true =>
      have hm := parent_met U P st hi sel hv p reqs cons h1 hmp
      have hnot := hm.2 vs h2 t h4
      have : mu st sel c = false := by
        rw [mu_solv st sel c t h3]
        cases hct : sel.contains t with
        | false => rfl
        | true => exact absurd (List.contains_iff_mem.mp hct) hnot
      simp [evalClause, evalLit, this]
  | lock l o =>
    rw [hk] at hp
    obtain ⟨ls, os, p, _, h2, h3, h4, h5, h6⟩ := hp
    rw [h6]
    have : mu st sel o = false := by
      rw [mu_solv st sel o os h2]
      cases hct : sel.contains os with
      | false => rfl
      | true =>
        have hos := List.contains_iff_mem.mp hct
        have := (hv.2.2.1 os hos (by simp)).2
        unfold Universe.lockedOut at this
        rw [h3] at this
        simp only [h4] at this
        have hne : (ls != os) = true := by simp [bne_iff_ne, Ne.symm h5]
        rw [hne] at this; cases this
    simp [evalClause, evalLit, this]
  | excluded v reason =>
    rw [hk] at hp
    obtain ⟨s, h1, h2, h3⟩ := hp
    rw [h3]
    have : mu st sel v = false := by
      rw [mu_solv st sel v s h1]
      cases hct : sel.contains s with
      | false => rfl
      | true =>
        have hs := List.contains_iff_mem.mp hct
        rcases h2 with hd | ⟨p, hp1, hp2⟩
        · obtain ⟨reqs', cons', hd', _⟩ := hv.2.1 s hs
          rw [hd] at hd'; cases hd'
        · have := (hv.2.2.1 s hs (by simp)).1
          unfold Universe.excluded at this
          rw [hp1] at this
          simp only [] at this
          have hany : p.excluded.any (fun e => e.1 == s) = true :=
            List.any_eq_true.mpr ⟨(s, reason), hp2, by simp⟩
          rw [hany] at this; cases this
    simp [evalClause, evalLit, this]
  | forbid a h pos n =>
    rw [hk] at hp
    obtain ⟨s, h1, h2, h3, h4⟩ := hp
    rw [h4]
    cases hma : mu st sel a with
    | false => simp [evalClause, evalLit, hma]
    | true =>
      have hsa : sel.contains s = true := by rw [← mu_solv st sel a s h1]; exact hma
      -- value of the helper under mu
      have hmu_h : mu st sel h = st.db.any (fun cl => match cl.kind with
          | .forbid a' h' true _ => h' == h && (match oSolv st.origins a' with | some s' => sel.contains s' | none => false)
          | _ => false) := by
        unfold mu; rw [h2]
      cases pos with
      | true =>
        have : mu st sel h = true := by
          rw [hmu_h]
          apply List.any_eq_true.mpr
          refine ⟨cl, hcl, ?_⟩
          rw [hk]
          simp [h1, List.contains_iff_mem.mp hsa]
        simp [evalClause, evalLit, this]
      | false =>
        have : mu st sel h = false := by
          rw [hmu_h]
          cases hany : st.db.any (fun cl => match cl.kind with
              | .forbid a' h' true _ => h' == h && (match oSolv st.origins a' with | some s' => sel.contains s' | none => false)
              | _ => false) with
          | false => rfl
          | true =>
            obtain ⟨cl', hcl', hc'⟩ := List.any_eq_true.mp hany
            cases hk' : cl'.kind with
            | forbid a' h' pos' n' =>
              rw [hk'] at hc'
              cases pos' with
              | false => simp at hc'
              | true =>
                simp only [Bool.and_eq_true, beq_iff_eq] at hc'
                obtain ⟨hh, hsel'⟩ := hc'
                subst hh
                -- a' is a selected solvable of the same name, hence the same solvable, hence a' = a
                have hp' := hi.prov cl' hcl'
                unfold Prov at hp'
                rw [hk'] at hp'
                obtain ⟨s', g1, g2, g3, _⟩ := hp'
                rw [g1] at hsel'
                simp only [] at hsel'
                rw [h2] at g2
                have hn : n' = n := by cases g2; rfl
                have hss : s' = s := hv.2.2.2 s' (List.contains_iff_mem.mp hsel') s (List.contains_iff_mem.mp hsa)
                  (by rw [g3, h3, hn])
                subst hss
                have haa : a' = a := by
                  unfold oSolv at g1 h1
                  cases l1 : st.origins.lookup a' with
                  | none => rw [l1] at g1; cases g1
                  | some o1 =>
                    cases l2 : st.origins.lookup a with
                    | none => rw [l2] at h1; cases h1
                    | some o2 =>
                      rw [l1] at g1; rw [l2] at h1
                      cases o1 <;> cases o2 <;> simp at g1 h1
                      subst g1; subst h1
                      exact hi.solvInj a' a _ l1 l2
                subst haa
                have := hi.consistent cl' hcl' cl hcl a' h' true false n' n hk' hk
                cases this
            | _ => rw [hk'] at hc'; simp at hc'
        simp [evalClause, evalLit, this]

theorem mu_root (U : Universe) (P : Problem) (st : St) (hi : SInv U P st) (sel : List Nat) :
    mu st sel 0 = true := by
  unfold mu; rw [hi.rootOrigin]

/-- Invariants of every accepted history. -/
theorem run_inv (U : Universe) (P : Problem) (evs : List Event) (st0 st : St)
    (h0 : LInv st0 ∧ SInv U P st0) (h : evs.foldlM (step U P) st0 = some st) : LInv st ∧ SInv U P st := by
  induction evs generalizing st0 with
  | nil => simp [List.foldlM] at h; subst h; exact h0
  | cons ev evs ih =>
    simp only [List.foldlM_cons] at h
    cases hs : step U P st0 ev with
    | none => rw [hs] at h; simp at h
    | some st1 =>
      rw [hs] at h
      simp only [Option.bind_eq_bind, Option.bind_some] at h
      exact ih st1 ⟨step_linv U P st0 st1 ev h0.1 hs, step_sinv U P st0 st1 ev h0.2 hs⟩ h

/-- **Failure soundness.** If a history is accepted by the abstract system and records a failure
    (a clause falsified by a trail whose only decision is the root), the hard problem has no
    valid solution. -/
theorem fail_sound (U : Universe) (P : Problem) (evs : List Event) (st : St)
    (hrun : runOpt U P evs = some st) (hfail : st.failed.isSome = true) : ¬ Solvable U P := by
  obtain ⟨hl, hs⟩ := run_inv U P evs {} st ⟨linv_init, sinv_init U P⟩ hrun
  rintro ⟨sel, hv⟩
  apply hl.failedOK hfail
  exact ⟨mu st sel, hl.learntEntailed _ (mu_satisfies U P st hs sel hv), mu_root U P st hs sel⟩

end Resolvo.Abs
