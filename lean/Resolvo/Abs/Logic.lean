import Resolvo.Abs.Check
import Resolvo.Sat.RupProofs
/-!
# Soundness of the abstract system, logical part

Invariants of every state reachable through accepted steps, about the clause database as a
propositional formula (no reference yet to what the clauses mean for the provider universe):
learnt clauses are entailed by the non-learnt ones, trail entries follow from the database and
the decisions below them, and a recorded failure means `db ∧ root` is unsatisfiable.
-/
namespace Resolvo.Abs
open Resolvo Resolvo.Sat

def isLearnt (cl : ACl) : Bool := match cl.kind with | .learnt _ => true | _ => false

/-- `a` satisfies every clause of the database -/
def SatDb (a : Nat → Bool) (db : List ACl) : Prop := ∀ cl ∈ db, evalClause a cl.lits = true
/-- `a` satisfies every non-learnt clause -/
def SatNL (a : Nat → Bool) (db : List ACl) : Prop := ∀ cl ∈ db, isLearnt cl = false → evalClause a cl.lits = true

/-- every entry is a decision or follows from the database and the entries below it -/
def TrailOK (db : List ACl) : List Entry → Prop
  | [] => True
  | e :: rest => TrailOK db rest ∧
      (e.decision = true ∨ ∀ a, SatDb a db → (∀ e' ∈ rest, a e'.var = e'.val) → a e.var = e.val)

theorem TrailOK.all (db : List ACl) (trail : List Entry) (h : TrailOK db trail) (a : Nat → Bool)
    (hsat : SatDb a db) (hdec : ∀ e ∈ trail, e.decision = true → a e.var = e.val) :
    ∀ e ∈ trail, a e.var = e.val := by
  induction trail with
  | nil => intro e he; cases he
  | cons e rest ih =>
    obtain ⟨hrest, he⟩ := h
    have hr := ih hrest (fun e' he' hd => hdec e' (List.mem_cons_of_mem _ he') hd)
    intro e' he'
    rcases List.mem_cons.mp he' with rfl | h'
    · rcases he with hd | himp
      · exact hdec _ List.mem_cons_self hd
      · exact himp a hsat hr
    · exact hr e' h'

theorem TrailOK.mono (db db' : List ACl) (hsub : ∀ a, SatDb a db' → SatDb a db) (trail : List Entry)
    (h : TrailOK db trail) : TrailOK db' trail := by
  induction trail with
  | nil => trivial
  | cons e rest ih =>
    obtain ⟨hrest, he⟩ := h
    refine ⟨ih hrest, ?_⟩
    rcases he with hd | himp
    · exact Or.inl hd
    · exact Or.inr (fun a hs hr => himp a (hsub a hs) hr)

structure LInv (st : St) : Prop where
  learntEntailed : ∀ a, SatNL a st.db → SatDb a st.db
  trailOK : TrailOK st.db st.trail
  failedOK : st.failed.isSome = true → ¬ ∃ a, SatDb a st.db ∧ a 0 = true

theorem linv_init : LInv ({} : St) := by
  refine ⟨?_, trivial, ?_⟩
  · intro a _ cl hcl; cases hcl
  · intro h; cases h

theorem valueOf_some (st : St) (v : Nat) (b : Bool) (h : st.valueOf v = some b) :
    ∃ e ∈ st.trail, e.var = v ∧ e.val = b := by
  unfold St.valueOf at h
  cases hf : st.trail.find? (fun e => e.var == v) with
  | none => rw [hf] at h; cases h
  | some e =>
    rw [hf] at h
    simp only [Option.map_some, Option.some.injEq] at h
    have hm := List.mem_of_find?_eq_some hf
    have hp := List.find?_some hf
    exact ⟨e, hm, by simpa using hp, h⟩

theorem litFalse_spec (st : St) (l : Lit) (h : st.litFalse l = true) :
    ∃ e ∈ st.trail, e.var = l.1 ∧ e.val = !l.2 := by
  unfold St.litFalse at h
  exact valueOf_some st l.1 (!l.2) (by simpa using h)

/-- a literal that is false on the trail is false under any assignment agreeing with the trail -/
theorem evalLit_of_litFalse (st : St) (a : Nat → Bool) (htr : ∀ e ∈ st.trail, a e.var = e.val)
    (l : Lit) (h : st.litFalse l = true) : evalLit a l = false := by
  obtain ⟨e, he, hv, hb⟩ := litFalse_spec st l h
  have := htr e he
  rw [hv, hb] at this
  simp only [evalLit, this]
  cases l.2 <;> rfl

theorem mkClause_kind (U : Universe) (P : Problem) (st : St) (k : Kind) (cands : List (List Nat))
    (cl : ACl) (h : mkClause U P st k cands = some cl) : cl.kind = k := by
  unfold mkClause at h
  cases k <;> simp only [] at h <;> (repeat' split at h) <;> first | (cases h; rfl) | cases h

theorem mkClause_learnt (U : Universe) (P : Problem) (st : St) (idx : Nat) (cands : List (List Nat))
    (cl : ACl) (h : mkClause U P st (.learnt idx) cands = some cl) :
    ∃ why : List Nat, (∀ w ∈ why, w < st.db.length) ∧
      rup (why.map (fun w => (st.db.getD w default).lits)) cl.lits = true := by
  unfold mkClause at h
  simp only [] at h
  split at h
  · next idx' lits why _ =>
    split at h
    · next hc =>
      cases h
      simp only [Bool.and_eq_true, List.all_eq_true, decide_eq_true_eq] at hc
      exact ⟨why, hc.1.2, hc.2⟩
    · cases h
  · cases h

theorem satDb_append (a : Nat → Bool) (db : List ACl) (cl : ACl) :
    SatDb a (db ++ [cl]) ↔ SatDb a db ∧ evalClause a cl.lits = true := by
  unfold SatDb
  constructor
  · intro h
    exact ⟨fun c hc => h c (List.mem_append_left _ hc), h cl (by simp)⟩
  · rintro ⟨h1, h2⟩ c hc
    rcases List.mem_append.mp hc with h | h
    · exact h1 c h
    · simp at h; subst h; exact h2

theorem step_linv (U : Universe) (P : Problem) (st st' : St) (ev : Event)
    (hi : LInv st) (hs : step U P st ev = some st') : LInv st' := by
  cases ev with
  | note => simp [step] at hs; subst hs; exact hi
  | var v o =>
    simp only [step] at hs
    split at hs
    · cases hs
    · cases o with
      | root => cases hs
      | solvable s =>
        simp only [] at hs
        by_cases hany : (st.origins.any fun vo => vo.2 == Origin.solvable s) = true
        · simp [hany] at hs
        · simp [hany] at hs; subst hs; exact ⟨hi.1, hi.2, hi.3⟩
      | forbid n => cases hs; exact ⟨hi.1, hi.2, hi.3⟩
  | learntLits idx lits why =>
    simp only [step] at hs; cases hs; exact ⟨hi.1, hi.2, hi.3⟩
  | clause id k cands =>
    simp only [step] at hs
    split at hs
    · cases hs
    · cases hm : mkClause U P st k cands with
      | none => rw [hm] at hs; cases hs
      | some cl =>
        rw [hm] at hs
        cases hs
        have hk := mkClause_kind U P st k cands cl hm
        refine ⟨?_, ?_, ?_⟩
        · -- learnt entailment
          intro a hnl
          have hnl0 : SatNL a st.db := fun c hc hl => hnl c (List.mem_append_left _ hc) hl
          have hdb := hi.learntEntailed a hnl0
          rw [satDb_append]
          refine ⟨hdb, ?_⟩
          cases hL : isLearnt cl with
          | false => exact hnl cl (by simp) hL
          | true =>
            -- cl is learnt: follows by RUP from clauses of the old database
            cases k with
            | learnt idx =>
              obtain ⟨why, hlt, hr⟩ := mkClause_learnt U P st idx cands cl hm
              apply rup_sound _ _ hr a
              unfold evalCnf
              rw [List.all_map]
              apply List.all_eq_true.mpr
              intro w hw
              have hwl := hlt w hw
              have hmem : st.db.getD w default ∈ st.db := by
                rw [List.getD_eq_getElem?_getD, List.getElem?_eq_getElem hwl]
                exact List.getElem_mem hwl
              exact hdb _ hmem
            | _ => simp [isLearnt, hk] at hL
        · exact TrailOK.mono st.db _ (fun a hs => ((satDb_append a st.db cl).mp hs).1) _ hi.trailOK
        · intro hf
          have := hi.failedOK hf
          rintro ⟨a, hsat, hr⟩
          exact this ⟨a, ((satDb_append a st.db cl).mp hsat).1, hr⟩
  | assign v val level reason =>
    simp only [step] at hs
    split at hs
    · cases hs
    · split at hs
      · -- decision
        cases hs
        exact ⟨hi.1, ⟨hi.trailOK, Or.inl rfl⟩, hi.3⟩
      · split at hs
        · -- propagation
          cases hcl : st.db[reason]? with
          | none => rw [hcl] at hs; cases hs
          | some cl =>
            rw [hcl] at hs
            simp only [] at hs
            split at hs
            · next hc =>
              cases hs
              simp only [Bool.and_eq_true, List.all_eq_true, Bool.or_eq_true] at hc
              refine ⟨hi.1, ⟨hi.trailOK, Or.inr ?_⟩, hi.3⟩
              intro a hsat hold
              -- the new entry: unit consequence of `cl`
              have hclm : cl ∈ st.db := List.mem_of_getElem? hcl
              obtain ⟨l, hl, hlv⟩ := List.any_eq_true.mp (hsat cl hclm)
              rcases hc.2 l hl with h1 | h1
              · have : l = (v, val) := by simpa using h1
                subst this
                simpa [evalLit] using hlv
              · have := evalLit_of_litFalse st a hold l h1
                rw [hlv] at this; cases this
            · cases hs
        · cases hs
  | undo v =>
    simp only [step] at hs
    split at hs
    · next e rest htr =>
      split at hs
      · cases hs
        have := hi.trailOK
        rw [htr] at this
        exact ⟨hi.1, this.1, hi.3⟩
      · cases hs
    · cases hs
  | clear =>
    simp only [step] at hs; cases hs
    exact ⟨hi.1, trivial, hi.3⟩
  | unsolvable c =>
    simp only [step] at hs
    cases hcl : st.db[c]? with
    | none => rw [hcl] at hs; cases hs
    | some cl =>
      rw [hcl] at hs
      simp only [] at hs
      split at hs
      · next hc =>
        cases hs
        simp only [Bool.and_eq_true, List.all_eq_true, Bool.or_eq_true, Bool.not_eq_true',
          beq_iff_eq] at hc
        refine ⟨hi.1, hi.2, ?_⟩
        intro _
        rintro ⟨a, hsat, hroot⟩
        have hdec : ∀ e ∈ st.trail, e.decision = true → a e.var = e.val := by
          intro e he hd
          rcases hc.1.2 e he with h1 | h1
          · rw [hd] at h1; cases h1
          · rw [h1.1, h1.2]; exact hroot
        have hall := TrailOK.all _ _ hi.trailOK a hsat hdec
        have hclm : cl ∈ st.db := List.mem_of_getElem? hcl
        obtain ⟨l, hl, hlv⟩ := List.any_eq_true.mp (hsat cl hclm)
        have := evalLit_of_litFalse st a hall l (hc.1.1 l hl)
        rw [hlv] at this; cases this
      · cases hs

end Resolvo.Abs
