import Resolvo.Abs.Decide
import Resolvo.Abs.Fail
import Resolvo.Oracles
/-!
# What a decision-guarded accepted history establishes for C07

If the closure of first choices `pref` is a valid selection in which every requirement is met only
by its own first choice (`preferredConsistent U P = some pref`), then along every history accepted
by the decision-guarded abstract system (`runOptD`) every assignment on the trail agrees with the
assignment `pref` induces: propagation can only derive what every model of the clause database
satisfies, and a decision picks the first undecided candidate of a requirement of a selected
solvable — which is the requirement's first choice, because an earlier candidate can only have
been made false if the model makes it false. Hence no solvable outside `pref` is ever installed,
and a valid solution inside `pref` is all of it.
-/
namespace Resolvo.Abs
open Resolvo Resolvo.Sat

/-! ### `stepD` refines `step`; `step` only extends the database and the variable origins -/

theorem stepD_step (U : Universe) (P : Problem) (st st' : St) (ev : Event)
    (h : stepD U P st ev = some st') : step U P st ev = some st' := by
  unfold stepD at h
  cases ev with
  | assign v val level reason =>
    simp only [] at h
    split at h
    · cases h
    · exact h
  | _ => exact h

theorem stepD_guard (U : Universe) (P : Problem) (st st' : St) (v : Nat) (val : Bool) (level reason : Nat)
    (h : stepD U P st (.assign v val level reason) = some st') (hl : level = st.topLevel + 1) :
    decisionOK U P st v val reason = true := by
  unfold stepD at h
  simp only [] at h
  split at h
  · cases h
  · next hc =>
    cases hd : decisionOK U P st v val reason with
    | true => rfl
    | false => exact absurd (by simp [hl, hd]) hc

theorem runOptD_runOpt (U : Universe) (P : Problem) (evs : List Event) (st0 st : St)
    (h : evs.foldlM (stepD U P) st0 = some st) : evs.foldlM (step U P) st0 = some st := by
  induction evs generalizing st0 with
  | nil => exact h
  | cons ev evs ih =>
    simp only [List.foldlM_cons] at h ⊢
    cases hs : stepD U P st0 ev with
    | none => rw [hs] at h; simp at h
    | some st1 =>
      rw [hs] at h
      rw [stepD_step U P st0 st1 ev hs]
      simp only [Option.bind_eq_bind, Option.bind_some] at h ⊢
      exact ih st1 h

theorem step_mono (U : Universe) (P : Problem) (st st' : St) (ev : Event)
    (hs : step U P st ev = some st') :
    (∀ cl ∈ st.db, cl ∈ st'.db) ∧
    (∀ v o, st.origins.lookup v = some o → st'.origins.lookup v = some o) := by
  cases ev with
  | note => simp [step] at hs; subst hs; exact ⟨fun _ h => h, fun _ _ h => h⟩
  | learntLits idx lits why => simp only [step] at hs; cases hs; exact ⟨fun _ h => h, fun _ _ h => h⟩
  | assign v val level reason =>
    simp only [step] at hs
    split at hs
    · cases hs
    · split at hs
      · cases hs; exact ⟨fun _ h => h, fun _ _ h => h⟩
      · split at hs
        · split at hs
          · split at hs
            · cases hs; exact ⟨fun _ h => h, fun _ _ h => h⟩
            · cases hs
          · cases hs
        · cases hs
  | undo v =>
    simp only [step] at hs
    split at hs
    · split at hs
      · cases hs; exact ⟨fun _ h => h, fun _ _ h => h⟩
      · cases hs
    · cases hs
  | clear => simp only [step] at hs; cases hs; exact ⟨fun _ h => h, fun _ _ h => h⟩
  | unsolvable c =>
    simp only [step] at hs
    split at hs
    · split at hs
      · cases hs; exact ⟨fun _ h => h, fun _ _ h => h⟩
      · cases hs
    · cases hs
  | var v o =>
    simp only [step] at hs
    split at hs
    · cases hs
    · next hnone =>
      have hfresh : st.origins.lookup v = none := by
        simp only [St.origin?] at hnone
        cases hl : st.origins.lookup v with
        | none => rfl
        | some x => rw [hl] at hnone; simp at hnone
      cases o with
      | root => cases hs
      | forbid n =>
        cases hs
        exact ⟨fun _ h => h, fun w x h => lookup_cons_stable _ _ _ hfresh w x h⟩
      | solvable s =>
        simp only [] at hs
        split at hs
        · cases hs
        · cases hs
          exact ⟨fun _ h => h, fun w x h => lookup_cons_stable _ _ _ hfresh w x h⟩
  | clause id k cands =>
    simp only [step] at hs
    split at hs
    · cases hs
    · cases hm : mkClause U P st k cands with
      | none => rw [hm] at hs; cases hs
      | some cl =>
        rw [hm] at hs
        cases hs
        exact ⟨fun c hc => List.mem_append_left _ hc, fun _ _ h => h⟩

theorem run_mono (U : Universe) (P : Problem) (evs : List Event) (st0 st : St)
    (h : evs.foldlM (step U P) st0 = some st) :
    (∀ cl ∈ st0.db, cl ∈ st.db) ∧
    (∀ v o, st0.origins.lookup v = some o → st.origins.lookup v = some o) := by
  induction evs generalizing st0 with
  | nil => simp [List.foldlM] at h; subst h; exact ⟨fun _ h => h, fun _ _ h => h⟩
  | cons ev evs ih =>
    simp only [List.foldlM_cons] at h
    cases hs : step U P st0 ev with
    | none => rw [hs] at h; simp at h
    | some st1 =>
      rw [hs] at h
      simp only [Option.bind_eq_bind, Option.bind_some] at h
      obtain ⟨m1, m2⟩ := step_mono U P st0 st1 ev hs
      obtain ⟨n1, n2⟩ := ih st1 h
      exact ⟨fun c hc => n1 c (m1 c hc), fun v o hv => n2 v o (m2 v o hv)⟩

theorem oSolv_mono (org org' : Org) (hm : ∀ v o, org.lookup v = some o → org'.lookup v = some o)
    (v s : Nat) (h : oSolv org v = some s) : oSolv org' v = some s := by
  unfold oSolv at *
  cases hl : org.lookup v with
  | none => rw [hl] at h; cases h
  | some o => rw [hm v o hl]; rw [hl] at h; exact h

/-! ### C07's hypothesis -/

/-- the hypothesis of C07 for the selection `pref` -/
structure PrefHyp (U : Universe) (P : Problem) (pref : List Nat) : Prop where
  valid : Valid U P.hard pref []
  only : ∀ r ∈ preferredReqs U P pref, ∃ c, firstChoice U r = some c ∧ ∀ d ∈ U.reqCands r, d = c ∨ d ∉ pref

theorem prefHyp_of_consistent (U : Universe) (P : Problem) (pref : List Nat)
    (h : preferredConsistent U P = some pref) :
    PrefHyp U P pref ∧
    ∃ fuel, preferredClosure U P fuel = some pref := by
  unfold preferredConsistent at h
  simp only [] at h
  split at h
  · cases h
  · next pr hpc =>
    split at h
    · next hc =>
      cases h
      simp only [Bool.and_eq_true, List.all_eq_true] at hc
      refine ⟨⟨(validB_iff _ _ _ _).mp hc.1, ?_⟩, _, hpc⟩
      intro r hr
      have := hc.2 r hr
      cases hf : firstChoice U r with
      | none => rw [hf] at this; cases this
      | some c =>
        rw [hf] at this
        simp only [List.all_eq_true, Bool.or_eq_true, beq_iff_eq, Bool.not_eq_true'] at this
        refine ⟨c, rfl, fun d hd => ?_⟩
        rcases this d hd with h1 | h1
        · exact Or.inl h1
        · right
          intro hm
          rw [List.contains_iff_mem.mpr hm] at h1
          cases h1
    · cases h

/-! ### a decision agrees with the preferred assignment -/

theorem filterMap_head {α β : Type} (f : α → Option β) (l : List α) (c : β) (rest : List β)
    (hall : ∀ x ∈ l, (f x).isSome = true) (h : l.filterMap f = c :: rest) :
    ∃ w l', l = w :: l' ∧ f w = some c := by
  cases l with
  | nil => cases h
  | cons w l' =>
    refine ⟨w, l', rfl, ?_⟩
    cases hw : f w with
    | none => have := hall w List.mem_cons_self; rw [hw] at this; cases this
    | some b =>
      simp only [List.filterMap_cons, hw, List.cons.injEq] at h
      rw [h.1]

theorem candVars_eq (cl : ACl) (p : Nat) (vars : List Nat)
    (h : cl.lits = (p, false) :: vars.map (fun v => (v, true))) : candVars cl = vars := by
  unfold candVars
  rw [h]
  simp [List.map_map, Function.comp_def]

/-- A guarded decision agrees with the assignment `a` induced by the selection `pref`, provided that for the requirement
    decided on (of a parent that `a` selects) every candidate in `pref` is the requirement's first choice. -/
theorem decision_agrees_core (U : Universe) (P : Problem) (hsoft : P.soft = []) (pref : List Nat)
    (st : St) (hs : SInv U P st) (a : Nat → Bool) (v : Nat) (val : Bool) (reason : Nat)
    (hcore : ∀ cl p r reqs cons, st.db[reason]? = some cl → cl.kind = .requires p r →
      oParentDeps U P st.origins p = some (reqs, cons) → r ∈ reqs → a p = true →
      ∃ c, firstChoice U r = some c ∧ ∀ d ∈ U.reqCands r, d ∈ pref → d = c)
    (hroot : a 0 = true) (hsolv : ∀ v s, oSolv st.origins v = some s → a v = pref.contains s)
    (hsat : SatDb a st.db) (hagree : ∀ e ∈ st.trail, a e.var = e.val)
    (hd : decisionOK U P st v val reason = true) : a v = val := by
  unfold decisionOK at hd
  split at hd
  · -- the root (no soft requirements)
    simp only [Bool.or_eq_true, Bool.and_eq_true, beq_iff_eq] at hd
    rcases hd with ⟨⟨hv, hval⟩, _⟩ | hc
    · rw [hv, hval]; exact hroot
    · cases hsv : st.solvOf v with
      | none => rw [hsv] at hc; cases hc
      | some s => rw [hsv] at hc; simp [hsoft] at hc
  · simp only [Bool.and_eq_true] at hd
    obtain ⟨hval, hm⟩ := hd
    cases hcl : st.db[reason]? with
    | none => rw [hcl] at hm; cases hm
    | some cl =>
      rw [hcl] at hm
      simp only [] at hm
      cases hk : cl.kind with
      | requires p r =>
        rw [hk] at hm
        simp only [Bool.and_eq_true, beq_iff_eq, List.all_eq_true, bne_iff_ne, ne_eq] at hm
        obtain ⟨⟨⟨⟨⟨hptrue, hvmem⟩, _hnotrue⟩, hbefore⟩, horder⟩, _hexpl⟩ := hm
        have hclm : cl ∈ st.db := List.mem_of_getElem? hcl
        have hprov := hs.prov cl hclm
        unfold Prov at hprov
        rw [hk] at hprov
        obtain ⟨reqs, cons, vars, h1, h2, h3, _h4, h5, h6⟩ := hprov
        have hcv : candVars cl = vars := candVars_eq cl p vars h6
        rw [hcv] at hvmem hbefore horder
        -- the parent is true under `a`
        obtain ⟨ep, hep, hepv, hepb⟩ := valueOf_some st p true hptrue
        have hap : a p = true := by have := hagree ep hep; rw [hepv, hepb] at this; exact this
        -- `a` satisfies the clause: some candidate variable is true under `a`
        obtain ⟨l, hl, hlv⟩ := List.any_eq_true.mp (hsat cl hclm)
        rw [h6] at hl
        have hw : ∃ w ∈ vars, a w = true := by
          rcases List.mem_cons.mp hl with h | h
          · subst h; simp [evalLit, hap] at hlv
          · obtain ⟨w, hw, hwl⟩ := List.mem_map.mp h
            subst hwl
            exact ⟨w, hw, by simpa [evalLit] using hlv⟩
        obtain ⟨w, hwmem, haw⟩ := hw
        -- its solvable is in `pref` and a candidate of `r`
        cases hsw : oSolv st.origins w with
        | none => have := h3 w hwmem; rw [hsw] at this; cases this
        | some sw =>
          have hswp : sw ∈ pref := by
            have := hsolv w sw hsw
            rw [haw] at this
            exact List.contains_iff_mem.mp this.symm
          have hswc : sw ∈ U.reqCands r := h5 sw (List.mem_filterMap.mpr ⟨w, hwmem, hsw⟩)
          obtain ⟨c, hfc, honly⟩ := hcore cl p r reqs cons hcl hk h1 h2 hap
          have hswc' : sw = c := honly sw hswc hswp
          subst hswc'
          -- the first candidate variable of the clause stands for the first choice
          unfold firstChoice at hfc
          have horder' : vars.filterMap (oSolv st.origins) = reqSorted U r := horder
          cases hrs : reqSorted U r with
          | nil => rw [hrs] at hfc; cases hfc
          | cons c0 rest =>
            rw [hrs] at hfc horder'
            simp only [List.head?_cons, Option.some.injEq] at hfc
            subst hfc
            obtain ⟨w0, l', hvars, hw0⟩ := filterMap_head (oSolv st.origins) vars c0 rest h3 horder'
            have hww0 : w = w0 := by
              unfold oSolv at hsw hw0
              cases ha : st.origins.lookup w with
              | none => rw [ha] at hsw; cases hsw
              | some oa =>
                cases hb : st.origins.lookup w0 with
                | none => rw [hb] at hw0; cases hw0
                | some ob =>
                  rw [ha] at hsw; rw [hb] at hw0
                  cases oa with
                  | root => cases hsw
                  | forbid n => cases hsw
                  | solvable sa =>
                    cases ob with
                    | root => cases hw0
                    | forbid n => cases hw0
                    | solvable sb =>
                      cases hsw; cases hw0
                      exact hs.solvInj w w0 _ ha hb
            subst hww0
            -- `v` is the first variable: otherwise the first one is false on the trail, hence under `a`
            by_cases hvw : w = v
            · subst hvw; rw [haw]; exact hval.symm
            · exfalso
              have hin : w ∈ vars.takeWhile (fun x => x != v) := by
                rw [hvars]
                simp only [List.takeWhile_cons]
                have : (w != v) = true := by simpa using hvw
                rw [this]
                exact List.mem_cons_self
              have hf := hbefore w hin
              obtain ⟨e, he, hev, heb⟩ := valueOf_some st w false hf
              have := hagree e he
              rw [hev, heb, haw] at this
              cases this
      | _ => rw [hk] at hm; cases hm

theorem decision_agrees (U : Universe) (P : Problem) (hsoft : P.soft = []) (pref : List Nat)
    (hp : PrefHyp U P pref) (st : St) (hs : SInv U P st) (a : Nat → Bool)
    (hroot : a 0 = true) (hsolv : ∀ v s, oSolv st.origins v = some s → a v = pref.contains s)
    (hsat : SatDb a st.db) (hagree : ∀ e ∈ st.trail, a e.var = e.val)
    (v : Nat) (val : Bool) (reason : Nat) (hd : decisionOK U P st v val reason = true) : a v = val := by
  apply decision_agrees_core U P hsoft pref st hs a v val reason ?_ hroot hsolv hsat hagree hd
  intro _ p r reqs cons _ _ h1 h2 hap
  -- `r` is a requirement whose first choice matters
  have hrp : r ∈ preferredReqs U P pref := by
    unfold preferredReqs
    unfold oParentDeps at h1
    cases hlp : st.origins.lookup p with
    | none => rw [hlp] at h1; cases h1
    | some o =>
      rw [hlp] at h1
      cases o with
      | root => cases h1; exact List.mem_append_left _ h2
      | forbid n => cases h1
      | solvable s =>
        simp only [] at h1
        have hsp : s ∈ pref := by
          have hos : oSolv st.origins p = some s := by unfold oSolv; rw [hlp]
          have := hsolv p s hos
          rw [hap] at this
          exact List.contains_iff_mem.mp this.symm
        cases hdep : U.deps s with
        | unknown x => rw [hdep] at h1; cases h1
        | known rs cs =>
          rw [hdep] at h1
          cases h1
          apply List.mem_append_right
          apply List.mem_flatMap.mpr
          refine ⟨s, hsp, ?_⟩
          unfold knownReqs; rw [hdep]; exact h2
  obtain ⟨c, hfc, honly⟩ := hp.only r hrp
  refine ⟨c, hfc, fun d hd hdp => ?_⟩
  rcases honly d hd with h | h
  · exact h
  · exact absurd hdp h

/-! ### the invariant along a decision-guarded history -/

/-- every decision on the trail agrees with `a` -/
def DecAgree (a : Nat → Bool) (trail : List Entry) : Prop :=
  ∀ e ∈ trail, e.decision = true → a e.var = e.val

theorem stepD_decAgree (U : Universe) (P : Problem) (hsoft : P.soft = []) (pref : List Nat)
    (hp : PrefHyp U P pref) (st st' : St) (ev : Event) (hl : LInv st) (hs : SInv U P st) (a : Nat → Bool)
    (hroot : a 0 = true) (hsolv : ∀ v s, oSolv st.origins v = some s → a v = pref.contains s)
    (hsat : SatDb a st.db) (hda : DecAgree a st.trail)
    (hstep : stepD U P st ev = some st') : DecAgree a st'.trail := by
  have hstep' := stepD_step U P st st' ev hstep
  cases ev with
  | note => simp [step] at hstep'; subst hstep'; exact hda
  | learntLits idx lits why => simp only [step] at hstep'; cases hstep'; exact hda
  | var v o =>
    simp only [step] at hstep'
    split at hstep'
    · cases hstep'
    · cases o with
      | root => cases hstep'
      | forbid n => cases hstep'; exact hda
      | solvable s =>
        simp only [] at hstep'
        split at hstep'
        · cases hstep'
        · cases hstep'; exact hda
  | clause id k cands =>
    simp only [step] at hstep'
    split at hstep'
    · cases hstep'
    · cases hm : mkClause U P st k cands with
      | none => rw [hm] at hstep'; cases hstep'
      | some cl => rw [hm] at hstep'; cases hstep'; exact hda
  | undo v =>
    simp only [step] at hstep'
    split at hstep'
    · next e rest htr =>
      split at hstep'
      · cases hstep'
        intro e' he' hd
        exact hda e' (by rw [htr]; exact List.mem_cons_of_mem _ he') hd
      · cases hstep'
    · cases hstep'
  | clear =>
    simp only [step] at hstep'; cases hstep'
    intro e he; cases he
  | unsolvable c =>
    simp only [step] at hstep'
    split at hstep'
    · split at hstep'
      · cases hstep'; exact hda
      · cases hstep'
    · cases hstep'
  | assign v val level reason =>
    simp only [step] at hstep'
    split at hstep'
    · cases hstep'
    · split at hstep'
      · next hlev =>
        -- a decision: the guard applies
        cases hstep'
        have hlev' : level = st.topLevel + 1 := by simpa using hlev
        have hg := stepD_guard U P st _ v val level reason hstep hlev'
        have hall := TrailOK.all _ _ hl.trailOK a hsat hda
        have hav := decision_agrees U P hsoft pref hp st hs a hroot hsolv hsat hall v val reason hg
        intro e he hd
        rcases List.mem_cons.mp he with h | h
        · subst h; exact hav
        · exact hda e h hd
      · split at hstep'
        · split at hstep'
          · split at hstep'
            · cases hstep'
              intro e he hd
              rcases List.mem_cons.mp he with h | h
              · subst h; cases hd
              · exact hda e h hd
            · cases hstep'
          · cases hstep'
        · cases hstep'

theorem runD_decAgree (U : Universe) (P : Problem) (hsoft : P.soft = []) (pref : List Nat)
    (hp : PrefHyp U P pref) (a : Nat → Bool) (hroot : a 0 = true)
    (evs : List Event) (st0 stf : St) (hl : LInv st0) (hs : SInv U P st0)
    (hrun : evs.foldlM (stepD U P) st0 = some stf)
    (hsolv : ∀ v s, oSolv stf.origins v = some s → a v = pref.contains s)
    (hsat : SatDb a stf.db) (hda : DecAgree a st0.trail) : DecAgree a stf.trail := by
  induction evs generalizing st0 with
  | nil => simp [List.foldlM] at hrun; subst hrun; exact hda
  | cons ev evs ih =>
    have hmono := run_mono U P (ev :: evs) st0 stf (runOptD_runOpt U P _ st0 stf hrun)
    simp only [List.foldlM_cons] at hrun
    cases hst : stepD U P st0 ev with
    | none => rw [hst] at hrun; simp at hrun
    | some st1 =>
      rw [hst] at hrun
      simp only [Option.bind_eq_bind, Option.bind_some] at hrun
      have hst' := stepD_step U P st0 st1 ev hst
      have hsolv0 : ∀ v s, oSolv st0.origins v = some s → a v = pref.contains s :=
        fun v s h => hsolv v s (oSolv_mono _ _ hmono.2 v s h)
      have hsat0 : SatDb a st0.db := fun cl hcl => hsat cl (hmono.1 cl hcl)
      have hda1 := stepD_decAgree U P hsoft pref hp st0 st1 ev hl hs a hroot hsolv0 hsat0 hda hst
      exact ih st1 (step_linv U P st0 st1 ev hl hst') (step_sinv U P st0 st1 ev hs hst') hrun hda1

/-- Along a decision-guarded accepted history every assignment on the trail agrees with the assignment the
    preferred selection induces. -/
theorem accepted_all_agree (U : Universe) (P : Problem) (hsoft : P.soft = []) (pref : List Nat)
    (hp : PrefHyp U P pref) (evs : List Event) (st : St) (hrun : runOptD U P evs = some st) :
    ∀ e ∈ st.trail, mu st pref e.var = e.val := by
  have hrun' := runOptD_runOpt U P evs {} st hrun
  obtain ⟨hl, hsi⟩ := run_inv U P evs {} st ⟨linv_init, sinv_init U P⟩ hrun'
  have hsat : SatDb (mu st pref) st.db := hl.learntEntailed _ (mu_satisfies U P st hsi pref hp.valid)
  have hda := runD_decAgree U P hsoft pref hp (mu st pref) (mu_root U P st hsi pref) evs {} st
    linv_init (sinv_init U P) hrun (fun v s h => mu_solv st pref v s h) hsat (by intro e he; cases he)
  exact TrailOK.all _ _ hl.trailOK _ hsat hda

/-- **Every solvable a decision-guarded accepted history has installed is a preferred one.** -/
theorem accepted_entry_in_pref (U : Universe) (P : Problem) (hsoft : P.soft = []) (pref : List Nat)
    (hp : PrefHyp U P pref) (evs : List Event) (st : St) (hrun : runOptD U P evs = some st)
    (e : Entry) (he : e ∈ st.trail) (hv : e.val = true) (s : Nat) (hs : st.solvOf e.var = some s) : s ∈ pref := by
  have := accepted_all_agree U P hsoft pref hp evs st hrun e he
  rw [hv, mu_solv st pref e.var s hs] at this
  exact List.contains_iff_mem.mp this

theorem mem_trueSolvables (st : St) (s : Nat) :
    s ∈ st.trueSolvables ↔ ∃ e ∈ st.trail, e.val = true ∧ st.solvOf e.var = some s := by
  unfold St.trueSolvables
  simp only [List.mem_filterMap, List.mem_filter, List.mem_reverse]
  constructor
  · rintro ⟨e, ⟨he, hv⟩, hs⟩; exact ⟨e, he, hv, hs⟩
  · rintro ⟨e, he, hv, hs⟩; exact ⟨e, ⟨he, hv⟩, hs⟩

/-! ### a valid selection inside the preferred closure is all of it -/

theorem go_acc_subset (U : Universe) (fuel : Nat) (todo : List Req) (acc res : List Nat)
    (h : preferredClosure.go U fuel todo acc = some res) : ∀ c ∈ acc, c ∈ res := by
  induction fuel generalizing todo acc with
  | zero =>
    cases todo with
    | nil => simp [preferredClosure.go] at h; subst h; exact fun _ h => h
    | cons r rest => simp [preferredClosure.go] at h
  | succ fuel ih =>
    cases todo with
    | nil => simp [preferredClosure.go] at h; subst h; exact fun _ h => h
    | cons r rest =>
      simp only [preferredClosure.go] at h
      split at h
      · cases h
      · next c hfc =>
        split at h
        · exact ih rest acc h
        · split at h
          · cases h
          · next reqs cons hdep =>
            intro x hx
            exact ih _ _ h x (List.mem_append_left _ hx)

theorem go_subset_sel (U : Universe) (P : Problem) (sel res : List Nat)
    (hvalid : Valid U P sel []) (hsub : ∀ s ∈ sel, s ∈ res)
    (honly : ∀ r ∈ preferredReqs U P res, ∃ c, firstChoice U r = some c ∧ ∀ d ∈ U.reqCands r, d = c ∨ d ∉ res)
    (fuel : Nat) (todo : List Req) (acc : List Nat)
    (h : preferredClosure.go U fuel todo acc = some res)
    (hacc : ∀ c ∈ acc, c ∈ sel)
    (htodo : ∀ r ∈ todo, r ∈ P.reqs ∨ ∃ s ∈ acc, r ∈ knownReqs U s) : ∀ c ∈ res, c ∈ sel := by
  induction fuel generalizing todo acc with
  | zero =>
    cases todo with
    | nil => simp [preferredClosure.go] at h; subst h; exact hacc
    | cons r rest => simp [preferredClosure.go] at h
  | succ fuel ih =>
    cases todo with
    | nil => simp [preferredClosure.go] at h; subst h; exact hacc
    | cons r rest =>
      have haccres := go_acc_subset U (fuel + 1) (r :: rest) acc res h
      simp only [preferredClosure.go] at h
      split at h
      · cases h
      · next c hfc =>
        have hrest : ∀ r' ∈ rest, r' ∈ P.reqs ∨ ∃ s ∈ acc, r' ∈ knownReqs U s :=
          fun r' hr' => htodo r' (List.mem_cons_of_mem _ hr')
        split at h
        · exact ih rest acc h hacc hrest
        · split at h
          · cases h
          · next reqs cons hdep =>
            -- `r` is met by `sel`; the candidate meeting it lies in `res`, so it is the first choice
            have hmet : ∃ d ∈ U.reqCands r, d ∈ sel := by
              rcases htodo r List.mem_cons_self with hr | ⟨s, hs, hr⟩
              · exact hvalid.1.1 r hr
              · obtain ⟨rs, cs, hd, hm⟩ := hvalid.2.1 s (hacc s hs)
                unfold knownReqs at hr
                rw [hd] at hr
                exact hm.1 r hr
            have hrp : r ∈ preferredReqs U P res := by
              unfold preferredReqs
              rcases htodo r List.mem_cons_self with hr | ⟨s, hs, hr⟩
              · exact List.mem_append_left _ hr
              · exact List.mem_append_right _ (List.mem_flatMap.mpr ⟨s, haccres s hs, hr⟩)
            obtain ⟨c', hfc', honly'⟩ := honly r hrp
            rw [hfc] at hfc'
            cases hfc'
            obtain ⟨d, hdc, hds⟩ := hmet
            have hdc' : d = c := by
              rcases honly' d hdc with h1 | h1
              · exact h1
              · exact absurd (hsub d hds) h1
            subst hdc'
            apply ih _ _ h
            · intro x hx
              rcases List.mem_append.mp hx with h1 | h1
              · exact hacc x h1
              · simp at h1; subst h1; exact hds
            · intro r' hr'
              rcases List.mem_append.mp hr' with h1 | h1
              · rcases hrest r' h1 with h2 | ⟨s, hs, h2⟩
                · exact Or.inl h2
                · exact Or.inr ⟨s, List.mem_append_left _ hs, h2⟩
              · right
                refine ⟨d, by simp, ?_⟩
                unfold knownReqs; rw [hdep]; exact h1

/-- **C07 for decision-guarded accepted histories.** If the first choices are mutually compatible (`pref`), a
    history accepted by the decision-guarded abstract system that ends with a valid solution ends with exactly
    `pref`. -/
theorem preferred_exact (U : Universe) (P : Problem) (hsoft : P.soft = []) (pref : List Nat)
    (hpc : preferredConsistent U P = some pref) (evs : List Event) (st : St)
    (hrun : runOptD U P evs = some st) (sol : List Nat) (hsol : sol = st.trueSolvables)
    (hvalid : Valid U P sol []) : ∀ s, s ∈ sol ↔ s ∈ pref := by
  obtain ⟨hp, fuel, hclo⟩ := prefHyp_of_consistent U P pref hpc
  have hsub : ∀ s ∈ sol, s ∈ pref := by
    intro s hs
    rw [hsol] at hs
    obtain ⟨e, he, hv, hse⟩ := (mem_trueSolvables st s).mp hs
    exact accepted_entry_in_pref U P hsoft pref hp evs st hrun e he hv s hse
  intro s
  refine ⟨hsub s, ?_⟩
  unfold preferredClosure at hclo
  exact go_subset_sel U P sol pref hvalid hsub hp.only fuel P.reqs [] hclo (by intro c hc; cases hc)
    (fun r hr => Or.inl hr) s

end Resolvo.Abs
