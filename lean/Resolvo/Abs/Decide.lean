import Resolvo.Abs.Check
import Resolvo.Cache
/-!
# The abstract system with the decision guard (refinement obligation R4)

`stepD` is `step` with one more demand: a *decision* (an assignment that opens a new level) must be
what `Solver::decide` can produce —

* the installation of the root (`assign 0 true` with reason 0 on an empty trail), or the trial /
  rejection of a solvable named as a soft requirement (reason 0), or
* a positive assignment of a candidate `v` whose reason is a `requires p r` clause such that the
  parent `p` is true, no candidate of the clause is true, every candidate listed before `v` is
  false (so `v` is the first undecided one), the clause lists its candidates in the order of
  `SolverCache::get_or_cache_sorted_candidates` (`reqSorted`: union members in listed order, each
  sorted by the provider with the favored candidate rotated to the front), and — explicit-first —
  if `p` is not the root, every requirement of the root has been encoded and has a true candidate.

`Abs/Preferred.lean` proves what an accepted history then establishes for C07, `Abs/BestDirect.lean` for C08.
-/
namespace Resolvo.Abs
open Resolvo Resolvo.Sat

/-- the candidate variables of a `requires` clause, in recorded order -/
def candVars (cl : ACl) : List Nat := (cl.lits.drop 1).map (·.1)

/-- every root requirement has been encoded and has a candidate that is true (`decide` prefers requirements of the
    root over all others: a requirement of another solvable is only decided on when this holds) -/
def rootSatB (P : Problem) (st : St) : Bool :=
  P.reqs.all (fun r => st.db.any (fun cl => cl.kind == .requires 0 r &&
    (candVars cl).any (fun w => st.valueOf w == some true)))

def decisionOK (U : Universe) (P : Problem) (st : St) (v : Nat) (val : Bool) (reason : Nat) : Bool :=
  if reason == 0 then
    (v == 0 && val && st.trail.isEmpty) ||
    (match st.solvOf v with | some s => P.soft.contains s | none => false)
  else
    val &&
    (match st.db[reason]? with
     | some cl =>
       (match cl.kind with
        | .requires p r =>
          let vars := candVars cl
          st.valueOf p == some true &&
          vars.contains v &&
          vars.all (fun w => st.valueOf w != some true) &&
          (vars.takeWhile (fun w => w != v)).all (fun w => st.valueOf w == some false) &&
          vars.filterMap st.solvOf == reqSorted U r &&
          (p == 0 || rootSatB P st)
        | _ => false)
     | none => false)

def stepD (U : Universe) (P : Problem) (st : St) (ev : Event) : Option St :=
  match ev with
  | .assign v val level reason =>
    if level == st.topLevel + 1 && !decisionOK U P st v val reason then none else step U P st ev
  | _ => step U P st ev

def runOptD (U : Universe) (P : Problem) (events : List Event) : Option St :=
  events.foldlM (stepD U P) {}

/-- Replays a history; `error (k, ev)` = the k-th event was rejected. -/
def runD (U : Universe) (P : Problem) (events : List Event) : Except (Nat × Event) St :=
  let rec go (st : St) (k : Nat) : List Event → Except (Nat × Event) St
    | [] => .ok st
    | e :: rest => match stepD U P st e with
      | some st' => go st' (k + 1) rest
      | none => .error (k, e)
  go {} 0 events

/-- true solvables of the final trail, oldest first: the solution an accepted history ends with -/
def St.trueSolvables (st : St) : List Nat :=
  (st.trail.reverse.filter (·.val)).filterMap (fun e => st.solvOf e.var)

end Resolvo.Abs
