import Resolvo.Spec
import Resolvo.Sat.Rup
/-!
# The abstract system: a checker for solver histories

`step` replays one event of the history the `verif-hooks` feature records (variable interned,
clause added, assignment, undo, learnt clause, failure) and accepts it only if it is a legal step
of "CDCL with lazily added, provider-derived clauses": every clause must state a true fact of the
universe (provenance), every propagated assignment must be a unit consequence of its reason
clause, every learnt clause must follow by unit propagation from its recorded antecedents, and a
failure must exhibit a clause falsified by a trail whose only decision is the root.
`Abs/Sound.lean` proves what an accepted history establishes.
-/
namespace Resolvo.Abs
open Resolvo Resolvo.Sat

inductive Origin where
  | root
  | solvable (s : Nat)
  | forbid (n : Nat)
deriving DecidableEq, Repr, Inhabited

inductive Kind where
  | root
  | requires (p : Nat) (r : Req)
  | constrains (p c vs : Nat)
  | forbid (a h : Nat) (pos : Bool) (n : Nat)
  | lock (locked other : Nat)
  | excluded (v reason : Nat)
  | learnt (idx : Nat)
deriving DecidableEq, Repr, Inhabited

structure ACl where
  kind : Kind
  lits : Clause
deriving Repr, Inhabited

inductive Event where
  | var (v : Nat) (o : Origin)
  | clause (id : Nat) (k : Kind) (cands : List (List Nat))
  | learntLits (idx : Nat) (lits : Clause) (why : List Nat)
  | assign (v : Nat) (val : Bool) (level : Nat) (reason : Nat)
  | undo (v : Nat)
  | clear
  | unsolvable (c : Nat)
  | note  -- informational events (runsat, softfail, conflicting)
deriving Repr, Inhabited

structure Entry where
  var : Nat
  val : Bool
  level : Nat
  reason : Nat
  decision : Bool
deriving Repr, Inhabited

structure St where
  origins : List (Nat × Origin) := [(0, .root)]
  db : List ACl := []
  trail : List Entry := []
  pending : Option (Nat × Clause × List Nat) := none
  failed : Option Nat := none
deriving Repr, Inhabited

def St.origin? (st : St) (v : Nat) : Option Origin := st.origins.lookup v
def St.solvOf (st : St) (v : Nat) : Option Nat :=
  match st.origin? v with | some (.solvable s) => some s | _ => none
def St.valueOf (st : St) (v : Nat) : Option Bool := (st.trail.find? (fun e => e.var == v)).map (·.val)
def St.topLevel (st : St) : Nat := match st.trail with | e :: _ => e.level | [] => 0
def St.litFalse (st : St) (l : Lit) : Bool := st.valueOf l.1 == some (!l.2)

/-- requirements / constrains of the parent variable `p` (root or a solvable with known deps) -/
def parentDeps (U : Universe) (P : Problem) (st : St) (p : Nat) : Option (List Req × List Nat) :=
  match st.origin? p with
  | some .root => some (P.reqs, P.constraints)
  | some (.solvable s) => match U.deps s with | .known reqs cons => some (reqs, cons) | .unknown _ => none
  | _ => none

def subsetB (a b : List Nat) : Bool := a.all (fun x => b.contains x)

/-- Provenance check + literal list of a new clause. -/
def mkClause (U : Universe) (P : Problem) (st : St) (k : Kind) (cands : List (List Nat)) : Option ACl :=
  match k with
  | .root => some ⟨k, [(0, true)]⟩
  | .requires p r =>
    match parentDeps U P st p with
    | some (reqs, _) =>
      let vars := cands.flatten
      let solvs := vars.filterMap st.solvOf
      if vars.all (fun v => (st.solvOf v).isSome) && reqs.contains r &&
         subsetB solvs (U.reqCands r) && subsetB (U.reqCands r) solvs
      then some ⟨k, (p, false) :: vars.map (fun v => (v, true))⟩ else none
    | none => none
  | .constrains p c vs =>
    match parentDeps U P st p, st.solvOf c with
    | some (_, cons), some t =>
      if cons.contains vs && (U.nonMatching vs).contains t then some ⟨k, [(p, false), (c, false)]⟩ else none
    | _, _ => none
  | .forbid a h pos n =>
    match st.solvOf a, st.origin? h with
    | some s, some (.forbid n') =>
      if n' == n && U.nameOf s == n &&
         st.db.all (fun cl => match cl.kind with
           | .forbid a' h' pos' _ => !(a' == a && h' == h && pos' != pos)
           | _ => true)
      then some ⟨k, [(a, false), (h, pos)]⟩ else none
    | _, _ => none
  | .lock l o =>
    match st.solvOf l, st.solvOf o with
    | some ls, some os =>
      match U.pkg? (U.nameOf os) with
      | some p => if p.locked == some ls && os != ls then some ⟨k, [(0, false), (o, false)]⟩ else none
      | none => none
    | _, _ => none
  | .excluded v reason =>
    match st.solvOf v with
    | some s =>
      let byDeps := match U.deps s with | .unknown r => r == reason | _ => false
      let byPkg := match U.pkg? (U.nameOf s) with
        | some p => p.excluded.any (fun e => e.1 == s && e.2 == reason)
        | none => false
      if byDeps || byPkg then some ⟨k, [(v, false)]⟩ else none
    | none => none
  | .learnt idx =>
    match st.pending with
    | some (idx', lits, why) =>
      if idx' == idx && why.all (fun w => w < st.db.length) &&
         rup (why.map (fun w => (st.db.getD w default).lits)) lits
      then some ⟨k, lits⟩ else none
    | none => none

def step (U : Universe) (P : Problem) (st : St) : Event → Option St
  | .note => some st
  | .var v o =>
    if (st.origin? v).isSome then none
    else match o with
      | .solvable s => if st.origins.any (fun vo => vo.2 == .solvable s) then none
                       else some { st with origins := (v, o) :: st.origins }
      | .root => none
      | .forbid _ => some { st with origins := (v, o) :: st.origins }
  | .learntLits idx lits why => some { st with pending := some (idx, lits, why) }
  | .clause id k cands =>
    if id != st.db.length then none
    else match mkClause U P st k cands with
      | some cl => some { st with db := st.db ++ [cl], pending := (match k with | .learnt _ => none | _ => st.pending) }
      | none => none
  | .assign v val level reason =>
    if (st.valueOf v).isSome then none
    else if level == st.topLevel + 1 then
      some { st with trail := ⟨v, val, level, reason, true⟩ :: st.trail }
    else if level == st.topLevel && level ≥ 1 then
      match st.db[reason]? with
      | some cl =>
        if cl.lits.contains (v, val) && cl.lits.all (fun l => l == (v, val) || st.litFalse l)
        then some { st with trail := ⟨v, val, level, reason, false⟩ :: st.trail } else none
      | none => none
    else none
  | .undo v =>
    match st.trail with
    | e :: rest => if e.var == v then some { st with trail := rest } else none
    | [] => none
  | .clear => some { st with trail := [] }
  | .unsolvable c =>
    match st.db[c]? with
    | some cl =>
      if cl.lits.all st.litFalse && st.trail.all (fun e => !e.decision || (e.var == 0 && e.val)) && !st.trail.isEmpty
      then some { st with failed := some c } else none
    | none => none

/-- Replays a history; `inl (k, ev)` = the k-th event was rejected. -/
def run (U : Universe) (P : Problem) (events : List Event) : Except (Nat × Event) St :=
  let rec go (st : St) (k : Nat) : List Event → Except (Nat × Event) St
    | [] => .ok st
    | e :: rest => match step U P st e with
      | some st' => go st' (k + 1) rest
      | none => .error (k, e)
  go {} 0 events

def runOpt (U : Universe) (P : Problem) (events : List Event) : Option St :=
  events.foldlM (step U P) {}

end Resolvo.Abs
