import Resolvo.Abs.Preferred
import Resolvo.CacheProofs
/-!
# What a decision-guarded accepted history establishes for C08

Hypothesis (`BestHyp`): every root requirement is a single version set and some valid selection `sstar` of the hard
problem contains the first-ranked candidate of each. Then every history accepted by the decision-guarded abstract
system that ends in a valid solution ends in a solution containing all those first choices.

The trail (newest first) splits as `hi ++ lo`, where `hi` starts (at its old end) with the oldest decision on a
requirement of a solvable other than the root that is still on the trail, and `lo` is everything older. Invariant
(`BInv`): every decision in `lo` agrees with the assignment `sstar` induces — hence, by unit propagation over
clauses that `sstar` satisfies (all of them, learnt ones included), every entry of `lo` does — and, if `hi` is not
empty, every root requirement already has a true candidate in `lo` (the explicit-first guard). A decision on a root
requirement taken while `hi` is empty picks the first undecided candidate; the first choice cannot be false in `lo`,
so it is the first choice. A conflict below the direct requirements can only backjump into `lo` with an asserted
literal that `sstar` satisfies: the direct requirements are never downgraded.
-/
namespace Resolvo.Abs
open Resolvo Resolvo.Sat

/-- C08's hypothesis for the witness selection `sstar` -/
structure BestHyp (U : Universe) (P : Problem) (sstar : List Nat) : Prop where
  valid : Valid U P.hard sstar []
  single : ∀ r ∈ P.reqs, ∃ vs, r = .single vs
  first : ∀ r ∈ P.reqs, ∃ c, firstChoice U r = some c ∧ c ∈ sstar
  /-- provider contract: the candidates a version set can match carry the name of its package -/
  names : ∀ vs c, c ∈ U.candsOf vs → U.nameOf c = U.vsName vs

theorem reqCands_single (U : Universe) (vs : Nat) : U.reqCands (.single vs) = U.candsOf vs := by
  unfold Universe.reqCands Universe.reqVersionSets
  simp

theorem firstChoice_mem (U : Universe) (vs c : Nat) (h : firstChoice U (.single vs) = some c) : c ∈ U.candsOf vs := by
  unfold firstChoice reqSorted Universe.reqVersionSets at h
  simp only [List.flatMap_cons, List.flatMap_nil, List.append_nil] at h
  have hm : c ∈ sortedCands U vs := List.mem_of_mem_head? h
  unfold sortedCands at hm
  exact (mem_rankSort U c _).mp ((mem_favoredFirst _ _ c).mp hm)

/-- among the candidates of a root requirement, only its first choice is in `sstar` -/
theorem best_only (U : Universe) (P : Problem) (sstar : List Nat) (hb : BestHyp U P sstar) (r : Req) (hr : r ∈ P.reqs) :
    ∃ c, firstChoice U r = some c ∧ c ∈ sstar ∧ ∀ d ∈ U.reqCands r, d ∈ sstar → d = c := by
  obtain ⟨vs, rfl⟩ := hb.single r hr
  obtain ⟨c, hfc, hcs⟩ := hb.first _ hr
  refine ⟨c, hfc, hcs, fun d hd hds => ?_⟩
  rw [reqCands_single] at hd
  have hcm := firstChoice_mem U vs c hfc
  exact hb.valid.2.2.2 d hds c hcs ((hb.names vs d hd).trans (hb.names vs c hcm).symm)

/-- every root requirement has a candidate that is true in `lo` -/
def RootSat (P : Problem) (st : St) (lo : List Entry) : Prop :=
  ∀ r ∈ P.reqs, ∃ cl ∈ st.db, cl.kind = .requires 0 r ∧ ∃ w ∈ candVars cl, ∃ e ∈ lo, e.var = w ∧ e.val = true

theorem rootSat_of_guard (P : Problem) (st : St) (h : rootSatB P st = true) : RootSat P st st.trail := by
  intro r hr
  unfold rootSatB at h
  have h1 := List.all_eq_true.mp h r hr
  obtain ⟨cl, hcl, hc⟩ := List.any_eq_true.mp h1
  simp only [Bool.and_eq_true, beq_iff_eq] at hc
  obtain ⟨w, hw, hv⟩ := List.any_eq_true.mp hc.2
  obtain ⟨e, he, hev, heb⟩ := valueOf_some st w true (by simpa using hv)
  exact ⟨cl, hcl, hc.1, w, hw, e, he, hev, heb⟩

/-- the invariant: see the module comment -/
def BInv (a : Nat → Bool) (P : Problem) (st : St) : Prop :=
  ∃ hi lo, st.trail = hi ++ lo ∧ DecAgree a lo ∧ (hi ≠ [] → RootSat P st lo)

theorem trailOK_suffix (db : List ACl) (hi lo : List Entry) (h : TrailOK db (hi ++ lo)) : TrailOK db lo := by
  induction hi with
  | nil => exact h
  | cons e rest ih => exact ih h.1

theorem rootSat_mono {P : Problem} {st st' : St} {lo : List Entry} (h : RootSat P st lo) (hdb : ∀ cl ∈ st.db, cl ∈ st'.db) :
    RootSat P st' lo := by
  intro r hr
  obtain ⟨cl, hcl, hk, w, hw, e, he, hev, heb⟩ := h r hr
  exact ⟨cl, hdb cl hcl, hk, w, hw, e, he, hev, heb⟩

/-- a decision on a requirement of the root, taken while the whole trail agrees with `a`, agrees with `a` -/
theorem root_decision_agrees (U : Universe) (P : Problem) (hsoft : P.soft = []) (sstar : List Nat)
    (hb : BestHyp U P sstar) (st : St) (hs : SInv U P st) (a : Nat → Bool)
    (hroot : a 0 = true) (hsolv : ∀ v s, oSolv st.origins v = some s → a v = sstar.contains s)
    (hsat : SatDb a st.db) (hagree : ∀ e ∈ st.trail, a e.var = e.val)
    (v : Nat) (val : Bool) (reason : Nat) (hd : decisionOK U P st v val reason = true)
    (hexpl : ∀ cl p r, st.db[reason]? = some cl → cl.kind = .requires p r → p = 0) : a v = val := by
  apply decision_agrees_core U P hsoft sstar st hs a v val reason ?_ hroot hsolv hsat hagree hd
  intro cl p r reqs cons hcl hk hp1 hp2 _
  have hp0 : p = 0 := hexpl cl p r hcl hk
  subst hp0
  have : reqs = P.reqs := by
    unfold oParentDeps at hp1
    rw [hs.rootOrigin] at hp1
    simp only [Option.some.injEq, Prod.mk.injEq] at hp1
    exact hp1.1.symm
  subst this
  obtain ⟨c, hfc, _, honly⟩ := best_only U P sstar hb r hp2
  exact ⟨c, hfc, honly⟩

/-- what the guard says about the kind of a decision -/
theorem decisionOK_cases (U : Universe) (P : Problem) (st : St) (v : Nat) (val : Bool) (reason : Nat)
    (h : decisionOK U P st v val reason = true) :
    reason = 0 ∨ ∃ cl p r, st.db[reason]? = some cl ∧ cl.kind = .requires p r ∧ (p = 0 ∨ rootSatB P st = true) := by
  unfold decisionOK at h
  split at h
  · next h0 => exact Or.inl (by simpa using h0)
  · right
    simp only [Bool.and_eq_true] at h
    obtain ⟨_, hm⟩ := h
    cases hcl : st.db[reason]? with
    | none => rw [hcl] at hm; cases hm
    | some cl =>
      rw [hcl] at hm
      simp only [] at hm
      cases hk : cl.kind with
      | requires p r =>
        rw [hk] at hm
        simp only [Bool.and_eq_true, Bool.or_eq_true, beq_iff_eq] at hm
        exact ⟨cl, p, r, rfl, hk, hm.2⟩
      | _ => rw [hk] at hm; cases hm

theorem decAgree_cons {a : Nat → Bool} {e : Entry} {lo : List Entry} (h : DecAgree a lo)
    (he : e.decision = true → a e.var = e.val) : DecAgree a (e :: lo) := by
  intro x hx hd
  rcases List.mem_cons.mp hx with h1 | h1
  · subst h1; exact he hd
  · exact h x h1 hd

theorem stepD_binv (U : Universe) (P : Problem) (hsoft : P.soft = []) (sstar : List Nat)
    (hb : BestHyp U P sstar) (st st' : St) (ev : Event) (hl : LInv st) (hs : SInv U P st) (a : Nat → Bool)
    (hroot : a 0 = true) (hsolv : ∀ v s, oSolv st.origins v = some s → a v = sstar.contains s)
    (hsat : SatDb a st.db) (hi : BInv a P st)
    (hstep : stepD U P st ev = some st') : BInv a P st' := by
  have hstep' := stepD_step U P st st' ev hstep
  obtain ⟨hi', lo, htr, hda, hrs⟩ := hi
  cases ev with
  | note => simp [step] at hstep'; subst hstep'; exact ⟨hi', lo, htr, hda, hrs⟩
  | learntLits idx lits why => simp only [step] at hstep'; cases hstep'; exact ⟨hi', lo, htr, hda, hrs⟩
  | var v o =>
    simp only [step] at hstep'
    split at hstep'
    · cases hstep'
    · cases o with
      | root => cases hstep'
      | forbid n => cases hstep'; exact ⟨hi', lo, htr, hda, hrs⟩
      | solvable s =>
        simp only [] at hstep'
        split at hstep'
        · cases hstep'
        · cases hstep'; exact ⟨hi', lo, htr, hda, hrs⟩
  | clause id k cands =>
    simp only [step] at hstep'
    split at hstep'
    · cases hstep'
    · cases hm : mkClause U P st k cands with
      | none => rw [hm] at hstep'; cases hstep'
      | some cl =>
        rw [hm] at hstep'; cases hstep'
        exact ⟨hi', lo, htr, hda, fun hne => rootSat_mono (hrs hne) (fun c hc => List.mem_append_left _ hc)⟩
  | undo v =>
    simp only [step] at hstep'
    split at hstep'
    · next e rest htr' =>
      split at hstep'
      · cases hstep'
        rw [htr'] at htr
        cases hi' with
        | nil =>
          simp only [List.nil_append] at htr
          subst htr
          exact ⟨[], rest, rfl, fun x hx hd => hda x (List.mem_cons_of_mem _ hx) hd, fun h => absurd rfl h⟩
        | cons e' hi'' =>
          simp only [List.cons_append, List.cons.injEq] at htr
          exact ⟨hi'', lo, htr.2, hda, fun _ => hrs (by simp)⟩
      · cases hstep'
    · cases hstep'
  | clear =>
    simp only [step] at hstep'; cases hstep'
    exact ⟨[], [], rfl, (fun x hx => by cases hx), (fun h => absurd rfl h)⟩
  | unsolvable c =>
    simp only [step] at hstep'
    split at hstep'
    · split at hstep'
      · cases hstep'; exact ⟨hi', lo, htr, hda, hrs⟩
      · cases hstep'
    · cases hstep'
  | assign v val level reason =>
    simp only [step] at hstep'
    split at hstep'
    · cases hstep'
    · split at hstep'
      · next hlev =>
        -- a decision
        cases hstep'
        have hlev' : level = st.topLevel + 1 := by simpa using hlev
        have hg := stepD_guard U P st _ v val level reason hstep hlev'
        cases hi' with
        | cons e' hi'' =>
          exact ⟨⟨v, val, level, reason, true⟩ :: e' :: hi'', lo, by simp [htr], hda, fun _ => hrs (by simp)⟩
        | nil =>
          simp only [List.nil_append] at htr
          have hall : ∀ e ∈ st.trail, a e.var = e.val := by
            rw [htr]
            exact TrailOK.all _ _ (by rw [← htr]; exact hl.trailOK) a hsat hda
          rcases decisionOK_cases U P st v val reason hg with h0 | ⟨cl, p, r, hcl, hk, hp⟩
          · -- the installation of the root
            subst h0
            have hav : a v = val := by
              unfold decisionOK at hg
              simp only [beq_self_eq_true, if_true, Bool.or_eq_true, Bool.and_eq_true, beq_iff_eq] at hg
              rcases hg with ⟨⟨hv, hval⟩, _⟩ | hc
              · rw [hv, hval]; exact hroot
              · cases hsv : st.solvOf v with
                | none => rw [hsv] at hc; cases hc
                | some s => rw [hsv] at hc; simp [hsoft] at hc
            exact ⟨[], ⟨v, val, level, 0, true⟩ :: lo, by simp [htr], decAgree_cons hda (fun _ => hav), fun h => absurd rfl h⟩
          · rcases hp with hp0 | hrsat
            · -- a decision on a requirement of the root
              subst hp0
              have hav := root_decision_agrees U P hsoft sstar hb st hs a hroot hsolv hsat hall v val reason hg
                (fun cl' p' r' hcl' hk' => by
                  rw [hcl] at hcl'; cases hcl'
                  rw [hk] at hk'; cases hk'; rfl)
              exact ⟨[], ⟨v, val, level, reason, true⟩ :: lo, by simp [htr], decAgree_cons hda (fun _ => hav), fun h => absurd rfl h⟩
            · -- the first decision on another solvable's requirement: every root requirement is satisfied below it
              have hr := rootSat_of_guard P st hrsat
              rw [htr] at hr
              exact ⟨[⟨v, val, level, reason, true⟩], lo, by simp [htr], hda, fun _ => hr⟩
      · split at hstep'
        · split at hstep'
          · split at hstep'
            · cases hstep'
              cases hi' with
              | cons e' hi'' =>
                exact ⟨⟨v, val, level, reason, false⟩ :: e' :: hi'', lo, by simp [htr], hda, fun _ => hrs (by simp)⟩
              | nil =>
                simp only [List.nil_append] at htr
                exact ⟨[], ⟨v, val, level, reason, false⟩ :: lo, by simp [htr],
                  decAgree_cons hda (fun hd => by cases hd), fun h => absurd rfl h⟩
            · cases hstep'
          · cases hstep'
        · cases hstep'

theorem runD_binv (U : Universe) (P : Problem) (hsoft : P.soft = []) (sstar : List Nat)
    (hb : BestHyp U P sstar) (a : Nat → Bool) (hroot : a 0 = true)
    (evs : List Event) (st0 stf : St) (hl : LInv st0) (hs : SInv U P st0)
    (hrun : evs.foldlM (stepD U P) st0 = some stf)
    (hsolv : ∀ v s, oSolv stf.origins v = some s → a v = sstar.contains s)
    (hsat : SatDb a stf.db) (hi : BInv a P st0) : BInv a P stf := by
  induction evs generalizing st0 with
  | nil => simp [List.foldlM] at hrun; subst hrun; exact hi
  | cons ev evs ih =>
    have hmono := run_mono U P (ev :: evs) st0 stf (runOptD_runOpt U P _ st0 stf hrun)
    simp only [List.foldlM_cons] at hrun
    cases hst : stepD U P st0 ev with
    | none => rw [hst] at hrun; simp at hrun
    | some st1 =>
      rw [hst] at hrun
      simp only [Option.bind_eq_bind, Option.bind_some] at hrun
      have hst' := stepD_step U P st0 st1 ev hst
      have hsolv0 : ∀ v s, oSolv st0.origins v = some s → a v = sstar.contains s :=
        fun v s h => hsolv v s (oSolv_mono _ _ hmono.2 v s h)
      have hsat0 : SatDb a st0.db := fun cl hcl => hsat cl (hmono.1 cl hcl)
      have hi1 := stepD_binv U P hsoft sstar hb st0 st1 ev hl hs a hroot hsolv0 hsat0 hi hst
      exact ih st1 (step_linv U P st0 st1 ev hl hst') (step_sinv U P st0 st1 ev hs hst') hrun hi1

/-- **C08 for decision-guarded accepted histories.** If every root requirement is a single version set and some valid
    selection contains the first-ranked candidate of each, a history accepted by the decision-guarded abstract system
    that ends with a valid solution ends with a solution containing all those first-ranked candidates. -/
theorem best_direct (U : Universe) (P : Problem) (hsoft : P.soft = []) (sstar : List Nat) (hb : BestHyp U P sstar)
    (evs : List Event) (st : St) (hrun : runOptD U P evs = some st) (sol : List Nat) (hsol : sol = st.trueSolvables)
    (hvalid : Valid U P sol []) : ∀ r ∈ P.reqs, ∀ c, firstChoice U r = some c → c ∈ sol := by
  have hrun' := runOptD_runOpt U P evs {} st hrun
  obtain ⟨hl, hsi⟩ := run_inv U P evs {} st ⟨linv_init, sinv_init U P⟩ hrun'
  have hsat : SatDb (mu st sstar) st.db := hl.learntEntailed _ (mu_satisfies U P st hsi sstar hb.valid)
  have hinv := runD_binv U P hsoft sstar hb (mu st sstar) (mu_root U P st hsi sstar) evs {} st
    linv_init (sinv_init U P) hrun (fun v s h => mu_solv st sstar v s h) hsat
    ⟨[], [], rfl, (fun x hx => by cases hx), (fun h => absurd rfl h)⟩
  obtain ⟨hi, lo, htr, hda, hrs⟩ := hinv
  have hall : ∀ e ∈ lo, mu st sstar e.var = e.val :=
    TrailOK.all _ _ (trailOK_suffix st.db hi lo (by rw [← htr]; exact hl.trailOK)) _ hsat hda
  intro r hr c hfc
  obtain ⟨c', hfc', _, honly⟩ := best_only U P sstar hb r hr
  rw [hfc] at hfc'
  cases hfc'
  cases hi with
  | nil =>
    simp only [List.nil_append] at htr
    obtain ⟨d, hdc, hds⟩ := hvalid.1.1 r hr
    have hds' := hds
    rw [hsol] at hds'
    obtain ⟨e, he, hv, hse⟩ := (mem_trueSolvables st d).mp hds'
    have hae := hall e (by rw [← htr]; exact he)
    rw [hv, mu_solv st sstar e.var d hse] at hae
    have hdm : d ∈ sstar := List.contains_iff_mem.mp hae
    rw [← honly d hdc hdm]
    exact hds
  | cons e0 hi' =>
    obtain ⟨cl, hcl, hk, w, hw, e, he, hev, heb⟩ := hrs (by simp) r hr
    have hprov := hsi.prov cl hcl
    unfold Prov at hprov
    rw [hk] at hprov
    obtain ⟨reqs, cons, vars, _, _, h3, _, h5, h6⟩ := hprov
    rw [candVars_eq cl 0 vars h6] at hw
    cases hsw : oSolv st.origins w with
    | none => have := h3 w hw; rw [hsw] at this; cases this
    | some sw =>
      have hswc : sw ∈ U.reqCands r := h5 sw (List.mem_filterMap.mpr ⟨w, hw, hsw⟩)
      have hae := hall e he
      rw [hev, heb, mu_solv st sstar w sw hsw] at hae
      have hswm : sw ∈ sstar := List.contains_iff_mem.mp hae
      have hswc' : sw = c := honly sw hswc hswm
      subst hswc'
      rw [hsol]
      apply (mem_trueSolvables st sw).mpr
      refine ⟨e, by rw [htr]; exact List.mem_append_right _ he, heb, ?_⟩
      rw [hev]; exact hsw

end Resolvo.Abs
