import Resolvo.Abs.Logic
import Resolvo.SpecProofs
import Resolvo.Enc.ReferenceProofs
/-!
# Soundness of the abstract system, semantic part

Every non-learnt clause an accepted history adds states a true fact of the provider universe
(`Prov`), so every valid selection of the hard problem induces an assignment (`mu`) satisfying
all of them. Together with `Logic.lean`: an accepted history that records a failure proves that
the hard problem has no solution (`fail_sound`).
-/
namespace Resolvo.Abs
open Resolvo Resolvo.Sat

abbrev Org := List (Nat × Origin)

def oSolv (org : Org) (v : Nat) : Option Nat :=
  match org.lookup v with | some (.solvable s) => some s | _ => none

def oParentDeps (U : Universe) (P : Problem) (org : Org) (p : Nat) : Option (List Req × List Nat) :=
  match org.lookup p with
  | some .root => some (P.reqs, P.constraints)
  | some (.solvable s) => match U.deps s with | .known reqs cons => some (reqs, cons) | .unknown _ => none
  | _ => none

theorem solvOf_eq (st : St) (v : Nat) : st.solvOf v = oSolv st.origins v := rfl
theorem parentDeps_eq (U : Universe) (P : Problem) (st : St) (p : Nat) :
    parentDeps U P st p = oParentDeps U P st.origins p := rfl

/-- What the provenance check establishes about a clause. -/
def Prov (U : Universe) (P : Problem) (org : Org) (cl : ACl) : Prop :=
  match cl.kind with
  | .root => cl.lits = [(0, true)]
  | .requires p r => ∃ (reqs : List Req) (cons : List Nat) (vars : List Nat), oParentDeps U P org p = some (reqs, cons) ∧ r ∈ reqs ∧
      (∀ v ∈ vars, (oSolv org v).isSome = true) ∧
      (∀ x ∈ U.reqCands r, x ∈ vars.filterMap (oSolv org)) ∧
      (∀ x ∈ vars.filterMap (oSolv org), x ∈ U.reqCands r) ∧
      cl.lits = (p, false) :: vars.map (fun v => (v, true))
  | .constrains p c vs => ∃ reqs cons t, oParentDeps U P org p = some (reqs, cons) ∧ vs ∈ cons ∧
      oSolv org c = some t ∧ t ∈ U.nonMatching vs ∧ cl.lits = [(p, false), (c, false)]
  | .forbid a h pos n => ∃ s, oSolv org a = some s ∧ org.lookup h = some (.forbid n) ∧ U.nameOf s = n ∧
      cl.lits = [(a, false), (h, pos)]
  | .lock l o => ∃ ls os p, oSolv org l = some ls ∧ oSolv org o = some os ∧
      U.pkg? (U.nameOf os) = some p ∧ p.locked = some ls ∧ os ≠ ls ∧ cl.lits = [(0, false), (o, false)]
  | .excluded v reason => ∃ s, oSolv org v = some s ∧
      (U.deps s = .unknown reason ∨ ∃ p, U.pkg? (U.nameOf s) = some p ∧ (s, reason) ∈ p.excluded) ∧
      cl.lits = [(v, false)]
  | .learnt _ => True

/-- The fact a clause kind states, apart from the clause's literals: a `requires p r` belongs to `p`'s requirements, a
    `constrains p c vs` to its constrains and `c` does not match, lock / exclusion clauses reflect the package's lock /
    exclusion list or unknown dependencies, a forbid clause is about a solvable of the named package. This is all that
    `Conflict::graph` reads off a clause. -/
def KindTrue (U : Universe) (P : Problem) (org : Org) : Kind → Prop
  | .root => True
  | .learnt _ => True
  | .requires p r => ∃ reqs cons, oParentDeps U P org p = some (reqs, cons) ∧ r ∈ reqs
  | .constrains p c vs => (∃ reqs cons, oParentDeps U P org p = some (reqs, cons) ∧ vs ∈ cons) ∧
      ∃ t, oSolv org c = some t ∧ t ∈ U.nonMatching vs
  | .forbid a _ _ n => ∃ s, oSolv org a = some s ∧ U.nameOf s = n
  | .lock l o => ∃ ls os p, oSolv org l = some ls ∧ oSolv org o = some os ∧
      U.pkg? (U.nameOf os) = some p ∧ p.locked = some ls ∧ os ≠ ls
  | .excluded v reason => ∃ s, oSolv org v = some s ∧
      (U.deps s = .unknown reason ∨ ∃ p, U.pkg? (U.nameOf s) = some p ∧ (s, reason) ∈ p.excluded)

theorem prov_kindTrue (U : Universe) (P : Problem) (org : Org) (cl : ACl) (h : Prov U P org cl) : KindTrue U P org cl.kind := by
  unfold Prov at h
  cases hk : cl.kind with
  | root => trivial
  | learnt i => trivial
  | requires p r =>
    rw [hk] at h
    obtain ⟨reqs, cons, vars, h1, h2, _⟩ := h
    exact ⟨reqs, cons, h1, h2⟩
  | constrains p c vs =>
    rw [hk] at h
    obtain ⟨reqs, cons, t, h1, h2, h3, h4, _⟩ := h
    exact ⟨⟨reqs, cons, h1, h2⟩, t, h3, h4⟩
  | forbid a hh pos n =>
    rw [hk] at h
    obtain ⟨s, h1, _, h3, _⟩ := h
    exact ⟨s, h1, h3⟩
  | lock l o =>
    rw [hk] at h
    obtain ⟨ls, os, p, h1, h2, h3, h4, h5, _⟩ := h
    exact ⟨ls, os, p, h1, h2, h3, h4, h5⟩
  | excluded v reason =>
    rw [hk] at h
    obtain ⟨s, h1, h2, _⟩ := h
    exact ⟨s, h1, h2⟩

structure SInv (U : Universe) (P : Problem) (st : St) : Prop where
  rootOrigin : st.origins.lookup 0 = some .root
  solvInj : ∀ v v' s, st.origins.lookup v = some (.solvable s) → st.origins.lookup v' = some (.solvable s) → v = v'
  prov : ∀ cl ∈ st.db, Prov U P st.origins cl
  consistent : ∀ cl1 ∈ st.db, ∀ cl2 ∈ st.db, ∀ a h p1 p2 n1 n2,
    cl1.kind = .forbid a h p1 n1 → cl2.kind = .forbid a h p2 n2 → p1 = p2

theorem sinv_init (U : Universe) (P : Problem) : SInv U P ({} : St) := by
  refine ⟨rfl, ?_, ?_, ?_⟩
  · intro v v' s h
    simp only [List.lookup_cons, List.lookup_nil] at h
    split at h <;> simp at h
  · intro cl h; cases h
  · intro cl h; cases h

/-! ### the checker establishes `Prov` -/

theorem ite_some {α : Type} {c : Prop} [Decidable c] {x y : α}
    (h : (if c then some x else none) = some y) : c ∧ x = y := by
  split at h
  · next hc => exact ⟨hc, Option.some.inj h⟩
  · cases h

theorem subsetB_spec (a b : List Nat) (h : subsetB a b = true) : ∀ x ∈ a, x ∈ b := by
  intro x hx
  exact List.contains_iff_mem.mp (List.all_eq_true.mp h x hx)

theorem mkClause_prov (U : Universe) (P : Problem) (st : St) (k : Kind) (cands : List (List Nat))
    (cl : ACl) (h : mkClause U P st k cands = some cl) : Prov U P st.origins cl := by
  unfold mkClause at h
  cases k with
  | root => simp only [] at h; cases h; simp [Prov]
  | requires p r =>
    simp only [] at h
    rw [parentDeps_eq] at h
    cases hpd : oParentDeps U P st.origins p with
    | none => rw [hpd] at h; cases h
    | some d =>
      obtain ⟨reqs, cons⟩ := d
      rw [hpd] at h
      simp only [] at h
      split at h
      · next hc =>
        cases h
        simp only [Bool.and_eq_true, List.all_eq_true] at hc
        obtain ⟨⟨⟨h1, h2⟩, h3⟩, h4⟩ := hc
        exact ⟨reqs, cons, cands.flatten, hpd, List.contains_iff_mem.mp h2, h1,
          subsetB_spec _ _ h4, subsetB_spec _ _ h3, rfl⟩
      · cases h
  | constrains p c vs =>
    simp only [] at h
    rw [parentDeps_eq, solvOf_eq] at h
    cases hpd : oParentDeps U P st.origins p with
    | none => rw [hpd] at h; cases h
    | some d =>
      obtain ⟨reqs, cons⟩ := d
      cases hc : oSolv st.origins c with
      | none => rw [hpd, hc] at h; cases h
      | some t =>
        rw [hpd, hc] at h
        simp only [] at h
        split at h
        · next hcond =>
          cases h
          simp only [Bool.and_eq_true] at hcond
          exact ⟨reqs, cons, t, hpd, List.contains_iff_mem.mp hcond.1, hc, List.contains_iff_mem.mp hcond.2, rfl⟩
        · cases h
  | forbid a hh pos n =>
    simp only [] at h
    rw [solvOf_eq] at h
    cases ha : oSolv st.origins a with
    | none => rw [ha] at h; cases h
    | some s =>
      rw [ha] at h
      simp only [St.origin?] at h
      cases ho : st.origins.lookup hh with
      | none => rw [ho] at h; cases h
      | some o =>
        rw [ho] at h
        cases o with
        | root => cases h
        | solvable _ => cases h
        | forbid n' =>
          simp only [] at h
          split at h
          · next hcond =>
            cases h
            simp only [Bool.and_eq_true, beq_iff_eq] at hcond
            have e : n' = n := hcond.1.1
            subst e
            exact ⟨s, ha, ho, hcond.1.2, rfl⟩
          · cases h
  | lock l o =>
    simp only [] at h
    rw [solvOf_eq, solvOf_eq] at h
    cases hl : oSolv st.origins l with
    | none => rw [hl] at h; cases h
    | some ls =>
      cases ho : oSolv st.origins o with
      | none => rw [hl, ho] at h; cases h
      | some os =>
        rw [hl, ho] at h
        simp only [] at h
        cases hp : U.pkg? (U.nameOf os) with
        | none => rw [hp] at h; cases h
        | some p =>
          rw [hp] at h
          simp only [] at h
          split at h
          · next hcond =>
            cases h
            simp only [Bool.and_eq_true, beq_iff_eq, bne_iff_ne, ne_eq] at hcond
            exact ⟨ls, os, p, hl, ho, hp, hcond.1, hcond.2, rfl⟩
          · cases h
  | excluded v reason =>
    simp only [] at h
    rw [solvOf_eq] at h
    cases hv : oSolv st.origins v with
    | none => rw [hv] at h; cases h
    | some s =>
      rw [hv] at h
      simp only [] at h
      obtain ⟨hcond, hcl⟩ := ite_some h
      subst hcl
      refine ⟨s, hv, ?_, rfl⟩
      rw [Bool.or_eq_true] at hcond
      rcases hcond with h1 | h1
      · left
        cases hd : U.deps s with
        | known a b => rw [hd] at h1; cases h1
        | unknown r => rw [hd] at h1; simp only [beq_iff_eq] at h1; rw [h1]
      · right
        cases hp : U.pkg? (U.nameOf s) with
        | none => rw [hp] at h1; cases h1
        | some p =>
          rw [hp] at h1
          simp only [] at h1
          obtain ⟨e, he, hev⟩ := List.any_eq_true.mp h1
          simp only [Bool.and_eq_true, beq_iff_eq] at hev
          refine ⟨p, rfl, ?_⟩
          have : e = (s, reason) := Prod.ext hev.1 hev.2
          rw [← this]; exact he
  | learnt idx =>
    have hk := mkClause_kind U P st (.learnt idx) cands cl (by unfold mkClause; exact h)
    unfold Prov; rw [hk]; trivial

/-! ### stability of `Prov` when a fresh variable is interned -/

theorem lookup_cons_stable (org : Org) (v : Nat) (o : Origin) (hfresh : org.lookup v = none)
    (w : Nat) (x : Origin) (h : org.lookup w = some x) : ((v, o) :: org).lookup w = some x := by
  rw [List.lookup_cons]
  split
  · next heq =>
    have : w = v := by simpa using heq
    subst this; rw [hfresh] at h; cases h
  · exact h

theorem oSolv_stable (org : Org) (v : Nat) (o : Origin) (hfresh : org.lookup v = none)
    (w : Nat) (s : Nat) (h : oSolv org w = some s) : oSolv ((v, o) :: org) w = some s := by
  unfold oSolv at *
  cases hl : org.lookup w with
  | none => rw [hl] at h; cases h
  | some x =>
    rw [lookup_cons_stable org v o hfresh w x hl]
    rw [hl] at h; exact h

theorem oParentDeps_stable (U : Universe) (P : Problem) (org : Org) (v : Nat) (o : Origin)
    (hfresh : org.lookup v = none) (p : Nat) (d : List Req × List Nat)
    (h : oParentDeps U P org p = some d) : oParentDeps U P ((v, o) :: org) p = some d := by
  unfold oParentDeps at *
  cases hl : org.lookup p with
  | none => rw [hl] at h; cases h
  | some x =>
    rw [lookup_cons_stable org v o hfresh p x hl]
    rw [hl] at h; exact h

theorem filterMap_stable (org : Org) (v : Nat) (o : Origin) (hfresh : org.lookup v = none)
    (vars : List Nat) (hall : ∀ w ∈ vars, (oSolv org w).isSome = true) :
    vars.filterMap (oSolv ((v, o) :: org)) = vars.filterMap (oSolv org) := by
  induction vars with
  | nil => rfl
  | cons w ws ih =>
    have hw := hall w List.mem_cons_self
    cases hs : oSolv org w with
    | none => rw [hs] at hw; cases hw
    | some s =>
      have hs' := oSolv_stable org v o hfresh w s hs
      simp only [List.filterMap_cons, hs, hs']
      rw [ih (fun w' hw' => hall w' (List.mem_cons_of_mem _ hw'))]

theorem prov_stable (U : Universe) (P : Problem) (org : Org) (v : Nat) (o : Origin)
    (hfresh : org.lookup v = none) (cl : ACl) (h : Prov U P org cl) : Prov U P ((v, o) :: org) cl := by
  cases hk : cl.kind with
  | root => unfold Prov at h ⊢; rw [hk] at h ⊢; exact h
  | requires p r =>
    unfold Prov at h ⊢; rw [hk] at h ⊢
    obtain ⟨reqs, cons, vars, h1, h2, h3, h4, h5, h6⟩ := h
    have hfm := filterMap_stable org v o hfresh vars h3
    refine ⟨reqs, cons, vars, oParentDeps_stable U P org v o hfresh p _ h1, h2, ?_, ?_, ?_, h6⟩
    · intro w hw
      cases hs : oSolv org w with
      | none => have := h3 w hw; rw [hs] at this; cases this
      | some s => rw [oSolv_stable org v o hfresh w s hs]; rfl
    · rw [hfm]; exact h4
    · rw [hfm]; exact h5
  | constrains p c vs =>
    unfold Prov at h ⊢; rw [hk] at h ⊢
    obtain ⟨reqs, cons, t, h1, h2, h3, h4, h5⟩ := h
    exact ⟨reqs, cons, t, oParentDeps_stable U P org v o hfresh p _ h1, h2, oSolv_stable org v o hfresh c t h3, h4, h5⟩
  | forbid a hh pos n =>
    unfold Prov at h ⊢; rw [hk] at h ⊢
    obtain ⟨s, h1, h2, h3, h4⟩ := h
    exact ⟨s, oSolv_stable org v o hfresh a s h1, lookup_cons_stable org v o hfresh hh _ h2, h3, h4⟩
  | lock l oo =>
    unfold Prov at h ⊢; rw [hk] at h ⊢
    obtain ⟨ls, os, p, h1, h2, h3, h4, h5, h6⟩ := h
    exact ⟨ls, os, p, oSolv_stable org v o hfresh l ls h1, oSolv_stable org v o hfresh oo os h2, h3, h4, h5, h6⟩
  | excluded vv reason =>
    unfold Prov at h ⊢; rw [hk] at h ⊢
    obtain ⟨s, h1, h2, h3⟩ := h
    exact ⟨s, oSolv_stable org v o hfresh vv s h1, h2, h3⟩
  | learnt idx => unfold Prov; rw [hk]; trivial

/-! ### every accepted step preserves the static invariant -/

theorem mkClause_consistent (U : Universe) (P : Problem) (st : St) (a h : Nat) (pos : Bool) (n : Nat)
    (cands : List (List Nat)) (cl : ACl) (hm : mkClause U P st (.forbid a h pos n) cands = some cl) :
    ∀ cl' ∈ st.db, ∀ p' n', cl'.kind = .forbid a h p' n' → p' = pos := by
  unfold mkClause at hm
  simp only [] at hm
  split at hm
  · split at hm
    · next hcond =>
      simp only [Bool.and_eq_true, List.all_eq_true] at hcond
      intro cl' hcl' p' n' hk
      have := hcond.2 cl' hcl'
      rw [hk] at this
      simp only [beq_self_eq_true, Bool.true_and, Bool.not_eq_true', bne_eq_false_iff_eq] at this
      exact this
    · cases hm
  · cases hm

theorem step_sinv (U : Universe) (P : Problem) (st st' : St) (ev : Event)
    (hi : SInv U P st) (hs : step U P st ev = some st') : SInv U P st' := by
  cases ev with
  | note => simp [step] at hs; subst hs; exact hi
  | learntLits idx lits why => simp only [step] at hs; cases hs; exact ⟨hi.1, hi.2, hi.3, hi.4⟩
  | assign v val level reason =>
    simp only [step] at hs
    split at hs
    · cases hs
    · split at hs
      · cases hs; exact ⟨hi.1, hi.2, hi.3, hi.4⟩
      · split at hs
        · split at hs
          · split at hs
            · cases hs; exact ⟨hi.1, hi.2, hi.3, hi.4⟩
            · cases hs
          · cases hs
        · cases hs
  | undo v =>
    simp only [step] at hs
    split at hs
    · split at hs
      · cases hs; exact ⟨hi.1, hi.2, hi.3, hi.4⟩
      · cases hs
    · cases hs
  | clear => simp only [step] at hs; cases hs; exact ⟨hi.1, hi.2, hi.3, hi.4⟩
  | unsolvable c =>
    simp only [step] at hs
    split at hs
    · split at hs
      · cases hs; exact ⟨hi.1, hi.2, hi.3, hi.4⟩
      · cases hs
    · cases hs
  | var v o =>
    simp only [step] at hs
    split at hs
    · cases hs
    · next hnone =>
      have hfresh : st.origins.lookup v = none := by
        simp only [St.origin?] at hnone
        cases hl : st.origins.lookup v with
        | none => rfl
        | some x => rw [hl] at hnone; simp at hnone
      have hv0 : v ≠ 0 := by intro e; subst e; rw [hi.rootOrigin] at hfresh; cases hfresh
      cases o with
      | root => cases hs
      | forbid n =>
        cases hs
        refine ⟨lookup_cons_stable _ _ _ hfresh 0 _ hi.rootOrigin, ?_, ?_, hi.4⟩
        · intro w w' s hw hw'
          simp only [List.lookup_cons] at hw hw'
          split at hw
          · cases hw
          · split at hw'
            · cases hw'
            · exact hi.solvInj w w' s hw hw'
        · intro cl hcl; exact prov_stable U P _ v _ hfresh cl (hi.prov cl hcl)
      | solvable s =>
        simp only [] at hs
        by_cases hany : (st.origins.any fun vo => vo.2 == Origin.solvable s) = true
        · simp [hany] at hs
        · simp only [hany] at hs
          simp only [Bool.false_eq_true, if_false, Option.some.injEq] at hs
          subst hs
          have hnot : ∀ w, st.origins.lookup w ≠ some (.solvable s) := by
            intro w hw
            apply hany
            apply List.any_eq_true.mpr
            exact ⟨(w, .solvable s), Resolvo.mem_of_lookup _ _ _ hw, by simp⟩
          refine ⟨lookup_cons_stable _ _ _ hfresh 0 _ hi.rootOrigin, ?_, ?_, hi.4⟩
          · intro w w' s' hw hw'
            simp only [List.lookup_cons] at hw hw'
            split at hw
            · next e1 =>
              have ew : w = v := by simpa using e1
              cases hw
              split at hw'
              · next e2 => have : w' = v := by simpa using e2
                           rw [ew, this]
              · exact absurd hw' (hnot w')
            · split at hw'
              · cases hw'; exact absurd hw (hnot w)
              · exact hi.solvInj w w' s' hw hw'
          · intro cl hcl; exact prov_stable U P _ v _ hfresh cl (hi.prov cl hcl)
  | clause id k cands =>
    simp only [step] at hs
    split at hs
    · cases hs
    · cases hm : mkClause U P st k cands with
      | none => rw [hm] at hs; cases hs
      | some cl =>
        rw [hm] at hs
        cases hs
        have hk := mkClause_kind U P st k cands cl hm
        refine ⟨hi.1, hi.2, ?_, ?_⟩
        · intro c hc
          rcases List.mem_append.mp hc with h | h
          · exact hi.prov c h
          · simp at h; subst h; exact mkClause_prov U P st k cands c hm
        · intro cl1 hm1 cl2 hm2 a h p1 p2 n1 n2 hk1 hk2
          have g1 : cl1 ∈ st.db ∨ cl1 = cl := by
            have : cl1 ∈ st.db ++ [cl] := hm1
            simpa using this
          have g2 : cl2 ∈ st.db ∨ cl2 = cl := by
            have : cl2 ∈ st.db ++ [cl] := hm2
            simpa using this
          rcases g1 with g1 | g1 <;> rcases g2 with g2 | g2
          · exact hi.consistent cl1 g1 cl2 g2 a h p1 p2 n1 n2 hk1 hk2
          · subst g2
            rw [hk] at hk2
            subst hk2
            exact mkClause_consistent U P st a h p2 n2 cands cl2 hm cl1 g1 p1 n1 hk1
          · subst g1
            rw [hk] at hk1
            subst hk1
            exact (mkClause_consistent U P st a h p1 n1 cands cl1 hm cl2 g2 p2 n2 hk2).symm
          · subst g1; subst g2
            rw [hk1] at hk2; cases hk2; rfl

end Resolvo.Abs
