import Resolvo.MDet.Encode
/-!
# MDet — the encoder with an asynchronous provider (C10, C11)

`Encoder::encode` pushes one future per task into a `FuturesUnordered` and polls `next()` until it is
empty. With a provider whose `get_candidates` / `get_dependencies` suspend, the futures no longer
complete on their first poll. This file models exactly that machinery for a single-threaded executor
that completes one outstanding request at a time (the harness's `ManualRuntime`):

* the **ready queue** of `FuturesUnordered`: a future is enqueued when it is pushed and when its waker is
  invoked; `next()` polls the queue in FIFO order and returns as soon as one future completes, whereupon
  the encoder's callback runs (and pushes new futures behind the ones already woken);
* the **suspension points** of the futures: the provider request of `get_or_cache_dependencies`, and inside
  `get_or_cache_candidates` either the provider request (for the first requester, which also owns the
  in-flight marker) or the `Event` listener of a request already in flight;
* `try_join_all` over the version sets of a requirement: every poll of the parent polls all unfinished
  children in order, so the candidates of several packages are requested before any answer arrives;
* **quiescence**: when the ready queue is empty and futures remain, `next()` is `Pending`; the executor
  records the set of outstanding requests (`pending …`), completes the request named next by the schedule
  (`complete <label>`) and wakes the future parked on it.

Everything else (the callbacks, the solver loop) is the code of the synchronous model. The schedule is
an input: for every schedule the run is deterministic, and the correspondence harness compares it with
the real solver under the same completion order (provider call log incl. the `C`/`D` "answer obtained"
markers, executor events, solver history, result).
-/
namespace Resolvo.MDet
open Resolvo Resolvo.Sat Resolvo.Abs

/-- where one `get_or_cache_candidates` await stands -/
inductive CandWait where
  | notStarted
  | owner          -- issued the provider request, parked on its gate
  | listener       -- parked on the in-flight request's event
  | ready
deriving Repr, Inhabited, DecidableEq

/-- one child of a requirement / constraint future: a version set whose (sorted / non-matching) candidates are awaited -/
structure Child where
  vs : Nat
  wait : CandWait := .notStarted
  stage : Nat := 0
  gate : Nat := 0                   -- id of the filter/sort gate the child is parked on (stages 1, 2)
  done : Bool := false
deriving Repr, Inhabited

structure ATask where
  id : Nat
  task : Task
  children : List Child := []
  wait : CandWait := .notStarted     -- `deps` / `pkg` futures: their single await
  finished : Bool := false
deriving Repr, Inhabited

/-- local state of one `encode` call -/
structure AS where
  tasks : List ATask := []
  ready : List Nat := []                     -- FuturesUnordered's ready-to-run queue (task ids)
  inflight : List (Nat × Nat) := []          -- package ↦ task that owns the request
  listeners : List (Nat × Nat) := []         -- (package, task) in registration order
  gates : List (String × Nat) := []          -- outstanding requests: label ↦ task parked on it, oldest first
  opened : List String := []                 -- completed by the executor, not yet consumed by their future
  fgates : List (String × Nat × Nat) := []   -- outstanding filter/sort calls: (label, task, gate id), oldest first
  fopened : List Nat := []                   -- ids of completed filter/sort gates, not yet consumed
  nextGate : Nat := 0
  nextId : Nat := 0
deriving Inhabited

def enqueue (a : AS) (tid : Nat) : AS := if a.ready.contains tid then a else { a with ready := a.ready ++ [tid] }

def logCall (w : String) (g : GEv) : M Unit := modify fun s => { s with log := w :: s.log, glog := g :: s.glog }

/-- the provider side of `get_dependencies` up to its suspension point -/
def startDeps (sv : Nat) : M Unit := do
  pollCancel
  logCall s!"d{sv}" (.call false sv)
  modify fun s => { s with issuedDeps := sv :: s.issuedDeps }
  requestStarted

def finishDeps (sv : Nat) : M Unit :=
  modify fun s => { s with fetchedDeps := sv :: s.fetchedDeps, log := s!"D{sv}" :: s.log, glog := .got false sv :: s.glog }

def finishCands (U : Universe) (n : Nat) : M Unit := do
  let p := (U.pkg? n).getD { cands := [] }
  modify fun s => { s with fetchedCands := n :: s.fetchedCands, hinted := s.hinted ++ hintedBy p, log := s!"C{n}" :: s.log, glog := .got true n :: s.glog }

/-- one poll of a `get_or_cache_candidates(n)` await of task `tid`; returns the new wait state -/
def pollCands (U : Universe) (tid n : Nat) (w : CandWait) (a : AS) : M (CandWait × AS) := do
  let s ← get
  match w with
  | .ready => pure (.ready, a)
  | .notStarted =>
    if s.fetchedCands.contains n then pure (.ready, a)
    else do
      pollCancel
      if (a.inflight.lookup n).isSome then
        pure (.listener, { a with listeners := a.listeners ++ [(n, tid)] })
      else do
        logCall s!"c{n}" (.call true n)
        modify fun s => { s with issuedCands := n :: s.issuedCands }
        requestStarted
        pure (.owner, { a with inflight := (n, tid) :: a.inflight, gates := a.gates ++ [(s!"c{n}", tid)] })
  | .owner =>
    if a.opened.contains s!"c{n}" then do
      finishCands U n
      -- the in-flight guard is dropped: everybody listening is woken (their futures are enqueued)
      let woken := (a.listeners.filter (fun e => e.1 == n)).map (·.2)
      let a := { a with opened := a.opened.erase s!"c{n}", inflight := a.inflight.filter (fun e => e.1 != n),
                        listeners := a.listeners.filter (fun e => e.1 != n) }
      pure (.ready, woken.foldl enqueue a)
    else pure (.owner, a)
  | .listener =>
    if s.fetchedCands.contains n then pure (.ready, a) else pure (.listener, a)

/-- the result a finished future hands to the encoder -/
inductive TaskResult where
  | deps (sid : SoR) (d : Deps)
  | cands (n : Nat) (p : Pkg)
  | req (sid : SoR) (r : Req) (lists : List (List Nat))
  | cons (sid : SoR) (vs : Nat) (l : List Nat)
deriving Inhabited

/-- a provider call that suspends on its own gate (`filter_candidates`, `sort_candidates` when they are asynchronous):
    the first poll registers the gate (its id is returned), a later poll passes once the executor has completed it -/
def pollGate (tid : Nat) (label : String) (entered : Bool) (gid : Nat) (a : AS) : Bool × Nat × AS :=
  if !entered then (false, a.nextGate, { a with fgates := a.fgates ++ [(label, tid, a.nextGate)], nextGate := a.nextGate + 1 })
  else if a.fopened.contains gid then (true, gid, { a with fopened := a.fopened.erase gid })
  else (false, gid, a)

/-- the child's result is stored in the cache of sorted candidates and the child is finished -/
def finishChild (sorted : Bool) (c : Child) (a : AS) : M (Child × AS) := do
  if sorted then modify fun s => if s.cachedSorted.contains c.vs then s else { s with cachedSorted := c.vs :: s.cachedSorted }
  pure ({ c with done := true, wait := .ready }, a)

/-- the harness's label of a `sort_candidates` call: the first solvable of the list to sort -/
def sortLabel (U : Universe) (vs : Nat) : String := match U.candsOf vs with | f :: _ => s!"s{f}" | [] => "s-1"
/-- the harness's label of a `filter_candidates` call -/
def filterLabel (sorted : Bool) (vs : Nat) : String := if sorted then s!"f{vs}" else s!"f{vs}i"

/-- stage 2: `sort_candidates` (suspends on its own gate when `gateFs`) -/
def sortStage (U : Universe) (tid : Nat) (gateFs : Bool) (c : Child) (a : AS) (entered : Bool) : M (Child × AS) := do
  if !gateFs then finishChild true c a
  else
    let (ok, gid, a') := pollGate tid (sortLabel U c.vs) entered c.gate a
    if ok then finishChild true c a' else pure ({ c with stage := 2, gate := gid, wait := .ready }, a')

/-- stage 1: `filter_candidates` (suspends on its own gate when `gateFs`), then the sort stage / the end -/
def filterStage (U : Universe) (tid : Nat) (gateFs sorted : Bool) (c : Child) (a : AS) (entered : Bool) : M (Child × AS) := do
  if !gateFs then (if sorted then sortStage U tid gateFs c a false else finishChild false c a)
  else
    let (ok, gid, a') := pollGate tid (filterLabel sorted c.vs) entered c.gate a
    if ok then do
      if sorted then
        modify fun s => if s.cachedMatching.contains c.vs then s else { s with cachedMatching := c.vs :: s.cachedMatching }
        sortStage U tid gateFs c a' false
      else
        modify fun s => if s.cachedInverse.contains c.vs then s else { s with cachedInverse := c.vs :: s.cachedInverse }
        finishChild false c a'
    else pure ({ c with stage := 1, gate := gid, wait := .ready }, a')

/-- one poll of one child: `get_or_cache_sorted_candidates_for_version_set` / `get_or_cache_non_matching_candidates`.
    Stages: 0 = `get_or_cache_candidates` (the only suspension point when filter and sort are synchronous),
    1 = parked on the gate of `filter_candidates`, 2 = parked on the gate of `sort_candidates`. -/
def pollChild (U : Universe) (tid : Nat) (sorted : Bool) (c : Child) (a : AS) : M (Child × AS) := do
  if c.done then pure (c, a)
  else do
    let s ← get
    if c.stage == 2 then sortStage U tid s.gateFs c a true
    else if c.stage == 1 then filterStage U tid s.gateFs sorted c a true
    else if sorted && s.cachedSorted.contains c.vs then pure ({ c with done := true, wait := .ready }, a)
    else if !sorted && s.gateFs && s.cachedInverse.contains c.vs then pure ({ c with done := true, wait := .ready }, a)
    else if sorted && s.gateFs && s.cachedMatching.contains c.vs then sortStage U tid s.gateFs c a false
    else do
      let (w, a') ← pollCands U tid (U.vsName c.vs) c.wait a
      if w == .ready then filterStage U tid s.gateFs sorted { c with wait := .ready } a' false
      else pure ({ c with wait := w }, a')

/-- poll the children of a requirement / constraint future in order (`try_join_all`) -/
def pollChildren (U : Universe) (tid : Nat) (sorted : Bool) : List Child → AS → M (List Child × AS)
  | [], a => pure ([], a)
  | c :: cs, a => do
    let (c', a') ← pollChild U tid sorted c a
    let (cs', a'') ← pollChildren U tid sorted cs a'
    pure (c' :: cs', a'')

/-- one poll of a future: its new state, the encoder-local state and the result if it completed -/
def pollTask (U : Universe) (P : Problem) (t : ATask) (a : AS) : M (ATask × AS × Option TaskResult) := do
  match t.task with
  | .deps none => pure ({ t with finished := true }, a, some (.deps none (.known P.reqs P.constraints)))
  | .deps (some sv) =>
    let s ← get
    match t.wait with
    | .notStarted =>
      if s.fetchedDeps.contains sv then pure ({ t with finished := true }, a, some (.deps (some sv) (U.deps sv)))
      else do
        startDeps sv
        pure ({ t with wait := .owner }, { a with gates := a.gates ++ [(s!"d{sv}", t.id)] }, none)
    | _ =>
      if a.opened.contains s!"d{sv}" then do
        finishDeps sv
        pure ({ t with finished := true, wait := .ready }, { a with opened := a.opened.erase s!"d{sv}" }, some (.deps (some sv) (U.deps sv)))
      else pure (t, a, none)
  | .pkg n =>
    let (w, a') ← pollCands U t.id n t.wait a
    if w == .ready then pure ({ t with finished := true, wait := w }, a', some (.cands n ((U.pkg? n).getD { cands := [] })))
    else pure ({ t with wait := w }, a', none)
  | .req sid r =>
    let (cs, a') ← pollChildren U t.id true t.children a
    if cs.all (·.done) then
      pure ({ t with finished := true, children := cs }, a', some (.req sid r (cs.map (fun c => sortedCands U c.vs))))
    else pure ({ t with children := cs }, a', none)
  | .cons sid vs =>
    let (cs, a') ← pollChildren U t.id false t.children a
    if cs.all (·.done) then pure ({ t with finished := true, children := cs }, a', some (.cons sid vs (U.nonMatching vs)))
    else pure ({ t with children := cs }, a', none)

def runCallback (U : Universe) (P : Problem) : TaskResult → M Unit
  | .deps sid d => onDependencies U P sid d
  | .cands n p => onCandidates n p
  | .req sid r lists => onRequirementCandidates U sid r lists
  | .cons sid vs l => onConstraintCandidates sid vs l

/-- a pushed future becomes a task at the back of the ready queue -/
def adoptOne (U : Universe) (a : AS) (t : Task) : AS :=
  let children : List Child := match t with
    | .req _ r => (U.reqVersionSets r).map (fun vs => { vs := vs })
    | .cons _ vs => [{ vs := vs }]
    | _ => []
  { a with tasks := a.tasks ++ [{ id := a.nextId, task := t, children := children }], ready := a.ready ++ [a.nextId], nextId := a.nextId + 1 }

/-- futures pushed by the callbacks (they sit in `S.queue`) become tasks at the back of the ready queue -/
def adoptPushed (U : Universe) (a : AS) : M AS := do
  let s ← get
  set { s with queue := [] }
  pure (s.queue.foldl (adoptOne U) a)

def insertSorted (x : String) : List String → List String
  | [] => [x]
  | y :: ys => if x ≤ y then x :: y :: ys else y :: insertSorted x ys

/-- the executor's turn at a quiescent point: record what is outstanding, complete the request the schedule names
    (`<label>` = the oldest outstanding request with that label, `<label> <k>` = the k-th oldest) and wake its future -/
def executorTurn (a : AS) : M AS := do
  let labels := (a.gates.map (·.1) ++ a.fgates.map (·.1)).foldl (fun acc l => insertSorted l acc) []
  modify fun s => { s with aevents := ("pending" ++ labels.foldl (fun acc l => acc ++ " " ++ l) "") :: s.aevents }
  let s ← get
  match s.sched with
  | [] => throw (.panic "DEADLOCK or schedule exhausted")
  | entry :: ls =>
    let (l, k) : String × Nat := match entry.splitOn " " with
      | [l, k] => (l, k.toNat?.getD 1)
      | _ => (entry, 1)
    match a.gates.lookup l with
    | some tid =>
      set { s with sched := ls, aevents := s!"complete {entry}" :: s.aevents }
      pure (enqueue { a with gates := a.gates.filter (fun g => g.1 != l), opened := l :: a.opened } tid)
    | none =>
      match (a.fgates.filter (fun g => g.1 == l))[k - 1]? with
      | some (_, tid, gid) =>
        set { s with sched := ls, aevents := s!"complete {entry}" :: s.aevents }
        pure (enqueue { a with fgates := a.fgates.filter (fun g => g.2.2 != gid), fopened := gid :: a.fopened } tid)
      | none => throw (.panic s!"schedule names {entry}, which is not outstanding")

/-- one iteration of `pending_futures.next()` + callback: `none` = the stream is exhausted (encode returns) -/
def asyncStep (U : Universe) (P : Problem) (a : AS) : M (Option AS) := do
  let a ← adoptPushed U a
  match a.ready with
  | tid :: rest =>
    let a := { a with ready := rest }
    match a.tasks.find? (fun t => t.id == tid) with
    | none => pure (some a)
    | some t =>
      if t.finished then pure (some a)
      else do
        let (t', a', res) ← pollTask U P t a
        let a' := { a' with tasks := a'.tasks.map (fun x => if x.id == tid then t' else x) }
        match res with
        | some r => runCallback U P r
        | none => pure ()
        pure (some a')
  | [] =>
    if a.tasks.all (·.finished) then pure none
    else do
      -- quiescent: `next()` is Pending, the executor takes its turn
      let a' ← executorTurn a
      pure (some a')

/-- `Encoder::encode` under the manual executor -/
def encodeAsync (U : Universe) (P : Problem) (solvables : List SoR) (fuel : Nat) : M (List Nat) := do
  modify fun s => { s with queue := [], conflicting := [] }
  for sid in solvables do queueSolvable sid
  let rec loop : Nat → AS → M Unit
    | 0, _ => throw .outOfFuel
    | fuel + 1, a => do
      match ← asyncStep U P a with
      | none => pure ()
      | some a' => loop fuel a'
  loop fuel {}
  let s ← get
  pure s.conflicting

/-- `Encoder::encode` -/
def encode (U : Universe) (P : Problem) (solvables : List SoR) (fuel : Nat) : M (List Nat) := do
  let s ← get
  if s.asyncMode then encodeAsync U P solvables fuel else encodeSync U P solvables fuel

end Resolvo.MDet
