import Resolvo.MDet.State
/-!
# MDet — the encoder (`src/solver/encoding.rs`) in synchronous mode

With a non-yielding provider every future completes on its first poll, so the
`FuturesUnordered` of the encoder degenerates to a FIFO work list: tasks run in the order they
were queued and the callbacks queue new tasks at the back.
-/
namespace Resolvo.MDet
open Resolvo Resolvo.Sat Resolvo.Abs

/-- `queue_solvable` -/
def queueSolvable (sid : SoR) : M Unit := do
  let s ← get
  if s.addedSolv.contains sid then pure ()
  else do
    set { s with addedSolv := sid :: s.addedSolv, queue := s.queue ++ [Task.deps sid] }
    emit (.queuedSolv sid)

/-- `queue_package` -/
def queuePackage (n : Nat) : M Unit := do
  let s ← get
  if s.addedPkg.contains n then pure ()
  else do
    set { s with addedPkg := n :: s.addedPkg, queue := s.queue ++ [Task.pkg n] }
    emit (.queuedPkg n)

def pushTask (t : Task) : M Unit := modify fun s => { s with queue := s.queue ++ [t] }

/-- `add_exclusion_clause` -/
def addExclusionClause (sid : SoR) (reason : Nat) : M Nat := do
  let v ← internSoR sid
  let id ← allocClause (.excluded v reason) none
  modify fun s => { s with negAssertions := s.negAssertions ++ [(v, id)] }
  let s ← get
  if valueOf s v == some true then
    emit (.conflicting id)
    modify fun s => { s with conflicting := s.conflicting ++ [id] }
  pure v

/-- `add_forbid_multiple_clauses`: the tracker's `add` with clause/pvar allocation -/
def addForbidMultiple (U : Universe) (candidate : Nat) (candVar : Nat) : M Unit := do
  let name := U.nameOf candidate
  let s ← get
  let tr := (s.trackers.lookup name).getD {}
  let r := Amo.add { t := tr, next := s.nextVar, out := [] } candVar
  modify fun s => { s with trackers := (name, r.t) :: s.trackers.filter (fun e => e.1 != name) }
  -- replay the emitted clauses in order; a helper pvar is allocated right before its first clause
  for c in r.out do
    let s ← get
    if c.b ≥ s.nextVar then
      let _ ← allocForbidVar name
    let id ← allocClause (.forbid c.a c.b c.pos name) (some ((c.a, false), (c.b, c.pos)))
    startWatching id

/-- `on_dependencies_available` -/
def onDependencies (U : Universe) (P : Problem) (sid : SoR) (deps : Deps) : M Unit := do
  let _ := P
  match deps with
  | .unknown reason => let _ ← addExclusionClause sid reason
  | .known reqs cons =>
    for vs in reqs.flatMap U.reqVersionSets ++ cons do
      queuePackage (U.vsName vs)
    for r in reqs do pushTask (.req sid r)
    for c in cons do pushTask (.cons sid c)

/-- `on_candidates_available` -/
def onCandidates (name : Nat) (p : Pkg) : M Unit := do
  modify fun s => if s.activity.size ≤ name then
      { s with activity := s.activity ++ Array.replicate (name + 1 - s.activity.size) (0.0 : Float32) } else s
  match p.locked with
  | some locked =>
    let _lockedVar ← internSolvable locked
    for other in p.cands do
      if other != locked then
        let ov ← internSolvable other
        let lockedVar ← internSolvable locked
        let id ← allocClause (.lock lockedVar ov) (some ((0, false), (ov, false)))
        startWatching id
  | none => pure ()
  for (sv, reason) in p.excluded do
    let _ ← addExclusionClause (some sv) reason

/-- `on_requirement_candidates_available` -/
def onRequirementCandidates (U : Universe) (sid : SoR) (r : Req) (candidates : List (List Nat)) : M Unit := do
  let pvar ← internSoR sid
  let mut vsVars : List (List Nat) := []
  for cs in candidates do
    let mut vars : List Nat := []
    for c in cs do
      let v ← internSolvable c
      vars := vars ++ [v]
    vsVars := vsVars ++ [vars]
  for (c, v) in candidates.flatten.zip vsVars.flatten do
    let s ← get
    if depsAvailable s c && valueOf s v != some false then queueSolvable (some c)
    addForbidMultiple U c v
  -- the requires clause
  let s ← get
  if valueOf s pvar == some false then panic "clause.rs:requires:assert_ne#1"
  let flat := vsVars.flatten
  let (watch, conflict) : Option (Lit × Lit) × Bool :=
    match flat with
    | [] => (none, false)
    | first :: _ =>
      match flat.find? (fun c => valueOf s c != some false) with
      | some w => (some ((pvar, false), (w, true)), false)
      | none => (some ((pvar, false), (first, true)), true)
  -- `requirement_to_sorted_candidates.insert` (first insert wins). The source stores the variables at the very end of the
  -- function; nothing in between reads the map, so the model may store them before the clause is allocated - every state the
  -- model passes through then has each requires clause's requirement in the map (invariant `XInv.reqs` of MDet/Truth.lean)
  modify fun s => if (s.reqCands.lookup r).isSome then s else { s with reqCands := s.reqCands ++ [(r, vsVars)] }
  let id ← allocClause (.requires pvar r) watch
  emit (.cands id conflict vsVars)
  startWatching id
  modify fun s =>
    let rc := match s.requiresClauses.lookup pvar with
      | some l => s.requiresClauses.map (fun e => if e.1 == pvar then (e.1, l ++ [(r, id)]) else e)
      | none => s.requiresClauses ++ [(pvar, [(r, id)])]
    { s with requiresClauses := rc }
  -- only the clause of an installed solvable conflicts with the partial solution; for a solvable encoded ahead of
  -- being selected the clause is merely unit
  if conflict && valueOf s pvar == some true then
    modify fun s => { s with conflicting := s.conflicting ++ [id] }
  else if candidates.all (·.isEmpty) then
    modify fun s => { s with negAssertions := s.negAssertions ++ [(pvar, id)] }

/-- `on_constraint_candidates_available` -/
def onConstraintCandidates (sid : SoR) (vs : Nat) (cands : List Nat) : M Unit := do
  let pvar ← internSoR sid
  for f in cands do
    let fv ← internSolvable f
    let s ← get
    if valueOf s pvar == some false then panic "clause.rs:constrains:assert_ne#1"
    let conflict := valueOf s fv == some true
    let watch : Option (Lit × Lit) := if pvar == fv then none else some ((pvar, false), (fv, false))
    let id ← allocClause (.constrains pvar fv vs) watch
    match watch with
    | some _ => startWatching id
    | none => modify fun s => { s with negAssertions := s.negAssertions ++ [(pvar, id)] }
    if conflict && valueOf s pvar == some true then
      emit (.conflicting id)
      modify fun s => { s with conflicting := s.conflicting ++ [id] }

/-- run one queued task (the future completes at once in sync mode) and its callback -/
def runTask (U : Universe) (P : Problem) : Task → M Unit
  | .deps none => onDependencies U P none (.known P.reqs P.constraints)
  | .deps (some sv) => do
    let d ← getDeps U sv
    onDependencies U P (some sv) d
  | .pkg n => do
    let p ← getCandidates U n
    onCandidates n p
  | .req sid r => do
    let mut lists : List (List Nat) := []
    for vs in U.reqVersionSets r do
      let l ← getSortedVs U vs
      lists := lists ++ [l]
    onRequirementCandidates U sid r lists
  | .cons sid vs => do
    let l ← getNonMatching U vs
    onConstraintCandidates sid vs l

/-- `Encoder::encode`: returns the clauses that conflict with the current assignment -/
def encodeSync (U : Universe) (P : Problem) (solvables : List SoR) (fuel : Nat) : M (List Nat) := do
  modify fun s => { s with queue := [], conflicting := [] }
  for sid in solvables do queueSolvable sid
  let rec loop : Nat → M Unit
    | 0 => throw .outOfFuel
    | fuel + 1 => do
      let s ← get
      match s.queue with
      | [] => pure ()
      | t :: rest =>
        set { s with queue := rest }
        runTask U P t
        loop fuel
  loop fuel
  let s ← get
  pure s.conflicting

end Resolvo.MDet
