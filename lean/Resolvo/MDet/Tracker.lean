import Resolvo.MDet.GhostSpec
/-!
# The decision tracker is consistent (every run of the model)

`DTInv s`: the assignment map (`DecisionMap`) and the decision stack (`DecisionTracker::stack`) of a state of the exact
model agree entry by entry — same variables in the same order with the same values —, no variable is on the stack twice,
and the propagation cursor never runs past the stack. Consequently `valueOf` (what `propagate`, `decide` and `analyze`
read) is `some b` exactly for the variables on the stack, with the value recorded there (`valueOf_iff`). Maintained by
every function of the model (`try_add_decision`, `undo_last`, `undo_until`, `next_unpropagated` are the ones that touch
the tracker), hence after every solve: `solveRun_dtinv`.
-/
set_option linter.unusedSimpArgs false
namespace Resolvo.MDet
open Resolvo Resolvo.Sat Resolvo.Abs

structure DTInv (s : S) : Prop where
  nodup : (s.stack.map (·.var)).Nodup
  agree : s.amap.map (fun e => (e.1, e.2.1)) = s.stack.map (fun d => (d.var, d.val))
  prop : s.propIdx ≤ s.stack.length

theorem dtinv_of_view {s s' : S} (h : DTInv s) (h1 : s'.stack = s.stack) (h2 : s'.amap = s.amap) (h3 : s'.propIdx = s.propIdx) :
    DTInv s' := ⟨by rw [h1]; exact h.nodup, by rw [h1, h2]; exact h.agree, by rw [h1, h3]; exact h.prop⟩

theorem lookup_of_agree (amap : List (Nat × (Bool × Nat))) (stack : List Dec)
    (h : amap.map (fun e => (e.1, e.2.1)) = stack.map (fun d => (d.var, d.val))) (v : Nat) :
    (amap.lookup v).map (·.1) = (stack.find? (fun d => d.var == v)).map (·.val) := by
  induction amap generalizing stack with
  | nil =>
    cases stack with
    | nil => rfl
    | cons d ds => simp at h
  | cons e es ih =>
    cases stack with
    | nil => simp at h
    | cons d ds =>
      simp only [List.map_cons, List.cons.injEq, Prod.mk.injEq] at h
      obtain ⟨⟨h1, h2⟩, h3⟩ := h
      obtain ⟨k, b, l⟩ := e
      simp only at h1 h2
      subst h1 h2
      simp only [List.lookup_cons, List.find?_cons]
      by_cases hv : v = d.var
      · subst hv; simp
      · have h1 : (v == d.var) = false := by simpa using hv
        have h2 : (d.var == v) = false := by simpa using (Ne.symm hv)
        simp only [h1, h2]
        exact ih ds h3

/-- variables on the stack are distinct: the first entry for a variable is the only one -/
theorem find_of_mem_nodup (st : List Dec) (d : Dec) (hd : d ∈ st) (hnd : (st.map (·.var)).Nodup) :
    st.find? (fun e => e.var == d.var) = some d := by
  induction st with
  | nil => cases hd
  | cons e es ih =>
    simp only [List.map_cons, List.nodup_cons] at hnd
    simp only [List.find?_cons]
    rcases List.mem_cons.mp hd with rfl | hd'
    · simp
    · have hne : e.var ≠ d.var := by
        intro he
        apply hnd.1
        exact List.mem_map.mpr ⟨d, hd', he.symm⟩
      have : (e.var == d.var) = false := by simpa using hne
      simp only [this]
      exact ih hd' hnd.2

/-- what the solver reads as a variable's value is what the stack records for it -/
theorem valueOf_iff {s : S} (h : DTInv s) (v : Nat) (b : Bool) :
    valueOf s v = some b ↔ ∃ d ∈ s.stack, d.var = v ∧ d.val = b := by
  unfold valueOf
  rw [lookup_of_agree s.amap s.stack h.agree v]
  constructor
  · intro hf
    cases hfd : s.stack.find? (fun d => d.var == v) with
    | none => rw [hfd] at hf; cases hf
    | some d =>
      rw [hfd] at hf
      simp only [Option.map_some, Option.some.injEq] at hf
      have hm := List.mem_of_find?_eq_some hfd
      have hp := List.find?_some hfd
      exact ⟨d, hm, by simpa using hp, hf⟩
  · rintro ⟨d, hd, hv, hb⟩
    rw [← hv, find_of_mem_nodup s.stack d hd h.nodup]
    simp [hb]

def DMAt {α : Type} (x : M α) (s : S) : Prop := DTInv s → DTInv (runM x s).2
def DM {α : Type} (x : M α) : Prop := ∀ s, DMAt x s

theorem dm_pure {α : Type} (a : α) : DM (pure a : M α) := fun _ h => h
theorem dm_get : DM (get : M S) := fun _ h => h
theorem dm_throw {α : Type} (e : Stop) : DM (throw e : M α) := fun _ h => h
theorem dm_panic {α : Type} (site : String) : DM (panic site : M α) := fun _ h => h
theorem dm_modify (g : S → S) (h : ∀ s, DTInv s → DTInv (g s)) : DM (modify g : M Unit) := fun s hs => h s hs

theorem dmAt_bind {α β : Type} (x : M α) (k : α → M β) (s : S) (hx : DMAt x s)
    (hk : ∀ a s1, runM x s = (.ok a, s1) → DMAt (k a) s1) : DMAt (x >>= k) s := by
  intro hs
  rw [runM_bind]
  cases h : runM x s with
  | mk r s1 =>
    have h1 := hx hs
    rw [h] at h1
    cases r with
    | error e => exact h1
    | ok a => exact hk a s1 h h1

theorem dm_bind {α β : Type} (x : M α) (k : α → M β) (hx : DM x) (hk : ∀ a, DM (k a)) :
    DM (x >>= k) := fun s => dmAt_bind x k s (hx s) (fun a s1 _ => hk a s1)

theorem dm_get_bind {β : Type} (k : S → M β) (hk : ∀ s, DMAt (k s) s) : DM (get >>= k) := by
  intro s
  apply dmAt_bind _ _ _ (dm_get s)
  intro a s1 h
  simp only [runM_get, Prod.mk.injEq, Except.ok.injEq] at h
  obtain ⟨rfl, rfl⟩ := h
  exact hk _

theorem dmAt_set_bind {β : Type} (s' s : S) (k : Unit → M β) (h : DTInv s → DTInv s') (hk : DM (k ())) :
    DMAt (set s' >>= k) s := by
  apply dmAt_bind
  · intro hs; exact h hs
  · intro a s1 h1
    simp only [runM_set, Prod.mk.injEq, Except.ok.injEq] at h1
    obtain ⟨_, rfl⟩ := h1
    exact hk _

theorem dm_forIn {γ δ : Type} (xs : List γ) (init : δ) (body : γ → δ → M (ForInStep δ))
    (h : ∀ x b, DM (body x b)) : DM (forIn xs init body) := by
  induction xs generalizing init with
  | nil => simp only [List.forIn_nil]; exact dm_pure _
  | cons x xs ih =>
    simp only [List.forIn_cons]
    apply dm_bind _ _ (h x init)
    intro r
    cases r with
    | done b => exact dm_pure b
    | yield b => exact ih b

theorem DM.at {α : Type} {x : M α} (h : DM x) (s : S) : DMAt x s := h s


theorem dm_pollCancel : DM pollCancel := by
  intro s hs
  rw [runM_pollCancel]
  split <;> exact dtinv_of_view hs rfl rfl rfl

attribute [irreducible] DM

syntax "ds_lemma" : tactic
macro_rules | `(tactic| ds_lemma) => `(tactic| fail "no DM lemma applies")

macro "ds_step" : tactic => `(tactic| first
  | ds_lemma
  | with_reducible exact dm_pure _
  | with_reducible exact dm_get
  | with_reducible exact dm_panic _
  | with_reducible exact dm_throw _
  | with_reducible exact dm_pollCancel
  | with_reducible assumption
  | ((with_reducible apply dm_modify); intro _ h; first | exact dtinv_of_view h rfl rfl rfl | (split <;> exact dtinv_of_view h rfl rfl rfl))
  | ((with_reducible apply dm_forIn); intro _ _)
  | with_reducible apply dm_bind
  | intro _
  | split
  | dsimp only)

macro "ds" : tactic => `(tactic| repeat ds_step)
macro "ds_ih" ih:ident : tactic => `(tactic| repeat (first | (with_reducible apply $ih) | ds_step))

macro "ds_at" : tactic => `(tactic| repeat (first
  | exact (dm_pure _).at _
  | exact (dm_panic _).at _
  | exact (dm_throw _).at _
  | (apply dmAt_set_bind
     · intro h; exact dtinv_of_view h rfl rfl rfl
     · ds)
  | split
  | dsimp only))

theorem dm_requestStarted : DM requestStarted := by unfold requestStarted; ds
macro_rules | `(tactic| ds_lemma) => `(tactic| with_reducible exact dm_requestStarted)
theorem dm_logCall (w : String) (g : GEv) : DM (logCall w g) := by unfold logCall; ds
macro_rules | `(tactic| ds_lemma) => `(tactic| with_reducible exact dm_logCall _ _)
theorem dm_getCandidates (U : Universe) (n : Nat) : DM (getCandidates U n) := by unfold getCandidates; ds
macro_rules | `(tactic| ds_lemma) => `(tactic| with_reducible exact dm_getCandidates _ _)
theorem dm_getDeps (U : Universe) (sv : Nat) : DM (getDeps U sv) := by unfold getDeps; ds
macro_rules | `(tactic| ds_lemma) => `(tactic| with_reducible exact dm_getDeps _ _)
theorem dm_startDeps (sv : Nat) : DM (startDeps sv) := by unfold startDeps; ds
macro_rules | `(tactic| ds_lemma) => `(tactic| with_reducible exact dm_startDeps _)
theorem dm_finishDeps (sv : Nat) : DM (finishDeps sv) := by unfold finishDeps; ds
macro_rules | `(tactic| ds_lemma) => `(tactic| with_reducible exact dm_finishDeps _)
theorem dm_finishCands (U : Universe) (n : Nat) : DM (finishCands U n) := by unfold finishCands; ds
macro_rules | `(tactic| ds_lemma) => `(tactic| with_reducible exact dm_finishCands _ _)
theorem dm_pollCands (U : Universe) (tid n : Nat) (w : CandWait) (a : AS) : DM (pollCands U tid n w a) := by
  unfold pollCands; ds
macro_rules | `(tactic| ds_lemma) => `(tactic| with_reducible exact dm_pollCands _ _ _ _ _)

theorem dm_emit (e : Ev) : DM (emit e) := dm_modify _ (fun _ h => dtinv_of_view h rfl rfl rfl)
macro_rules | `(tactic| ds_lemma) => `(tactic| with_reducible exact dm_emit _)
theorem dm_setWatchList (l : Lit) (cs : List Nat) : DM (setWatchList l cs) :=
  dm_modify _ (fun _ h => dtinv_of_view h rfl rfl rfl)
macro_rules | `(tactic| ds_lemma) => `(tactic| with_reducible exact dm_setWatchList _ _)

theorem dm_internSolvable (sv : Nat) : DM (internSolvable sv) := by
  unfold internSolvable
  apply dm_get_bind
  intro s
  ds_at
macro_rules | `(tactic| ds_lemma) => `(tactic| with_reducible exact dm_internSolvable _)

theorem dm_internSoR (sid : SoR) : DM (internSoR sid) := by
  cases sid with
  | none => exact dm_pure _
  | some sv => exact dm_internSolvable sv
macro_rules | `(tactic| ds_lemma) => `(tactic| with_reducible exact dm_internSoR _)

theorem dm_allocForbidVar (name : Nat) : DM (allocForbidVar name) := by
  unfold allocForbidVar
  apply dm_get_bind
  intro s
  ds_at
macro_rules | `(tactic| ds_lemma) => `(tactic| with_reducible exact dm_allocForbidVar _)

theorem dm_allocClause (k : Kind) (w : Option (Lit × Lit)) : DM (allocClause k w) := by
  unfold allocClause
  ds
macro_rules | `(tactic| ds_lemma) => `(tactic| with_reducible exact dm_allocClause _ _)

theorem dm_startWatching (id : Nat) : DM (startWatching id) := by
  unfold startWatching
  ds
macro_rules | `(tactic| ds_lemma) => `(tactic| with_reducible exact dm_startWatching _)

theorem dm_tryAdd (v : Nat) (val : Bool) (reason level : Nat) : DM (tryAdd v val reason level) := by
  unfold tryAdd
  apply dm_get_bind
  intro s
  cases hv : valueOf s v with
  | some b => dsimp only; ds_at
  | none =>
    dsimp only
    intro hi
    simp only [runM_bind, emit, runM_modify, runM_pure]
    have hnot : v ∉ s.stack.map (·.var) := by
      intro hm
      obtain ⟨d, hd, hdv⟩ := List.mem_map.mp hm
      have := (valueOf_iff hi v d.val).mpr ⟨d, hd, hdv, rfl⟩
      rw [hv] at this; cases this
    exact ⟨by simp only [List.map_cons, List.nodup_cons]; exact ⟨hnot, hi.nodup⟩,
      by simp only [List.map_cons, List.cons.injEq, true_and]; exact hi.agree,
      by simp only [List.length_cons]; exact Nat.le_succ_of_le hi.prop⟩
macro_rules | `(tactic| ds_lemma) => `(tactic| with_reducible exact dm_tryAdd _ _ _ _)

theorem filter_head_amap (amap : List (Nat × (Bool × Nat))) (d : Dec) (rest : List Dec)
    (hag : amap.map (fun e => (e.1, e.2.1)) = (d :: rest).map (fun d => (d.var, d.val)))
    (hnd : ((d :: rest).map (·.var)).Nodup) :
    (amap.filter (fun e => e.1 != d.var)).map (fun e => (e.1, e.2.1)) = rest.map (fun d => (d.var, d.val)) := by
  cases amap with
  | nil => simp at hag
  | cons e es =>
    simp only [List.map_cons, List.cons.injEq, Prod.mk.injEq] at hag
    obtain ⟨⟨h1, _⟩, h3⟩ := hag
    simp only [List.map_cons, List.nodup_cons] at hnd
    have hkeys : es.map (·.1) = rest.map (·.var) := by
      have := congrArg (List.map Prod.fst) h3
      simpa [List.map_map, Function.comp_def] using this
    have hall : ∀ x ∈ es, (x.1 != d.var) = true := by
      intro x hx
      have : x.1 ∈ rest.map (·.var) := by rw [← hkeys]; exact List.mem_map.mpr ⟨x, hx, rfl⟩
      have hne : x.1 ≠ d.var := fun he => hnd.1 (he ▸ this)
      simpa using hne
    rw [List.filter_cons]
    have : (e.1 != d.var) = false := by simp [h1]
    simp only [this, Bool.false_eq_true, if_false]
    rw [List.filter_eq_self.mpr hall]
    exact h3

theorem dm_undoLast : DM undoLast := by
  unfold undoLast
  apply dm_get_bind
  intro s
  cases hst : s.stack with
  | nil => dsimp only; exact (dm_panic _).at _
  | cons d rest =>
    dsimp only
    apply dmAt_set_bind
    · intro hi
      have hnd := hi.nodup
      have hag := hi.agree
      rw [hst] at hnd hag
      refine ⟨?_, filter_head_amap s.amap d rest hag hnd, Nat.min_le_right _ _⟩
      simp only [List.map_cons, List.nodup_cons] at hnd
      exact hnd.2
    · ds
macro_rules | `(tactic| ds_lemma) => `(tactic| with_reducible exact dm_undoLast)

theorem dm_undoUntil_loop (n level : Nat) : DM (undoUntil.loop level n) := by
  induction n with
  | zero => unfold undoUntil.loop; exact dm_pure _
  | succ n ih =>
    unfold undoUntil.loop
    ds
macro_rules | `(tactic| ds_lemma) => `(tactic| with_reducible exact dm_undoUntil_loop _ _)

theorem dm_undoUntil (level : Nat) : DM (undoUntil level) := by
  unfold undoUntil
  split
  · apply dm_bind
    · ds
    · intro _
      apply dm_modify
      intro s _
      exact ⟨List.Pairwise.nil, rfl, Nat.le_refl _⟩
  · ds
macro_rules | `(tactic| ds_lemma) => `(tactic| with_reducible exact dm_undoUntil _)

theorem dm_nextUnpropagated : DM nextUnpropagated := by
  unfold nextUnpropagated
  apply dm_get_bind
  intro s
  dsimp only
  split
  · next hlt =>
    split
    · apply dmAt_set_bind
      · intro hi; exact ⟨hi.nodup, hi.agree, hlt⟩
      · exact dm_pure _
    · exact (dm_pure _).at _
  · exact (dm_pure _).at _
macro_rules | `(tactic| ds_lemma) => `(tactic| with_reducible exact dm_nextUnpropagated)

theorem dm_getMatching (U : Universe) (vs : Nat) : DM (getMatching U vs) := by
  unfold getMatching
  ds
macro_rules | `(tactic| ds_lemma) => `(tactic| with_reducible exact dm_getMatching _ _)

theorem dm_getNonMatching (U : Universe) (vs : Nat) : DM (getNonMatching U vs) := by
  unfold getNonMatching
  ds
macro_rules | `(tactic| ds_lemma) => `(tactic| with_reducible exact dm_getNonMatching _ _)

theorem dm_getSortedVs (U : Universe) (vs : Nat) : DM (getSortedVs U vs) := by
  unfold getSortedVs
  ds
macro_rules | `(tactic| ds_lemma) => `(tactic| with_reducible exact dm_getSortedVs _ _)

/-! ### the encoder (synchronous) -/

theorem dm_queueSolvable (sid : SoR) : DM (queueSolvable sid) := by
  unfold queueSolvable
  apply dm_get_bind
  intro s
  ds_at
macro_rules | `(tactic| ds_lemma) => `(tactic| with_reducible exact dm_queueSolvable _)

theorem dm_queuePackage (n : Nat) : DM (queuePackage n) := by
  unfold queuePackage
  apply dm_get_bind
  intro s
  ds_at
macro_rules | `(tactic| ds_lemma) => `(tactic| with_reducible exact dm_queuePackage _)

theorem dm_pushTask (t : Task) : DM (pushTask t) := dm_modify _ (fun _ h => dtinv_of_view h rfl rfl rfl)
macro_rules | `(tactic| ds_lemma) => `(tactic| with_reducible exact dm_pushTask _)

theorem dm_addExclusionClause (sid : SoR) (reason : Nat) : DM (addExclusionClause sid reason) := by
  unfold addExclusionClause
  ds
macro_rules | `(tactic| ds_lemma) => `(tactic| with_reducible exact dm_addExclusionClause _ _)

theorem dm_addForbidMultiple (U : Universe) (c v : Nat) : DM (addForbidMultiple U c v) := by
  unfold addForbidMultiple
  ds
macro_rules | `(tactic| ds_lemma) => `(tactic| with_reducible exact dm_addForbidMultiple _ _ _)

theorem dm_onDependencies (U : Universe) (P : Problem) (sid : SoR) (d : Deps) : DM (onDependencies U P sid d) := by
  unfold onDependencies
  ds
macro_rules | `(tactic| ds_lemma) => `(tactic| with_reducible exact dm_onDependencies _ _ _ _)

theorem dm_onCandidates (name : Nat) (p : Pkg) : DM (onCandidates name p) := by
  unfold onCandidates
  ds
macro_rules | `(tactic| ds_lemma) => `(tactic| with_reducible exact dm_onCandidates _ _)

theorem dm_onRequirementCandidates (U : Universe) (sid : SoR) (r : Req) (cs : List (List Nat)) :
    DM (onRequirementCandidates U sid r cs) := by
  unfold onRequirementCandidates
  ds
macro_rules | `(tactic| ds_lemma) => `(tactic| with_reducible exact dm_onRequirementCandidates _ _ _ _)

theorem dm_onConstraintCandidates (sid : SoR) (vs : Nat) (cs : List Nat) : DM (onConstraintCandidates sid vs cs) := by
  unfold onConstraintCandidates
  ds
macro_rules | `(tactic| ds_lemma) => `(tactic| with_reducible exact dm_onConstraintCandidates _ _ _)

theorem dm_runTask (U : Universe) (P : Problem) (t : Task) : DM (runTask U P t) := by
  cases t with
  | deps sid =>
    cases sid with
    | none => unfold runTask; ds
    | some sv => unfold runTask; ds
  | pkg n => unfold runTask; ds
  | req sid r => unfold runTask; ds
  | cons sid vs => unfold runTask; ds
macro_rules | `(tactic| ds_lemma) => `(tactic| with_reducible exact dm_runTask _ _ _)

theorem dm_encodeSync_loop (U : Universe) (P : Problem) (n : Nat) : DM (encodeSync.loop U P n) := by
  induction n with
  | zero => unfold encodeSync.loop; exact dm_throw _
  | succ n ih =>
    unfold encodeSync.loop
    apply dm_get_bind
    intro s
    ds_at
macro_rules | `(tactic| ds_lemma) => `(tactic| with_reducible exact dm_encodeSync_loop _ _ _)

theorem dm_encodeSync (U : Universe) (P : Problem) (sv : List SoR) (fuel : Nat) : DM (encodeSync U P sv fuel) := by
  unfold encodeSync
  ds
macro_rules | `(tactic| ds_lemma) => `(tactic| with_reducible exact dm_encodeSync _ _ _ _)


/-! ### the encoder with an asynchronous provider -/

theorem dm_finishChild (sorted : Bool) (c : Child) (a : AS) : DM (finishChild sorted c a) := by
  unfold finishChild
  ds
macro_rules | `(tactic| ds_lemma) => `(tactic| with_reducible exact dm_finishChild _ _ _)

theorem dm_sortStage (U : Universe) (tid : Nat) (g : Bool) (c : Child) (a : AS) (e : Bool) :
    DM (sortStage U tid g c a e) := by
  unfold sortStage
  ds
macro_rules | `(tactic| ds_lemma) => `(tactic| with_reducible exact dm_sortStage _ _ _ _ _ _)

theorem dm_filterStage (U : Universe) (tid : Nat) (g sorted : Bool) (c : Child) (a : AS) (e : Bool) :
    DM (filterStage U tid g sorted c a e) := by
  unfold filterStage
  ds
macro_rules | `(tactic| ds_lemma) => `(tactic| with_reducible exact dm_filterStage _ _ _ _ _ _ _)

theorem dm_pollChild (U : Universe) (tid : Nat) (sorted : Bool) (c : Child) (a : AS) :
    DM (pollChild U tid sorted c a) := by
  unfold pollChild
  ds
macro_rules | `(tactic| ds_lemma) => `(tactic| with_reducible exact dm_pollChild _ _ _ _ _)

theorem dm_pollChildren (U : Universe) (tid : Nat) (sorted : Bool) (cs : List Child) (a : AS) :
    DM (pollChildren U tid sorted cs a) := by
  induction cs generalizing a with
  | nil => unfold pollChildren; exact dm_pure _
  | cons c cs ih =>
    unfold pollChildren
    apply dm_bind _ _ (dm_pollChild U tid sorted c a)
    intro r
    apply dm_bind _ _ (ih _)
    intro r2
    exact dm_pure _
macro_rules | `(tactic| ds_lemma) => `(tactic| with_reducible exact dm_pollChildren _ _ _ _ _)

theorem dm_pollTask (U : Universe) (P : Problem) (t : ATask) (a : AS) : DM (pollTask U P t a) := by
  unfold pollTask
  ds
macro_rules | `(tactic| ds_lemma) => `(tactic| with_reducible exact dm_pollTask _ _ _ _)

theorem dm_runCallback (U : Universe) (P : Problem) (r : TaskResult) : DM (runCallback U P r) := by
  cases r with
  | deps sid d => exact dm_onDependencies U P sid d
  | cands n p => exact dm_onCandidates n p
  | req sid r lists => exact dm_onRequirementCandidates U sid r lists
  | cons sid vs l => exact dm_onConstraintCandidates sid vs l
macro_rules | `(tactic| ds_lemma) => `(tactic| with_reducible exact dm_runCallback _ _ _)

theorem dm_adoptPushed (U : Universe) (a : AS) : DM (adoptPushed U a) := by
  unfold adoptPushed
  apply dm_get_bind
  intro s
  apply dmAt_set_bind
  · intro h; exact dtinv_of_view h rfl rfl rfl
  · exact dm_pure _
macro_rules | `(tactic| ds_lemma) => `(tactic| with_reducible exact dm_adoptPushed _ _)

theorem dm_executorTurn (a : AS) : DM (executorTurn a) := by
  unfold executorTurn
  dsimp only
  apply dm_bind
  · apply dm_modify; intro _ h; exact dtinv_of_view h rfl rfl rfl
  · intro _
    apply dm_get_bind
    intro s
    ds_at
macro_rules | `(tactic| ds_lemma) => `(tactic| with_reducible exact dm_executorTurn _)

theorem dm_asyncStep (U : Universe) (P : Problem) (a : AS) : DM (asyncStep U P a) := by
  unfold asyncStep
  ds
macro_rules | `(tactic| ds_lemma) => `(tactic| with_reducible exact dm_asyncStep _ _ _)

theorem dm_encodeAsync_loop (U : Universe) (P : Problem) (n : Nat) (a : AS) : DM (encodeAsync.loop U P n a) := by
  induction n generalizing a with
  | zero => unfold encodeAsync.loop; exact dm_throw _
  | succ n ih =>
    unfold encodeAsync.loop
    apply dm_bind _ _ (dm_asyncStep U P a)
    intro r
    split
    · exact dm_pure _
    · exact ih _
macro_rules | `(tactic| ds_lemma) => `(tactic| with_reducible exact dm_encodeAsync_loop _ _ _ _)

theorem dm_encodeAsync (U : Universe) (P : Problem) (sv : List SoR) (fuel : Nat) : DM (encodeAsync U P sv fuel) := by
  unfold encodeAsync
  ds
macro_rules | `(tactic| ds_lemma) => `(tactic| with_reducible exact dm_encodeAsync _ _ _ _)

theorem dm_encode (U : Universe) (P : Problem) (sv : List SoR) (fuel : Nat) : DM (encode U P sv fuel) := by
  unfold encode
  ds
macro_rules | `(tactic| ds_lemma) => `(tactic| with_reducible exact dm_encode _ _ _ _)

/-! ### propagation, decisions, conflict analysis, the solver loop -/

theorem dm_decideAssertions (level : Nat) : DM (decideAssertions level) := by
  unfold decideAssertions
  ds
macro_rules | `(tactic| ds_lemma) => `(tactic| with_reducible exact dm_decideAssertions _)

theorem dm_decideLearned (level : Nat) : DM (decideLearned level) := by
  unfold decideLearned
  ds
macro_rules | `(tactic| ds_lemma) => `(tactic| with_reducible exact dm_decideLearned _)

theorem dm_propagate_inner (level : Nat) (fl : Lit) (l : List Nat) : DM (propagate.outer.inner level fl l) := by
  induction l with
  | nil => unfold propagate.outer.inner; exact dm_pure _
  | cons cid rest ih =>
    unfold propagate.outer.inner
    ds
macro_rules | `(tactic| ds_lemma) => `(tactic| with_reducible exact dm_propagate_inner _ _ _)

theorem dm_propagate_outer (level fuel : Nat) : DM (propagate.outer level fuel) := by
  induction fuel with
  | zero => unfold propagate.outer; exact dm_throw _
  | succ n ih =>
    unfold propagate.outer
    ds
macro_rules | `(tactic| ds_lemma) => `(tactic| with_reducible exact dm_propagate_outer _ _)

theorem dm_propagate (level fuel : Nat) : DM (propagate level fuel) := by
  unfold propagate
  ds
macro_rules | `(tactic| ds_lemma) => `(tactic| with_reducible exact dm_propagate _ _)

theorem dm_decide (U : Universe) : DM (decide U) := by
  unfold decide
  ds
macro_rules | `(tactic| ds_lemma) => `(tactic| with_reducible exact dm_decide _)

theorem dm_analyzeUnsolvable (cid : Nat) : DM (analyzeUnsolvable cid) := by
  unfold analyzeUnsolvable
  ds
macro_rules | `(tactic| ds_lemma) => `(tactic| with_reducible exact dm_analyzeUnsolvable _)

theorem dm_analyze_pop (seen : List Nat) (f : Nat) : DM (analyze.outer.pop seen f) := by
  induction f with
  | zero => unfold analyze.outer.pop; exact dm_throw _
  | succ n ih =>
    unfold analyze.outer.pop
    ds
macro_rules | `(tactic| ds_lemma) => `(tactic| with_reducible exact dm_analyze_pop _ _)

theorem dm_analyze_outer (fuel curLevel conflVar clauseId : Nat) (seen : List Nat) (causes : Nat) (learnt : List Lit)
    (backTo : Nat) (why : List Nat) (first : Bool) :
    DM (analyze.outer fuel curLevel conflVar clauseId seen causes learnt backTo why first) := by
  induction fuel generalizing curLevel conflVar clauseId seen causes learnt backTo why first with
  | zero => unfold analyze.outer; exact dm_throw _
  | succ n ih =>
    unfold analyze.outer
    ds_ih ih
macro_rules | `(tactic| ds_lemma) => `(tactic| with_reducible exact dm_analyze_outer _ _ _ _ _ _ _ _ _ _)

theorem dm_analyze (U : Universe) (level conflVar clauseId fuel : Nat) : DM (analyze U level conflVar clauseId fuel) := by
  unfold analyze
  ds
macro_rules | `(tactic| ds_lemma) => `(tactic| with_reducible exact dm_analyze _ _ _ _ _)

theorem dm_propagateAndLearn_loop (U : Universe) (fuel f level : Nat) : DM (propagateAndLearn.loop U fuel f level) := by
  induction f generalizing level with
  | zero => unfold propagateAndLearn.loop; exact dm_throw _
  | succ n ih =>
    unfold propagateAndLearn.loop
    ds_ih ih
macro_rules | `(tactic| ds_lemma) => `(tactic| with_reducible exact dm_propagateAndLearn_loop _ _ _ _)

theorem dm_propagateAndLearn (U : Universe) (level fuel : Nat) : DM (propagateAndLearn U level fuel) := by
  unfold propagateAndLearn
  ds
macro_rules | `(tactic| ds_lemma) => `(tactic| with_reducible exact dm_propagateAndLearn _ _ _)

theorem dm_resolveDependencies_loop (U : Universe) (fuel f level : Nat) : DM (resolveDependencies.loop U fuel f level) := by
  induction f generalizing level with
  | zero => unfold resolveDependencies.loop; exact dm_throw _
  | succ n ih =>
    unfold resolveDependencies.loop
    ds_ih ih
macro_rules | `(tactic| ds_lemma) => `(tactic| with_reducible exact dm_resolveDependencies_loop _ _ _ _)

theorem dm_resolveDependencies (U : Universe) (level fuel : Nat) : DM (resolveDependencies U level fuel) := by
  unfold resolveDependencies
  ds
macro_rules | `(tactic| ds_lemma) => `(tactic| with_reducible exact dm_resolveDependencies _ _ _)

theorem dm_processUnsolvable (root : SoR) (startLevel cid : Nat) : DM (processUnsolvable root startLevel cid) := by
  unfold processUnsolvable
  ds
macro_rules | `(tactic| ds_lemma) => `(tactic| with_reducible exact dm_processUnsolvable _ _ _)

theorem dm_runSat_loop (U : Universe) (P : Problem) (root : SoR) (fuel startLevel f level : Nat) :
    DM (runSat.loop U P root fuel startLevel f level) := by
  induction f generalizing level with
  | zero => unfold runSat.loop; exact dm_throw _
  | succ n ih =>
    unfold runSat.loop
    ds_ih ih
macro_rules | `(tactic| ds_lemma) => `(tactic| with_reducible exact dm_runSat_loop _ _ _ _ _ _ _)

theorem dm_runSat (U : Universe) (P : Problem) (root : SoR) (fuel : Nat) : DM (runSat U P root fuel) := by
  unfold runSat
  ds
macro_rules | `(tactic| ds_lemma) => `(tactic| with_reducible exact dm_runSat _ _ _ _)

theorem dtinv_solve (U : Universe) (P : Problem) (fuel : Nat) (s : S) : DTInv (runM (solve U P fuel) s).2 := by
  unfold solve
  rw [runM_bind, runM_modify]
  dsimp only
  refine (DM.at ?_ _ ?_)
  · ds
  · exact ⟨List.Pairwise.nil, rfl, Nat.le_refl _⟩

/-- **The decision tracker is consistent after every solve** (every universe, problem, fuel, solver state carried over,
    synchronous or asynchronous, whatever the outcome). -/
theorem solveRun_dtinv (U : Universe) (P : Problem) (fuel : Nat) (s : S) : DTInv (solveRun U P fuel s).2 := by
  have hm := dtinv_solve U P fuel s
  have hrun : (solve U P fuel).run.run s = runM (solve U P fuel) s := rfl
  unfold solveRun
  rw [hrun]
  cases hr : runM (solve U P fuel) s with
  | mk r s' =>
    rw [hr] at hm
    cases r with
    | ok o => cases o <;> exact hm
    | error e => exact hm

end Resolvo.MDet
