import Resolvo.MDet.Truth
import Resolvo.CacheProofs
/-!
# The invariant of `MDet/Truth.lean` through every function of the model (synchronous and asynchronous)
-/
set_option linter.unusedSimpArgs false
namespace Resolvo.MDet
open Resolvo Resolvo.Sat Resolvo.Abs

variable {U : Universe} {P : Problem}

syntax "ts_lemma" : tactic
macro_rules | `(tactic| ts_lemma) => `(tactic| fail "no TM lemma applies")

macro "ts_step" : tactic => `(tactic| first
  | ts_lemma
  | with_reducible exact tm_pure _
  | with_reducible exact tm_get
  | with_reducible exact tm_panic _
  | with_reducible exact tm_throw _
  | with_reducible exact tm_pollCancel
  | with_reducible exact tm_allocClause_learnt _ _
  | with_reducible exact tm_allocClause_root _
  | with_reducible assumption
  | ((with_reducible apply tm_modify); intro _ h; first | exact tinv_of_view h rfl rfl rfl rfl rfl rfl rfl | (split <;> exact tinv_of_view h rfl rfl rfl rfl rfl rfl rfl))
  | ((with_reducible apply tm_forIn); intro _ _)
  | with_reducible apply tm_bind
  | intro _
  | split
  | dsimp only)

macro "ts" : tactic => `(tactic| repeat ts_step)
macro "ts_ih" ih:ident : tactic => `(tactic| repeat (first | (with_reducible apply $ih) | ts_step))

macro "ts_at" : tactic => `(tactic| repeat (first
  | exact (tm_pure _).at _
  | exact (tm_panic _).at _
  | exact (tm_throw _).at _
  | (apply tmAt_set_bind
     · intro h; exact tinv_of_view h rfl rfl rfl rfl rfl rfl rfl
     · ts)
  | split
  | dsimp only))

macro_rules | `(tactic| ts_lemma) => `(tactic| with_reducible exact tm_emit _)
theorem tm_setWatchList (l : Lit) (cs : List Nat) : TM U P (setWatchList l cs) :=
  tm_modify _ (fun _ h => tinv_of_view h rfl rfl rfl rfl rfl rfl rfl)
macro_rules | `(tactic| ts_lemma) => `(tactic| with_reducible exact tm_setWatchList _ _)

macro_rules | `(tactic| ts_lemma) => `(tactic| with_reducible exact tm_internSolvable _)

macro_rules | `(tactic| ts_lemma) => `(tactic| with_reducible exact tm_internSoR _)

macro_rules | `(tactic| ts_lemma) => `(tactic| with_reducible exact tm_allocForbidVar _)


theorem tm_startWatching (id : Nat) : TM U P (startWatching id) := by
  unfold startWatching
  ts
macro_rules | `(tactic| ts_lemma) => `(tactic| with_reducible exact tm_startWatching _)

theorem tm_tryAdd (v : Nat) (val : Bool) (reason level : Nat) : TM U P (tryAdd v val reason level) := by
  unfold tryAdd
  ts
macro_rules | `(tactic| ts_lemma) => `(tactic| with_reducible exact tm_tryAdd _ _ _ _)

theorem tm_undoLast : TM U P undoLast := by
  unfold undoLast
  apply tm_get_bind
  intro s
  ts_at
macro_rules | `(tactic| ts_lemma) => `(tactic| with_reducible exact tm_undoLast)

theorem tm_undoUntil_loop (n level : Nat) : TM U P (undoUntil.loop level n) := by
  induction n with
  | zero => unfold undoUntil.loop; exact tm_pure _
  | succ n ih =>
    unfold undoUntil.loop
    ts
macro_rules | `(tactic| ts_lemma) => `(tactic| with_reducible exact tm_undoUntil_loop _ _)

theorem tm_undoUntil (level : Nat) : TM U P (undoUntil level) := by
  unfold undoUntil
  ts
macro_rules | `(tactic| ts_lemma) => `(tactic| with_reducible exact tm_undoUntil _)

theorem tm_nextUnpropagated : TM U P nextUnpropagated := by
  unfold nextUnpropagated
  apply tm_get_bind
  intro s
  ts_at
macro_rules | `(tactic| ts_lemma) => `(tactic| with_reducible exact tm_nextUnpropagated)

/-! ### the provider requests (quiet) -/

theorem tm_requestStarted : TM U P requestStarted := by unfold requestStarted; ts
macro_rules | `(tactic| ts_lemma) => `(tactic| with_reducible exact tm_requestStarted)
theorem tm_logCall (w : String) (g : GEv) : TM U P (logCall w g) := by unfold logCall; ts
macro_rules | `(tactic| ts_lemma) => `(tactic| with_reducible exact tm_logCall _ _)
theorem tm_getCandidates (U : Universe) (n : Nat) : TM U P (getCandidates U n) := by unfold getCandidates; ts
macro_rules | `(tactic| ts_lemma) => `(tactic| with_reducible exact tm_getCandidates _ _)
theorem tm_getDeps (U : Universe) (sv : Nat) : TM U P (getDeps U sv) := by unfold getDeps; ts
macro_rules | `(tactic| ts_lemma) => `(tactic| with_reducible exact tm_getDeps _ _)
theorem tm_startDeps (sv : Nat) : TM U P (startDeps sv) := by unfold startDeps; ts
macro_rules | `(tactic| ts_lemma) => `(tactic| with_reducible exact tm_startDeps _)
theorem tm_finishDeps (sv : Nat) : TM U P (finishDeps sv) := by unfold finishDeps; ts
macro_rules | `(tactic| ts_lemma) => `(tactic| with_reducible exact tm_finishDeps _)
theorem tm_finishCands (U : Universe) (n : Nat) : TM U P (finishCands U n) := by unfold finishCands; ts
macro_rules | `(tactic| ts_lemma) => `(tactic| with_reducible exact tm_finishCands _ _)
theorem tm_pollCands (U : Universe) (tid n : Nat) (w : CandWait) (a : AS) : TM U P (pollCands U tid n w a) := by
  unfold pollCands; ts
macro_rules | `(tactic| ts_lemma) => `(tactic| with_reducible exact tm_pollCands _ _ _ _ _)

theorem tm_getMatching (U : Universe) (vs : Nat) : TM U P (getMatching U vs) := by
  unfold getMatching
  ts
macro_rules | `(tactic| ts_lemma) => `(tactic| with_reducible exact tm_getMatching _ _)

theorem tm_getNonMatching (U : Universe) (vs : Nat) : TM U P (getNonMatching U vs) := by
  unfold getNonMatching
  ts
macro_rules | `(tactic| ts_lemma) => `(tactic| with_reducible exact tm_getNonMatching _ _)

theorem tm_getSortedVs (U : Universe) (vs : Nat) : TM U P (getSortedVs U vs) := by
  unfold getSortedVs
  ts
macro_rules | `(tactic| ts_lemma) => `(tactic| with_reducible exact tm_getSortedVs _ _)

/-! ### the encoder (synchronous) -/

theorem tinv_push_queue {s s' : S} (h : TInv U P s) (t : Task) (ht : TaskLegit U P t) (h1 : s'.origins = s.origins)
    (h2 : s'.solvVar = s.solvVar) (h3 : s'.nextVar = s.nextVar) (h4 : s'.clauses = s.clauses) (h5 : s'.trackers = s.trackers)
    (h6 : s'.queue = s.queue ++ [t]) (h7 : s'.reqCands = s.reqCands) : TInv U P s' ∧ Ext s s' :=
  ⟨⟨xinv_of_view h.extra h1 h2 h4 h7, h.wf, by rw [h1]; exact h.root0, by rw [h1, h3]; exact h.fresh, by rw [h1, h2]; exact h.sv,
    by rw [h1, h4]; exact h.kinds, by rw [h1, h5]; exact h.trk, by
      rw [h6]; intro x hx
      rcases List.mem_append.mp hx with hx | hx
      · exact h.queue x hx
      · rw [List.mem_singleton.mp hx]; exact ht⟩,
   Ext.of_eq h1 h7⟩

theorem tm_queueSolvable (sid : SoR) : TM U P (queueSolvable sid) := by
  unfold queueSolvable
  apply tm_get_bind
  intro s
  split
  · exact (tm_pure _).at _
  · apply tmAt_set_bind
    · intro h; exact tinv_push_queue h (.deps sid) trivial rfl rfl rfl rfl rfl rfl rfl
    · ts
macro_rules | `(tactic| ts_lemma) => `(tactic| with_reducible exact tm_queueSolvable _)

theorem tm_queuePackage (n : Nat) : TM U P (queuePackage n) := by
  unfold queuePackage
  apply tm_get_bind
  intro s
  split
  · exact (tm_pure _).at _
  · apply tmAt_set_bind
    · intro h; exact tinv_push_queue h (.pkg n) trivial rfl rfl rfl rfl rfl rfl rfl
    · ts
macro_rules | `(tactic| ts_lemma) => `(tactic| with_reducible exact tm_queuePackage _)

theorem tm_pushTask (t : Task) (ht : TaskLegit U P t) : TM U P (pushTask t) :=
  tm_modify _ (fun _ h => tinv_push_queue h t ht rfl rfl rfl rfl rfl rfl rfl)

theorem stable_forall_osolv (A : Nat → Prop) (Q : Nat → Prop) :
    Stable (fun s => ∀ x, A x → ∃ sx, oSolv s.origins x = some sx ∧ Q sx) := by
  intro s s' e h x hx
  obtain ⟨sx, h1, h2⟩ := h x hx
  exact ⟨sx, oSolv_ext e x sx h1, h2⟩

macro "tr_quiet" : tactic => `(tactic| (apply tr_of_tm; ts))
macro "stab" : tactic => `(tactic| repeat (first | assumption | exact stable_const _ | exact stable_osolv _ _ | exact sidVar_stable _ _ | exact stable_forall_osolv _ _ | exact pairOK_stable _ _ | exact stable_kind _ | exact stable_kindReq _ | exact stable_hasReq _ | apply stable_and))

/-- the fact an exclusion clause states -/
def ExclTrue (U : Universe) (sid : SoR) (reason : Nat) : Prop :=
  ∃ x, sid = some x ∧ (U.deps x = .unknown reason ∨ ∃ p, U.pkg? (U.nameOf x) = some p ∧ (x, reason) ∈ p.excluded)

theorem tr_addExclusionClause (F : S → Prop) (hF : Stable F) (sid : SoR) (reason : Nat) (h : WFU U → ExclTrue U sid reason) :
    Tr U P F (addExclusionClause sid reason) (fun _ _ => True) := by
  unfold addExclusionClause
  apply tr_bind hF (tr_internSoR F sid)
  intro v
  apply tr_bind (stable_and hF (sidVar_stable sid v))
  · apply tr_allocClause_nr _ _ _ (fun _ _ h => by cases h)
    intro s hi hFs
    obtain ⟨x, rfl, hx⟩ := h hi.wf
    exact ⟨x, hFs.2, hx⟩
  · intro id
    tr_quiet

theorem lookup_cons_filter_ne {β : Type} (l : List (Nat × β)) (k : Nat) (x : β) (k' : Nat) (h : k' ≠ k) :
    ((k, x) :: l.filter (fun e => e.1 != k)).lookup k' = l.lookup k' := by
  have hb : (k' == k) = false := by simpa using h
  rw [List.lookup_cons, hb]
  induction l with
  | nil => rfl
  | cons e es ih =>
    obtain ⟨a, b⟩ := e
    rw [List.filter_cons]
    by_cases hak : a = k
    · subst hak
      simp only [bne_self_eq_false, Bool.false_eq_true, if_false, List.lookup_cons, hb]
      exact ih
    · have : (a != k) = true := by simpa using hak
      simp only [this, if_true, List.lookup_cons]
      split
      · rfl
      · exact ih

/-- `add_forbid_multiple_clauses` for a variable that stands for the candidate -/
theorem tr_addForbidMultiple (F : S → Prop) (U : Universe) (c v : Nat)
    (hv : ∀ s, F s → oSolv s.origins v = some c) : Tr U P F (addForbidMultiple U c v) (fun _ _ => True) := by
  intro s hi hFs
  unfold addForbidMultiple
  rw [runM_bind, runM_get]
  dsimp only
  rw [runM_bind, runM_modify]
  dsimp only
  -- the tracker the state holds for this name
  have htr : ∀ x ∈ ((s.trackers.lookup (U.nameOf c)).getD {}).vars, ∃ sx, oSolv s.origins x = some sx ∧ U.nameOf sx = U.nameOf c := by
    intro x hx
    cases hl : s.trackers.lookup (U.nameOf c) with
    | none => rw [hl] at hx; cases hx
    | some tr => rw [hl] at hx; exact hi.trk _ tr hl x hx
  have hctx : ∀ x, (x ∈ ((s.trackers.lookup (U.nameOf c)).getD {}).vars ∨ x = v) →
      ∃ sx, oSolv s.origins x = some sx ∧ U.nameOf sx = U.nameOf c := by
    intro x hx
    rcases hx with hx | rfl
    · exact htr x hx
    · exact ⟨c, hv s hFs, rfl⟩
  -- the state after the tracker was written back
  have hi1 : TInv U P { s with trackers := ((U.nameOf c, (Amo.add { t := (s.trackers.lookup (U.nameOf c)).getD {}, next := s.nextVar, out := [] } v).t) ::
      (s.trackers.filter (fun e => e.1 != U.nameOf c))) } := by
    refine ⟨xinv_of_view hi.extra rfl rfl rfl rfl, hi.wf, hi.root0, hi.fresh, hi.sv, hi.kinds, ?_, hi.queue⟩
    intro name tr hl x hx
    by_cases hn : name = U.nameOf c
    · subst hn
      simp only [List.lookup_cons, beq_self_eq_true] at hl
      cases hl
      exact hctx x (Amo.vars_add_subset _ v x hx)
    · rw [lookup_cons_filter_ne _ _ _ _ hn] at hl
      exact hi.trk name tr hl x hx
  apply tr_at (s0 := s) (G := fun _ _ => True) (F := fun s' => ∀ x, (x ∈ ((s.trackers.lookup (U.nameOf c)).getD {}).vars ∨ x = v) →
      ∃ sx, oSolv s'.origins x = some sx ∧ U.nameOf sx = U.nameOf c) _ hi1 hctx (Ext.of_eq rfl rfl)
  apply tr_bind (by stab) (G := fun _ _ => True)
  · apply tr_forIn (by stab)
    intro fc b hfc
    have ha := add_out_a _ s.nextVar v fc hfc
    apply tr_bind (by stab) (tr_of_tm _ tm_get)
    intro s0
    split
    · apply tr_bind (by stab) (tr_of_tm _ (tm_allocForbidVar _))
      intro _
      apply tr_bind (by stab) (G := fun _ _ => True)
      · apply tr_allocClause_nr _ _ _ (fun _ _ h => by cases h)
        intro s' _ hF'
        exact hF'.1.1 fc.a ha
      · intro id
        tr_quiet
    · apply tr_bind (by stab) (G := fun _ _ => True)
      · apply tr_allocClause_nr _ _ _ (fun _ _ h => by cases h)
        intro s' _ hF'
        exact hF'.1 fc.a ha
      · intro id
        tr_quiet
  · intro _
    tr_quiet

/-- `on_dependencies_available` with the provider's answer -/
theorem tm_onDependencies (U : Universe) (P : Problem) (sid : SoR) (d : Deps) (hd : d = depsAnswer U P sid) :
    TM U P (onDependencies U P sid d) := by
  unfold onDependencies
  cases d with
  | unknown reason =>
    dsimp only
    have hex : WFU U → ExclTrue U sid reason := by
      intro _
      cases sid with
      | none => simp [depsAnswer] at hd
      | some x => exact ⟨x, rfl, Or.inl (by simpa [depsAnswer] using hd.symm)⟩
    have h1 : TM U P (addExclusionClause sid reason) := tm_of_tr (tr_addExclusionClause (fun _ => True) (stable_const _) sid reason hex)
    ts
  | known reqs cons =>
    dsimp only
    have hs : sidDeps U P sid = some (reqs, cons) := by
      cases sid with
      | none => simp only [depsAnswer, Deps.known.injEq] at hd; simp [sidDeps, hd.1, hd.2]
      | some x => simp only [depsAnswer] at hd; simp [sidDeps, ← hd]
    apply tm_bind
    · ts
    · intro _
      apply tm_bind
      · apply tm_forIn_mem
        intro r _ hr
        have := tm_pushTask (U := U) (P := P) (.req sid r) ⟨reqs, cons, hs, hr⟩
        ts
      · intro _
        apply tm_bind
        · apply tm_forIn_mem
          intro c _ hc
          have := tm_pushTask (U := U) (P := P) (.cons sid c) ⟨reqs, cons, hs, hc⟩
          ts
        · intro _; exact tm_pure _

/-- `on_candidates_available` with the provider's answer for the package -/
theorem tm_onCandidates (name : Nat) (p : Pkg) (hp : U.pkg? name = some p ∨ (p.locked = none ∧ p.excluded = [])) :
    TM U P (onCandidates name p) := by
  unfold onCandidates
  have hexcl : ∀ (x : Nat × Nat) (_ : PUnit), x ∈ p.excluded → Tr U P (fun _ => True) (addExclusionClause (some x.1) x.2) (fun _ _ => True) := by
    intro x _ hx
    obtain ⟨sv, reason⟩ := x
    apply tr_addExclusionClause _ (stable_const _)
    intro wf
    rcases hp with hp | hp
    · have hc := wf.excl name p hp (sv, reason) hx
      have hname : U.nameOf sv = name := wf.names name p hp sv hc
      exact ⟨sv, rfl, Or.inr ⟨p, by rw [hname]; exact hp, hx⟩⟩
    · rw [hp.2] at hx; cases hx
  apply tm_bind
  · ts
  · intro _
    dsimp only
    cases hl : p.locked with
    | none =>
      dsimp only
      apply tm_bind
      · apply tm_forIn_mem
        intro x b hx
        obtain ⟨sv, reason⟩ := x
        dsimp only
        have := tm_of_tr (hexcl (sv, reason) b hx)
        ts
      · intro _; exact tm_pure _
    | some locked =>
      dsimp only
      have hpk : U.pkg? name = some p := by
        rcases hp with hp | hp
        · exact hp
        · rw [hp.1] at hl; cases hl
      apply tm_bind _ _ (tm_internSolvable _)
      intro _
      apply tm_bind
      · apply tm_of_tr (G := fun _ _ => True)
        apply tr_forIn (F := fun _ => True) (by stab)
        intro other b hother
        split
        · next hne =>
          apply tr_bind (by stab) (tr_internSolvable _ other)
          intro ov
          apply tr_bind (by stab) (tr_internSolvable _ locked)
          intro lv
          apply tr_bind (by stab) (G := fun _ _ => True)
          · apply tr_allocClause_nr _ _ _ (fun _ _ h => by cases h)
            intro s hi hF
            have hname : U.nameOf other = name := hi.wf.names name p hpk other hother
            refine ⟨locked, other, p, hF.2, hF.1.2, by rw [hname]; exact hpk, hl, ?_⟩
            simpa using hne
          · intro id
            tr_quiet
        · tr_quiet
      · intro _
        apply tm_bind
        · apply tm_forIn_mem
          intro x b hx
          obtain ⟨sv, reason⟩ := x
          dsimp only
          have := tm_of_tr (hexcl (sv, reason) b hx)
          ts
        · intro _; exact tm_pure _

/-- `on_constraint_candidates_available` for a constraint of the solvable and its non-matching candidates -/
theorem tm_onConstraintCandidates (sid : SoR) (vs : Nat) (cands : List Nat) (hc : TaskLegit U P (.cons sid vs))
    (hcands : ∀ f ∈ cands, f ∈ U.nonMatching vs) : TM U P (onConstraintCandidates sid vs cands) := by
  unfold onConstraintCandidates
  apply tm_of_tr (G := fun _ _ => True)
  apply tr_bind (by stab) (tr_internSoR _ sid)
  intro pvar
  apply tr_bind (by stab) (G := fun _ _ => True)
  · apply tr_forIn (by stab)
    intro f b hf
    apply tr_bind (by stab) (tr_internSolvable _ f)
    intro fv
    apply tr_bind (by stab) (tr_of_tm _ tm_get)
    intro s0
    dsimp only
    split
    · exact tr_panic_bind _ _ _ _
    · apply tr_bind (by stab) (G := fun _ _ => True)
      · apply tr_allocClause_nr _ _ _ (fun _ _ h => by cases h)
        intro s hi hF
        obtain ⟨reqs, cons, h1, h2⟩ := hc
        refine ⟨⟨reqs, cons, ?_, h2⟩, f, hF.1.2, hcands f hf⟩
        rw [parentDeps_of_sidVar s hi sid pvar hF.1.1.2]; exact h1
      · intro id
        tr_quiet
  · intro _
    tr_quiet

theorem mem_sortedCands (U : Universe) (vs x : Nat) : x ∈ sortedCands U vs ↔ x ∈ U.candsOf vs := by
  unfold sortedCands
  rw [mem_favoredFirst, mem_rankSort]

theorem mem_flatten_sortedCands (U : Universe) (r : Req) (c : Nat) :
    c ∈ ((U.reqVersionSets r).map (sortedCands U)).flatten ↔ c ∈ U.reqCands r := by
  unfold Universe.reqCands
  simp only [List.mem_flatten, List.mem_map, List.mem_flatMap]
  constructor
  · rintro ⟨l, ⟨vs, hvs, rfl⟩, hc⟩
    exact ⟨vs, hvs, (mem_sortedCands U vs c).mp hc⟩
  · rintro ⟨vs, hvs, hc⟩
    exact ⟨_, ⟨vs, hvs, rfl⟩, (mem_sortedCands U vs c).mpr hc⟩

/-- `on_requirement_candidates_available` for a requirement of the solvable -/
theorem tm_onRequirementCandidates (U : Universe) (sid : SoR) (r : Req) (candidates : List (List Nat))
    (hr : TaskLegit U P (.req sid r)) (hcs : candidates = (U.reqVersionSets r).map (sortedCands U)) :
    TM U P (onRequirementCandidates U sid r candidates) := by
  have hflat : candidates.flatten = reqSorted U r := by
    rw [hcs]; unfold reqSorted; rw [List.flatMap_def]
  have hc : ∀ c, c ∈ candidates.flatten ↔ c ∈ U.reqCands r := by
    intro c; rw [hcs]; exact mem_flatten_sortedCands U r c
  unfold onRequirementCandidates
  apply tm_of_tr (G := fun _ _ => True)
  apply tr_bind (by stab) (tr_internSoR _ sid)
  intro pvar
  dsimp only
  apply tr_weaken (F := fun s => SidVar sid pvar s) _ (fun s h => h.2) (fun _ _ h => h)
  -- the variables of the candidates
  apply tr_bind (by stab) (G := fun vsVars s => PairOK candidates.flatten vsVars.flatten s)
  · apply tr_weaken (tr_forIn_inv (F := fun s => SidVar sid pvar s) (by stab)
      (fun (pre acc : List (List Nat)) s => PairOK pre.flatten acc.flatten s) _ candidates [] [] ?_)
      (fun s h => ⟨h, pairOK_nil s⟩) (fun b s h => by simpa using h)
    intro pre cs acc _
    apply tr_bind (by stab) (G := fun vars s => PairOK cs vars s)
    · apply tr_weaken (tr_forIn_inv (F := fun s => SidVar sid pvar s ∧ PairOK pre.flatten acc.flatten s) (by stab)
        (fun (pre2 vars : List Nat) s => PairOK pre2 vars s) _ cs [] [] ?_)
        (fun s h => ⟨h, pairOK_nil s⟩) (fun b s h => by simpa using h)
      intro pre2 c vars _
      apply tr_bind (by stab) (tr_internSolvable _ c)
      intro v
      apply tr_pure_ctx
      intro s h
      exact ⟨_, rfl, pairOK_append h.1.2 (pairOK_single c v s h.2)⟩
    · intro vars
      apply tr_pure_ctx
      intro s h
      refine ⟨_, rfl, ?_⟩
      simp only [List.flatten_append, List.flatten_cons, List.flatten_nil, List.append_nil]
      exact pairOK_append h.1.2 h.2
  · intro vsVars
    apply tr_bind (by stab) (G := fun _ _ => True)
    · apply tr_forIn (by stab)
      intro x b hx
      obtain ⟨c, v⟩ := x
      dsimp only
      apply tr_bind (by stab) (tr_of_tm _ tm_get)
      intro s0
      split
      · apply tr_bind (by stab) (tr_of_tm _ (tm_queueSolvable _))
        intro _
        apply tr_bind (by stab) (G := fun _ _ => True)
        · apply tr_addForbidMultiple
          intro s h
          exact h.1.1.2.2 (c, v) hx
        · intro _; tr_quiet
      · apply tr_bind (by stab) (G := fun _ _ => True)
        · apply tr_addForbidMultiple
          intro s h
          exact h.1.2.2 (c, v) hx
        · intro _; tr_quiet
    · intro _
      apply tr_bind (by stab) (tr_of_tm _ tm_get)
      intro s0
      split
      · exact tr_panic_bind _ _ _ _
      · apply tr_bind (by stab) (G := fun _ s => (s.reqCands.lookup r).isSome = true)
        · apply tr_cacheInsert
          intro s hi hF
          obtain ⟨h1, h2⟩ := pairOK_sides hF.1.1.2
          refine ⟨⟨fun v hv => let ⟨c, hc1, hc2⟩ := h1 v hv; ⟨c, hc2, (hc c).mp hc1⟩,
                 fun c hcm => h2 c ((hc c).mpr hcm)⟩, ?_⟩
          have hp : PairOK candidates.flatten vsVars.flatten s := hF.1.1.2
          rw [hflat] at hp
          exact hp
        · intro _
          apply tr_bind (by stab) (G := fun _ _ => True)
          · apply tr_allocClause
            intro s hi hF
            obtain ⟨reqs, cons, h1, h2⟩ := hr
            refine ⟨⟨reqs, cons, ?_, h2⟩, fun p r' hk => by cases hk; exact hF.2⟩
            rw [parentDeps_of_sidVar s hi sid pvar hF.1.1.1.1]; exact h1
          · intro id; tr_quiet

/-! ### the tasks of the encoder: what the provider answers -/

macro "tr_seq_pure" : tactic => `(tactic| repeat (first
  | exact tr_pure_ctx _ (fun _ _ => rfl)
  | refine tr_bind (by stab) (G := fun _ _ => True) (by tr_quiet) (fun _ => ?_)))

theorem tr_getDeps (U : Universe) (sv : Nat) : Tr U P (fun _ => True) (getDeps U sv) (fun d _ => d = U.deps sv) := by
  unfold getDeps
  apply tr_bind (by stab) (tr_of_tm _ tm_get)
  intro s0
  dsimp only
  split <;> tr_seq_pure

theorem tr_getCandidates (U : Universe) (n : Nat) :
    Tr U P (fun _ => True) (getCandidates U n) (fun p _ => p = (U.pkg? n).getD { cands := [] }) := by
  unfold getCandidates
  apply tr_bind (by stab) (tr_of_tm _ tm_get)
  intro s0
  dsimp only
  split <;> tr_seq_pure

theorem tr_getSortedVs (F : S → Prop) (hF : Stable F) (U : Universe) (vs : Nat) :
    Tr U P F (getSortedVs U vs) (fun l _ => l = sortedCands U vs) := by
  unfold getSortedVs
  apply tr_bind hF (tr_of_tm _ tm_get)
  intro s0
  dsimp only
  split <;> tr_seq_pure

theorem tr_getNonMatching (U : Universe) (vs : Nat) :
    Tr U P (fun _ => True) (getNonMatching U vs) (fun l _ => l = U.nonMatching vs) := by
  unfold getNonMatching
  apply tr_bind (by stab) (tr_of_tm _ (tm_getCandidates _ _))
  intro _
  exact tr_pure_ctx _ (fun _ _ => rfl)

theorem pkg_answer (U : Universe) (n : Nat) (p : Pkg) (h : p = (U.pkg? n).getD { cands := [] }) :
    U.pkg? n = some p ∨ (p.locked = none ∧ p.excluded = []) := by
  cases hp : U.pkg? n with
  | none => rw [hp] at h; subst h; exact Or.inr ⟨rfl, rfl⟩
  | some q => rw [hp] at h; subst h; exact Or.inl rfl

/-- one task of the synchronous encoder -/
theorem tm_runTask (U : Universe) (P : Problem) (t : Task) (ht : TaskLegit U P t) : TM U P (runTask U P t) := by
  cases t with
  | deps sid =>
    cases sid with
    | none => unfold runTask; exact tm_onDependencies U P none _ rfl
    | some sv =>
      unfold runTask
      apply tm_of_tr (G := fun _ _ => True)
      apply tr_bind (by stab) (tr_getDeps U sv)
      intro d
      apply tr_assume (p := d = U.deps sv) (fun _ h => h.2)
      intro hd
      exact tr_of_tm _ (tm_onDependencies U P (some sv) d hd)
  | pkg n =>
    unfold runTask
    apply tm_of_tr (G := fun _ _ => True)
    apply tr_bind (by stab) (tr_getCandidates U n)
    intro p
    apply tr_assume (p := p = (U.pkg? n).getD { cands := [] }) (fun _ h => h.2)
    intro hp
    exact tr_of_tm _ (tm_onCandidates n p (pkg_answer U n p hp))
  | req sid r =>
    unfold runTask
    apply tm_of_tr (G := fun _ _ => True)
    apply tr_bind (by stab) (G := fun (lists : List (List Nat)) _ => lists = (U.reqVersionSets r).map (sortedCands U))
    · apply tr_weaken (tr_forIn_inv (F := fun _ => True) (by stab)
        (fun (pre : List Nat) (acc : List (List Nat)) _ => acc = pre.map (sortedCands U)) _ (U.reqVersionSets r) [] [] ?_)
        (fun s h => ⟨h, rfl⟩) (fun b s h => by simpa using h)
      intro pre vs acc _
      apply tr_bind (by stab) (tr_getSortedVs _ (by stab) U vs)
      intro l
      apply tr_pure_ctx
      intro s h
      refine ⟨_, rfl, ?_⟩
      rw [h.1.2, h.2]; simp
    · intro lists
      apply tr_assume (p := lists = (U.reqVersionSets r).map (sortedCands U)) (fun _ h => h.2)
      intro hl
      exact tr_of_tm _ (tm_onRequirementCandidates U sid r lists ht hl)
  | cons sid vs =>
    unfold runTask
    apply tm_of_tr (G := fun _ _ => True)
    apply tr_bind (by stab) (tr_getNonMatching U vs)
    intro l
    apply tr_assume (p := l = U.nonMatching vs) (fun _ h => h.2)
    intro hl
    exact tr_of_tm _ (tm_onConstraintCandidates sid vs l ht (fun f hf => by rw [hl] at hf; exact hf))

theorem tinv_set_queue {s s' : S} (h : TInv U P s) (q : List Task) (hq : ∀ t ∈ q, TaskLegit U P t) (h1 : s'.origins = s.origins)
    (h2 : s'.solvVar = s.solvVar) (h3 : s'.nextVar = s.nextVar) (h4 : s'.clauses = s.clauses) (h5 : s'.trackers = s.trackers)
    (h6 : s'.queue = q) (h7 : s'.reqCands = s.reqCands) : TInv U P s' ∧ Ext s s' :=
  ⟨⟨xinv_of_view h.extra h1 h2 h4 h7, h.wf, by rw [h1]; exact h.root0, by rw [h1, h3]; exact h.fresh, by rw [h1, h2]; exact h.sv,
    by rw [h1, h4]; exact h.kinds, by rw [h1, h5]; exact h.trk, by rw [h6]; exact hq⟩,
   Ext.of_eq h1 h7⟩

theorem tm_encodeSync_loop (U : Universe) (P : Problem) (n : Nat) : TM U P (encodeSync.loop U P n) := by
  induction n with
  | zero => unfold encodeSync.loop; exact tm_throw _
  | succ n ih =>
    unfold encodeSync.loop
    apply tm_get_bind
    intro s
    split
    · exact (tm_pure _).at _
    · next t rest hq =>
      apply tmAt_of_imp
      intro hi
      have ht : TaskLegit U P t := hi.queue t (by rw [hq]; exact List.mem_cons_self)
      apply tmAt_set_bind
      · intro h
        exact tinv_set_queue h rest (fun x hx => h.queue x (by rw [hq]; exact List.mem_cons_of_mem _ hx)) rfl rfl rfl rfl rfl rfl rfl
      · exact tm_bind _ _ (tm_runTask U P t ht) (fun _ => ih)
macro_rules | `(tactic| ts_lemma) => `(tactic| with_reducible exact tm_encodeSync_loop _ _ _)

theorem tm_resetQueue : TM U P (modify fun s => { s with queue := [], conflicting := [] } : M Unit) :=
  tm_modify _ (fun _ h => tinv_set_queue h [] (fun _ hx => by cases hx) rfl rfl rfl rfl rfl rfl rfl)
macro_rules | `(tactic| ts_lemma) => `(tactic| with_reducible exact tm_resetQueue)

theorem tm_encodeSync (U : Universe) (P : Problem) (sv : List SoR) (fuel : Nat) : TM U P (encodeSync U P sv fuel) := by
  unfold encodeSync
  ts
macro_rules | `(tactic| ts_lemma) => `(tactic| with_reducible exact tm_encodeSync _ _ _ _)

/-! ### the encoder with an asynchronous provider -/

theorem tm_finishChild (sorted : Bool) (c : Child) (a : AS) : TM U P (finishChild sorted c a) := by
  unfold finishChild
  ts
macro_rules | `(tactic| ts_lemma) => `(tactic| with_reducible exact tm_finishChild _ _ _)

theorem tm_sortStage (U : Universe) (tid : Nat) (g : Bool) (c : Child) (a : AS) (e : Bool) :
    TM U P (sortStage U tid g c a e) := by
  unfold sortStage
  ts
macro_rules | `(tactic| ts_lemma) => `(tactic| with_reducible exact tm_sortStage _ _ _ _ _ _)

theorem tm_filterStage (U : Universe) (tid : Nat) (g sorted : Bool) (c : Child) (a : AS) (e : Bool) :
    TM U P (filterStage U tid g sorted c a e) := by
  unfold filterStage
  ts
macro_rules | `(tactic| ts_lemma) => `(tactic| with_reducible exact tm_filterStage _ _ _ _ _ _ _)

theorem tm_pollChild (U : Universe) (tid : Nat) (sorted : Bool) (c : Child) (a : AS) :
    TM U P (pollChild U tid sorted c a) := by
  unfold pollChild
  ts
macro_rules | `(tactic| ts_lemma) => `(tactic| with_reducible exact tm_pollChild _ _ _ _ _)

theorem tm_pollChildren (U : Universe) (tid : Nat) (sorted : Bool) (cs : List Child) (a : AS) :
    TM U P (pollChildren U tid sorted cs a) := by
  induction cs generalizing a with
  | nil => unfold pollChildren; exact tm_pure _
  | cons c cs ih =>
    unfold pollChildren
    apply tm_bind _ _ (tm_pollChild U tid sorted c a)
    intro r
    apply tm_bind _ _ (ih _)
    intro r2
    exact tm_pure _
macro_rules | `(tactic| ts_lemma) => `(tactic| with_reducible exact tm_pollChildren _ _ _ _ _)

theorem tm_pollTask (U : Universe) (P : Problem) (t : ATask) (a : AS) : TM U P (pollTask U P t a) := by
  unfold pollTask
  ts
macro_rules | `(tactic| ts_lemma) => `(tactic| with_reducible exact tm_pollTask _ _ _ _)

/-- the answer a finished future hands over is the provider's answer to its task -/
def ResFor (U : Universe) (P : Problem) : Task → TaskResult → Prop
  | .deps sid, .deps sid' d => sid' = sid ∧ d = depsAnswer U P sid
  | .pkg n, .cands n' p => n' = n ∧ p = (U.pkg? n).getD { cands := [] }
  | .req sid r, .req sid' r' _ => sid' = sid ∧ r' = r
  | .cons sid vs, .cons sid' vs' l => sid' = sid ∧ vs' = vs ∧ l = U.nonMatching vs
  | _, _ => False

/-- the candidate lists a requirement future hands over: the sorted candidates of its children's version sets -/
def ReqLists (U : Universe) (vss : List Nat) : TaskResult → Prop
  | .req _ _ lists => lists = vss.map (sortedCands U)
  | _ => True

theorem tm_runCallback (U : Universe) (P : Problem) (t : Task) (r : TaskResult) (ht : TaskLegit U P t) (hr : ResFor U P t r)
    (hl : ∀ sid q, t = .req sid q → ReqLists U (U.reqVersionSets q) r) : TM U P (runCallback U P r) := by
  cases t <;> cases r <;> simp only [ResFor] at hr
  · obtain ⟨rfl, rfl⟩ := hr; exact tm_onDependencies U P _ _ rfl
  · obtain ⟨rfl, hp⟩ := hr; exact tm_onCandidates _ _ (pkg_answer U _ _ hp)
  · next sid q sid' q' lists =>
    obtain ⟨rfl, rfl⟩ := hr
    have h := hl _ _ rfl
    simp only [ReqLists] at h
    exact tm_onRequirementCandidates U _ _ _ ht h
  · obtain ⟨rfl, rfl, rfl⟩ := hr; exact tm_onConstraintCandidates _ _ _ ht (fun _ h => h)

macro "res_fin" ht:ident : tactic => `(tactic| (intro r hr; first | (cases hr; done) | (cases hr; rw [$ht:ident]; simp [ResFor, depsAnswer])))

theorem pollTask_res (U : Universe) (P : Problem) (t : ATask) (a : AS) (s s' : S) (t' : ATask) (a' : AS)
    (res : Option TaskResult) (h : runM (pollTask U P t a) s = (.ok (t', a', res), s')) :
    ∀ r, res = some r → ResFor U P t.task r := by
  unfold pollTask at h
  cases ht : t.task with
  | deps sid =>
    rw [ht] at h
    cases sid with
    | none =>
      simp only [runM_pure, Prod.mk.injEq, Except.ok.injEq] at h
      obtain ⟨⟨rfl, rfl, rfl⟩, _⟩ := h
      intro r hr; cases hr; simp [ResFor, depsAnswer]
    | some sv =>
      simp only [runM_bind, runM_get] at h
      cases hw : t.wait with
      | notStarted =>
        rw [hw] at h
        simp only at h
        by_cases hf : s.fetchedDeps.contains sv = true
        · simp only [hf, if_true, runM_pure, Prod.mk.injEq, Except.ok.injEq] at h
          obtain ⟨⟨rfl, rfl, rfl⟩, _⟩ := h
          intro r hr; cases hr; simp [ResFor, depsAnswer]
        · simp only [hf, Bool.false_eq_true, if_false, runM_bind, startDeps, runM_pollCancel] at h
          by_cases hc : fires s = true
          · simp only [hc, if_true] at h; exact absurd h (by simp)
          · simp only [hc, Bool.false_eq_true, if_false, runM_bind, runM_logCall, requestStarted, runM_modify, runM_pure,
              Prod.mk.injEq, Except.ok.injEq] at h
            obtain ⟨⟨rfl, rfl, rfl⟩, _⟩ := h
            intro r hr; cases hr
      | owner =>
        rw [hw] at h
        simp only at h
        split at h
        · simp only [runM_bind, finishDeps, runM_modify, runM_pure, Prod.mk.injEq, Except.ok.injEq] at h
          obtain ⟨⟨rfl, rfl, rfl⟩, _⟩ := h
          intro r hr; cases hr; simp [ResFor, depsAnswer]
        · simp only [runM_pure, Prod.mk.injEq, Except.ok.injEq] at h
          obtain ⟨⟨rfl, rfl, rfl⟩, _⟩ := h
          intro r hr; cases hr
      | listener =>
        rw [hw] at h
        simp only at h
        split at h
        · simp only [runM_bind, finishDeps, runM_modify, runM_pure, Prod.mk.injEq, Except.ok.injEq] at h
          obtain ⟨⟨rfl, rfl, rfl⟩, _⟩ := h
          intro r hr; cases hr; simp [ResFor, depsAnswer]
        · simp only [runM_pure, Prod.mk.injEq, Except.ok.injEq] at h
          obtain ⟨⟨rfl, rfl, rfl⟩, _⟩ := h
          intro r hr; cases hr
      | ready =>
        rw [hw] at h
        simp only at h
        split at h
        · simp only [runM_bind, finishDeps, runM_modify, runM_pure, Prod.mk.injEq, Except.ok.injEq] at h
          obtain ⟨⟨rfl, rfl, rfl⟩, _⟩ := h
          intro r hr; cases hr; simp [ResFor, depsAnswer]
        · simp only [runM_pure, Prod.mk.injEq, Except.ok.injEq] at h
          obtain ⟨⟨rfl, rfl, rfl⟩, _⟩ := h
          intro r hr; cases hr
  | pkg n =>
    rw [ht] at h
    simp only [runM_bind] at h
    cases hp : runM (pollCands U t.id n t.wait a) s with
    | mk r s1 =>
      cases r with
      | error e => simp only [hp] at h; exact absurd h (by simp)
      | ok v =>
        obtain ⟨w, a1⟩ := v
        simp only [hp] at h
        by_cases hw : (w == CandWait.ready) = true
        · simp only [hw, if_true, runM_pure, Prod.mk.injEq, Except.ok.injEq] at h
          obtain ⟨⟨rfl, rfl, rfl⟩, _⟩ := h
          intro r hr; cases hr; simp [ResFor]
        · simp only [hw, Bool.false_eq_true, if_false, runM_pure, Prod.mk.injEq, Except.ok.injEq] at h
          obtain ⟨⟨rfl, rfl, rfl⟩, _⟩ := h
          intro r hr; cases hr
  | req sid r =>
    rw [ht] at h
    simp only [runM_bind] at h
    cases hq : runM (pollChildren U t.id true t.children a) s with
    | mk r2 s2 =>
      cases r2 with
      | error e => simp only [hq] at h; exact absurd h (by simp)
      | ok v2 =>
        obtain ⟨cs2, a2⟩ := v2
        simp only [hq] at h
        by_cases hall : (cs2.all (·.done)) = true
        · simp only [hall, if_true, runM_pure, Prod.mk.injEq, Except.ok.injEq] at h
          obtain ⟨⟨rfl, rfl, rfl⟩, _⟩ := h
          intro r hr; cases hr; simp [ResFor]
        · simp only [hall, Bool.false_eq_true, if_false, runM_pure, Prod.mk.injEq, Except.ok.injEq] at h
          obtain ⟨⟨rfl, rfl, rfl⟩, _⟩ := h
          intro r hr; cases hr
  | cons sid vs =>
    rw [ht] at h
    simp only [runM_bind] at h
    cases hq : runM (pollChildren U t.id false t.children a) s with
    | mk r2 s2 =>
      cases r2 with
      | error e => simp only [hq] at h; exact absurd h (by simp)
      | ok v2 =>
        obtain ⟨cs2, a2⟩ := v2
        simp only [hq] at h
        by_cases hall : (cs2.all (·.done)) = true
        · simp only [hall, if_true, runM_pure, Prod.mk.injEq, Except.ok.injEq] at h
          obtain ⟨⟨rfl, rfl, rfl⟩, _⟩ := h
          intro r hr; cases hr; simp [ResFor]
        · simp only [hall, Bool.false_eq_true, if_false, runM_pure, Prod.mk.injEq, Except.ok.injEq] at h
          obtain ⟨⟨rfl, rfl, rfl⟩, _⟩ := h
          intro r hr; cases hr

/-- the candidate lists of a finished requirement future are the sorted candidates of its children's version sets -/
theorem pollTask_lists (U : Universe) (P : Problem) (t : ATask) (a : AS) (s s' : S) (t' : ATask) (a' : AS)
    (res : Option TaskResult) (h : runM (pollTask U P t a) s = (.ok (t', a', res), s')) :
    ∀ r, res = some r → ReqLists U (t.children.map (·.vs)) r := by
  intro r hr
  have hres := pollTask_res U P t a s s' t' a' res h r hr
  cases r with
  | deps _ _ => trivial
  | cands _ _ => trivial
  | cons _ _ _ => trivial
  | req sid q lists =>
    cases ht : t.task with
    | deps x => rw [ht] at hres; simp [ResFor] at hres
    | pkg x => rw [ht] at hres; simp [ResFor] at hres
    | cons x y => rw [ht] at hres; simp [ResFor] at hres
    | req sid0 q0 =>
      unfold pollTask at h
      rw [ht] at h
      simp only [runM_bind] at h
      cases hq : runM (pollChildren U t.id true t.children a) s with
      | mk r2 s2 =>
        cases r2 with
        | error e => simp only [hq] at h; exact absurd h (by simp)
        | ok v2 =>
          obtain ⟨cs2, a2⟩ := v2
          have h2 := (pollChildren_started U t.id true t.children a s s2 cs2 a2 hq).1
          simp only [hq] at h
          by_cases hall : (cs2.all (·.done)) = true
          · simp only [hall, if_true, runM_pure, Prod.mk.injEq, Except.ok.injEq] at h
            obtain ⟨⟨rfl, rfl, rfl⟩, _⟩ := h
            cases hr
            show cs2.map (fun c => sortedCands U c.vs) = (t.children.map (·.vs)).map (sortedCands U)
            rw [← h2, List.map_map]; rfl
          · simp only [hall, Bool.false_eq_true, if_false, runM_pure, Prod.mk.injEq, Except.ok.injEq] at h
            obtain ⟨⟨rfl, rfl, rfl⟩, _⟩ := h
            cases hr

/-- every future of the encoder asks about something true, and the children of a requirement future are its version sets -/
def ALegit (U : Universe) (P : Problem) (a : AS) : Prop :=
  ∀ t ∈ a.tasks, TaskLegit U P t.task ∧ ∀ sid q, t.task = .req sid q → t.children.map (·.vs) = U.reqVersionSets q

theorem alegit_adoptOne (U : Universe) (a : AS) (t : Task) (h : ALegit U P a) (ht : TaskLegit U P t) : ALegit U P (adoptOne U a t) := by
  intro x hx
  unfold adoptOne at hx
  simp only [List.mem_append, List.mem_singleton] at hx
  rcases hx with hx | rfl
  · exact h x hx
  · refine ⟨ht, ?_⟩
    intro sid q hq
    dsimp only at hq ⊢
    subst hq
    simp [List.map_map, Function.comp_def]

theorem alegit_foldl_adoptOne (U : Universe) (q : List Task) (a : AS) (h : ALegit U P a) (hq : ∀ t ∈ q, TaskLegit U P t) :
    ALegit U P (q.foldl (adoptOne U) a) := by
  induction q generalizing a with
  | nil => exact h
  | cons t q ih =>
    exact ih _ (alegit_adoptOne U a t h (hq t List.mem_cons_self)) (fun x hx => hq x (List.mem_cons_of_mem _ hx))

theorem tr_adoptPushed (U : Universe) (a : AS) (ha : ALegit U P a) :
    Tr U P (fun _ => True) (adoptPushed U a) (fun a1 _ => ALegit U P a1) := by
  intro s hi _
  unfold adoptPushed
  simp only [runM_bind, runM_get, runM_set, runM_pure]
  refine ⟨(tinv_set_queue (s' := { s with queue := [] }) hi [] (fun _ hx => by cases hx) rfl rfl rfl rfl rfl rfl rfl).1, Ext.of_eq rfl rfl, fun a1 h1 => ?_⟩
  cases h1
  exact alegit_foldl_adoptOne U s.queue a ha hi.queue

theorem tm_adoptPushed (U : Universe) (a : AS) : TM U P (adoptPushed U a) := by
  unfold adoptPushed
  apply tm_get_bind
  intro s
  apply tmAt_set_bind
  · intro h; exact tinv_set_queue h [] (fun _ hx => by cases hx) rfl rfl rfl rfl rfl rfl rfl
  · exact tm_pure _

theorem tm_executorTurn (a : AS) : TM U P (executorTurn a) := by
  unfold executorTurn
  dsimp only
  apply tm_bind
  · apply tm_modify; intro _ h; exact tinv_of_view h rfl rfl rfl rfl rfl rfl rfl
  · intro _
    apply tm_get_bind
    intro s
    ts_at

/-- one iteration of the asynchronous encoder loop keeps the invariant, and the futures it leaves are legitimate -/
theorem tr_asyncStep (U : Universe) (P : Problem) (a : AS) (ha : ALegit U P a) :
    Tr U P (fun _ => True) (asyncStep U P a) (fun r _ => ∀ a', r = some a' → ALegit U P a') := by
  unfold asyncStep
  apply tr_bind (by stab) (tr_adoptPushed U a ha)
  intro a1
  apply tr_assume (p := ALegit U P a1) (fun _ h => h.2)
  intro ha1
  cases hrd : a1.ready with
  | nil =>
    dsimp only
    split
    · exact tr_pure_ctx _ (fun _ _ a' h => by cases h)
    · apply tr_bind (by stab) (tr_of_tm_spec _ (fun a2 : AS => a2.tasks = a1.tasks) (tm_executorTurn a1)
        (fun s s' v h => (frame_executorTurn a1 s s' v h).tasks))
      intro a2
      apply tr_pure_ctx
      intro _ h a' ha'
      cases ha'
      intro t ht; rw [h.2] at ht; exact ha1 t ht
  | cons tid rest =>
    dsimp only
    cases hfd : a1.tasks.find? (fun t => t.id == tid) with
    | none =>
      dsimp only
      apply tr_pure_ctx
      intro _ _ a' ha'
      cases ha'
      exact ha1
    | some t =>
      dsimp only
      obtain ⟨htm, htid⟩ := find?_id hfd
      split
      · apply tr_pure_ctx
        intro _ _ a' ha'
        cases ha'
        exact ha1
      · apply tr_bind (by stab) (tr_of_tm_spec _
          (fun v : ATask × AS × Option TaskResult => v.2.1.tasks = a1.tasks ∧ v.1.task = t.task ∧
            (∀ r, v.2.2 = some r → ResFor U P t.task r ∧ ReqLists U (t.children.map (·.vs)) r) ∧
            (∀ sid q, t.task = .req sid q → v.1.children.map (·.vs) = t.children.map (·.vs)))
          (tm_pollTask U P t { a1 with ready := rest })
          (fun s s' v h => ⟨(pollTask_spec U P t _ s s' v.1 v.2.1 v.2.2 h).1.tasks, (pollTask_dspec U P t _ s s' v.1 v.2.1 v.2.2 h).1,
            fun r hr => ⟨pollTask_res U P t _ s s' v.1 v.2.1 v.2.2 h r hr, pollTask_lists U P t _ s s' v.1 v.2.1 v.2.2 h r hr⟩,
            fun sid q hq => (pollTask_req_started U P t sid q _ s s' v.1 v.2.1 v.2.2 hq h).1⟩))
        intro v
        obtain ⟨t', a3, res⟩ := v
        dsimp only
        apply tr_assume (p := a3.tasks = a1.tasks ∧ t'.task = t.task ∧
            (∀ r, res = some r → ResFor U P t.task r ∧ ReqLists U (t.children.map (·.vs)) r) ∧
            (∀ sid q, t.task = .req sid q → t'.children.map (·.vs) = t.children.map (·.vs))) (fun _ h => h.2)
        intro ⟨h1, h2, h3, h4⟩
        have hfin : ALegit U P { a3 with tasks := a3.tasks.map (fun x => if x.id == tid then t' else x) } := by
          intro x hx
          simp only [List.mem_map] at hx
          obtain ⟨y, hy, rfl⟩ := hx
          rw [h1] at hy
          split
          · rw [h2]
            refine ⟨(ha1 t htm).1, fun sid q hq => ?_⟩
            rw [h4 sid q hq]; exact (ha1 t htm).2 sid q hq
          · exact ha1 y hy
        cases res with
        | none =>
          dsimp only
          apply tr_pure_ctx
          intro _ _ a' ha'
          cases ha'
          exact hfin
        | some r =>
          dsimp only
          apply tr_bind (by stab) (tr_of_tm _ (tm_runCallback U P t.task r (ha1 t htm).1 (h3 r rfl).1
            (fun sid q hq => by rw [← (ha1 t htm).2 sid q hq]; exact (h3 r rfl).2)))
          intro _
          apply tr_pure_ctx
          intro _ _ a' ha'
          cases ha'
          exact hfin

theorem tm_encodeAsync_loop (U : Universe) (P : Problem) (n : Nat) (a : AS) (ha : ALegit U P a) :
    TM U P (encodeAsync.loop U P n a) := by
  induction n generalizing a with
  | zero => unfold encodeAsync.loop; exact tm_throw _
  | succ n ih =>
    unfold encodeAsync.loop
    apply tm_of_tr (G := fun _ _ => True)
    apply tr_bind (by stab) (tr_asyncStep U P a ha)
    intro r
    cases r with
    | none => dsimp only; tr_quiet
    | some a' =>
      dsimp only
      apply tr_assume (p := ALegit U P a') (fun _ h => h.2 a' rfl)
      intro ha'
      exact tr_of_tm _ (ih a' ha')

theorem tm_encodeAsync_loop0 (U : Universe) (P : Problem) (n : Nat) : TM U P (encodeAsync.loop U P n {}) :=
  tm_encodeAsync_loop U P n {} (fun _ h => by cases h)
macro_rules | `(tactic| ts_lemma) => `(tactic| with_reducible exact tm_encodeAsync_loop0 _ _ _)

theorem tm_encodeAsync (U : Universe) (P : Problem) (sv : List SoR) (fuel : Nat) : TM U P (encodeAsync U P sv fuel) := by
  unfold encodeAsync
  ts
macro_rules | `(tactic| ts_lemma) => `(tactic| with_reducible exact tm_encodeAsync _ _ _ _)

theorem tm_encode (U : Universe) (P : Problem) (sv : List SoR) (fuel : Nat) : TM U P (encode U P sv fuel) := by
  unfold encode
  ts
macro_rules | `(tactic| ts_lemma) => `(tactic| with_reducible exact tm_encode _ _ _ _)

/-! ### propagation, decisions, conflict analysis, the solver loop -/

theorem tm_decideAssertions (level : Nat) : TM U P (decideAssertions level) := by
  unfold decideAssertions
  ts
macro_rules | `(tactic| ts_lemma) => `(tactic| with_reducible exact tm_decideAssertions _)

theorem tm_decideLearned (level : Nat) : TM U P (decideLearned level) := by
  unfold decideLearned
  ts
macro_rules | `(tactic| ts_lemma) => `(tactic| with_reducible exact tm_decideLearned _)

macro "trs_step" ih:ident : tactic => `(tactic| first
  | exact tr_of_tm _ $ih
  | exact tr_of_tm _ tm_get
  | exact tr_of_tm _ (tm_pure _)
  | exact tr_of_tm _ (tm_panic _)
  | (apply tr_of_tm; ts_lemma)
  | (apply tr_setClause; intro _ _ h; first | exact h | exact h.1 | exact h.1.1 | exact h.1.1.1 | exact h.1.1.1.1 | exact h.1.1.1.1.1 | exact h.1.1.1.1.1.1)
  | refine tr_bind (by stab) (G := fun _ _ => True) ?_ (fun _ => ?_)
  | split
  | dsimp only)

theorem tm_propagate_inner (level : Nat) (fl : Lit) (l : List Nat) : TM U P (propagate.outer.inner level fl l) := by
  induction l with
  | nil => unfold propagate.outer.inner; exact tm_pure _
  | cons cid rest ih =>
    unfold propagate.outer.inner
    apply tm_get_bind
    intro s
    cases hc : s.clauses[cid]? with
    | none => dsimp only; exact (tm_panic _).at _
    | some c =>
      dsimp only
      apply tmAt_of_tr (F := fun s' => KindTrue U P s'.origins c.kind ∧ ∀ p r, c.kind = .requires p r → (s'.reqCands.lookup r).isSome = true)
        (G := fun _ _ => True) _
        (fun hi => ⟨hi.kinds c (Array.mem_def.mp (Array.mem_of_getElem? hc)), hi.extra.reqs c (Array.mem_def.mp (Array.mem_of_getElem? hc))⟩)
      cases hw : c.watch with
      | none => dsimp only; exact tr_of_tm _ (tm_panic _)
      | some w =>
        dsimp only
        generalize (if (w.fst == fl) = true then (0 : Nat) else 1) = idx
        generalize (if (idx == 0) = true then w.snd else w.fst) = other
        by_cases hev : (evalLit s other == some true) = true
        · rw [if_pos hev]; exact tr_of_tm _ ih
        · rw [if_neg hev]
          cases hnu : nextUnwatched s c w idx with
          | some nl =>
            dsimp only
            generalize (if (idx == 0) = true then (nl, w.snd) else (w.fst, nl)) = w'
            refine tr_bind (by stab) (tr_of_tm _ tm_get) (fun s1 => ?_)
            refine tr_bind (by stab) (tr_of_tm _ (tm_setWatchList _ _)) (fun _ => ?_)
            refine tr_bind (by stab) (G := fun _ _ => True) ?_ (fun _ => ?_)
            · apply tr_setClause
              intro _ _ h
              exact h.1.1
            refine tr_bind (by stab) (tr_of_tm _ tm_get) (fun s2 => ?_)
            refine tr_bind (by stab) (tr_of_tm _ (tm_setWatchList _ _)) (fun _ => ?_)
            exact tr_of_tm _ ih
          | none =>
            dsimp only
            apply tr_of_tm
            ts_ih ih
macro_rules | `(tactic| ts_lemma) => `(tactic| with_reducible exact tm_propagate_inner _ _ _)

theorem tm_propagate_outer (level fuel : Nat) : TM U P (propagate.outer level fuel) := by
  induction fuel with
  | zero => unfold propagate.outer; exact tm_throw _
  | succ n ih =>
    unfold propagate.outer
    ts
macro_rules | `(tactic| ts_lemma) => `(tactic| with_reducible exact tm_propagate_outer _ _)

theorem tm_propagate (level fuel : Nat) : TM U P (propagate level fuel) := by
  unfold propagate
  ts
macro_rules | `(tactic| ts_lemma) => `(tactic| with_reducible exact tm_propagate _ _)

theorem tm_decide (U : Universe) : TM U P (decide U) := by
  unfold decide
  ts
macro_rules | `(tactic| ts_lemma) => `(tactic| with_reducible exact tm_decide _)

theorem tm_analyzeUnsolvable (cid : Nat) : TM U P (analyzeUnsolvable cid) := by
  unfold analyzeUnsolvable
  ts
macro_rules | `(tactic| ts_lemma) => `(tactic| with_reducible exact tm_analyzeUnsolvable _)

theorem tm_analyze_pop (seen : List Nat) (f : Nat) : TM U P (analyze.outer.pop seen f) := by
  induction f with
  | zero => unfold analyze.outer.pop; exact tm_throw _
  | succ n ih =>
    unfold analyze.outer.pop
    ts
macro_rules | `(tactic| ts_lemma) => `(tactic| with_reducible exact tm_analyze_pop _ _)

theorem tm_analyze_outer (fuel curLevel conflVar clauseId : Nat) (seen : List Nat) (causes : Nat) (learnt : List Lit)
    (backTo : Nat) (why : List Nat) (first : Bool) :
    TM U P (analyze.outer fuel curLevel conflVar clauseId seen causes learnt backTo why first) := by
  induction fuel generalizing curLevel conflVar clauseId seen causes learnt backTo why first with
  | zero => unfold analyze.outer; exact tm_throw _
  | succ n ih =>
    unfold analyze.outer
    ts_ih ih
macro_rules | `(tactic| ts_lemma) => `(tactic| with_reducible exact tm_analyze_outer _ _ _ _ _ _ _ _ _ _)

theorem tm_analyze (U : Universe) (level conflVar clauseId fuel : Nat) : TM U P (analyze U level conflVar clauseId fuel) := by
  unfold analyze
  ts
macro_rules | `(tactic| ts_lemma) => `(tactic| with_reducible exact tm_analyze _ _ _ _ _)

theorem tm_propagateAndLearn_loop (U : Universe) (fuel f level : Nat) : TM U P (propagateAndLearn.loop U fuel f level) := by
  induction f generalizing level with
  | zero => unfold propagateAndLearn.loop; exact tm_throw _
  | succ n ih =>
    unfold propagateAndLearn.loop
    ts_ih ih
macro_rules | `(tactic| ts_lemma) => `(tactic| with_reducible exact tm_propagateAndLearn_loop _ _ _ _)

theorem tm_propagateAndLearn (U : Universe) (level fuel : Nat) : TM U P (propagateAndLearn U level fuel) := by
  unfold propagateAndLearn
  ts
macro_rules | `(tactic| ts_lemma) => `(tactic| with_reducible exact tm_propagateAndLearn _ _ _)

theorem tm_resolveDependencies_loop (U : Universe) (fuel f level : Nat) : TM U P (resolveDependencies.loop U fuel f level) := by
  induction f generalizing level with
  | zero => unfold resolveDependencies.loop; exact tm_throw _
  | succ n ih =>
    unfold resolveDependencies.loop
    ts_ih ih
macro_rules | `(tactic| ts_lemma) => `(tactic| with_reducible exact tm_resolveDependencies_loop _ _ _ _)

theorem tm_resolveDependencies (U : Universe) (level fuel : Nat) : TM U P (resolveDependencies U level fuel) := by
  unfold resolveDependencies
  ts
macro_rules | `(tactic| ts_lemma) => `(tactic| with_reducible exact tm_resolveDependencies _ _ _)

theorem tm_processUnsolvable (root : SoR) (startLevel cid : Nat) : TM U P (processUnsolvable root startLevel cid) := by
  unfold processUnsolvable
  ts
macro_rules | `(tactic| ts_lemma) => `(tactic| with_reducible exact tm_processUnsolvable _ _ _)

theorem tm_runSat_loop (U : Universe) (P : Problem) (root : SoR) (fuel startLevel f level : Nat) :
    TM U P (runSat.loop U P root fuel startLevel f level) := by
  induction f generalizing level with
  | zero => unfold runSat.loop; exact tm_throw _
  | succ n ih =>
    unfold runSat.loop
    ts_ih ih
macro_rules | `(tactic| ts_lemma) => `(tactic| with_reducible exact tm_runSat_loop _ _ _ _ _ _ _)

theorem tm_runSat (U : Universe) (P : Problem) (root : SoR) (fuel : Nat) : TM U P (runSat U P root fuel) := by
  unfold runSat
  ts
macro_rules | `(tactic| ts_lemma) => `(tactic| with_reducible exact tm_runSat _ _ _ _)

theorem tinv_solve (U : Universe) (hU : WFU U) (P : Problem) (fuel : Nat) (s : S) : TInv U P (runM (solve U P fuel) s).2 := by
  unfold solve
  rw [runM_bind, runM_modify]
  dsimp only
  refine (TM.at ?_ _ ?_).1
  · apply tm_bind _ _ (tm_allocClause_root _)
    intro _
    apply tm_bind _ _ (tm_runSat U P none fuel)
    intro r
    have hloop : TM U P (forIn P.soft ((none : Option Answer), ()) fun sv __s => do
            let v ← internSolvable sv
            let s ← get
            if (valueOf s v).isNone = true then do
                addForbidMultiple U sv v
                let __do_lift ← runSat U P (some sv) fuel
                match __do_lift with
                  | SatResult.unsolvable c => pure (ForInStep.done (some (Answer.unsat c), ()))
                  | SatResult.sat ok => pure (ForInStep.yield (none, ()))
              else pure (ForInStep.yield (none, ()))) := by
      apply tm_forIn
      intro sv acc
      apply tm_of_tr (G := fun _ _ => True)
      apply tr_bind (by stab) (tr_internSolvable _ sv)
      intro v
      apply tr_bind (by stab) (tr_of_tm _ tm_get)
      intro s1
      split
      · refine tr_bind (by stab) (G := fun _ _ => True) ?_ (fun _ => ?_)
        · apply tr_addForbidMultiple
          intro s h
          exact h.1.2
        · tr_quiet
      · tr_quiet
    cases r with
    | unsolvable c => exact tm_pure _
    | sat b =>
      cases b with
      | false => exact tm_panic_bind _ _
      | true =>
        dsimp only
        apply tm_bind _ _ hloop
        intro _
        ts
  · refine ⟨⟨?_, ?_, ?_, ?_⟩, hU, rfl, ?_, ?_, ?_, ?_, ?_⟩
    · intro v x hv
      have hv' : List.lookup v [(0, Origin.root)] = some (.solvable x) := hv
      simp only [List.lookup_cons, List.lookup_nil] at hv'
      split at hv' <;> cases hv'
    · intro r x hr
      have hr' : List.lookup r ([] : List (Req × List (List Nat))) = some x := hr
      cases hr'
    · intro r x hr
      have hr' : List.lookup r ([] : List (Req × List (List Nat))) = some x := hr
      cases hr'
    · intro c hc
      have hc' : c ∈ ([] : List MClause) := hc
      cases hc'
    · intro v o hv
      have hv' : List.lookup v [(0, Origin.root)] = some o := hv
      show v < 1
      simp only [List.lookup_cons, List.lookup_nil] at hv'
      split at hv'
      · next he => have : v = 0 := by simpa using he
                   omega
      · cases hv'
    · intro x v hv; cases hv
    · intro c hc; cases hc
    · intro name tr hl; cases hl
    · intro t ht; cases ht

/-- **Every clause the model ever holds states a true fact of the provider's data** (all universes that respect the
    provider contract, problems, solver states carried over from earlier solves, completion orders, cancellation plans,
    fuel; whatever the outcome of the solve, including cancellation and panics). -/
theorem solveRun_tinv (U : Universe) (hU : WFU U) (P : Problem) (fuel : Nat) (s : S) : TInv U P (solveRun U P fuel s).2 := by
  have hm := tinv_solve U hU P fuel s
  have hrun : (solve U P fuel).run.run s = runM (solve U P fuel) s := rfl
  unfold solveRun
  rw [hrun]
  cases hr : runM (solve U P fuel) s with
  | mk r s' =>
    rw [hr] at hm
    cases r with
    | ok o => cases o <;> exact hm
    | error e => exact hm

end Resolvo.MDet
