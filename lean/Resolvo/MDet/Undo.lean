import Resolvo.MDet.Tracker
/-!
# What `undo_last` / `undo_until` leave behind (exact model of `decision_tracker.rs`)

Postconditions of the model's `undoLast` and `undoUntil`, for every state: the stack only loses its newest entries and,
after `undo_until(level)`, nothing above `level` is left on top. (`Tracker.lean` proves the map/stack agreement is kept.)
-/
namespace Resolvo.MDet

/-- what `undoLast` does to the state, when it returns -/
theorem runM_undoLast_ok (s s' : S) (r : Dec × Nat) (h : runM undoLast s = (.ok r, s')) :
    ∃ d rest, s.stack = d :: rest ∧ s'.stack = rest ∧ s'.amap = s.amap.filter (fun e => e.1 != d.var) := by
  unfold undoLast at h
  simp only [runM_bind, runM_get] at h
  cases hst : s.stack with
  | nil => rw [hst] at h; simp [panic] at h
  | cons d rest =>
    rw [hst] at h
    refine ⟨d, rest, rfl, ?_⟩
    simp only [runM_bind, runM_set, emit, runM_modify] at h
    cases rest with
    | nil => simp [panic] at h
    | cons t r2 =>
      simp only [runM_pure, Prod.mk.injEq] at h
      obtain ⟨_, h2⟩ := h
      subst h2
      exact ⟨rfl, rfl⟩

/-- **`undo_until(level)` leaves nothing above `level` on top** (every state, every level > 0 loop): when the loop
    returns, the stack is a suffix of the old one and either empty or its top entry has a level ≤ `level`. -/
theorem undoUntil_loop_post (level n : Nat) (s s' : S) (hn : s.stack.length < n)
    (h : runM (undoUntil.loop level n) s = (.ok (), s')) :
    (∃ pre, s.stack = pre ++ s'.stack) ∧
    (match s'.stack with | [] => True | d :: _ => levelOf s' d.var ≤ level) := by
  induction n generalizing s with
  | zero => cases hn
  | succ n ih =>
    unfold undoUntil.loop at h
    simp only [runM_bind, runM_get] at h
    cases hst : s.stack with
    | nil =>
      rw [hst] at h
      simp only [runM_pure, Prod.mk.injEq] at h
      obtain ⟨_, h2⟩ := h
      subst h2
      rw [hst]; exact ⟨⟨[], rfl⟩, trivial⟩
    | cons d rest =>
      rw [hst] at h
      dsimp only at h
      by_cases hl : levelOf s d.var ≤ level
      · rw [if_pos hl] at h
        simp only [runM_pure, Prod.mk.injEq] at h
        obtain ⟨_, h2⟩ := h
        subst h2
        rw [hst]; exact ⟨⟨[], rfl⟩, hl⟩
      · rw [if_neg hl] at h
        simp only [runM_bind] at h
        cases hu : runM undoLast s with
        | mk r s1 =>
          rw [hu] at h
          cases r with
          | error e => simp at h
          | ok r =>
            dsimp only at h
            obtain ⟨d', rest', h1, h2, _⟩ := runM_undoLast_ok s s1 r hu
            rw [hst] at h1
            cases h1
            have hlen : s1.stack.length < n := by rw [h2]; rw [hst] at hn; simp at hn; omega
            obtain ⟨⟨pre, hp⟩, hq⟩ := ih s1 hlen h
            refine ⟨⟨d :: pre, ?_⟩, hq⟩
            rw [h2] at hp; rw [hp]; rfl

/-- **`undo_until(level)`** (`decision_tracker.rs:66-91`; every state and level): when it returns, what is left of the
    decision stack is a suffix of what was there — nothing is reordered or invented — and nothing above `level` is left on
    top of it: the stack is empty or its newest entry was assigned at a level ≤ `level`. -/
theorem undoUntil_post (level : Nat) (s s' : S) (h : runM (undoUntil level) s = (.ok (), s')) :
    (∃ pre, s.stack = pre ++ s'.stack) ∧
    (match s'.stack with | [] => True | d :: _ => levelOf s' d.var ≤ level) := by
  unfold undoUntil at h
  split at h
  · simp only [runM_bind, emit, runM_modify, Prod.mk.injEq] at h
    obtain ⟨_, h2⟩ := h
    subst h2
    exact ⟨⟨s.stack, by simp⟩, trivial⟩
  · simp only [runM_bind, runM_get] at h
    exact undoUntil_loop_post level _ s s' (Nat.lt_succ_self _) h

/-- **`try_add_decision`** (`decision_tracker.rs`, every state): it never fails; it answers `some true` exactly when the
    variable had no value, and then pushes that one decision (value, reason) at the given level and changes nothing else on
    the stack; it answers `some false` exactly when the variable already had this value and `none` exactly when it had
    the opposite one, leaving stack and assignment map untouched in both cases — an assigned variable is never
    overwritten. -/
theorem tryAdd_post (v : Nat) (val : Bool) (reason level : Nat) (s : S) :
    ∃ r s', runM (tryAdd v val reason level) s = (.ok r, s') ∧
      (match valueOf s v with
       | none => r = some true ∧ s'.stack = ⟨v, val, reason⟩ :: s.stack ∧ valueOf s' v = some val ∧ levelOf s' v = level
       | some b => s'.stack = s.stack ∧ s'.amap = s.amap ∧ r = (if b == val then some false else none)) := by
  unfold tryAdd
  simp only [runM_bind, runM_get]
  cases hv : valueOf s v with
  | none =>
    simp only [runM_bind, emit, runM_modify, runM_pure]
    refine ⟨_, _, rfl, rfl, rfl, ?_, ?_⟩
    · simp [valueOf, List.lookup]
    · simp [levelOf, List.lookup]
  | some b =>
    dsimp only
    by_cases hb : (b == val) = true
    · rw [if_pos hb]; exact ⟨_, _, rfl, rfl, rfl, by rw [if_pos hb]⟩
    · rw [if_neg hb]; exact ⟨_, _, rfl, rfl, rfl, by rw [if_neg hb]⟩
end Resolvo.MDet
