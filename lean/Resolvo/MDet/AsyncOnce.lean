import Resolvo.MDet.Frame
/-!
# Run-level at-most-once for candidate requests in the asynchronous encoder model (C10)

`CInv`: the packages whose candidates have been requested in this solve are pairwise distinct, and each of them is
either answered (in the cache) or still in flight. One step of the encoder loop preserves it, so along every run —
any universe, problem, solver state, completion order — `get_candidates` is never issued twice for one package:
a second requester finds the answer cached or the request in flight and listens.
-/
set_option linter.unusedSimpArgs false
namespace Resolvo.MDet
open Resolvo

structure CInv (a : AS) (s : S) : Prop where
  nd : s.issuedCands.Nodup
  cov : ∀ n ∈ s.issuedCands, n ∈ s.fetchedCands ∨ (a.inflight.lookup n).isSome = true

/-- nothing relevant changed -/
theorem CInv.of_same {a a' : AS} {s s' : S} (h : CInv a s) (hi : a'.inflight = a.inflight) (hc : cacheView s' = cacheView s) :
    CInv a' s' := by
  have h1 : s'.fetchedCands = s.fetchedCands := congrArg Prod.fst hc
  have h2 : s'.issuedCands = s.issuedCands := congrArg Prod.snd hc
  exact ⟨by rw [h2]; exact h.nd, fun n hn => by rw [h1, hi]; exact h.cov n (h2 ▸ hn)⟩

theorem lookup_filter_ne (l : List (Nat × Nat)) (n m : Nat) (h : m ≠ n) :
    (l.filter (fun e => e.1 != n)).lookup m = l.lookup m := by
  induction l with
  | nil => rfl
  | cons x xs ih =>
    obtain ⟨k, v⟩ := x
    by_cases hk : k = n
    · subst hk
      have : ((k, v).1 != k) = false := by simp
      simp only [List.filter_cons, this, Bool.false_eq_true, if_false]
      rw [ih, List.lookup_cons]
      have : (m == k) = false := by simpa using h
      simp [this]
    · have : ((k, v).1 != n) = true := by simpa using hk
      simp only [List.filter_cons, this, if_true, List.lookup_cons]
      split
      · rfl
      · exact ih

theorem foldl_enqueue_inflight (l : List Nat) (a : AS) : (l.foldl enqueue a).inflight = a.inflight := by
  induction l generalizing a with
  | nil => rfl
  | cons x xs ih =>
    simp only [List.foldl_cons]
    rw [ih]
    unfold enqueue; split <;> rfl

theorem cinv_pollCands (U : Universe) (tid n : Nat) (w : CandWait) (a : AS) (s s' : S) (w' : CandWait) (a' : AS)
    (hi : CInv a s) (h : runM (pollCands U tid n w a) s = (.ok (w', a'), s')) : CInv a' s' := by
  unfold pollCands at h
  simp only [runM_bind, runM_get] at h
  cases w with
  | ready =>
    simp only [runM_pure, Prod.mk.injEq, Except.ok.injEq] at h
    obtain ⟨⟨_, rfl⟩, rfl⟩ := h; exact hi
  | notStarted =>
    simp only at h
    by_cases hf : s.fetchedCands.contains n = true
    · simp only [hf, if_true, runM_pure, Prod.mk.injEq, Except.ok.injEq] at h
      obtain ⟨⟨_, rfl⟩, rfl⟩ := h; exact hi
    · simp only [hf, Bool.false_eq_true, if_false, runM_bind, runM_pollCancel] at h
      by_cases hc : fires s = true
      · simp only [hc, if_true] at h; exact absurd h (by simp)
      · simp only [hc, Bool.false_eq_true, if_false] at h
        by_cases hfl : (a.inflight.lookup n).isSome = true
        · simp only [hfl, if_true, runM_pure, Prod.mk.injEq, Except.ok.injEq] at h
          obtain ⟨⟨_, rfl⟩, rfl⟩ := h
          exact hi.of_same rfl rfl
        · simp only [hfl, Bool.false_eq_true, if_false, runM_bind, runM_logCall, requestStarted, runM_modify, runM_pure,
            Prod.mk.injEq, Except.ok.injEq] at h
          obtain ⟨⟨_, rfl⟩, rfl⟩ := h
          have hnf : n ∉ s.fetchedCands := by
            intro hm; exact hf (by simpa using hm)
          have hni : n ∉ s.issuedCands := by
            intro hm
            cases hi.cov n hm with
            | inl h1 => exact hnf h1
            | inr h2 => exact hfl h2
          refine ⟨?_, ?_⟩
          · show (n :: s.issuedCands).Nodup
            exact List.nodup_cons.mpr ⟨hni, hi.nd⟩
          · intro m hm
            have hm' : m = n ∨ m ∈ s.issuedCands := by simpa using hm
            show m ∈ s.fetchedCands ∨ (List.lookup m ((n, tid) :: a.inflight)).isSome = true
            by_cases e : m = n
            · subst e; right; simp [List.lookup_cons]
            · cases hm' with
              | inl h1 => exact absurd h1 e
              | inr h1 =>
                cases hi.cov m h1 with
                | inl h2 => exact Or.inl h2
                | inr h2 =>
                  right
                  have : (m == n) = false := by simpa using e
                  simp only [List.lookup_cons, this]; exact h2
  | owner =>
    simp only at h
    by_cases ho : a.opened.contains s!"c{n}" = true
    · simp only [ho, if_true, runM_bind, finishCands, runM_modify, runM_pure, Prod.mk.injEq, Except.ok.injEq] at h
      obtain ⟨⟨_, rfl⟩, rfl⟩ := h
      refine ⟨hi.nd, ?_⟩
      intro m hm
      show m ∈ n :: s.fetchedCands ∨ _
      by_cases e : m = n
      · left; simp [e]
      · cases hi.cov m hm with
        | inl h2 => left; simp [h2]
        | inr h2 =>
          right
          rw [foldl_enqueue_inflight]
          show (List.lookup m (a.inflight.filter (fun e => e.1 != n))).isSome = true
          rw [lookup_filter_ne _ _ _ e]; exact h2
    · simp only [ho, Bool.false_eq_true, if_false, runM_pure, Prod.mk.injEq, Except.ok.injEq] at h
      obtain ⟨⟨_, rfl⟩, rfl⟩ := h; exact hi
  | listener =>
    simp only at h
    by_cases hf : s.fetchedCands.contains n = true
    · simp only [hf, if_true, runM_pure, Prod.mk.injEq, Except.ok.injEq] at h
      obtain ⟨⟨_, rfl⟩, rfl⟩ := h; exact hi
    · simp only [hf, Bool.false_eq_true, if_false, runM_pure, Prod.mk.injEq, Except.ok.injEq] at h
      obtain ⟨⟨_, rfl⟩, rfl⟩ := h; exact hi


/-- "quiet" steps: the in-flight table and the cache view are untouched -/
def Quiet (a : AS) (s : S) (a' : AS) (s' : S) : Prop := a'.inflight = a.inflight ∧ cacheView s' = cacheView s

theorem Quiet.cinv {a a' : AS} {s s' : S} (q : Quiet a s a' s') (h : CInv a s) : CInv a' s' := h.of_same q.1 q.2
theorem Quiet.refl (a : AS) (s : S) : Quiet a s a s := ⟨rfl, rfl⟩
theorem Quiet.trans {a b c : AS} {s t u : S} (h1 : Quiet a s b t) (h2 : Quiet b t c u) : Quiet a s c u :=
  ⟨h2.1.trans h1.1, h2.2.trans h1.2⟩

theorem pollGate_inflight (tid : Nat) (label : String) (e : Bool) (gid : Nat) (a : AS) :
    (pollGate tid label e gid a).2.2.inflight = a.inflight := by
  unfold pollGate
  split
  · rfl
  · split <;> rfl

theorem quiet_finishChild (sorted : Bool) (c : Child) (a : AS) (s s' : S) (c' : Child) (a' : AS)
    (h : runM (finishChild sorted c a) s = (.ok (c', a'), s')) : Quiet a s a' s' := by
  unfold finishChild at h
  cases sorted with
  | true =>
    simp only [if_true, runM_bind, runM_modify, runM_pure, Prod.mk.injEq, Except.ok.injEq] at h
    obtain ⟨⟨_, rfl⟩, rfl⟩ := h
    refine ⟨rfl, ?_⟩
    show cacheView (if _ then s else _) = _
    split <;> rfl
  | false =>
    simp only [Bool.false_eq_true, if_false, runM_bind, runM_pure, Prod.mk.injEq, Except.ok.injEq] at h
    obtain ⟨⟨_, rfl⟩, rfl⟩ := h
    exact Quiet.refl _ _

theorem quiet_sortStage (U : Universe) (tid : Nat) (g : Bool) (c : Child) (a : AS) (e : Bool) (s s' : S) (c' : Child) (a' : AS)
    (h : runM (sortStage U tid g c a e) s = (.ok (c', a'), s')) : Quiet a s a' s' := by
  unfold sortStage at h
  cases g with
  | false =>
    simp only [Bool.not_false, if_true] at h
    exact quiet_finishChild true c a s s' c' a' h
  | true =>
    simp only [Bool.not_true, Bool.false_eq_true, if_false] at h
    by_cases hok : (pollGate tid (sortLabel U c.vs) e c.gate a).1 = true
    · simp only [hok, if_true] at h
      have q := quiet_finishChild true c _ s s' c' a' h
      exact ⟨q.1.trans (pollGate_inflight _ _ _ _ _), q.2⟩
    · simp only [hok, Bool.false_eq_true, if_false, runM_pure, Prod.mk.injEq, Except.ok.injEq] at h
      obtain ⟨⟨_, rfl⟩, rfl⟩ := h
      exact ⟨pollGate_inflight _ _ _ _ _, rfl⟩

theorem quiet_filterStage (U : Universe) (tid : Nat) (g sorted : Bool) (c : Child) (a : AS) (e : Bool) (s s' : S)
    (c' : Child) (a' : AS) (h : runM (filterStage U tid g sorted c a e) s = (.ok (c', a'), s')) : Quiet a s a' s' := by
  unfold filterStage at h
  cases g with
  | false =>
    simp only [Bool.not_false, if_true] at h
    cases sorted with
    | true => simp only [if_true] at h; exact quiet_sortStage U tid false c a false s s' c' a' h
    | false => simp only [Bool.false_eq_true, if_false] at h; exact quiet_finishChild false c a s s' c' a' h
  | true =>
    simp only [Bool.not_true, Bool.false_eq_true, if_false] at h
    by_cases hok : (pollGate tid (filterLabel sorted c.vs) e c.gate a).1 = true
    · simp only [hok, if_true] at h
      cases sorted with
      | true =>
        simp only [if_true, runM_bind, runM_modify] at h
        have q := quiet_sortStage U tid true c _ false _ s' c' a' h
        refine ⟨q.1.trans (pollGate_inflight _ _ _ _ _), q.2.trans ?_⟩
        show cacheView (if _ then s else _) = _
        split <;> rfl
      | false =>
        simp only [Bool.false_eq_true, if_false, runM_bind, runM_modify] at h
        have q := quiet_finishChild false c _ _ s' c' a' h
        refine ⟨q.1.trans (pollGate_inflight _ _ _ _ _), q.2.trans ?_⟩
        show cacheView (if _ then s else _) = _
        split <;> rfl
    · simp only [hok, Bool.false_eq_true, if_false, runM_pure, Prod.mk.injEq, Except.ok.injEq] at h
      obtain ⟨⟨_, rfl⟩, rfl⟩ := h
      exact ⟨pollGate_inflight _ _ _ _ _, rfl⟩

theorem cinv_pollChild (U : Universe) (tid : Nat) (sorted : Bool) (c : Child) (a : AS) (s s' : S) (c' : Child) (a' : AS)
    (hi : CInv a s) (h : runM (pollChild U tid sorted c a) s = (.ok (c', a'), s')) : CInv a' s' := by
  unfold pollChild at h
  by_cases hd : c.done = true
  · simp only [hd, if_true, runM_pure, Prod.mk.injEq, Except.ok.injEq] at h
    obtain ⟨⟨_, rfl⟩, rfl⟩ := h; exact hi
  · simp only [hd, Bool.false_eq_true, if_false, runM_bind, runM_get] at h
    split at h
    · exact (quiet_sortStage U tid _ c a true s s' c' a' h).cinv hi
    · split at h
      · exact (quiet_filterStage U tid _ sorted c a true s s' c' a' h).cinv hi
      · split at h
        · simp only [runM_pure, Prod.mk.injEq, Except.ok.injEq] at h
          obtain ⟨⟨_, rfl⟩, rfl⟩ := h; exact hi
        · split at h
          · simp only [runM_pure, Prod.mk.injEq, Except.ok.injEq] at h
            obtain ⟨⟨_, rfl⟩, rfl⟩ := h; exact hi
          · split at h
            · exact (quiet_sortStage U tid _ c a false s s' c' a' h).cinv hi
            · simp only [runM_bind] at h
              cases hp : runM (pollCands U tid (U.vsName c.vs) c.wait a) s with
              | mk r s1 =>
                cases r with
                | error e => simp only [hp] at h; exact absurd h (by simp)
                | ok v =>
                  obtain ⟨w, a1⟩ := v
                  have h1 := cinv_pollCands U tid _ _ _ _ _ _ _ hi hp
                  simp only [hp] at h
                  by_cases hw : (w == CandWait.ready) = true
                  · simp only [hw, if_true] at h
                    exact (quiet_filterStage U tid _ sorted _ a1 false s1 s' c' a' h).cinv h1
                  · simp only [hw, Bool.false_eq_true, if_false, runM_pure, Prod.mk.injEq, Except.ok.injEq] at h
                    obtain ⟨⟨_, rfl⟩, rfl⟩ := h; exact h1

theorem cinv_pollChildren (U : Universe) (tid : Nat) (sorted : Bool) (cs : List Child) (a : AS) (s s' : S)
    (cs' : List Child) (a' : AS) (hi : CInv a s) (h : runM (pollChildren U tid sorted cs a) s = (.ok (cs', a'), s')) : CInv a' s' := by
  induction cs generalizing a s cs' a' s' with
  | nil =>
    simp only [pollChildren, runM_pure, Prod.mk.injEq, Except.ok.injEq] at h
    obtain ⟨⟨_, rfl⟩, rfl⟩ := h; exact hi
  | cons c cs ih =>
    simp only [pollChildren, runM_bind] at h
    cases hp : runM (pollChild U tid sorted c a) s with
    | mk r s1 =>
      cases r with
      | error e => simp only [hp] at h; exact absurd h (by simp)
      | ok v =>
        obtain ⟨c1, a1⟩ := v
        simp only [hp] at h
        cases hq : runM (pollChildren U tid sorted cs a1) s1 with
        | mk r2 s2 =>
          cases r2 with
          | error e => simp only [hq] at h; exact absurd h (by simp)
          | ok v2 =>
            obtain ⟨cs2, a2⟩ := v2
            simp only [hq, runM_pure, Prod.mk.injEq, Except.ok.injEq] at h
            obtain ⟨⟨_, rfl⟩, rfl⟩ := h
            exact ih a1 s1 s2 cs2 a2 (cinv_pollChild U tid sorted c a s s1 c1 a1 hi hp) hq


theorem cinv_pollTask (U : Universe) (P : Problem) (t : ATask) (a : AS) (s s' : S) (t' : ATask) (a' : AS)
    (res : Option TaskResult) (hi : CInv a s) (h : runM (pollTask U P t a) s = (.ok (t', a', res), s')) : CInv a' s' := by
  unfold pollTask at h
  cases ht : t.task with
  | deps sid =>
    rw [ht] at h
    cases sid with
    | none =>
      simp only [runM_pure, Prod.mk.injEq, Except.ok.injEq] at h
      obtain ⟨⟨_, rfl, _⟩, rfl⟩ := h; exact hi
    | some sv =>
      simp only [runM_bind, runM_get] at h
      cases hw : t.wait with
      | notStarted =>
        rw [hw] at h
        simp only at h
        by_cases hf : s.fetchedDeps.contains sv = true
        · simp only [hf, if_true, runM_pure, Prod.mk.injEq, Except.ok.injEq] at h
          obtain ⟨⟨_, rfl, _⟩, rfl⟩ := h; exact hi
        · simp only [hf, Bool.false_eq_true, if_false, runM_bind, startDeps, runM_pollCancel] at h
          by_cases hc : fires s = true
          · simp only [hc, if_true] at h; exact absurd h (by simp)
          · simp only [hc, Bool.false_eq_true, if_false, runM_bind, runM_logCall, requestStarted, runM_modify, runM_pure,
              Prod.mk.injEq, Except.ok.injEq] at h
            obtain ⟨⟨_, rfl, _⟩, rfl⟩ := h
            exact hi.of_same rfl rfl
      | owner =>
        rw [hw] at h
        simp only at h
        split at h
        · simp only [runM_bind, finishDeps, runM_modify, runM_pure, Prod.mk.injEq, Except.ok.injEq] at h
          obtain ⟨⟨_, rfl, _⟩, rfl⟩ := h; exact hi.of_same rfl rfl
        · simp only [runM_pure, Prod.mk.injEq, Except.ok.injEq] at h
          obtain ⟨⟨_, rfl, _⟩, rfl⟩ := h; exact hi
      | listener =>
        rw [hw] at h
        simp only at h
        split at h
        · simp only [runM_bind, finishDeps, runM_modify, runM_pure, Prod.mk.injEq, Except.ok.injEq] at h
          obtain ⟨⟨_, rfl, _⟩, rfl⟩ := h; exact hi.of_same rfl rfl
        · simp only [runM_pure, Prod.mk.injEq, Except.ok.injEq] at h
          obtain ⟨⟨_, rfl, _⟩, rfl⟩ := h; exact hi
      | ready =>
        rw [hw] at h
        simp only at h
        split at h
        · simp only [runM_bind, finishDeps, runM_modify, runM_pure, Prod.mk.injEq, Except.ok.injEq] at h
          obtain ⟨⟨_, rfl, _⟩, rfl⟩ := h; exact hi.of_same rfl rfl
        · simp only [runM_pure, Prod.mk.injEq, Except.ok.injEq] at h
          obtain ⟨⟨_, rfl, _⟩, rfl⟩ := h; exact hi
  | pkg n =>
    rw [ht] at h
    simp only [runM_bind] at h
    cases hp : runM (pollCands U t.id n t.wait a) s with
    | mk r s1 =>
      cases r with
      | error e => simp only [hp] at h; exact absurd h (by simp)
      | ok v =>
        obtain ⟨w, a1⟩ := v
        have h1 := cinv_pollCands U t.id n _ _ _ _ _ _ hi hp
        simp only [hp] at h
        by_cases hw : (w == CandWait.ready) = true
        · simp only [hw, if_true, runM_pure, Prod.mk.injEq, Except.ok.injEq] at h
          obtain ⟨⟨_, rfl, _⟩, rfl⟩ := h; exact h1
        · simp only [hw, Bool.false_eq_true, if_false, runM_pure, Prod.mk.injEq, Except.ok.injEq] at h
          obtain ⟨⟨_, rfl, _⟩, rfl⟩ := h; exact h1
  | req sid r =>
    rw [ht] at h
    simp only [runM_bind] at h
    cases hq : runM (pollChildren U t.id true t.children a) s with
    | mk r2 s2 =>
      cases r2 with
      | error e => simp only [hq] at h; exact absurd h (by simp)
      | ok v2 =>
        obtain ⟨cs2, a2⟩ := v2
        have h2 := cinv_pollChildren U t.id true t.children a s s2 cs2 a2 hi hq
        simp only [hq] at h
        by_cases hall : (cs2.all (·.done)) = true
        · simp only [hall, if_true, runM_pure, Prod.mk.injEq, Except.ok.injEq] at h
          obtain ⟨⟨_, rfl, _⟩, rfl⟩ := h; exact h2
        · simp only [hall, Bool.false_eq_true, if_false, runM_pure, Prod.mk.injEq, Except.ok.injEq] at h
          obtain ⟨⟨_, rfl, _⟩, rfl⟩ := h; exact h2
  | cons sid vs =>
    rw [ht] at h
    simp only [runM_bind] at h
    cases hq : runM (pollChildren U t.id false t.children a) s with
    | mk r2 s2 =>
      cases r2 with
      | error e => simp only [hq] at h; exact absurd h (by simp)
      | ok v2 =>
        obtain ⟨cs2, a2⟩ := v2
        have h2 := cinv_pollChildren U t.id false t.children a s s2 cs2 a2 hi hq
        simp only [hq] at h
        by_cases hall : (cs2.all (·.done)) = true
        · simp only [hall, if_true, runM_pure, Prod.mk.injEq, Except.ok.injEq] at h
          obtain ⟨⟨_, rfl, _⟩, rfl⟩ := h; exact h2
        · simp only [hall, Bool.false_eq_true, if_false, runM_pure, Prod.mk.injEq, Except.ok.injEq] at h
          obtain ⟨⟨_, rfl, _⟩, rfl⟩ := h; exact h2

theorem foldl_adoptOne_inflight (U : Universe) (q : List Task) (a : AS) : (q.foldl (adoptOne U) a).inflight = a.inflight := by
  induction q generalizing a with
  | nil => rfl
  | cons t ts ih => simp only [List.foldl_cons]; rw [ih]; rfl

theorem quiet_adoptPushed (U : Universe) (a : AS) (s s' : S) (a' : AS) (hr : runM (adoptPushed U a) s = (.ok a', s')) :
    Quiet a s a' s' := by
  unfold adoptPushed at hr
  simp only [runM_bind, runM_get, runM_set, runM_pure, Prod.mk.injEq, Except.ok.injEq] at hr
  obtain ⟨rfl, rfl⟩ := hr
  exact ⟨foldl_adoptOne_inflight U _ a, rfl⟩

theorem enqueue_inflight (a : AS) (tid : Nat) : (enqueue a tid).inflight = a.inflight := by
  unfold enqueue; split <;> rfl

theorem quiet_executorTurn (a : AS) (s s' : S) (a' : AS) (hr : runM (executorTurn a) s = (.ok a', s')) : Quiet a s a' s' := by
  unfold executorTurn at hr
  simp only [runM_bind, runM_modify, runM_get] at hr
  split at hr
  · exact absurd hr (by simp)
  · split at hr
    · simp only [runM_bind, runM_set, runM_pure, Prod.mk.injEq, Except.ok.injEq] at hr
      obtain ⟨rfl, rfl⟩ := hr
      exact ⟨enqueue_inflight _ _, rfl⟩
    · split at hr
      · simp only [runM_bind, runM_set, runM_pure, Prod.mk.injEq, Except.ok.injEq] at hr
        obtain ⟨rfl, rfl⟩ := hr
        exact ⟨enqueue_inflight _ _, rfl⟩
      · exact absurd hr (by simp)

/-- **one step of the encoder loop preserves the at-most-once invariant** -/
theorem asyncStep_cinv (U : Universe) (P : Problem) (a : AS) (s s' : S) (a' : AS) (hi : CInv a s)
    (h : runM (asyncStep U P a) s = (.ok (some a'), s')) : CInv a' s' := by
  unfold asyncStep at h
  simp only [runM_bind] at h
  cases hp : runM (adoptPushed U a) s with
  | mk r s1 =>
    cases r with
    | error e => simp only [hp] at h; exact absurd h (by simp)
    | ok a1 =>
      have hi1 := (quiet_adoptPushed U a s s1 a1 hp).cinv hi
      simp only [hp] at h
      cases hrd : a1.ready with
      | nil =>
        simp only [hrd] at h
        split at h
        · simp only [runM_pure, Prod.mk.injEq, Except.ok.injEq] at h
          exact absurd h.1 (by simp)
        · simp only [runM_bind] at h
          cases he : runM (executorTurn a1) s1 with
          | mk r2 s2 =>
            cases r2 with
            | error e => simp only [he] at h; exact absurd h (by simp)
            | ok a2 =>
              simp only [he, runM_pure, Prod.mk.injEq, Except.ok.injEq, Option.some.injEq] at h
              obtain ⟨rfl, rfl⟩ := h
              exact (quiet_executorTurn a1 s1 s2 a2 he).cinv hi1
      | cons tid rest =>
        simp only [hrd] at h
        have hi2 : CInv { a1 with ready := rest } s1 := hi1.of_same rfl rfl
        cases hfd : a1.tasks.find? (fun t => t.id == tid) with
        | none =>
          simp only [hfd, runM_pure, Prod.mk.injEq, Except.ok.injEq, Option.some.injEq] at h
          obtain ⟨rfl, rfl⟩ := h; exact hi2
        | some t =>
          simp only [hfd] at h
          by_cases hfin : t.finished = true
          · simp only [hfin, if_true, runM_pure, Prod.mk.injEq, Except.ok.injEq, Option.some.injEq] at h
            obtain ⟨rfl, rfl⟩ := h; exact hi2
          · simp only [hfin, Bool.false_eq_true, if_false, runM_bind] at h
            cases hpt : runM (pollTask U P t { a1 with ready := rest }) s1 with
            | mk r3 s3 =>
              cases r3 with
              | error e => simp only [hpt] at h; exact absurd h (by simp)
              | ok v =>
                obtain ⟨t', a3, res⟩ := v
                have hi3 := cinv_pollTask U P t _ s1 s3 t' a3 res hi2 hpt
                simp only [hpt] at h
                cases res with
                | none =>
                  simp only [runM_pure, Prod.mk.injEq, Except.ok.injEq, Option.some.injEq] at h
                  obtain ⟨rfl, rfl⟩ := h
                  exact hi3.of_same rfl rfl
                | some r =>
                  simp only [runM_bind] at h
                  cases hcb : runM (runCallback U P r) s3 with
                  | mk r4 s4 =>
                    have hpres : cacheView s4 = cacheView s3 := by
                      have := pres_runCallback U P r
                      unfold Preserves at this
                      have h5 := this s3; rw [hcb] at h5; exact h5
                    cases r4 with
                    | error e => simp only [hcb] at h; exact absurd h (by simp)
                    | ok u =>
                      simp only [hcb, runM_pure, Prod.mk.injEq, Except.ok.injEq, Option.some.injEq] at h
                      obtain ⟨rfl, rfl⟩ := h
                      exact hi3.of_same rfl hpres

/-- the encoder loop, started in a state that satisfies the invariant with nothing in flight -/
inductive ReachFrom (U : Universe) (P : Problem) (s0 : S) : AS → S → Prop
  | start : ReachFrom U P s0 {} s0
  | step {a a' : AS} {s s' : S} : ReachFrom U P s0 a s → runM (asyncStep U P a) s = (.ok (some a'), s') → ReachFrom U P s0 a' s'

/-- **C10, run level (model).** If, when `encode` starts, the candidate requests of this solve are pairwise distinct and
    all answered (which is the case at the start of a solve - nothing has been requested - and, by this very theorem, at
    the end of every earlier `encode` of the solve), then in every state the encoder loop reaches - any universe,
    problem and completion order - they are still pairwise distinct: `get_candidates` is never issued twice for a package. -/
theorem candidates_requested_at_most_once {U : Universe} {P : Problem} {s0 : S} {a : AS} {s : S}
    (h0 : s0.issuedCands.Nodup) (h1 : ∀ n ∈ s0.issuedCands, n ∈ s0.fetchedCands) (h : ReachFrom U P s0 a s) :
    s.issuedCands.Nodup ∧ ∀ n ∈ s.issuedCands, n ∈ s.fetchedCands ∨ (a.inflight.lookup n).isSome = true := by
  have : CInv a s := by
    induction h with
    | start => exact ⟨h0, fun n hn => Or.inl (h1 n hn)⟩
    | step _ hs ih => exact asyncStep_cinv U P _ _ _ _ ih hs
  exact ⟨this.nd, this.cov⟩

end Resolvo.MDet
