import Resolvo.MDet.AsyncOnce
import Resolvo.MDet.LogSpec
/-!
# Run-level at-most-once for dependency requests in the asynchronous encoder model (C10)

`get_dependencies(s)` is requested by the future of the task `deps s`; such a task is pushed by `queue_solvable` only,
which first consults (and extends) the solve-wide set of processed solvables. `DInv`: the `deps` tasks that exist
(adopted or still in the push queue) are pairwise distinct and all recorded as processed, every solvable whose
dependencies have been requested in this solve is recorded as processed, and a task that has not started yet has not
been requested. One step of the encoder loop preserves it — for every universe, problem, solver state and completion
order — so `get_dependencies` is never issued twice for one solvable (`dependencies_requested_at_most_once`).

The callbacks of the encoder are covered by a relational specification (`QR`: what they may do to the push queue,
the processed set and the request record) proved with the same compositional machinery as `LogSpec.lean`.
-/
set_option linter.unusedSimpArgs false
namespace Resolvo.MDet
open Resolvo Resolvo.Sat Resolvo.Abs

/-- the solvables whose `deps` task occurs in a list of tasks -/
def depsOf (l : List Task) : List Nat :=
  l.filterMap (fun t => match t with | .deps (some sv) => some sv | _ => none)

theorem depsOf_append (a b : List Task) : depsOf (a ++ b) = depsOf a ++ depsOf b := by
  unfold depsOf; rw [List.filterMap_append]

/-- what a callback may do: the request record is untouched, the processed set grows, the push queue is extended by
    tasks whose `deps` entries are new (not processed before, processed now) and pairwise distinct -/
def QR (s s' : S) : Prop :=
  s'.issuedDeps = s.issuedDeps ∧ (∀ x ∈ s.addedSolv, x ∈ s'.addedSolv) ∧
  ∃ new, s'.queue = s.queue ++ new ∧ (depsOf new).Nodup ∧
    ∀ sv ∈ depsOf new, some sv ∉ s.addedSolv ∧ some sv ∈ s'.addedSolv

theorem QR.refl (s : S) : QR s s := ⟨rfl, fun _ h => h, [], by simp, List.Pairwise.nil, fun _ h => by cases h⟩

theorem QR.of_view {s s' : S} (h1 : s'.issuedDeps = s.issuedDeps) (h2 : s'.addedSolv = s.addedSolv) (h3 : s'.queue = s.queue) :
    QR s s' := ⟨h1, fun x hx => by rw [h2]; exact hx, [], by simp [h3], List.Pairwise.nil, fun _ h => by cases h⟩

theorem QR.trans {a b c : S} (h1 : QR a b) (h2 : QR b c) : QR a c := by
  obtain ⟨i1, s1, n1, q1, d1, f1⟩ := h1
  obtain ⟨i2, s2, n2, q2, d2, f2⟩ := h2
  refine ⟨i2.trans i1, fun x hx => s2 x (s1 x hx), n1 ++ n2, by rw [q2, q1, List.append_assoc], ?_, ?_⟩
  · rw [depsOf_append]
    refine List.nodup_append.mpr ⟨d1, d2, ?_⟩
    intro x hx1 y hy2 hxy
    subst hxy
    exact (f2 x hy2).1 (f1 x hx1).2
  · intro sv hsv
    rw [depsOf_append] at hsv
    rcases List.mem_append.mp hsv with h | h
    · exact ⟨(f1 sv h).1, s2 _ (f1 sv h).2⟩
    · exact ⟨fun hm => (f2 sv h).1 (s1 _ hm), (f2 sv h).2⟩

def QSpecAt {α : Type} (x : M α) (s : S) : Prop := QR s (runM x s).2
def QSpec {α : Type} (x : M α) : Prop := ∀ s, QSpecAt x s

theorem qspec_pure {α : Type} (a : α) : QSpec (pure a : M α) := fun s => QR.refl s
theorem qspec_get : QSpec (get : M S) := fun s => QR.refl s
theorem qspec_panic {α : Type} (site : String) : QSpec (panic site : M α) := fun s => QR.refl s
theorem qspec_throw {α : Type} (e : Stop) : QSpec (throw e : M α) := fun s => QR.refl s
theorem qspec_modify (g : S → S) (h : ∀ s, QR s (g s)) : QSpec (modify g : M Unit) := fun s => h s

theorem qspecAt_bind {α β : Type} (x : M α) (k : α → M β) (s : S) (hx : QSpecAt x s)
    (hk : ∀ a s1, runM x s = (.ok a, s1) → QSpecAt (k a) s1) : QSpecAt (x >>= k) s := by
  unfold QSpecAt at *
  rw [runM_bind]
  cases h : runM x s with
  | mk r s1 =>
    rw [h] at hx
    cases r with
    | error e => exact hx
    | ok a => exact QR.trans hx (hk a s1 h)

theorem qspec_bind {α β : Type} (x : M α) (k : α → M β) (hx : QSpec x) (hk : ∀ a, QSpec (k a)) : QSpec (x >>= k) :=
  fun s => qspecAt_bind x k s (hx s) (fun a s1 _ => hk a s1)

theorem qspec_get_bind {β : Type} (k : S → M β) (hk : ∀ s, QSpecAt (k s) s) : QSpec (get >>= k) := by
  intro s
  apply qspecAt_bind _ _ _ (qspec_get s)
  intro a s1 h
  simp only [runM_get, Prod.mk.injEq, Except.ok.injEq] at h
  obtain ⟨rfl, rfl⟩ := h
  exact hk _

theorem qspecAt_set_bind {β : Type} (s' s : S) (k : Unit → M β) (h : QR s s') (hk : QSpec (k ())) :
    QSpecAt (set s' >>= k) s := by
  apply qspecAt_bind
  · exact h
  · intro a s1 h1
    simp only [runM_set, Prod.mk.injEq, Except.ok.injEq] at h1
    obtain ⟨_, rfl⟩ := h1
    exact hk _

theorem qspec_forIn {γ δ : Type} (xs : List γ) (init : δ) (body : γ → δ → M (ForInStep δ))
    (h : ∀ x b, QSpec (body x b)) : QSpec (forIn xs init body) := by
  induction xs generalizing init with
  | nil => simp only [List.forIn_nil]; exact qspec_pure _
  | cons x xs ih =>
    simp only [List.forIn_cons]
    apply qspec_bind _ _ (h x init)
    intro r
    cases r with
    | done b => exact qspec_pure b
    | yield b => exact ih b

theorem QSpec.at {α : Type} {x : M α} (h : QSpec x) (s : S) : QSpecAt x s := h s

/-! ### the three functions that touch the push queue -/

theorem qspec_queueSolvable (sid : SoR) : QSpec (queueSolvable sid) := by
  unfold queueSolvable
  apply qspec_get_bind
  intro s
  split
  · exact qspec_pure _ s
  · next hn =>
    apply qspecAt_set_bind
    · refine ⟨rfl, fun x hx => List.mem_cons_of_mem _ hx, [Task.deps sid], rfl, ?_, ?_⟩
      · cases sid <;> simp [depsOf]
      · intro sv hsv
        cases sid with
        | none => simp [depsOf] at hsv
        | some sv' =>
          simp [depsOf] at hsv
          subst hsv
          refine ⟨?_, List.mem_cons_self⟩
          intro hm
          exact hn (List.contains_iff_mem.mpr hm)
    · exact qspec_modify _ (fun _ => QR.of_view rfl rfl rfl)

theorem qspec_queuePackage (n : Nat) : QSpec (queuePackage n) := by
  unfold queuePackage
  apply qspec_get_bind
  intro s
  split
  · exact qspec_pure _ s
  · apply qspecAt_set_bind
    · exact ⟨rfl, fun x hx => hx, [Task.pkg n], rfl, by simp [depsOf], fun sv hsv => by simp [depsOf] at hsv⟩
    · exact qspec_modify _ (fun _ => QR.of_view rfl rfl rfl)

theorem qspec_pushReq (sid : SoR) (r : Req) : QSpec (pushTask (.req sid r)) := by
  unfold pushTask
  exact qspec_modify _ (fun s => ⟨rfl, fun x hx => hx, [Task.req sid r], rfl, by simp [depsOf], fun sv hsv => by simp [depsOf] at hsv⟩)

theorem qspec_pushCons (sid : SoR) (vs : Nat) : QSpec (pushTask (.cons sid vs)) := by
  unfold pushTask
  exact qspec_modify _ (fun s => ⟨rfl, fun x hx => hx, [Task.cons sid vs], rfl, by simp [depsOf], fun sv hsv => by simp [depsOf] at hsv⟩)

theorem qspec_pollCancel : QSpec pollCancel := by
  intro s
  unfold QSpecAt
  rw [runM_pollCancel]
  split <;> exact QR.of_view rfl rfl rfl

attribute [irreducible] QSpec

/-! ### automation -/

syntax "qs_lemma" : tactic
macro_rules | `(tactic| qs_lemma) => `(tactic| fail "no QSpec lemma applies")

macro "qs_step" : tactic => `(tactic| first
  | qs_lemma
  | with_reducible exact qspec_pure _
  | with_reducible exact qspec_get
  | with_reducible exact qspec_panic _
  | with_reducible exact qspec_throw _
  | with_reducible exact qspec_queueSolvable _
  | with_reducible exact qspec_queuePackage _
  | with_reducible exact qspec_pushReq _ _
  | with_reducible exact qspec_pushCons _ _
  | with_reducible exact qspec_pollCancel
  | with_reducible assumption
  | ((with_reducible apply qspec_modify); intro _; first | exact QR.of_view rfl rfl rfl | (split <;> exact QR.of_view rfl rfl rfl))
  | ((with_reducible apply qspec_forIn); intro _ _)
  | with_reducible apply qspec_bind
  | intro _
  | split
  | dsimp only)

macro "qs" : tactic => `(tactic| repeat qs_step)

macro "qs_at" : tactic => `(tactic| repeat (first
  | exact (qspec_pure _).at _
  | exact (qspec_panic _).at _
  | (apply qspecAt_set_bind
     · exact QR.of_view rfl rfl rfl
     · qs)
  | split
  | dsimp only))

theorem qspec_emit (e : Ev) : QSpec (emit e) := qspec_modify _ (fun _ => QR.of_view rfl rfl rfl)
macro_rules | `(tactic| qs_lemma) => `(tactic| with_reducible exact qspec_emit _)
theorem qspec_setWatchList (l : Lit) (cs : List Nat) : QSpec (setWatchList l cs) := qspec_modify _ (fun _ => QR.of_view rfl rfl rfl)
macro_rules | `(tactic| qs_lemma) => `(tactic| with_reducible exact qspec_setWatchList _ _)

theorem qspec_internSolvable (sv : Nat) : QSpec (internSolvable sv) := by
  unfold internSolvable
  apply qspec_get_bind
  intro s
  qs_at
macro_rules | `(tactic| qs_lemma) => `(tactic| with_reducible exact qspec_internSolvable _)

theorem qspec_internSoR (sid : SoR) : QSpec (internSoR sid) := by
  cases sid with
  | none => exact qspec_pure _
  | some sv => exact qspec_internSolvable sv
macro_rules | `(tactic| qs_lemma) => `(tactic| with_reducible exact qspec_internSoR _)

theorem qspec_allocForbidVar (name : Nat) : QSpec (allocForbidVar name) := by
  unfold allocForbidVar
  apply qspec_get_bind
  intro s
  qs_at
macro_rules | `(tactic| qs_lemma) => `(tactic| with_reducible exact qspec_allocForbidVar _)

theorem qspec_allocClause (k : Kind) (w : Option (Lit × Lit)) : QSpec (allocClause k w) := by
  unfold allocClause
  qs
macro_rules | `(tactic| qs_lemma) => `(tactic| with_reducible exact qspec_allocClause _ _)

theorem qspec_startWatching (id : Nat) : QSpec (startWatching id) := by
  unfold startWatching
  qs
macro_rules | `(tactic| qs_lemma) => `(tactic| with_reducible exact qspec_startWatching _)

theorem qspec_addExclusionClause (sid : SoR) (reason : Nat) : QSpec (addExclusionClause sid reason) := by
  unfold addExclusionClause
  qs
macro_rules | `(tactic| qs_lemma) => `(tactic| with_reducible exact qspec_addExclusionClause _ _)

theorem qspec_addForbidMultiple (U : Universe) (c v : Nat) : QSpec (addForbidMultiple U c v) := by
  unfold addForbidMultiple
  qs
macro_rules | `(tactic| qs_lemma) => `(tactic| with_reducible exact qspec_addForbidMultiple _ _ _)

theorem qspec_onDependencies (U : Universe) (P : Problem) (sid : SoR) (d : Deps) : QSpec (onDependencies U P sid d) := by
  unfold onDependencies
  qs

theorem qspec_onCandidates (name : Nat) (p : Pkg) : QSpec (onCandidates name p) := by
  unfold onCandidates
  qs

theorem qspec_onRequirementCandidates (U : Universe) (sid : SoR) (r : Req) (cs : List (List Nat)) :
    QSpec (onRequirementCandidates U sid r cs) := by
  unfold onRequirementCandidates
  qs

theorem qspec_onConstraintCandidates (sid : SoR) (vs : Nat) (cs : List Nat) : QSpec (onConstraintCandidates sid vs cs) := by
  unfold onConstraintCandidates
  qs

/-- what a callback of the encoder may do to the push queue, the processed set and the request record -/
theorem qr_runCallback (U : Universe) (P : Problem) (r : TaskResult) (s : S) : QR s (runM (runCallback U P r) s).2 := by
  cases r with
  | deps sid d => exact (qspec_onDependencies U P sid d).at s
  | cands n p => exact (qspec_onCandidates n p).at s
  | req sid r lists => exact (qspec_onRequirementCandidates U sid r lists).at s
  | cons sid vs l => exact (qspec_onConstraintCandidates sid vs l).at s

/-! ### the polling functions other than the `deps` future leave queue, processed set and request record alone -/

theorem qspec_requestStarted : QSpec requestStarted := qspec_modify _ (fun _ => QR.of_view rfl rfl rfl)
macro_rules | `(tactic| qs_lemma) => `(tactic| with_reducible exact qspec_requestStarted)
theorem qspec_logCall (w : String) (g : GEv) : QSpec (logCall w g) := qspec_modify _ (fun _ => QR.of_view rfl rfl rfl)
macro_rules | `(tactic| qs_lemma) => `(tactic| with_reducible exact qspec_logCall _ _)
theorem qspec_finishCands (U : Universe) (n : Nat) : QSpec (finishCands U n) := by
  unfold finishCands
  qs
macro_rules | `(tactic| qs_lemma) => `(tactic| with_reducible exact qspec_finishCands _ _)

theorem qspec_pollCands (U : Universe) (tid n : Nat) (w : CandWait) (a : AS) : QSpec (pollCands U tid n w a) := by
  unfold pollCands
  qs
macro_rules | `(tactic| qs_lemma) => `(tactic| with_reducible exact qspec_pollCands _ _ _ _ _)

theorem qspec_finishChild (sorted : Bool) (c : Child) (a : AS) : QSpec (finishChild sorted c a) := by
  unfold finishChild
  qs
macro_rules | `(tactic| qs_lemma) => `(tactic| with_reducible exact qspec_finishChild _ _ _)

theorem qspec_sortStage (U : Universe) (tid : Nat) (g : Bool) (c : Child) (a : AS) (e : Bool) : QSpec (sortStage U tid g c a e) := by
  unfold sortStage
  qs
macro_rules | `(tactic| qs_lemma) => `(tactic| with_reducible exact qspec_sortStage _ _ _ _ _ _)

theorem qspec_filterStage (U : Universe) (tid : Nat) (g sorted : Bool) (c : Child) (a : AS) (e : Bool) :
    QSpec (filterStage U tid g sorted c a e) := by
  unfold filterStage
  qs
macro_rules | `(tactic| qs_lemma) => `(tactic| with_reducible exact qspec_filterStage _ _ _ _ _ _ _)

theorem qspec_pollChild (U : Universe) (tid : Nat) (sorted : Bool) (c : Child) (a : AS) : QSpec (pollChild U tid sorted c a) := by
  unfold pollChild
  qs
macro_rules | `(tactic| qs_lemma) => `(tactic| with_reducible exact qspec_pollChild _ _ _ _ _)

theorem qspec_pollChildren (U : Universe) (tid : Nat) (sorted : Bool) (cs : List Child) (a : AS) :
    QSpec (pollChildren U tid sorted cs a) := by
  induction cs generalizing a with
  | nil => unfold pollChildren; exact qspec_pure _
  | cons c cs ih =>
    unfold pollChildren
    apply qspec_bind _ _ (qspec_pollChild U tid sorted c a)
    intro r
    apply qspec_bind _ _ (ih _)
    intro r2
    exact qspec_pure _

theorem qr_of_run {α : Type} {x : M α} (hx : QSpec x) {s s' : S} {r : Except Stop α} (h : runM x s = (r, s')) : QR s s' := by
  have := hx.at s
  unfold QSpecAt at this
  rw [h] at this
  exact this

/-- the executor's turn touches the schedule and the event log only -/
theorem qr_executorTurn (a : AS) (s s' : S) (a' : AS) (hr : runM (executorTurn a) s = (.ok a', s')) : QR s s' := by
  unfold executorTurn at hr
  simp only [runM_bind, runM_modify, runM_get] at hr
  split at hr
  · exact absurd hr (by simp)
  · split at hr
    · simp only [runM_bind, runM_set, runM_pure, Prod.mk.injEq, Except.ok.injEq] at hr
      obtain ⟨_, rfl⟩ := hr
      exact QR.of_view rfl rfl rfl
    · split at hr
      · simp only [runM_bind, runM_set, runM_pure, Prod.mk.injEq, Except.ok.injEq] at hr
        obtain ⟨_, rfl⟩ := hr
        exact QR.of_view rfl rfl rfl
      · exact absurd hr (by simp)

/-! ### one poll of a future, as far as dependency requests are concerned -/

/-- Either the future is the not-yet-started `deps sv` future and exactly its request is recorded, or nothing
    relevant happens (`QR`) and a future that is still not started was not started before. The task never changes. -/
theorem pollTask_dspec (U : Universe) (P : Problem) (t : ATask) (a : AS) (s s' : S) (t' : ATask) (a' : AS)
    (res : Option TaskResult) (h : runM (pollTask U P t a) s = (.ok (t', a', res), s')) :
    t'.task = t.task ∧
    ((∃ sv, t.task = .deps (some sv) ∧ t.wait = .notStarted ∧ s'.issuedDeps = sv :: s.issuedDeps ∧
        s'.addedSolv = s.addedSolv ∧ s'.queue = s.queue ∧ t'.wait ≠ .notStarted) ∨
     (QR s s' ∧ (t'.wait = .notStarted → t.wait = .notStarted))) := by
  unfold pollTask at h
  cases ht : t.task with
  | deps sid =>
    rw [ht] at h
    cases sid with
    | none =>
      simp only [runM_pure, Prod.mk.injEq, Except.ok.injEq] at h
      obtain ⟨⟨rfl, rfl, _⟩, rfl⟩ := h
      exact ⟨(by first | rfl | exact ht), Or.inr ⟨QR.refl _, fun hw => hw⟩⟩
    | some sv =>
      simp only [runM_bind, runM_get] at h
      cases hw : t.wait with
      | notStarted =>
        rw [hw] at h
        simp only at h
        by_cases hf : s.fetchedDeps.contains sv = true
        · simp only [hf, if_true, runM_pure, Prod.mk.injEq, Except.ok.injEq] at h
          obtain ⟨⟨rfl, rfl, _⟩, rfl⟩ := h
          exact ⟨(by first | rfl | exact ht), Or.inr ⟨QR.refl _, fun _ => rfl⟩⟩
        · simp only [hf, Bool.false_eq_true, if_false, runM_bind, startDeps, runM_pollCancel] at h
          by_cases hc : fires s = true
          · simp only [hc, if_true] at h; exact absurd h (by simp)
          · simp only [hc, Bool.false_eq_true, if_false, runM_bind, runM_logCall, requestStarted, runM_modify, runM_pure,
              Prod.mk.injEq, Except.ok.injEq] at h
            obtain ⟨⟨rfl, rfl, _⟩, rfl⟩ := h
            exact ⟨(by first | rfl | exact ht), Or.inl ⟨sv, rfl, rfl, rfl, rfl, rfl, by simp⟩⟩
      | owner =>
        rw [hw] at h
        simp only at h
        split at h
        · simp only [runM_bind, finishDeps, runM_modify, runM_pure, Prod.mk.injEq, Except.ok.injEq] at h
          obtain ⟨⟨rfl, rfl, _⟩, rfl⟩ := h
          exact ⟨(by first | rfl | exact ht), Or.inr ⟨QR.of_view rfl rfl rfl, fun hx => by simp at hx⟩⟩
        · simp only [runM_pure, Prod.mk.injEq, Except.ok.injEq] at h
          obtain ⟨⟨rfl, rfl, _⟩, rfl⟩ := h
          exact ⟨(by first | rfl | exact ht), Or.inr ⟨QR.refl _, fun hx => by rw [hw] at hx; cases hx⟩⟩
      | listener =>
        rw [hw] at h
        simp only at h
        split at h
        · simp only [runM_bind, finishDeps, runM_modify, runM_pure, Prod.mk.injEq, Except.ok.injEq] at h
          obtain ⟨⟨rfl, rfl, _⟩, rfl⟩ := h
          exact ⟨(by first | rfl | exact ht), Or.inr ⟨QR.of_view rfl rfl rfl, fun hx => by simp at hx⟩⟩
        · simp only [runM_pure, Prod.mk.injEq, Except.ok.injEq] at h
          obtain ⟨⟨rfl, rfl, _⟩, rfl⟩ := h
          exact ⟨(by first | rfl | exact ht), Or.inr ⟨QR.refl _, fun hx => by rw [hw] at hx; cases hx⟩⟩
      | ready =>
        rw [hw] at h
        simp only at h
        split at h
        · simp only [runM_bind, finishDeps, runM_modify, runM_pure, Prod.mk.injEq, Except.ok.injEq] at h
          obtain ⟨⟨rfl, rfl, _⟩, rfl⟩ := h
          exact ⟨(by first | rfl | exact ht), Or.inr ⟨QR.of_view rfl rfl rfl, fun hx => by simp at hx⟩⟩
        · simp only [runM_pure, Prod.mk.injEq, Except.ok.injEq] at h
          obtain ⟨⟨rfl, rfl, _⟩, rfl⟩ := h
          exact ⟨(by first | rfl | exact ht), Or.inr ⟨QR.refl _, fun hx => by rw [hw] at hx; cases hx⟩⟩
  | pkg n =>
    rw [ht] at h
    simp only [runM_bind] at h
    cases hp : runM (pollCands U t.id n t.wait a) s with
    | mk r s1 =>
      cases r with
      | error e => simp only [hp] at h; exact absurd h (by simp)
      | ok v =>
        obtain ⟨w, a1⟩ := v
        have hq := qr_of_run (qspec_pollCands U t.id n t.wait a) hp
        have hs := (pollCands_spec U t.id n _ _ _ _ _ _ hp).1
        simp only [hp] at h
        by_cases hw : (w == CandWait.ready) = true
        · simp only [hw, if_true, runM_pure, Prod.mk.injEq, Except.ok.injEq] at h
          obtain ⟨⟨rfl, rfl, _⟩, rfl⟩ := h
          exact ⟨(by first | rfl | exact ht), Or.inr ⟨hq, fun hx => absurd hx hs⟩⟩
        · simp only [hw, Bool.false_eq_true, if_false, runM_pure, Prod.mk.injEq, Except.ok.injEq] at h
          obtain ⟨⟨rfl, rfl, _⟩, rfl⟩ := h
          exact ⟨(by first | rfl | exact ht), Or.inr ⟨hq, fun hx => absurd hx hs⟩⟩
  | req sid r =>
    rw [ht] at h
    simp only [runM_bind] at h
    cases hq : runM (pollChildren U t.id true t.children a) s with
    | mk r2 s2 =>
      cases r2 with
      | error e => simp only [hq] at h; exact absurd h (by simp)
      | ok v2 =>
        obtain ⟨cs2, a2⟩ := v2
        have hqr := qr_of_run (qspec_pollChildren U t.id true t.children a) hq
        simp only [hq] at h
        by_cases hall : (cs2.all (·.done)) = true
        · simp only [hall, if_true, runM_pure, Prod.mk.injEq, Except.ok.injEq] at h
          obtain ⟨⟨rfl, rfl, _⟩, rfl⟩ := h
          exact ⟨(by first | rfl | exact ht), Or.inr ⟨hqr, fun hx => hx⟩⟩
        · simp only [hall, Bool.false_eq_true, if_false, runM_pure, Prod.mk.injEq, Except.ok.injEq] at h
          obtain ⟨⟨rfl, rfl, _⟩, rfl⟩ := h
          exact ⟨(by first | rfl | exact ht), Or.inr ⟨hqr, fun hx => hx⟩⟩
  | cons sid vs =>
    rw [ht] at h
    simp only [runM_bind] at h
    cases hq : runM (pollChildren U t.id false t.children a) s with
    | mk r2 s2 =>
      cases r2 with
      | error e => simp only [hq] at h; exact absurd h (by simp)
      | ok v2 =>
        obtain ⟨cs2, a2⟩ := v2
        have hqr := qr_of_run (qspec_pollChildren U t.id false t.children a) hq
        simp only [hq] at h
        by_cases hall : (cs2.all (·.done)) = true
        · simp only [hall, if_true, runM_pure, Prod.mk.injEq, Except.ok.injEq] at h
          obtain ⟨⟨rfl, rfl, _⟩, rfl⟩ := h
          exact ⟨(by first | rfl | exact ht), Or.inr ⟨hqr, fun hx => hx⟩⟩
        · simp only [hall, Bool.false_eq_true, if_false, runM_pure, Prod.mk.injEq, Except.ok.injEq] at h
          obtain ⟨⟨rfl, rfl, _⟩, rfl⟩ := h
          exact ⟨(by first | rfl | exact ht), Or.inr ⟨hqr, fun hx => hx⟩⟩

/-! ### the invariant -/

/-- `q` is the push queue (tasks pushed by callbacks, not yet adopted by the encoder loop) -/
structure DInv (a : AS) (s : S) (q : List Task) : Prop where
  nd : s.issuedDeps.Nodup
  iss : ∀ sv ∈ s.issuedDeps, some sv ∈ s.addedSolv
  tAdded : ∀ t ∈ a.tasks, ∀ sv, t.task = .deps (some sv) → some sv ∈ s.addedSolv
  tUniq : ∀ t1 ∈ a.tasks, ∀ t2 ∈ a.tasks, ∀ sv, t1.task = .deps (some sv) → t2.task = .deps (some sv) → t1.id = t2.id
  tFresh : ∀ t ∈ a.tasks, ∀ sv, t.task = .deps (some sv) → t.wait = .notStarted → sv ∉ s.issuedDeps
  qNd : (depsOf q).Nodup
  qNew : ∀ sv ∈ depsOf q, sv ∉ s.issuedDeps ∧ some sv ∈ s.addedSolv ∧ ∀ t ∈ a.tasks, t.task ≠ .deps (some sv)

theorem mem_depsOf (q : List Task) (sv : Nat) : sv ∈ depsOf q ↔ Task.deps (some sv) ∈ q := by
  unfold depsOf
  simp only [List.mem_filterMap]
  constructor
  · rintro ⟨t, ht, hm⟩
    cases t with
    | deps sid =>
      cases sid with
      | none => simp at hm
      | some x => simp at hm; subst hm; exact ht
    | pkg n => simp at hm
    | req p r => simp at hm
    | cons p vs => simp at hm
  · intro h
    exact ⟨_, h, rfl⟩

/-- anything that satisfies `QR` (callbacks, polls of other futures, the executor) preserves the invariant -/
theorem dinv_qr {a : AS} {s s' : S} (h : DInv a s s.queue) (hq : QR s s') : DInv a s' s'.queue := by
  obtain ⟨hi, hsub, new, hqueue, hnd, hnew⟩ := hq
  refine ⟨by rw [hi]; exact h.nd, fun sv hsv => hsub _ (h.iss sv (hi ▸ hsv)),
    fun t ht sv hsv => hsub _ (h.tAdded t ht sv hsv), h.tUniq,
    fun t ht sv hsv hw => by rw [hi]; exact h.tFresh t ht sv hsv hw, ?_, ?_⟩
  · rw [hqueue, depsOf_append]
    refine List.nodup_append.mpr ⟨h.qNd, hnd, ?_⟩
    intro x hx y hy hxy
    subst hxy
    exact (hnew x hy).1 (h.qNew x hx).2.1
  · intro sv hsv
    rw [hqueue, depsOf_append] at hsv
    rcases List.mem_append.mp hsv with h1 | h1
    · obtain ⟨f1, f2, f3⟩ := h.qNew sv h1
      exact ⟨by rw [hi]; exact f1, hsub _ f2, f3⟩
    · obtain ⟨g1, g2⟩ := hnew sv h1
      refine ⟨?_, g2, ?_⟩
      · rw [hi]; intro hm; exact g1 (h.iss sv hm)
      · intro t ht he; exact g1 (h.tAdded t ht sv he)

theorem adoptOne_tasks (U : Universe) (a : AS) (t : Task) :
    ∃ nt : ATask, (adoptOne U a t).tasks = a.tasks ++ [nt] ∧ nt.id = a.nextId ∧ nt.task = t ∧ nt.wait = .notStarted :=
  ⟨_, rfl, rfl, rfl, rfl⟩

theorem depsOf_cons (t : Task) (q : List Task) : depsOf (t :: q) = depsOf [t] ++ depsOf q := by
  have : t :: q = [t] ++ q := rfl
  rw [this, depsOf_append]

theorem mem_depsOf_single (t : Task) (sv : Nat) : sv ∈ depsOf [t] ↔ t = .deps (some sv) := by
  rw [mem_depsOf]; simp [eq_comm]

/-- the encoder adopts the oldest pushed future -/
theorem dinv_adoptOne (U : Universe) (a : AS) (s : S) (t : Task) (q : List Task) (h : DInv a s (t :: q)) :
    DInv (adoptOne U a t) s q := by
  obtain ⟨nt, htasks, _hid, htask, hwait⟩ := adoptOne_tasks U a t
  have hsplit : ∀ x, x ∈ (adoptOne U a t).tasks → x ∈ a.tasks ∨ x = nt := by
    intro x hx; rw [htasks] at hx; simpa using hx
  have hqnd := h.qNd
  rw [depsOf_cons] at hqnd
  obtain ⟨_, hq2, hdisj⟩ := List.nodup_append.mp hqnd
  have hhead : ∀ sv, t = .deps (some sv) → sv ∈ depsOf (t :: q) := by
    intro sv he; rw [depsOf_cons]; exact List.mem_append_left _ ((mem_depsOf_single t sv).mpr he)
  have htail : ∀ sv, sv ∈ depsOf q → sv ∈ depsOf (t :: q) := by
    intro sv hm; rw [depsOf_cons]; exact List.mem_append_right _ hm
  refine ⟨h.nd, h.iss, ?_, ?_, ?_, hq2, ?_⟩
  · intro x hx sv hsv
    rcases hsplit x hx with h1 | h1
    · exact h.tAdded x h1 sv hsv
    · subst h1; rw [htask] at hsv; exact (h.qNew sv (hhead sv hsv)).2.1
  · intro x1 hx1 x2 hx2 sv h1 h2
    rcases hsplit x1 hx1 with g1 | g1 <;> rcases hsplit x2 hx2 with g2 | g2
    · exact h.tUniq x1 g1 x2 g2 sv h1 h2
    · subst g2; rw [htask] at h2
      exact absurd h1 ((h.qNew sv (hhead sv h2)).2.2 x1 g1)
    · subst g1; rw [htask] at h1
      exact absurd h2 ((h.qNew sv (hhead sv h1)).2.2 x2 g2)
    · subst g1; subst g2; rfl
  · intro x hx sv hsv hw
    rcases hsplit x hx with h1 | h1
    · exact h.tFresh x h1 sv hsv hw
    · subst h1; rw [htask] at hsv; exact (h.qNew sv (hhead sv hsv)).1
  · intro sv hsv
    obtain ⟨f1, f2, f3⟩ := h.qNew sv (htail sv hsv)
    refine ⟨f1, f2, ?_⟩
    intro x hx he
    rcases hsplit x hx with h1 | h1
    · exact f3 x h1 he
    · subst h1; rw [htask] at he
      exact hdisj sv ((mem_depsOf_single t sv).mpr he) sv hsv rfl

theorem dinv_foldl_adoptOne (U : Universe) (q : List Task) (a : AS) (s : S) (h : DInv a s q) :
    DInv (q.foldl (adoptOne U) a) s [] := by
  induction q generalizing a with
  | nil => exact h
  | cons t ts ih => exact ih _ (dinv_adoptOne U a s t ts h)

theorem dinv_adoptPushed (U : Universe) (a : AS) (s s' : S) (a' : AS) (h : DInv a s s.queue)
    (hr : runM (adoptPushed U a) s = (.ok a', s')) : DInv a' s' s'.queue := by
  unfold adoptPushed at hr
  simp only [runM_bind, runM_get, runM_set, runM_pure, Prod.mk.injEq, Except.ok.injEq] at hr
  obtain ⟨rfl, rfl⟩ := hr
  have := dinv_foldl_adoptOne U s.queue a s h
  exact ⟨this.nd, this.iss, this.tAdded, this.tUniq, this.tFresh, this.qNd, this.qNew⟩

/-- only the encoder-local bookkeeping changed (ready queue, gates, …): tasks and solver state as before -/
theorem dinv_frame {a a' : AS} {s : S} {q : List Task} (h : DInv a s q) (ht : a'.tasks = a.tasks) : DInv a' s q :=
  ⟨h.nd, h.iss, by rw [ht]; exact h.tAdded, by rw [ht]; exact h.tUniq, by rw [ht]; exact h.tFresh, h.qNd,
   fun sv hsv => by rw [ht]; exact h.qNew sv hsv⟩

/-- membership in the task list after the polled future has been written back -/
theorem mem_replace (tasks : List ATask) (tid : Nat) (t' y : ATask)
    (h : y ∈ tasks.map (fun x => if x.id == tid then t' else x)) :
    y = t' ∨ (y ∈ tasks ∧ y.id ≠ tid) := by
  obtain ⟨x, hx, rfl⟩ := List.mem_map.mp h
  by_cases hid : (x.id == tid) = true
  · left; simp [hid]
  · right
    simp only [hid, Bool.false_eq_true, if_false]
    exact ⟨hx, by simpa using hid⟩

/-- writing back a polled future whose poll was irrelevant to dependency requests -/
theorem dinv_replace {a : AS} {s : S} {q : List Task} (h : DInv a s q) (t t' : ATask) (ht : t ∈ a.tasks)
    (hid : t'.id = t.id) (htask : t'.task = t.task) (hw : t'.wait = .notStarted → t.wait = .notStarted)
    (a' : AS) (ha : a'.tasks = a.tasks.map (fun x => if x.id == t.id then t' else x)) : DInv a' s q := by
  have hsplit : ∀ y, y ∈ a'.tasks → y = t' ∨ (y ∈ a.tasks ∧ y.id ≠ t.id) := by
    intro y hy; rw [ha] at hy; exact mem_replace _ _ _ _ hy
  refine ⟨h.nd, h.iss, ?_, ?_, ?_, h.qNd, ?_⟩
  · intro y hy sv hsv
    rcases hsplit y hy with h1 | ⟨h1, _⟩
    · subst h1; rw [htask] at hsv; exact h.tAdded t ht sv hsv
    · exact h.tAdded y h1 sv hsv
  · intro y1 hy1 y2 hy2 sv h1 h2
    rcases hsplit y1 hy1 with g1 | ⟨g1, _⟩ <;> rcases hsplit y2 hy2 with g2 | ⟨g2, _⟩
    · subst g1; subst g2; rfl
    · subst g1; rw [htask] at h1; rw [hid]; exact h.tUniq t ht y2 g2 sv h1 h2
    · subst g2; rw [htask] at h2; rw [hid]; exact h.tUniq y1 g1 t ht sv h1 h2
    · exact h.tUniq y1 g1 y2 g2 sv h1 h2
  · intro y hy sv hsv hwy
    rcases hsplit y hy with h1 | ⟨h1, _⟩
    · subst h1; rw [htask] at hsv; exact h.tFresh t ht sv hsv (hw hwy)
    · exact h.tFresh y h1 sv hsv hwy
  · intro sv hsv
    obtain ⟨f1, f2, f3⟩ := h.qNew sv hsv
    refine ⟨f1, f2, ?_⟩
    intro y hy he
    rcases hsplit y hy with h1 | ⟨h1, _⟩
    · subst h1; rw [htask] at he; exact f3 t ht he
    · exact f3 y h1 he

/-- writing back the `deps sv` future that has just issued its request -/
theorem dinv_started {a : AS} {s s' : S} (h : DInv a s s.queue) (t t' : ATask) (ht : t ∈ a.tasks) (sv : Nat)
    (hid : t'.id = t.id) (htask : t'.task = t.task) (htd : t.task = .deps (some sv)) (hns : t.wait = .notStarted)
    (hw' : t'.wait ≠ .notStarted) (hi : s'.issuedDeps = sv :: s.issuedDeps) (hadd : s'.addedSolv = s.addedSolv)
    (hq : s'.queue = s.queue) (a' : AS) (ha : a'.tasks = a.tasks.map (fun x => if x.id == t.id then t' else x)) :
    DInv a' s' s'.queue := by
  have hsplit : ∀ y, y ∈ a'.tasks → y = t' ∨ (y ∈ a.tasks ∧ y.id ≠ t.id) := by
    intro y hy; rw [ha] at hy; exact mem_replace _ _ _ _ hy
  have hsvnew : sv ∉ s.issuedDeps := h.tFresh t ht sv htd hns
  refine ⟨?_, ?_, ?_, ?_, ?_, by rw [hq]; exact h.qNd, ?_⟩
  · rw [hi]; exact List.nodup_cons.mpr ⟨hsvnew, h.nd⟩
  · intro x hx
    rw [hi] at hx; rw [hadd]
    rcases List.mem_cons.mp hx with h1 | h1
    · subst h1; exact h.tAdded t ht x htd
    · exact h.iss x h1
  · intro y hy x hx
    rw [hadd]
    rcases hsplit y hy with h1 | ⟨h1, _⟩
    · subst h1; rw [htask] at hx; exact h.tAdded t ht x hx
    · exact h.tAdded y h1 x hx
  · intro y1 hy1 y2 hy2 x h1 h2
    rcases hsplit y1 hy1 with g1 | ⟨g1, _⟩ <;> rcases hsplit y2 hy2 with g2 | ⟨g2, _⟩
    · subst g1; subst g2; rfl
    · subst g1; rw [htask] at h1; rw [hid]; exact h.tUniq t ht y2 g2 x h1 h2
    · subst g2; rw [htask] at h2; rw [hid]; exact h.tUniq y1 g1 t ht x h1 h2
    · exact h.tUniq y1 g1 y2 g2 x h1 h2
  · intro y hy x hx hwy
    rcases hsplit y hy with h1 | ⟨h1, hne⟩
    · subst h1; exact absurd hwy hw'
    · rw [hi]
      intro hm
      rcases List.mem_cons.mp hm with h2 | h2
      · subst h2; exact hne (h.tUniq y h1 t ht x hx htd)
      · exact h.tFresh y h1 x hx hwy h2
  · intro x hx
    rw [hq] at hx
    obtain ⟨f1, f2, f3⟩ := h.qNew x hx
    refine ⟨?_, by rw [hadd]; exact f2, ?_⟩
    · rw [hi]
      intro hm
      rcases List.mem_cons.mp hm with h2 | h2
      · subst h2; exact f3 t ht htd
      · exact f1 h2
    · intro y hy he
      rcases hsplit y hy with h1 | ⟨h1, _⟩
      · subst h1; rw [htask] at he; exact f3 t ht he
      · exact f3 y h1 he

/-- **one step of the encoder loop preserves the invariant** -/
theorem asyncStep_dinv (U : Universe) (P : Problem) (a : AS) (s s' : S) (a' : AS) (hi : DInv a s s.queue)
    (h : runM (asyncStep U P a) s = (.ok (some a'), s')) : DInv a' s' s'.queue := by
  unfold asyncStep at h
  simp only [runM_bind] at h
  cases hp : runM (adoptPushed U a) s with
  | mk r s1 =>
    cases r with
    | error e => simp only [hp] at h; exact absurd h (by simp)
    | ok a1 =>
      have hi1 := dinv_adoptPushed U a s s1 a1 hi hp
      simp only [hp] at h
      cases hrd : a1.ready with
      | nil =>
        simp only [hrd] at h
        split at h
        · simp only [runM_pure, Prod.mk.injEq, Except.ok.injEq] at h
          exact absurd h.1 (by simp)
        · simp only [runM_bind] at h
          cases he : runM (executorTurn a1) s1 with
          | mk r2 s2 =>
            cases r2 with
            | error e => simp only [he] at h; exact absurd h (by simp)
            | ok a2 =>
              simp only [he, runM_pure, Prod.mk.injEq, Except.ok.injEq, Option.some.injEq] at h
              obtain ⟨rfl, rfl⟩ := h
              have hq := qr_executorTurn a1 s1 s2 a2 he
              exact dinv_frame (dinv_qr hi1 hq) (frame_executorTurn a1 s1 s2 a2 he).tasks
      | cons tid rest =>
        simp only [hrd] at h
        have hi2 : DInv { a1 with ready := rest } s1 s1.queue := dinv_frame hi1 rfl
        cases hfd : a1.tasks.find? (fun t => t.id == tid) with
        | none =>
          simp only [hfd, runM_pure, Prod.mk.injEq, Except.ok.injEq, Option.some.injEq] at h
          obtain ⟨rfl, rfl⟩ := h; exact hi2
        | some t =>
          simp only [hfd] at h
          obtain ⟨htm, htid⟩ := find?_id hfd
          by_cases hfin : t.finished = true
          · simp only [hfin, if_true, runM_pure, Prod.mk.injEq, Except.ok.injEq, Option.some.injEq] at h
            obtain ⟨rfl, rfl⟩ := h; exact hi2
          · simp only [hfin, Bool.false_eq_true, if_false, runM_bind] at h
            cases hpt : runM (pollTask U P t { a1 with ready := rest }) s1 with
            | mk r3 s3 =>
              cases r3 with
              | error e => simp only [hpt] at h; exact absurd h (by simp)
              | ok v =>
                obtain ⟨t', a3, res⟩ := v
                obtain ⟨hfr, hid', _⟩ := pollTask_spec U P t _ s1 s3 t' a3 res hpt
                obtain ⟨htask', hcase⟩ := pollTask_dspec U P t _ s1 s3 t' a3 res hpt
                have ha3 : a3.tasks = a1.tasks := hfr.tasks
                -- the invariant after the polled future has been written back
                have hi3 : DInv { a3 with tasks := a3.tasks.map (fun x => if x.id == tid then t' else x) } s3 s3.queue := by
                  rcases hcase with ⟨sv, htd, hns, hiss, hadd, hq, hw'⟩ | ⟨hqr, hw⟩
                  · apply dinv_started hi2 t t' htm sv hid' htask' htd hns hw' hiss hadd hq
                    show a3.tasks.map _ = a1.tasks.map _
                    rw [ha3, htid]
                  · have hi2' := dinv_qr hi2 hqr
                    apply dinv_replace hi2' t t' htm hid' htask' hw
                    show a3.tasks.map _ = a1.tasks.map _
                    rw [ha3, htid]
                simp only [hpt] at h
                cases res with
                | none =>
                  simp only [runM_pure, Prod.mk.injEq, Except.ok.injEq, Option.some.injEq] at h
                  obtain ⟨rfl, rfl⟩ := h
                  exact hi3
                | some r =>
                  simp only [runM_bind] at h
                  cases hcb : runM (runCallback U P r) s3 with
                  | mk r4 s4 =>
                    have hqr : QR s3 s4 := by
                      have := qr_runCallback U P r s3
                      rw [hcb] at this; exact this
                    cases r4 with
                    | error e => simp only [hcb] at h; exact absurd h (by simp)
                    | ok u =>
                      simp only [hcb, runM_pure, Prod.mk.injEq, Except.ok.injEq, Option.some.injEq] at h
                      obtain ⟨rfl, rfl⟩ := h
                      exact dinv_qr hi3 hqr

/-- the encoder loop started from the state `s0` (its push queue holds the futures `encode` pushed itself) -/
inductive ReachD (U : Universe) (P : Problem) (s0 : S) : AS → S → Prop
  | start : ReachD U P s0 {} s0
  | step {a a' : AS} {s s' : S} : ReachD U P s0 a s → runM (asyncStep U P a) s = (.ok (some a'), s') → ReachD U P s0 a' s'

/-- **C10, run level (model).** If, when the encoder loop starts, the dependency requests of this solve are pairwise
    distinct and all for processed solvables, and the pushed `deps` futures are new (which holds at the start of a
    solve, and by this theorem at the end of every earlier `encode` of the solve), then in every state the loop
    reaches — any universe, problem, completion order — `get_dependencies` has been requested at most once per solvable. -/
theorem dependencies_requested_at_most_once {U : Universe} {P : Problem} {s0 : S} {a : AS} {s : S}
    (h0 : DInv {} s0 s0.queue) (h : ReachD U P s0 a s) : s.issuedDeps.Nodup ∧ DInv a s s.queue := by
  have : DInv a s s.queue := by
    induction h with
    | start => exact h0
    | step _ hs ih => exact asyncStep_dinv U P _ _ _ _ ih hs
  exact ⟨this.nd, this⟩

/-- the invariant holds for a fresh solve: nothing requested, nothing pushed -/
theorem dinv_fresh (s : S) (h1 : s.issuedDeps = []) (h2 : s.queue = []) : DInv {} s s.queue := by
  refine ⟨by rw [h1]; exact List.Pairwise.nil, by (intro sv h; rw [h1] at h; cases h), by (intro t h; cases h),
    by (intro t h; cases h), by (intro t h; cases h), by rw [h2]; exact List.Pairwise.nil, ?_⟩
  intro sv h; rw [h2] at h; cases h

end Resolvo.MDet
