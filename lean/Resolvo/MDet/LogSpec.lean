import Resolvo.MDet.Solve
import Resolvo.MDet.AsyncProofs
/-!
# The discipline of the provider call log along every run of the model (C12)

`LogSpec x`: whatever the state `x` starts from and however it ends, the entries it adds to the (structured) call
log form a *chunk*: every provider request (`call`) is directly preceded by a poll of `should_cancel_with_value`
that returned nothing; a poll that returned a value can only be the newest entry, and it is there exactly when the
computation ended `cancelled` — carrying the value of that very poll. Chunks compose under sequencing, loops and
early exits, so the discipline holds for the whole of `solve` (`logspec_solve`).
-/
set_option linter.unusedSimpArgs false
namespace Resolvo.MDet
open Resolvo Resolvo.Sat Resolvo.Abs

/-- every request in the chunk is directly preceded (older neighbour) by a poll that did not fire -/
def CallsPolled : List GEv → Prop
  | [] => True
  | .call _ _ :: rest => (∃ k rest', rest = .poll k false :: rest') ∧ CallsPolled rest
  | .poll _ _ :: rest => CallsPolled rest
  | .got _ _ :: rest => CallsPolled rest

/-- no poll in the list returned a value -/
def NoFired (l : List GEv) : Prop := ∀ k, GEv.poll k true ∉ l

/-- what the entries added by one computation look like, given how it ended -/
def Chunk {α : Type} (r : Except Stop α) (new : List GEv) : Prop :=
  CallsPolled new ∧
  match r with
  | .error (.cancelled v) => ∃ k rest, new = .poll k true :: rest ∧ v = 7000 + k ∧ NoFired rest
  | _ => NoFired new

def LogSpecAt {α : Type} (x : M α) (s : S) : Prop :=
  ∃ new, (runM x s).2.glog = new ++ s.glog ∧ Chunk (runM x s).1 new

def LogSpec {α : Type} (x : M α) : Prop := ∀ s, LogSpecAt x s

theorem callsPolled_append (a b : List GEv) (ha : CallsPolled a) (hb : CallsPolled b) : CallsPolled (a ++ b) := by
  induction a with
  | nil => exact hb
  | cons e rest ih =>
    cases e with
    | call c i =>
      obtain ⟨⟨k, rest', hr⟩, hrest⟩ := ha
      refine ⟨⟨k, rest' ++ b, by rw [hr]; rfl⟩, ih hrest⟩
    | poll k f => exact ih ha
    | got c i => exact ih ha

theorem noFired_append (a b : List GEv) (ha : NoFired a) (hb : NoFired b) : NoFired (a ++ b) := by
  intro k hm
  rcases List.mem_append.mp hm with h | h
  · exact ha k h
  · exact hb k h

theorem noFired_nil : NoFired [] := by intro k h; cases h

theorem chunk_nil {α : Type} (r : Except Stop α) (h : ∀ v, r ≠ .error (.cancelled v)) : Chunk r [] := by
  refine ⟨trivial, ?_⟩
  cases r with
  | ok a => exact noFired_nil
  | error e =>
    cases e with
    | cancelled v => exact absurd rfl (h v)
    | panic s => exact noFired_nil
    | outOfFuel => exact noFired_nil

/-- a computation that leaves the log alone and does not end `cancelled` -/
theorem logspecAt_quiet {α : Type} (x : M α) (s : S) (hg : (runM x s).2.glog = s.glog)
    (hr : ∀ v, (runM x s).1 ≠ .error (.cancelled v)) : LogSpecAt x s :=
  ⟨[], by simpa using hg, chunk_nil _ hr⟩

theorem logspec_pure {α : Type} (a : α) : LogSpec (pure a : M α) := fun s =>
  logspecAt_quiet _ s rfl (by intro v h; cases h)

theorem logspec_get : LogSpec (get : M S) := fun s => logspecAt_quiet _ s rfl (by intro v h; cases h)

theorem logspec_modify (g : S → S) (h : ∀ s, (g s).glog = s.glog) : LogSpec (modify g : M Unit) := fun s =>
  logspecAt_quiet _ s (h s) (by intro v h; cases h)

theorem logspec_panic {α : Type} (site : String) : LogSpec (panic site : M α) := fun s =>
  logspecAt_quiet _ s rfl (by intro v h; cases h)

theorem logspec_outOfFuel {α : Type} : LogSpec (throw Stop.outOfFuel : M α) := fun s =>
  logspecAt_quiet _ s rfl (by intro v h; cases h)

theorem logspec_throw_panic {α : Type} (site : String) : LogSpec (throw (Stop.panic site) : M α) := fun s =>
  logspecAt_quiet _ s rfl (by intro v h; cases h)

theorem logspecAt_bind {α β : Type} (x : M α) (k : α → M β) (s : S) (hx : LogSpecAt x s)
    (hk : ∀ a s1, runM x s = (.ok a, s1) → LogSpecAt (k a) s1) : LogSpecAt (x >>= k) s := by
  obtain ⟨new1, hg1, hc1⟩ := hx
  unfold LogSpecAt
  rw [runM_bind]
  cases h : runM x s with
  | mk r s1 =>
    rw [h] at hg1 hc1
    cases r with
    | error e => exact ⟨new1, hg1, by cases e <;> exact hc1⟩
    | ok a =>
      obtain ⟨new2, hg2, hc2⟩ := hk a s1 h
      refine ⟨new2 ++ new1, ?_, ?_⟩
      · simp only at hg1 ⊢; rw [hg2, hg1, List.append_assoc]
      · simp only at hc1 ⊢
        obtain ⟨hp1, hn1⟩ := hc1
        obtain ⟨hp2, hn2⟩ := hc2
        refine ⟨callsPolled_append _ _ hp2 hp1, ?_⟩
        cases hr : (runM (k a) s1).1 with
        | ok b => rw [hr] at hn2; exact noFired_append _ _ hn2 hn1
        | error e =>
          rw [hr] at hn2
          cases e with
          | cancelled v =>
            obtain ⟨kk, rest, hnew, hv, hnf⟩ := hn2
            exact ⟨kk, rest ++ new1, by rw [hnew]; rfl, hv, noFired_append _ _ hnf hn1⟩
          | panic site => exact noFired_append _ _ hn2 hn1
          | outOfFuel => exact noFired_append _ _ hn2 hn1

theorem logspec_bind {α β : Type} (x : M α) (k : α → M β) (hx : LogSpec x) (hk : ∀ a, LogSpec (k a)) :
    LogSpec (x >>= k) := fun s => logspecAt_bind x k s (hx s) (fun a s1 _ => hk a s1)

/-- `let s ← get; …` where the continuation is only required to behave when run from the state it was handed -/
theorem logspec_get_bind {β : Type} (k : S → M β) (hk : ∀ s, LogSpecAt (k s) s) : LogSpec (get >>= k) := by
  intro s
  apply logspecAt_bind _ _ _ (logspec_get s)
  intro a s1 h
  simp only [runM_get, Prod.mk.injEq, Except.ok.injEq] at h
  obtain ⟨rfl, rfl⟩ := h
  exact hk _

theorem logspecAt_set_bind {β : Type} (s' s : S) (k : Unit → M β) (h : s'.glog = s.glog) (hk : LogSpec (k ())) :
    LogSpecAt (set s' >>= k) s := by
  apply logspecAt_bind
  · exact logspecAt_quiet _ s h (by intro v h; cases h)
  · intro a s1 h1
    simp only [runM_set, Prod.mk.injEq, Except.ok.injEq] at h1
    obtain ⟨_, rfl⟩ := h1
    exact hk _

theorem logspecAt_set (s' s : S) (h : s'.glog = s.glog) : LogSpecAt (set s' : M Unit) s :=
  logspecAt_quiet _ s h (by intro v h; cases h)

theorem logspec_forIn {γ δ : Type} (xs : List γ) (init : δ) (body : γ → δ → M (ForInStep δ))
    (h : ∀ x b, LogSpec (body x b)) : LogSpec (forIn xs init body) := by
  induction xs generalizing init with
  | nil => simp only [List.forIn_nil]; exact logspec_pure _
  | cons x xs ih =>
    simp only [List.forIn_cons]
    apply logspec_bind _ _ (h x init)
    intro r
    cases r with
    | done b => exact logspec_pure b
    | yield b => exact ih b

theorem logspec_of_at {α : Type} (x : M α) (h : ∀ s, LogSpecAt x s) : LogSpec x := h

/-! ### the three functions that write the log -/

theorem logspec_pollCancel : LogSpec pollCancel := by
  intro s
  unfold LogSpecAt
  rw [runM_pollCancel]
  by_cases hf : fires s = true
  · simp only [hf, if_true]
    refine ⟨[.poll s.polls true], rfl, trivial, s.polls, [], rfl, rfl, noFired_nil⟩
  · simp only [hf, Bool.false_eq_true, if_false]
    refine ⟨[.poll s.polls false], rfl, trivial, ?_⟩
    intro k hm
    simp at hm

/-- a poll followed by the registration of a request: the only way a `call` entry is ever written -/
theorem logspec_poll_call (g : S → S) (c : Bool) (i : Nat) (hg : ∀ s, (g s).glog = .call c i :: s.glog) :
    LogSpec (pollCancel >>= fun _ => (modify g : M Unit)) := by
  intro s
  unfold LogSpecAt
  rw [runM_bind, runM_pollCancel]
  by_cases hf : fires s = true
  · simp only [hf, if_true]
    refine ⟨[.poll s.polls true], rfl, trivial, s.polls, [], rfl, rfl, noFired_nil⟩
  · simp only [hf, Bool.false_eq_true, if_false, runM_modify]
    refine ⟨[.call c i, .poll s.polls false], ?_, ⟨⟨s.polls, [], rfl⟩, trivial⟩, ?_⟩
    · rw [hg]; rfl
    · intro k hm
      simp at hm

theorem logspec_poll_call_then {β : Type} (g : S → S) (c : Bool) (i : Nat) (hg : ∀ s, (g s).glog = .call c i :: s.glog)
    (k : Unit → M β) (hk : LogSpec (k ())) : LogSpec (pollCancel >>= fun _ => ((modify g : M Unit) >>= k)) := by
  have : (pollCancel >>= fun _ => ((modify g : M Unit) >>= k)) = ((pollCancel >>= fun _ => (modify g : M Unit)) >>= k) := by
    rw [bind_assoc]
  rw [this]
  exact logspec_bind _ _ (logspec_poll_call g c i hg) (fun _ => hk)

theorem logspec_requestStarted' : LogSpec requestStarted := logspec_modify _ (fun _ => rfl)

theorem logspec_getCandidates (U : Universe) (n : Nat) : LogSpec (getCandidates U n) := by
  unfold getCandidates
  apply logspec_get_bind
  intro s
  dsimp only
  split
  · exact logspec_poll_call_then _ true n (fun _ => rfl) _ (logspec_bind _ _ logspec_requestStarted' (fun _ => logspec_pure _)) s
  · exact logspec_bind _ _ (logspec_pure _) (fun _ => logspec_pure _) s

theorem logspec_getDeps (U : Universe) (sv : Nat) : LogSpec (getDeps U sv) := by
  unfold getDeps
  apply logspec_get_bind
  intro s
  dsimp only
  split
  · exact logspec_poll_call_then _ false sv (fun _ => rfl) _ (logspec_bind _ _ logspec_requestStarted' (fun _ => logspec_pure _)) s
  · exact logspec_bind _ _ (logspec_pure _) (fun _ => logspec_pure _) s

theorem logspec_startDeps (sv : Nat) : LogSpec (startDeps sv) := by
  unfold startDeps logCall
  exact logspec_poll_call_then _ false sv (fun _ => rfl) _ logspec_requestStarted'

/-- the marker of an obtained answer (asynchronous provider) is neither a request nor a poll -/
theorem logspec_modify_got (g : S → S) (c : Bool) (i : Nat) (hg : ∀ s, (g s).glog = .got c i :: s.glog) :
    LogSpec (modify g : M Unit) := by
  intro s
  refine ⟨[.got c i], ?_, trivial, ?_⟩
  · simp only [runM_modify]; rw [hg]; rfl
  · simp only [runM_modify]
    intro k hm
    simp at hm

theorem logspec_finishDeps (sv : Nat) : LogSpec (finishDeps sv) := by
  unfold finishDeps
  exact logspec_modify_got _ false sv (fun _ => rfl)

theorem logspec_finishCands (U : Universe) (n : Nat) : LogSpec (finishCands U n) := by
  unfold finishCands
  exact logspec_modify_got _ true n (fun _ => rfl)

theorem logspec_pollCands (U : Universe) (tid n : Nat) (w : CandWait) (a : AS) : LogSpec (pollCands U tid n w a) := by
  unfold pollCands
  apply logspec_get_bind
  intro s
  cases w with
  | ready => exact logspec_pure _ s
  | notStarted =>
    dsimp only
    split
    · exact logspec_pure _ s
    · by_cases hc : (a.inflight.lookup n).isSome = true
      · simp only [hc, if_true]
        exact logspec_bind _ _ logspec_pollCancel (fun _ => logspec_pure _) s
      · simp only [hc, Bool.false_eq_true, if_false]
        unfold logCall
        exact logspec_poll_call_then _ true n (fun _ => rfl) _
          (logspec_bind _ _ (logspec_modify _ (fun _ => rfl)) (fun _ => logspec_bind _ _ logspec_requestStarted' (fun _ => logspec_pure _))) s
  | owner =>
    dsimp only
    split
    · exact logspec_bind _ _ (logspec_finishCands U n) (fun _ => logspec_pure _) s
    · exact logspec_pure _ s
  | listener =>
    dsimp only
    split
    · exact logspec_pure _ s
    · exact logspec_pure _ s

theorem LogSpec.at {α : Type} {x : M α} (h : LogSpec x) (s : S) : LogSpecAt x s := h s

attribute [irreducible] LogSpec

theorem logspec_emit (e : Ev) : LogSpec (emit e) := logspec_modify _ (fun _ => rfl)
theorem logspec_setWatchList (l : Lit) (cs : List Nat) : LogSpec (setWatchList l cs) := logspec_modify _ (fun _ => rfl)
theorem logspec_requestStarted : LogSpec requestStarted := logspec_modify _ (fun _ => rfl)

/-- extensible list of proved facts: `macro_rules | `(tactic| ls_lemma) => …` after each lemma -/
syntax "ls_lemma" : tactic
macro_rules | `(tactic| ls_lemma) => `(tactic| fail "no LogSpec lemma applies")

/-- one step of the automation -/
macro "ls_step" : tactic => `(tactic| first
  | ls_lemma
  | with_reducible exact logspec_pure _
  | with_reducible exact logspec_get
  | with_reducible exact logspec_panic _
  | with_reducible exact logspec_outOfFuel
  | with_reducible exact logspec_throw_panic _
  | with_reducible exact logspec_emit _
  | with_reducible exact logspec_setWatchList _ _
  | with_reducible exact logspec_requestStarted
  | with_reducible exact logspec_pollCancel
  | with_reducible assumption
  | ((with_reducible apply logspec_modify); intro _; first | rfl | (split <;> rfl))
  | ((with_reducible apply logspec_forIn); intro _ _)
  | with_reducible apply logspec_bind
  | intro _
  | split
  | dsimp only)

macro "ls" : tactic => `(tactic| repeat ls_step)
/-- `ls` inside an induction over the fuel of a loop: also tries the (quantified) induction hypothesis -/
macro "ls_ih" ih:ident : tactic => `(tactic| repeat (first | (with_reducible apply $ih) | ls_step))

/-- closes `LogSpecAt (k s) s` goals for continuations that only `set` a state derived from `s` -/
macro "ls_at" : tactic => `(tactic| (
  first
  | exact logspecAt_quiet _ _ rfl (by intro v h; cases h)
  | (apply logspecAt_quiet
     · simp only [runM_bind, runM_set, runM_get, emit, runM_modify, runM_pure, panic, runM_throw]
       try (first | rfl | (split <;> rfl))
     · intro v; simp only [runM_bind, runM_set, runM_get, emit, runM_modify, runM_pure, panic, runM_throw]
       first | (intro h; cases h) | (split <;> (intro h; cases h)))))

theorem logspec_internSolvable (sv : Nat) : LogSpec (internSolvable sv) := by
  unfold internSolvable
  apply logspec_get_bind
  intro s
  split <;> ls_at

theorem logspec_internSoR (sid : SoR) : LogSpec (internSoR sid) := by
  cases sid with
  | none => exact logspec_pure _
  | some sv => exact logspec_internSolvable sv

theorem logspec_allocForbidVar (name : Nat) : LogSpec (allocForbidVar name) := by
  unfold allocForbidVar
  apply logspec_get_bind
  intro s
  ls_at

theorem logspec_allocClause (k : Kind) (w : Option (Lit × Lit)) : LogSpec (allocClause k w) := by
  unfold allocClause
  ls

theorem logspec_startWatching (id : Nat) : LogSpec (startWatching id) := by
  unfold startWatching
  ls

theorem logspec_tryAdd (v : Nat) (val : Bool) (reason level : Nat) : LogSpec (tryAdd v val reason level) := by
  unfold tryAdd
  ls

theorem logspec_undoLast : LogSpec undoLast := by
  unfold undoLast
  apply logspec_get_bind
  intro s
  split
  · ls_at
  · next d rest _ =>
    apply logspecAt_set_bind
    · rfl
    · ls

theorem logspec_undoUntil_loop (n level : Nat) : LogSpec (undoUntil.loop level n) := by
  induction n with
  | zero => unfold undoUntil.loop; exact logspec_pure _
  | succ n ih =>
    unfold undoUntil.loop
    have := logspec_undoLast
    ls

theorem logspec_undoUntil (level : Nat) : LogSpec (undoUntil level) := by
  unfold undoUntil
  ls
  all_goals apply logspec_undoUntil_loop

theorem logspec_nextUnpropagated : LogSpec nextUnpropagated := by
  unfold nextUnpropagated
  apply logspec_get_bind
  intro s
  dsimp only
  split
  · split
    · apply logspecAt_set_bind
      · rfl
      · ls
    · ls_at
  · ls_at

macro "ls2_step" : tactic => `(tactic| first
  | with_reducible exact logspec_internSolvable _
  | with_reducible exact logspec_internSoR _
  | with_reducible exact logspec_allocForbidVar _
  | with_reducible exact logspec_allocClause _ _
  | with_reducible exact logspec_startWatching _
  | with_reducible exact logspec_tryAdd _ _ _ _
  | with_reducible exact logspec_undoLast
  | with_reducible exact logspec_undoUntil _
  | with_reducible exact logspec_nextUnpropagated
  | with_reducible exact logspec_getCandidates _ _
  | with_reducible exact logspec_getDeps _ _
  | with_reducible exact logspec_startDeps _
  | ls_step)

macro "ls2" : tactic => `(tactic| repeat ls2_step)

theorem logspec_getMatching (U : Universe) (vs : Nat) : LogSpec (getMatching U vs) := by
  unfold getMatching
  ls2

theorem logspec_getNonMatching (U : Universe) (vs : Nat) : LogSpec (getNonMatching U vs) := by
  unfold getNonMatching
  ls2

theorem logspec_getSortedVs (U : Universe) (vs : Nat) : LogSpec (getSortedVs U vs) := by
  unfold getSortedVs
  have := logspec_getMatching U vs
  ls2

/-! ### the encoder -/

theorem logspec_queueSolvable (sid : SoR) : LogSpec (queueSolvable sid) := by
  unfold queueSolvable
  apply logspec_get_bind
  intro s
  split
  · ls_at
  · apply logspecAt_set_bind
    · rfl
    · ls

theorem logspec_queuePackage (n : Nat) : LogSpec (queuePackage n) := by
  unfold queuePackage
  apply logspec_get_bind
  intro s
  split
  · ls_at
  · apply logspecAt_set_bind
    · rfl
    · ls

theorem logspec_pushTask (t : Task) : LogSpec (pushTask t) := logspec_modify _ (fun _ => rfl)

macro "ls3_step" : tactic => `(tactic| first
  | with_reducible exact logspec_queueSolvable _
  | with_reducible exact logspec_queuePackage _
  | with_reducible exact logspec_pushTask _
  | with_reducible exact logspec_getMatching _ _
  | with_reducible exact logspec_getNonMatching _ _
  | with_reducible exact logspec_getSortedVs _ _
  | ls2_step)

macro "ls3" : tactic => `(tactic| repeat ls3_step)

theorem logspec_addExclusionClause (sid : SoR) (reason : Nat) : LogSpec (addExclusionClause sid reason) := by
  unfold addExclusionClause
  ls3

theorem logspec_addForbidMultiple (U : Universe) (c v : Nat) : LogSpec (addForbidMultiple U c v) := by
  unfold addForbidMultiple
  ls3

macro "ls4_step" : tactic => `(tactic| first
  | with_reducible exact logspec_addExclusionClause _ _
  | with_reducible exact logspec_addForbidMultiple _ _ _
  | ls3_step)

macro "ls4" : tactic => `(tactic| repeat ls4_step)

theorem logspec_onDependencies (U : Universe) (P : Problem) (sid : SoR) (d : Deps) : LogSpec (onDependencies U P sid d) := by
  unfold onDependencies
  ls4

theorem logspec_onCandidates (name : Nat) (p : Pkg) : LogSpec (onCandidates name p) := by
  unfold onCandidates
  ls4

theorem logspec_onRequirementCandidates (U : Universe) (sid : SoR) (r : Req) (cs : List (List Nat)) :
    LogSpec (onRequirementCandidates U sid r cs) := by
  unfold onRequirementCandidates
  ls4

theorem logspec_onConstraintCandidates (sid : SoR) (vs : Nat) (cs : List Nat) : LogSpec (onConstraintCandidates sid vs cs) := by
  unfold onConstraintCandidates
  ls4

macro "ls5_step" : tactic => `(tactic| first
  | with_reducible exact logspec_onDependencies _ _ _ _
  | with_reducible exact logspec_onCandidates _ _
  | with_reducible exact logspec_onRequirementCandidates _ _ _ _
  | with_reducible exact logspec_onConstraintCandidates _ _ _
  | ls4_step)

macro "ls5" : tactic => `(tactic| repeat ls5_step)

theorem logspec_runTask (U : Universe) (P : Problem) (t : Task) : LogSpec (runTask U P t) := by
  cases t with
  | deps sid =>
    cases sid with
    | none => unfold runTask; ls5
    | some sv => unfold runTask; ls5
  | pkg n => unfold runTask; ls5
  | req sid r => unfold runTask; ls5
  | cons sid vs => unfold runTask; ls5

macro "ls6_step" : tactic => `(tactic| first
  | with_reducible exact logspec_runTask _ _ _
  | ls5_step)

macro "ls6" : tactic => `(tactic| repeat ls6_step)

theorem logspec_encodeSync_loop (U : Universe) (P : Problem) (n : Nat) : LogSpec (encodeSync.loop U P n) := by
  induction n with
  | zero => unfold encodeSync.loop; ls
  | succ n ih =>
    unfold encodeSync.loop
    apply logspec_get_bind
    intro s
    split
    · ls_at
    · apply logspecAt_set_bind
      · rfl
      · ls6

theorem logspec_encodeSync (U : Universe) (P : Problem) (sv : List SoR) (fuel : Nat) : LogSpec (encodeSync U P sv fuel) := by
  unfold encodeSync
  have := logspec_encodeSync_loop U P fuel
  ls5

/-! ### the encoder with an asynchronous provider -/

macro_rules | `(tactic| ls_lemma) => `(tactic| with_reducible exact logspec_finishDeps _)
macro_rules | `(tactic| ls_lemma) => `(tactic| with_reducible exact logspec_finishCands _ _)
macro_rules | `(tactic| ls_lemma) => `(tactic| with_reducible exact logspec_pollCands _ _ _ _ _)
macro_rules | `(tactic| ls_lemma) => `(tactic| with_reducible exact logspec_onDependencies _ _ _ _)
macro_rules | `(tactic| ls_lemma) => `(tactic| with_reducible exact logspec_onCandidates _ _)
macro_rules | `(tactic| ls_lemma) => `(tactic| with_reducible exact logspec_onRequirementCandidates _ _ _ _)
macro_rules | `(tactic| ls_lemma) => `(tactic| with_reducible exact logspec_onConstraintCandidates _ _ _)
macro_rules | `(tactic| ls_lemma) => `(tactic| with_reducible exact logspec_startDeps _)
macro_rules | `(tactic| ls_lemma) => `(tactic| with_reducible exact logspec_queueSolvable _)
macro_rules | `(tactic| ls_lemma) => `(tactic| with_reducible exact logspec_encodeSync _ _ _ _)

theorem logspec_finishChild (sorted : Bool) (c : Child) (a : AS) : LogSpec (finishChild sorted c a) := by
  unfold finishChild
  ls
macro_rules | `(tactic| ls_lemma) => `(tactic| with_reducible exact logspec_finishChild _ _ _)

theorem logspec_sortStage (U : Universe) (tid : Nat) (g : Bool) (c : Child) (a : AS) (e : Bool) :
    LogSpec (sortStage U tid g c a e) := by
  unfold sortStage
  ls
macro_rules | `(tactic| ls_lemma) => `(tactic| with_reducible exact logspec_sortStage _ _ _ _ _ _)

theorem logspec_filterStage (U : Universe) (tid : Nat) (g sorted : Bool) (c : Child) (a : AS) (e : Bool) :
    LogSpec (filterStage U tid g sorted c a e) := by
  unfold filterStage
  ls
macro_rules | `(tactic| ls_lemma) => `(tactic| with_reducible exact logspec_filterStage _ _ _ _ _ _ _)

theorem logspec_pollChild (U : Universe) (tid : Nat) (sorted : Bool) (c : Child) (a : AS) :
    LogSpec (pollChild U tid sorted c a) := by
  unfold pollChild
  ls
macro_rules | `(tactic| ls_lemma) => `(tactic| with_reducible exact logspec_pollChild _ _ _ _ _)

theorem logspec_pollChildren (U : Universe) (tid : Nat) (sorted : Bool) (cs : List Child) (a : AS) :
    LogSpec (pollChildren U tid sorted cs a) := by
  induction cs generalizing a with
  | nil => unfold pollChildren; exact logspec_pure _
  | cons c cs ih =>
    unfold pollChildren
    apply logspec_bind _ _ (logspec_pollChild U tid sorted c a)
    intro r
    apply logspec_bind _ _ (ih _)
    intro r2
    exact logspec_pure _
macro_rules | `(tactic| ls_lemma) => `(tactic| with_reducible exact logspec_pollChildren _ _ _ _ _)

theorem logspec_pollTask (U : Universe) (P : Problem) (t : ATask) (a : AS) : LogSpec (pollTask U P t a) := by
  unfold pollTask
  ls
macro_rules | `(tactic| ls_lemma) => `(tactic| with_reducible exact logspec_pollTask _ _ _ _)

theorem logspec_runCallback (U : Universe) (P : Problem) (r : TaskResult) : LogSpec (runCallback U P r) := by
  cases r with
  | deps sid d => exact logspec_onDependencies U P sid d
  | cands n p => exact logspec_onCandidates n p
  | req sid r lists => exact logspec_onRequirementCandidates U sid r lists
  | cons sid vs l => exact logspec_onConstraintCandidates sid vs l
macro_rules | `(tactic| ls_lemma) => `(tactic| with_reducible exact logspec_runCallback _ _ _)

theorem logspec_adoptPushed (U : Universe) (a : AS) : LogSpec (adoptPushed U a) := by
  unfold adoptPushed
  apply logspec_get_bind
  intro s
  apply logspecAt_set_bind
  · rfl
  · exact logspec_pure _
macro_rules | `(tactic| ls_lemma) => `(tactic| with_reducible exact logspec_adoptPushed _ _)

/-- `set { s with … }` where `s` is the state read by the enclosing `get`: closes the `LogSpecAt … s` leaves -/
macro "ls_set" : tactic => `(tactic| repeat (first
  | (apply logspecAt_set_bind; rfl; exact logspec_pure _)
  | exact (logspec_throw_panic _).at _
  | exact (logspec_pure _).at _
  | split
  | dsimp only))

theorem logspec_executorTurn (a : AS) : LogSpec (executorTurn a) := by
  unfold executorTurn
  dsimp only
  apply logspec_bind
  · apply logspec_modify; intro _; rfl
  · intro _
    apply logspec_get_bind
    intro s
    ls_set
macro_rules | `(tactic| ls_lemma) => `(tactic| with_reducible exact logspec_executorTurn _)

theorem logspec_asyncStep (U : Universe) (P : Problem) (a : AS) : LogSpec (asyncStep U P a) := by
  unfold asyncStep
  ls
macro_rules | `(tactic| ls_lemma) => `(tactic| with_reducible exact logspec_asyncStep _ _ _)

theorem logspec_encodeAsync_loop (U : Universe) (P : Problem) (n : Nat) (a : AS) : LogSpec (encodeAsync.loop U P n a) := by
  induction n generalizing a with
  | zero => unfold encodeAsync.loop; exact logspec_outOfFuel
  | succ n ih =>
    unfold encodeAsync.loop
    apply logspec_bind _ _ (logspec_asyncStep U P a)
    intro r
    split
    · exact logspec_pure _
    · exact ih _
macro_rules | `(tactic| ls_lemma) => `(tactic| with_reducible exact logspec_encodeAsync_loop _ _ _ _)

theorem logspec_encodeAsync (U : Universe) (P : Problem) (sv : List SoR) (fuel : Nat) : LogSpec (encodeAsync U P sv fuel) := by
  unfold encodeAsync
  ls
macro_rules | `(tactic| ls_lemma) => `(tactic| with_reducible exact logspec_encodeAsync _ _ _ _)

theorem logspec_encode (U : Universe) (P : Problem) (sv : List SoR) (fuel : Nat) : LogSpec (encode U P sv fuel) := by
  unfold encode
  ls
macro_rules | `(tactic| ls_lemma) => `(tactic| with_reducible exact logspec_encode _ _ _ _)

/-! ### propagation, decisions, conflict analysis, the solver loop -/

macro_rules | `(tactic| ls_lemma) => `(tactic| with_reducible exact logspec_internSolvable _)
macro_rules | `(tactic| ls_lemma) => `(tactic| with_reducible exact logspec_internSoR _)
macro_rules | `(tactic| ls_lemma) => `(tactic| with_reducible exact logspec_allocClause _ _)
macro_rules | `(tactic| ls_lemma) => `(tactic| with_reducible exact logspec_startWatching _)
macro_rules | `(tactic| ls_lemma) => `(tactic| with_reducible exact logspec_tryAdd _ _ _ _)
macro_rules | `(tactic| ls_lemma) => `(tactic| with_reducible exact logspec_undoLast)
macro_rules | `(tactic| ls_lemma) => `(tactic| with_reducible exact logspec_undoUntil _)
macro_rules | `(tactic| ls_lemma) => `(tactic| with_reducible exact logspec_nextUnpropagated)
macro_rules | `(tactic| ls_lemma) => `(tactic| with_reducible exact logspec_addForbidMultiple _ _ _)

theorem logspec_decideAssertions (level : Nat) : LogSpec (decideAssertions level) := by
  unfold decideAssertions
  ls
macro_rules | `(tactic| ls_lemma) => `(tactic| with_reducible exact logspec_decideAssertions _)

theorem logspec_decideLearned (level : Nat) : LogSpec (decideLearned level) := by
  unfold decideLearned
  ls
macro_rules | `(tactic| ls_lemma) => `(tactic| with_reducible exact logspec_decideLearned _)

theorem logspec_propagate_inner (level : Nat) (fl : Lit) (l : List Nat) : LogSpec (propagate.outer.inner level fl l) := by
  induction l with
  | nil => unfold propagate.outer.inner; exact logspec_pure _
  | cons cid rest ih =>
    unfold propagate.outer.inner
    ls
macro_rules | `(tactic| ls_lemma) => `(tactic| with_reducible exact logspec_propagate_inner _ _ _)

theorem logspec_propagate_outer (level fuel : Nat) : LogSpec (propagate.outer level fuel) := by
  induction fuel with
  | zero => unfold propagate.outer; exact logspec_outOfFuel
  | succ n ih =>
    unfold propagate.outer
    ls
macro_rules | `(tactic| ls_lemma) => `(tactic| with_reducible exact logspec_propagate_outer _ _)

theorem logspec_propagate (level fuel : Nat) : LogSpec (propagate level fuel) := by
  unfold propagate
  ls
macro_rules | `(tactic| ls_lemma) => `(tactic| with_reducible exact logspec_propagate _ _)

theorem logspec_decide (U : Universe) : LogSpec (decide U) := by
  unfold decide
  ls
macro_rules | `(tactic| ls_lemma) => `(tactic| with_reducible exact logspec_decide _)

theorem logspec_analyzeUnsolvable (cid : Nat) : LogSpec (analyzeUnsolvable cid) := by
  unfold analyzeUnsolvable
  ls
macro_rules | `(tactic| ls_lemma) => `(tactic| with_reducible exact logspec_analyzeUnsolvable _)

theorem logspec_analyze_pop (seen : List Nat) (f : Nat) : LogSpec (analyze.outer.pop seen f) := by
  induction f with
  | zero => unfold analyze.outer.pop; exact logspec_outOfFuel
  | succ n ih =>
    unfold analyze.outer.pop
    ls
macro_rules | `(tactic| ls_lemma) => `(tactic| with_reducible exact logspec_analyze_pop _ _)

theorem logspec_analyze_outer (fuel curLevel conflVar clauseId : Nat) (seen : List Nat) (causes : Nat) (learnt : List Lit)
    (backTo : Nat) (why : List Nat) (first : Bool) :
    LogSpec (analyze.outer fuel curLevel conflVar clauseId seen causes learnt backTo why first) := by
  induction fuel generalizing curLevel conflVar clauseId seen causes learnt backTo why first with
  | zero => unfold analyze.outer; exact logspec_outOfFuel
  | succ n ih =>
    unfold analyze.outer
    ls_ih ih
macro_rules | `(tactic| ls_lemma) => `(tactic| with_reducible exact logspec_analyze_outer _ _ _ _ _ _ _ _ _ _)

theorem logspec_analyze (U : Universe) (level conflVar clauseId fuel : Nat) : LogSpec (analyze U level conflVar clauseId fuel) := by
  unfold analyze
  ls
macro_rules | `(tactic| ls_lemma) => `(tactic| with_reducible exact logspec_analyze _ _ _ _ _)

theorem logspec_propagateAndLearn_loop (U : Universe) (fuel f level : Nat) : LogSpec (propagateAndLearn.loop U fuel f level) := by
  induction f generalizing level with
  | zero => unfold propagateAndLearn.loop; exact logspec_outOfFuel
  | succ n ih =>
    unfold propagateAndLearn.loop
    ls_ih ih
macro_rules | `(tactic| ls_lemma) => `(tactic| with_reducible exact logspec_propagateAndLearn_loop _ _ _ _)

theorem logspec_propagateAndLearn (U : Universe) (level fuel : Nat) : LogSpec (propagateAndLearn U level fuel) := by
  unfold propagateAndLearn
  ls
macro_rules | `(tactic| ls_lemma) => `(tactic| with_reducible exact logspec_propagateAndLearn _ _ _)

theorem logspec_resolveDependencies_loop (U : Universe) (fuel f level : Nat) : LogSpec (resolveDependencies.loop U fuel f level) := by
  induction f generalizing level with
  | zero => unfold resolveDependencies.loop; exact logspec_outOfFuel
  | succ n ih =>
    unfold resolveDependencies.loop
    ls_ih ih
macro_rules | `(tactic| ls_lemma) => `(tactic| with_reducible exact logspec_resolveDependencies_loop _ _ _ _)

theorem logspec_resolveDependencies (U : Universe) (level fuel : Nat) : LogSpec (resolveDependencies U level fuel) := by
  unfold resolveDependencies
  ls
macro_rules | `(tactic| ls_lemma) => `(tactic| with_reducible exact logspec_resolveDependencies _ _ _)

theorem logspec_processUnsolvable (root : SoR) (startLevel cid : Nat) : LogSpec (processUnsolvable root startLevel cid) := by
  unfold processUnsolvable
  ls
macro_rules | `(tactic| ls_lemma) => `(tactic| with_reducible exact logspec_processUnsolvable _ _ _)

theorem logspec_runSat_loop (U : Universe) (P : Problem) (root : SoR) (fuel startLevel f level : Nat) :
    LogSpec (runSat.loop U P root fuel startLevel f level) := by
  induction f generalizing level with
  | zero => unfold runSat.loop; exact logspec_outOfFuel
  | succ n ih =>
    unfold runSat.loop
    ls_ih ih
macro_rules | `(tactic| ls_lemma) => `(tactic| with_reducible exact logspec_runSat_loop _ _ _ _ _ _ _)

theorem logspec_runSat (U : Universe) (P : Problem) (root : SoR) (fuel : Nat) : LogSpec (runSat U P root fuel) := by
  unfold runSat
  ls
macro_rules | `(tactic| ls_lemma) => `(tactic| with_reducible exact logspec_runSat _ _ _ _)

theorem logspec_solve (U : Universe) (P : Problem) (fuel : Nat) : LogSpec (solve U P fuel) := by
  unfold solve
  ls

/-- the entries one `solve` adds to the call log, given its outcome -/
def OutcomeChunk (o : Outcome) (new : List GEv) : Prop :=
  CallsPolled new ∧
  match o with
  | .stop (.cancelled v) => ∃ k rest, new = .poll k true :: rest ∧ v = 7000 + k ∧ NoFired rest
  | _ => NoFired new

/-- **The call-log discipline of a whole solve** — every universe, problem, fuel and solver state (cache contents,
    cancellation plan, sync or async mode with any completion order). -/
theorem solveRun_chunk (U : Universe) (P : Problem) (fuel : Nat) (s : S) :
    ∃ new, (solveRun U P fuel s).2.glog = new ++ s.glog ∧ OutcomeChunk (solveRun U P fuel s).1 new := by
  obtain ⟨new, hg, hp, hc⟩ := (logspec_solve U P fuel).at s
  have hrun : (solve U P fuel).run.run s = runM (solve U P fuel) s := rfl
  unfold solveRun
  rw [hrun]
  cases h : runM (solve U P fuel) s with
  | mk r s' =>
    rw [h] at hg hc
    cases r with
    | ok o =>
      cases o with
      | ok sol => exact ⟨new, hg, hp, hc⟩
      | unsat c => exact ⟨new, hg, hp, hc⟩
    | error e =>
      refine ⟨new, hg, hp, ?_⟩
      simp only at hc ⊢
      cases e with
      | cancelled v => exact hc
      | panic site => exact hc
      | outOfFuel => exact hc

end Resolvo.MDet
