import Resolvo.MDet.AsyncDeps
import Resolvo.Abs.Preferred
import Resolvo.Enc.AtMostOneProofs
/-!
# The encoder only states true facts (refinement obligation R3, kinds of clauses)

`KindTrue U P org k`: the clause kind `k` — over the variables whose origins are `org` — states a true fact of the
universe: a `requires p r` belongs to `p`'s requirements, a `constrains p c vs` to its constrains and `c` is a candidate
that does not match, a `lock` / `excluded` clause reflects the package's lock / exclusion list or Unknown dependencies,
a `forbid` clause is about a solvable of the named package. (The candidates of a requirement are not part of the kind:
`Conflict::graph` recomputes them from the provider.)

`TInv`: the variable map is consistent and every clause in the arena has a true kind. `Tr pre x post` is a Hoare triple
over the model's monad that maintains `TInv`, only extends the variable origins (`Ext`), and establishes `post` for
normal results. Proved here: every callback of the encoder (`on_dependencies_available`, `on_candidates_available`,
`on_requirement_candidates_available`, `on_constraint_candidates_available`), given the provider's answer for a
legitimate task, maintains `TInv` — i.e. adds only true clauses — whatever the solver state (partial assignment,
trackers, hints). The callbacks are shared by the synchronous and the asynchronous encoder.
-/
set_option linter.unusedSimpArgs false
namespace Resolvo.MDet
open Resolvo Resolvo.Sat Resolvo.Abs

/-- provider contract used by the lock / exclusion clauses: listed candidates carry the package's name, the locked and
    the excluded solvables are candidates -/
structure WFU (U : Universe) : Prop where
  names : ∀ n p, U.pkg? n = some p → ∀ c ∈ p.cands, U.nameOf c = n
  excl : ∀ n p, U.pkg? n = some p → ∀ e ∈ p.excluded, e.1 ∈ p.cands
  lock : ∀ n p l, U.pkg? n = some p → p.locked = some l → l ∈ p.cands

/-- the variable origins and the cache of requirement candidates only grow -/
structure Ext (s s' : S) : Prop where
  org : ∀ v o, s.origins.lookup v = some o → s'.origins.lookup v = some o
  rc : ∀ r x, s.reqCands.lookup r = some x → s'.reqCands.lookup r = some x

theorem Ext.refl (s : S) : Ext s s := ⟨fun _ _ h => h, fun _ _ h => h⟩
theorem Ext.trans {a b c : S} (h1 : Ext a b) (h2 : Ext b c) : Ext a c :=
  ⟨fun v o h => h2.org v o (h1.org v o h), fun r x h => h2.rc r x (h1.rc r x h)⟩
theorem Ext.of_eq {s s' : S} (h1 : s'.origins = s.origins) (h2 : s'.reqCands = s.reqCands) : Ext s s' :=
  ⟨by intro v o hv; rw [h1]; exact hv, by intro r x hr; rw [h2]; exact hr⟩

theorem oSolv_ext {s s' : S} (h : Ext s s') (v sv : Nat) (hv : oSolv s.origins v = some sv) : oSolv s'.origins v = some sv :=
  oSolv_mono _ _ h.org v sv hv

theorem oParentDeps_ext (U : Universe) (P : Problem) {s s' : S} (h : Ext s s') (p : Nat) (d : List Req × List Nat)
    (hp : oParentDeps U P s.origins p = some d) : oParentDeps U P s'.origins p = some d := by
  unfold oParentDeps at *
  cases hl : s.origins.lookup p with
  | none => rw [hl] at hp; cases hp
  | some o => rw [h.org p o hl]; rw [hl] at hp; exact hp

theorem kindTrue_ext (U : Universe) (P : Problem) {s s' : S} (h : Ext s s') (k : Kind)
    (hk : KindTrue U P s.origins k) : KindTrue U P s'.origins k := by
  cases k with
  | root => trivial
  | learnt i => trivial
  | requires p r =>
    obtain ⟨reqs, cons, h1, h2⟩ := hk
    exact ⟨reqs, cons, oParentDeps_ext U P h p _ h1, h2⟩
  | constrains p c vs =>
    obtain ⟨⟨reqs, cons, h1, h2⟩, t, h3, h4⟩ := hk
    exact ⟨⟨reqs, cons, oParentDeps_ext U P h p _ h1, h2⟩, t, oSolv_ext h c t h3, h4⟩
  | forbid a hh pos n =>
    obtain ⟨sv, h1, h2⟩ := hk
    exact ⟨sv, oSolv_ext h a sv h1, h2⟩
  | lock l o =>
    obtain ⟨ls, os, p, h1, h2, h3, h4, h5⟩ := hk
    exact ⟨ls, os, p, oSolv_ext h l ls h1, oSolv_ext h o os h2, h3, h4, h5⟩
  | excluded v reason =>
    obtain ⟨sv, h1, h2⟩ := hk
    exact ⟨sv, oSolv_ext h v sv h1, h2⟩


/-- what a task's solvable-or-root depends on, according to the provider -/
def sidDeps (U : Universe) (P : Problem) : SoR → Option (List Req × List Nat)
  | none => some (P.reqs, P.constraints)
  | some x => match U.deps x with | .known r c => some (r, c) | .unknown _ => none

/-- the answer the provider gives for the dependencies of a solvable-or-root -/
def depsAnswer (U : Universe) (P : Problem) : SoR → Deps
  | none => .known P.reqs P.constraints
  | some x => U.deps x

/-- a queued task asks about something true: the requirement / constraint belongs to the solvable's dependencies -/
def TaskLegit (U : Universe) (P : Problem) : Task → Prop
  | .deps _ => True
  | .pkg _ => True
  | .req sid r => ∃ reqs cons, sidDeps U P sid = some (reqs, cons) ∧ r ∈ reqs
  | .cons sid vs => ∃ reqs cons, sidDeps U P sid = some (reqs, cons) ∧ vs ∈ cons

/-- the variables `vars` stand for exactly the candidates of the requirement `r` -/
def CandVars (U : Universe) (s : S) (r : Req) (vars : List Nat) : Prop :=
  (∀ v ∈ vars, ∃ c, oSolv s.origins v = some c ∧ c ∈ U.reqCands r) ∧ (∀ c ∈ U.reqCands r, ∃ v ∈ vars, oSolv s.origins v = some c)

theorem candVars_ext (U : Universe) {s s' : S} (h : Ext s s') (r : Req) (vars : List Nat) (hc : CandVars U s r vars) : CandVars U s' r vars :=
  ⟨fun v hv => let ⟨c, h1, h2⟩ := hc.1 v hv; ⟨c, oSolv_ext h v c h1, h2⟩,
   fun c hcm => let ⟨v, h1, h2⟩ := hc.2 c hcm; ⟨v, h1, oSolv_ext h v c h2⟩⟩

/-- the variables `vars` stand, position by position, for the requirement's candidates in the provider's preference order -/
def OrdVars (U : Universe) (s : S) (r : Req) (vars : List Nat) : Prop :=
  vars.length = (reqSorted U r).length ∧ ∀ p ∈ (reqSorted U r).zip vars, oSolv s.origins p.2 = some p.1

theorem ordVars_ext (U : Universe) {s s' : S} (h : Ext s s') (r : Req) (vars : List Nat) (ho : OrdVars U s r vars) : OrdVars U s' r vars :=
  ⟨ho.1, fun p hp => oSolv_ext h p.2 p.1 (ho.2 p hp)⟩

/-- the part of the invariant about literals: solvable variables are unique, the cached variables of a requirement stand
    for exactly its candidates, and every requires clause finds its requirement in that cache -/
structure XInv (U : Universe) (s : S) : Prop where
  inj : ∀ v x, s.origins.lookup v = some (.solvable x) → s.solvVar.lookup x = some v
  cache : ∀ r vsVars, s.reqCands.lookup r = some vsVars → CandVars U s r vsVars.flatten
  order : ∀ r vsVars, s.reqCands.lookup r = some vsVars → OrdVars U s r vsVars.flatten
  reqs : ∀ c ∈ s.clauses.toList, ∀ p r, c.kind = .requires p r → (s.reqCands.lookup r).isSome = true

theorem xinv_of_view {U : Universe} {s s' : S} (h : XInv U s) (h1 : s'.origins = s.origins) (h2 : s'.solvVar = s.solvVar)
    (h4 : s'.clauses = s.clauses) (h7 : s'.reqCands = s.reqCands) : XInv U s' :=
  ⟨by rw [h1, h2]; exact h.inj,
   by rw [h7]; intro r x hr; exact candVars_ext U (Ext.of_eq h1 h7) r _ (h.cache r x hr),
   by rw [h7]; intro r x hr; exact ordVars_ext U (Ext.of_eq h1 h7) r _ (h.order r x hr),
   by rw [h4, h7]; exact h.reqs⟩

/-- the invariant: a consistent variable map, only true clause kinds, only legitimate queued tasks -/
structure TInv (U : Universe) (P : Problem) (s : S) : Prop where
  extra : XInv U s
  wf : WFU U
  root0 : s.origins.lookup 0 = some .root
  fresh : ∀ v o, s.origins.lookup v = some o → v < s.nextVar
  sv : ∀ x v, s.solvVar.lookup x = some v → s.origins.lookup v = some (.solvable x)
  kinds : ∀ c ∈ s.clauses.toList, KindTrue U P s.origins c.kind
  trk : ∀ name tr, s.trackers.lookup name = some tr → ∀ x ∈ tr.vars, ∃ sx, oSolv s.origins x = some sx ∧ U.nameOf sx = name
  queue : ∀ t ∈ s.queue, TaskLegit U P t

theorem tinv_of_view {U : Universe} {P : Problem} {s s' : S} (h : TInv U P s) (h1 : s'.origins = s.origins)
    (h2 : s'.solvVar = s.solvVar) (h3 : s'.nextVar = s.nextVar) (h4 : s'.clauses = s.clauses) (h5 : s'.trackers = s.trackers)
    (h6 : s'.queue = s.queue) (h7 : s'.reqCands = s.reqCands) : TInv U P s' ∧ Ext s s' :=
  ⟨⟨xinv_of_view h.extra h1 h2 h4 h7, h.wf, by rw [h1]; exact h.root0, by rw [h1, h3]; exact h.fresh, by rw [h1, h2]; exact h.sv,
    by rw [h1, h4]; exact h.kinds, by rw [h1, h5]; exact h.trk, by rw [h6]; exact h.queue⟩,
   Ext.of_eq h1 h7⟩

/-! ### `TM`: the computation keeps the invariant and only extends the variable map -/

def TMAt (U : Universe) (P : Problem) {α : Type} (x : M α) (s : S) : Prop :=
  TInv U P s → TInv U P (runM x s).2 ∧ Ext s (runM x s).2
def TM (U : Universe) (P : Problem) {α : Type} (x : M α) : Prop := ∀ s, TMAt U P x s

variable {U : Universe} {P : Problem}

theorem tm_pure {α : Type} (a : α) : TM U P (pure a : M α) := fun s h => ⟨h, Ext.refl s⟩
theorem tm_get : TM U P (get : M S) := fun s h => ⟨h, Ext.refl s⟩
theorem tm_throw {α : Type} (e : Stop) : TM U P (throw e : M α) := fun s h => ⟨h, Ext.refl s⟩
theorem tm_panic {α : Type} (site : String) : TM U P (panic site : M α) := fun s h => ⟨h, Ext.refl s⟩
theorem tm_modify (g : S → S) (h : ∀ s, TInv U P s → TInv U P (g s) ∧ Ext s (g s)) : TM U P (modify g : M Unit) :=
  fun s hs => h s hs

theorem tmAt_bind {α β : Type} (x : M α) (k : α → M β) (s : S) (hx : TMAt U P x s)
    (hk : ∀ a s1, runM x s = (.ok a, s1) → TMAt U P (k a) s1) : TMAt U P (x >>= k) s := by
  intro hs
  rw [runM_bind]
  cases h : runM x s with
  | mk r s1 =>
    have h1 := hx hs
    rw [h] at h1
    cases r with
    | error e => exact h1
    | ok a =>
      obtain ⟨h2, e2⟩ := hk a s1 h h1.1
      exact ⟨h2, h1.2.trans e2⟩

theorem tm_bind {α β : Type} (x : M α) (k : α → M β) (hx : TM U P x) (hk : ∀ a, TM U P (k a)) :
    TM U P (x >>= k) := fun s => tmAt_bind x k s (hx s) (fun a s1 _ => hk a s1)

theorem tm_get_bind {β : Type} (k : S → M β) (hk : ∀ s, TMAt U P (k s) s) : TM U P (get >>= k) := by
  intro s
  apply tmAt_bind _ _ _ (tm_get s)
  intro a s1 h
  simp only [runM_get, Prod.mk.injEq, Except.ok.injEq] at h
  obtain ⟨rfl, rfl⟩ := h
  exact hk _

theorem tmAt_set_bind {β : Type} (s' s : S) (k : Unit → M β) (h : TInv U P s → TInv U P s' ∧ Ext s s') (hk : TM U P (k ())) :
    TMAt U P (set s' >>= k) s := by
  apply tmAt_bind
  · intro hs; exact h hs
  · intro a s1 h1
    simp only [runM_set, Prod.mk.injEq, Except.ok.injEq] at h1
    obtain ⟨_, rfl⟩ := h1
    exact hk _

theorem tm_forIn {γ δ : Type} (xs : List γ) (init : δ) (body : γ → δ → M (ForInStep δ))
    (h : ∀ x b, TM U P (body x b)) : TM U P (forIn xs init body) := by
  induction xs generalizing init with
  | nil => simp only [List.forIn_nil]; exact tm_pure _
  | cons x xs ih =>
    simp only [List.forIn_cons]
    apply tm_bind _ _ (h x init)
    intro r
    cases r with
    | done b => exact tm_pure b
    | yield b => exact ih b

theorem tm_forIn_mem {γ δ : Type} (xs : List γ) (init : δ) (body : γ → δ → M (ForInStep δ))
    (h : ∀ x b, x ∈ xs → TM U P (body x b)) : TM U P (forIn xs init body) := by
  induction xs generalizing init with
  | nil => simp only [List.forIn_nil]; exact tm_pure _
  | cons x xs ih =>
    simp only [List.forIn_cons]
    apply tm_bind _ _ (h x init List.mem_cons_self)
    intro r
    cases r with
    | done b => exact tm_pure b
    | yield b => exact ih b (fun x b hx => h x b (List.mem_cons_of_mem _ hx))

theorem TM.at {α : Type} {x : M α} (h : TM U P x) (s : S) : TMAt U P x s := h s
theorem TM.mk {α : Type} {x : M α} (h : ∀ s, TMAt U P x s) : TM U P x := h

theorem tm_pollCancel : TM U P pollCancel := by
  intro s hs
  rw [runM_pollCancel]
  split <;> exact tinv_of_view hs rfl rfl rfl rfl rfl rfl rfl

/-! ### `Tr`: the same with a context of facts that survive extensions of the variable map, and a postcondition -/

/-- a state predicate that survives any extension of the origins -/
def Stable (F : S → Prop) : Prop := ∀ s s', Ext s s' → F s → F s'

theorem stable_const (p : Prop) : Stable (fun _ => p) := fun _ _ _ h => h
theorem stable_and {F G : S → Prop} (hF : Stable F) (hG : Stable G) : Stable (fun s => F s ∧ G s) :=
  fun s s' e h => ⟨hF s s' e h.1, hG s s' e h.2⟩
theorem stable_osolv (v x : Nat) : Stable (fun s => oSolv s.origins v = some x) := fun _ _ e h => oSolv_ext e v x h

def Tr (U : Universe) (P : Problem) {α : Type} (F : S → Prop) (x : M α) (G : α → S → Prop) : Prop :=
  ∀ s, TInv U P s → F s → TInv U P (runM x s).2 ∧ Ext s (runM x s).2 ∧ ∀ a, (runM x s).1 = .ok a → G a (runM x s).2

theorem tr_of_tm {α : Type} {x : M α} (F : S → Prop) (h : TM U P x) : Tr U P F x (fun _ _ => True) :=
  fun s hi _ => ⟨(h s hi).1, (h s hi).2, fun _ _ => trivial⟩

theorem tm_of_tr {α : Type} {x : M α} {G : α → S → Prop} (h : Tr U P (fun _ => True) x G) : TM U P x :=
  fun s hi => ⟨(h s hi trivial).1, (h s hi trivial).2.1⟩

theorem tr_weaken {α : Type} {F F' : S → Prop} {x : M α} {G G' : α → S → Prop}
    (h : Tr U P F x G) (hpre : ∀ s, F' s → F s) (hpost : ∀ a s, G a s → G' a s) : Tr U P F' x G' :=
  fun s hi hp => let ⟨a, b, c⟩ := h s hi (hpre s hp); ⟨a, b, fun r hr => hpost r _ (c r hr)⟩

theorem tr_drop {α : Type} {F : S → Prop} {x : M α} {G : α → S → Prop} (h : Tr U P F x G) : Tr U P F x (fun _ _ => True) :=
  tr_weaken h (fun _ h => h) (fun _ _ _ => trivial)

theorem tr_at {α : Type} {F : S → Prop} {x : M α} {G : α → S → Prop} (h : Tr U P F x G) {s0 s1 : S} (hi : TInv U P s1) (hF : F s1)
    (he : Ext s0 s1) : TInv U P (runM x s1).2 ∧ Ext s0 (runM x s1).2 ∧ ∀ a, (runM x s1).1 = .ok a → G a (runM x s1).2 :=
  let ⟨a, b, c⟩ := h s1 hi hF; ⟨a, he.trans b, c⟩

theorem tr_panic_bind {α β : Type} (F : S → Prop) (site : String) (k : α → M β) (G : β → S → Prop) :
    Tr U P F ((panic site : M α) >>= k) G := by
  intro s hi _
  simp only [panic, runM_bind, runM_throw]
  exact ⟨hi, Ext.refl s, fun a ha => by cases ha⟩

/-- a fact the context implies (in any state) may be assumed outright -/
theorem tr_assume {α : Type} {F : S → Prop} {x : M α} {G : α → S → Prop} {p : Prop} (hp : ∀ s, F s → p) (h : p → Tr U P F x G) :
    Tr U P F x G := fun s hi hF => h (hp s hF) s hi hF

/-- a maintained computation together with a fact about the values it can return -/
theorem tr_of_tm_spec {α : Type} {x : M α} (F : S → Prop) (Q : α → Prop) (h : TM U P x)
    (hspec : ∀ s s' v, runM x s = (.ok v, s') → Q v) : Tr U P F x (fun v _ => Q v) := by
  intro s hi _
  refine ⟨(h s hi).1, (h s hi).2, fun a ha => ?_⟩
  apply hspec s (runM x s).2 a
  cases hr : runM x s with
  | mk r s' => rw [hr] at ha; simp only at ha; rw [ha]

theorem tm_panic_bind {α β : Type} (site : String) (k : α → M β) : TM U P ((panic site : M α) >>= k) :=
  tm_of_tr (tr_panic_bind (fun _ => True) site k (fun _ _ => True))

theorem tmAt_of_tr {α : Type} {F : S → Prop} {x : M α} {G : α → S → Prop} {s : S} (h : Tr U P F x G) (hF : TInv U P s → F s) :
    TMAt U P x s := fun hi => ⟨(h s hi (hF hi)).1, (h s hi (hF hi)).2.1⟩

theorem tmAt_of_imp {α : Type} {x : M α} {s : S} (h : TInv U P s → TMAt U P x s) : TMAt U P x s := fun hi => h hi hi

theorem stable_hasReq (r : Req) : Stable (fun s => (s.reqCands.lookup r).isSome = true) := by
  intro s s' e h
  cases hl : s.reqCands.lookup r with
  | none => rw [hl] at h; cases h
  | some x => rw [e.rc r x hl]; rfl
theorem stable_kindReq (k : Kind) : Stable (fun s => ∀ p r, k = .requires p r → (s.reqCands.lookup r).isSome = true) :=
  fun s s' e h p r hk => stable_hasReq r s s' e (h p r hk)

theorem stable_kind (k : Kind) : Stable (fun s => KindTrue U P s.origins k) := fun _ _ e h => kindTrue_ext U P e k h

theorem tr_pure_ctx {α : Type} {F : S → Prop} (a : α) {G : α → S → Prop} (h : ∀ s, F s → G a s) : Tr U P F (pure a : M α) G :=
  fun s hi hF => ⟨hi, Ext.refl s, fun r hr => by cases hr; exact h s hF⟩

theorem tr_pure {α : Type} (F : S → Prop) (a : α) : Tr U P F (pure a : M α) (fun r _ => r = a) :=
  fun s hi _ => ⟨hi, Ext.refl s, fun r hr => by cases hr; rfl⟩

/-- sequencing: the context is carried across (it is stable) and the postcondition of the first joins it -/
theorem tr_bind {α β : Type} {F : S → Prop} {x : M α} {G : α → S → Prop} {k : α → M β} {H : β → S → Prop}
    (hF : Stable F) (hx : Tr U P F x G) (hk : ∀ a, Tr U P (fun s => F s ∧ G a s) (k a) H) : Tr U P F (x >>= k) H := by
  intro s hi hp
  obtain ⟨i1, e1, p1⟩ := hx s hi hp
  rw [runM_bind]
  cases h : runM x s with
  | mk r s1 =>
    rw [h] at i1 e1 p1
    cases r with
    | error e => exact ⟨i1, e1, fun a ha => by cases ha⟩
    | ok a =>
      obtain ⟨i2, e2, p2⟩ := hk a s1 i1 ⟨hF s s1 e1 hp, p1 a rfl⟩
      exact ⟨i2, Ext.trans e1 e2, p2⟩

theorem tr_forIn {γ δ : Type} {F : S → Prop} (hF : Stable F) (xs : List γ) (init : δ) (body : γ → δ → M (ForInStep δ))
    (h : ∀ x b, x ∈ xs → Tr U P F (body x b) (fun _ _ => True)) :
    Tr U P F (forIn xs init body) (fun _ _ => True) := by
  induction xs generalizing init with
  | nil => simp only [List.forIn_nil]; exact tr_drop (tr_pure F init)
  | cons x xs ih =>
    simp only [List.forIn_cons]
    apply tr_bind hF (h x init List.mem_cons_self)
    intro r
    apply tr_weaken (F := F) _ (fun _ h => h.1) (fun _ _ h => h)
    cases r with
    | done b => exact tr_drop (tr_pure F b)
    | yield b => exact ih b (fun x b hx => h x b (List.mem_cons_of_mem _ hx))

/-- a loop with an accumulator: `I done acc` relates the accumulator to the elements processed so far -/
theorem tr_forIn_inv {γ δ : Type} {F : S → Prop} (hF : Stable F) (I : List γ → δ → S → Prop)
    (body : γ → δ → M (ForInStep δ)) (xs : List γ) (pre : List γ) (init : δ)
    (h : ∀ pre' x b, x ∈ xs → Tr U P (fun s => F s ∧ I pre' b s) (body x b) (fun r s => ∃ b', r = .yield b' ∧ I (pre' ++ [x]) b' s)) :
    Tr U P (fun s => F s ∧ I pre init s) (forIn xs init body) (fun b s => I (pre ++ xs) b s) := by
  induction xs generalizing pre init with
  | nil =>
    intro s hi hp
    simp only [List.forIn_nil, runM_pure, List.append_nil]
    exact ⟨hi, Ext.refl s, fun a ha => by cases ha; exact hp.2⟩
  | cons x xs ih =>
    intro s hi hp
    simp only [List.forIn_cons]
    rw [runM_bind]
    obtain ⟨i1, e1, p1⟩ := h pre x init List.mem_cons_self s hi hp
    cases hr : runM (body x init) s with
    | mk r s1 =>
      rw [hr] at i1 e1 p1
      cases r with
      | error e => exact ⟨i1, e1, fun a ha => by cases ha⟩
      | ok r =>
        obtain ⟨b', rfl, hI⟩ := p1 r rfl
        dsimp only
        obtain ⟨i2, e2, p2⟩ := ih (pre ++ [x]) b' (fun pre' y b hy => h pre' y b (List.mem_cons_of_mem _ hy)) s1 i1 ⟨hF s s1 e1 hp.1, hI⟩
        refine ⟨i2, e1.trans e2, fun a ha => ?_⟩
        have := p2 a ha
        simpa [List.append_assoc] using this

/-! ### the primitives that touch the variable map or the clause arena -/

theorem ext_push_origin (s : S) (v : Nat) (o : Origin) (hf : s.origins.lookup v = none) (s' : S)
    (h : s'.origins = (v, o) :: s.origins) (hr : s'.reqCands = s.reqCands) : Ext s s' := by
  refine ⟨?_, by intro r x hx; rw [hr]; exact hx⟩
  intro w x hw
  rw [h]
  exact lookup_cons_stable _ _ _ hf w x hw

theorem tinv_push_origin (s : S) (hi : TInv U P s) (o : Origin) (s' : S)
    (ho : s'.origins = (s.nextVar, o) :: s.origins) (hn : s'.nextVar = s.nextVar + 1)
    (hsv : ∀ x v, s'.solvVar.lookup x = some v → s'.origins.lookup v = some (.solvable x))
    (hc : s'.clauses = s.clauses) (ht : s'.trackers = s.trackers) (hq : s'.queue = s.queue) (hr : s'.reqCands = s.reqCands)
    (hinj : ∀ v x, s'.origins.lookup v = some (.solvable x) → s'.solvVar.lookup x = some v) : TInv U P s' ∧ Ext s s' := by
  have hfresh : s.origins.lookup s.nextVar = none := by
    cases hl : s.origins.lookup s.nextVar with
    | none => rfl
    | some x => exact absurd (hi.fresh _ x hl) (Nat.lt_irrefl _)
  have hext := ext_push_origin s s.nextVar o hfresh s' ho hr
  have hx : XInv U s' := ⟨hinj, by rw [hr]; intro r x hrx; exact candVars_ext U hext r _ (hi.extra.cache r x hrx),
    by rw [hr]; intro r x hrx; exact ordVars_ext U hext r _ (hi.extra.order r x hrx),
    by rw [hc, hr]; exact hi.extra.reqs⟩
  refine ⟨⟨hx, hi.wf, hext.org 0 _ hi.root0, ?_, hsv, ?_, ?_, by rw [hq]; exact hi.queue⟩, hext⟩
  · intro v x hv
    rw [ho, List.lookup_cons] at hv
    rw [hn]
    split at hv
    · next he => have : v = s.nextVar := by simpa using he
                 omega
    · have := hi.fresh v x hv; omega
  · intro c hcm
    rw [hc] at hcm
    exact kindTrue_ext U P hext c.kind (hi.kinds c hcm)
  · intro name tr hl x hx
    rw [ht] at hl
    obtain ⟨sx, h1, h2⟩ := hi.trk name tr hl x hx
    exact ⟨sx, oSolv_ext hext x sx h1, h2⟩

theorem tm_quiet (g : S → S)
    (h1 : ∀ s, (g s).origins = s.origins) (h2 : ∀ s, (g s).solvVar = s.solvVar) (h3 : ∀ s, (g s).nextVar = s.nextVar)
    (h4 : ∀ s, (g s).clauses = s.clauses) (h5 : ∀ s, (g s).trackers = s.trackers) (h6 : ∀ s, (g s).queue = s.queue)
    (h7 : ∀ s, (g s).reqCands = s.reqCands) : TM U P (modify g : M Unit) :=
  tm_modify _ (fun s h => tinv_of_view h (h1 s) (h2 s) (h3 s) (h4 s) (h5 s) (h6 s) (h7 s))

theorem tm_emit (e : Ev) : TM U P (emit e) :=
  tm_quiet _ (fun _ => rfl) (fun _ => rfl) (fun _ => rfl) (fun _ => rfl) (fun _ => rfl) (fun _ => rfl) (fun _ => rfl)

/-- `intern_solvable`: the returned variable stands for the solvable -/
theorem tr_internSolvable (F : S → Prop) (x : Nat) : Tr U P F (internSolvable x) (fun v s => oSolv s.origins v = some x) := by
  intro s hi _
  unfold internSolvable
  simp only [runM_bind, runM_get]
  cases hl : s.solvVar.lookup x with
  | some v =>
    simp only [runM_pure]
    refine ⟨hi, Ext.refl s, fun a ha => ?_⟩
    cases ha
    unfold oSolv; rw [hi.sv x v hl]
  | none =>
    simp only [runM_set, emit, runM_modify, runM_pure]
    have hfresh : s.origins.lookup s.nextVar = none := by
      cases hl2 : s.origins.lookup s.nextVar with
      | none => rfl
      | some y => exact absurd (hi.fresh _ y hl2) (Nat.lt_irrefl _)
    obtain ⟨hi', hext⟩ := tinv_push_origin (U := U) (P := P) s hi (.solvable x)
      { s with nextVar := s.nextVar + 1, solvVar := (x, s.nextVar) :: s.solvVar, origins := (s.nextVar, .solvable x) :: s.origins,
               trace := Ev.var s.nextVar (.solvable x) :: s.trace } rfl rfl (by
        intro y v hy
        simp only [List.lookup_cons] at hy ⊢
        split at hy
        · next he =>
          have hyx : y = x := by simpa using he
          cases hy
          simp [hyx]
        · have := hi.sv y v hy
          have hne : v ≠ s.nextVar := by
            intro hv; rw [hv, hfresh] at this; cases this
          have : (v == s.nextVar) = false := by simpa using hne
          simp only [this]
          exact hi.sv y v hy) rfl rfl rfl rfl (by
        intro v y hv
        simp only [List.lookup_cons] at hv ⊢
        split at hv
        · next he =>
          have hvn : v = s.nextVar := by simpa using he
          cases hv
          simp [hvn]
        · have h1 := hi.extra.inj v y hv
          have hne : y ≠ x := by
            intro hyx; rw [hyx, hl] at h1; cases h1
          have : (y == x) = false := by simpa using hne
          simp only [this]
          exact h1)
    refine ⟨hi', hext, fun a ha => ?_⟩
    cases ha
    unfold oSolv
    simp [List.lookup_cons]

theorem tm_internSolvable (x : Nat) : TM U P (internSolvable x) := tm_of_tr (tr_internSolvable _ x)

/-- what `intern_solvable_or_root` returns for a task's solvable-or-root: a variable with the same dependencies -/
def SidVar (sid : SoR) (v : Nat) (s : S) : Prop :=
  match sid with
  | none => v = 0
  | some x => oSolv s.origins v = some x

theorem sidVar_stable (sid : SoR) (v : Nat) : Stable (SidVar sid v) := by
  intro s s' h hs
  cases sid with
  | none => exact hs
  | some x => exact oSolv_ext h v x hs

theorem parentDeps_of_sidVar (s : S) (hi : TInv U P s) (sid : SoR) (v : Nat) (h : SidVar sid v s) :
    oParentDeps U P s.origins v = sidDeps U P sid := by
  cases sid with
  | none =>
    have : v = 0 := h
    subst this
    unfold oParentDeps sidDeps; rw [hi.root0]
  | some x =>
    have hv : oSolv s.origins v = some x := h
    unfold oSolv at hv
    unfold oParentDeps sidDeps
    cases hl : s.origins.lookup v with
    | none => rw [hl] at hv; cases hv
    | some o =>
      rw [hl] at hv
      cases o with
      | root => cases hv
      | forbid n => cases hv
      | solvable y => cases hv; rfl

theorem tr_internSoR (F : S → Prop) (sid : SoR) : Tr U P F (internSoR sid) (fun v s => SidVar sid v s) := by
  cases sid with
  | none => exact tr_weaken (tr_pure F 0) (fun _ h => h) (fun a _ h => h)
  | some x => exact tr_internSolvable F x

theorem tm_internSoR (sid : SoR) : TM U P (internSoR sid) := tm_of_tr (tr_internSoR _ sid)

theorem tm_allocForbidVar (name : Nat) : TM U P (allocForbidVar name) := by
  intro s hi
  unfold allocForbidVar
  simp only [runM_bind, runM_get, runM_set, emit, runM_modify, runM_pure]
  have hfresh : s.origins.lookup s.nextVar = none := by
    cases hl2 : s.origins.lookup s.nextVar with
    | none => rfl
    | some y => exact absurd (hi.fresh _ y hl2) (Nat.lt_irrefl _)
  exact tinv_push_origin (U := U) (P := P) s hi (.forbid name)
    { s with nextVar := s.nextVar + 1, origins := (s.nextVar, .forbid name) :: s.origins, trace := Ev.var s.nextVar (.forbid name) :: s.trace }
    rfl rfl (by
      intro y v hy
      simp only [List.lookup_cons]
      have := hi.sv y v hy
      have hne : v ≠ s.nextVar := by intro hv; rw [hv, hfresh] at this; cases this
      have : (v == s.nextVar) = false := by simpa using hne
      simp only [this]
      exact hi.sv y v hy) rfl rfl rfl rfl (by
      intro v y hv
      simp only [List.lookup_cons] at hv
      split at hv
      · cases hv
      · exact hi.extra.inj v y hv)

/-- `Clauses::alloc` of a clause whose kind is true in every state the context allows (a requires clause must find its
    requirement in the cache of candidate variables) -/
theorem tr_allocClause (F : S → Prop) (k : Kind) (w : Option (Lit × Lit))
    (hk : ∀ s, TInv U P s → F s → KindTrue U P s.origins k ∧ ∀ p r, k = .requires p r → (s.reqCands.lookup r).isSome = true) :
    Tr U P F (allocClause k w) (fun _ _ => True) := by
  intro s hi hF
  unfold allocClause
  simp only [runM_bind, runM_get, emit, runM_modify, runM_pure]
  refine ⟨⟨⟨hi.extra.inj, hi.extra.cache, hi.extra.order, ?_⟩, hi.wf, hi.root0, hi.fresh, hi.sv, ?_, hi.trk, hi.queue⟩, Ext.of_eq rfl rfl, fun _ _ => trivial⟩
  · intro c hc p r hkr
    simp only [Array.toList_push, List.mem_append, List.mem_singleton] at hc
    rcases hc with hc | hc
    · exact hi.extra.reqs c hc p r hkr
    · subst hc; exact (hk s hi hF).2 p r hkr
  · intro c hc
    simp only [Array.toList_push, List.mem_append, List.mem_singleton] at hc
    rcases hc with hc | hc
    · exact hi.kinds c hc
    · subst hc; exact (hk s hi hF).1

/-- the same for a kind other than `requires` -/
theorem tr_allocClause_nr (F : S → Prop) (k : Kind) (w : Option (Lit × Lit)) (hnr : ∀ p r, k ≠ .requires p r)
    (hk : ∀ s, TInv U P s → F s → KindTrue U P s.origins k) : Tr U P F (allocClause k w) (fun _ _ => True) :=
  tr_allocClause F k w (fun s hi hF => ⟨hk s hi hF, fun p r h => absurd h (hnr p r)⟩)

/-- a clause is overwritten in place by one with a true kind (the watch update of propagation) -/
theorem tr_setClause (F : S → Prop) (cid : Nat) (c' : MClause)
    (hk : ∀ s, TInv U P s → F s → KindTrue U P s.origins c'.kind ∧ ∀ p r, c'.kind = .requires p r → (s.reqCands.lookup r).isSome = true) :
    Tr U P F (modify fun s => { s with clauses := s.clauses.set! cid c' } : M Unit) (fun _ _ => True) := by
  intro s hi hF
  simp only [runM_modify]
  have hmem : ∀ c ∈ (s.clauses.set! cid c').toList, c ∈ s.clauses.toList ∨ c = c' := by
    intro c hc
    have hc' : c ∈ (s.clauses.toList.set cid c') := by
      simpa [Array.set!, Array.toList_setIfInBounds] using hc
    exact List.mem_or_eq_of_mem_set hc'
  refine ⟨⟨⟨hi.extra.inj, hi.extra.cache, hi.extra.order, ?_⟩, hi.wf, hi.root0, hi.fresh, hi.sv, ?_, hi.trk, hi.queue⟩, Ext.of_eq rfl rfl, fun _ _ => trivial⟩
  · intro c hc p r hkr
    rcases hmem c hc with h1 | h1
    · exact hi.extra.reqs c h1 p r hkr
    · subst h1; exact (hk s hi hF).2 p r hkr
  · intro c hc
    rcases hmem c hc with h1 | h1
    · exact hi.kinds c h1
    · subst h1; exact (hk s hi hF).1

theorem tm_allocClause_learnt (i : Nat) (w : Option (Lit × Lit)) : TM U P (allocClause (.learnt i) w) :=
  tm_of_tr (tr_allocClause_nr (fun _ => True) _ w (fun _ _ h => by cases h) (fun _ _ _ => trivial))
theorem tm_allocClause_root (w : Option (Lit × Lit)) : TM U P (allocClause .root w) :=
  tm_of_tr (tr_allocClause_nr (fun _ => True) _ w (fun _ _ h => by cases h) (fun _ _ _ => trivial))

/-! ### what `AtMostOnceTracker::add` emits -/

theorem growLoop_out_a (fuel : Nat) (s : Amo.St) (A : Nat → Prop) (hv : ∀ x ∈ s.t.vars, A x) (ho : ∀ c ∈ s.out, A c.a) :
    ∀ c ∈ (Amo.growLoop fuel s).out, A c.a := by
  induction fuel generalizing s with
  | zero => simpa [Amo.growLoop] using ho
  | succ n ih =>
    rw [Amo.growLoop_succ]
    split
    · apply ih
      · exact hv
      · intro c hc
        simp only [List.mem_append] at hc
        rcases hc with hc | hc
        · exact ho c hc
        · obtain ⟨i, h1, _, _⟩ := Amo.emitExisting_exact _ _ _ _ c hc
          exact hv _ (List.mem_of_getElem? h1)
    · exact ho

/-- every clause `add` emits has a tracked variable or the added one on its left -/
theorem add_out_a (t : Amo.Tracker) (next v : Nat) :
    ∀ c ∈ (Amo.add { t := t, next := next, out := [] } v).out, c.a ∈ t.vars ∨ c.a = v := by
  intro c hc
  unfold Amo.add at hc
  dsimp only at hc
  split at hc
  · cases hc
  · split at hc
    · cases hc
    · simp only [List.mem_append] at hc
      rcases hc with hc | hc
      · exact Or.inl (growLoop_out_a _ _ (fun x => x ∈ t.vars) (fun x hx => hx) (fun c hc => by cases hc) c hc)
      · obtain ⟨_, _, h2, _⟩ := Amo.emitNew_exact _ _ _ _ c hc
        exact Or.inr h2

/-- the variables `vs` stand for the solvables `cs`, position by position -/
def PairOK (cs vs : List Nat) (s : S) : Prop := vs.length = cs.length ∧ ∀ p ∈ cs.zip vs, oSolv s.origins p.2 = some p.1

theorem pairOK_stable (cs vs : List Nat) : Stable (PairOK cs vs) :=
  fun _ _ e h => ⟨h.1, fun p hp => oSolv_ext e p.2 p.1 (h.2 p hp)⟩

theorem pairOK_nil (s : S) : PairOK [] [] s := ⟨rfl, fun _ h => by cases h⟩

theorem pairOK_append {cs vs cs' vs' : List Nat} {s : S} (h1 : PairOK cs vs s) (h2 : PairOK cs' vs' s) :
    PairOK (cs ++ cs') (vs ++ vs') s := by
  refine ⟨by simp [h1.1, h2.1], ?_⟩
  intro p hp
  rw [List.zip_append h1.1.symm] at hp
  rcases List.mem_append.mp hp with hp | hp
  · exact h1.2 p hp
  · exact h2.2 p hp

theorem pairOK_single (c v : Nat) (s : S) (h : oSolv s.origins v = some c) : PairOK [c] [v] s :=
  ⟨rfl, fun p hp => by simp at hp; subst hp; exact h⟩

theorem pairOK_sides {cs vs : List Nat} {s : S} (h : PairOK cs vs s) :
    (∀ v ∈ vs, ∃ c ∈ cs, oSolv s.origins v = some c) ∧ (∀ c ∈ cs, ∃ v ∈ vs, oSolv s.origins v = some c) := by
  obtain ⟨hl, hz⟩ := h
  constructor
  · intro v hv
    obtain ⟨i, hi, rfl⟩ := List.getElem_of_mem hv
    have hi' : i < cs.length := by omega
    refine ⟨cs[i], List.getElem_mem hi', ?_⟩
    have hm : (cs[i], vs[i]) ∈ cs.zip vs := by
      have : i < (cs.zip vs).length := by simp [List.length_zip]; omega
      have := List.getElem_mem this
      simpa [List.getElem_zip] using this
    exact hz _ hm
  · intro c hc
    obtain ⟨i, hi, rfl⟩ := List.getElem_of_mem hc
    have hi' : i < vs.length := by omega
    refine ⟨vs[i], List.getElem_mem hi', ?_⟩
    have hm : (cs[i], vs[i]) ∈ cs.zip vs := by
      have : i < (cs.zip vs).length := by simp [List.length_zip]; omega
      have := List.getElem_mem this
      simpa [List.getElem_zip] using this
    exact hz _ hm

theorem lookup_append_some {α : Type} (l l' : List (Req × α)) (r : Req) (x : α) (h : l.lookup r = some x) :
    (l ++ l').lookup r = some x := by
  induction l with
  | nil => cases h
  | cons e es ih =>
    obtain ⟨k, v⟩ := e
    simp only [List.cons_append, List.lookup_cons] at h ⊢
    split
    · next hk => rw [hk] at h; exact h
    · next hk => rw [hk] at h; exact ih h

theorem lookup_append_none {α : Type} (l l' : List (Req × α)) (r : Req) (h : l.lookup r = none) :
    (l ++ l').lookup r = l'.lookup r := by
  induction l with
  | nil => rfl
  | cons e es ih =>
    obtain ⟨k, v⟩ := e
    simp only [List.cons_append, List.lookup_cons] at h ⊢
    split
    · next hk => rw [hk] at h; cases h
    · next hk => rw [hk] at h; exact ih h

/-- `requirement_to_sorted_candidates.insert` (first insert wins) of variables that stand for exactly the requirement's candidates -/
theorem tr_cacheInsert (F : S → Prop) (r : Req) (vsVars : List (List Nat))
    (h : ∀ s, TInv U P s → F s → CandVars U s r vsVars.flatten ∧ OrdVars U s r vsVars.flatten) :
    Tr U P F (modify fun s => if (s.reqCands.lookup r).isSome then s else { s with reqCands := s.reqCands ++ [(r, vsVars)] } : M Unit)
      (fun _ s => (s.reqCands.lookup r).isSome = true) := by
  intro s hi hF
  simp only [runM_modify]
  by_cases hc : (s.reqCands.lookup r).isSome = true
  · rw [if_pos hc]
    exact ⟨hi, Ext.refl s, fun _ _ => hc⟩
  · rw [if_neg hc]
    have hnone : s.reqCands.lookup r = none := by
      cases hl : s.reqCands.lookup r with
      | none => rfl
      | some x => rw [hl] at hc; exact absurd rfl hc
    have hnew : (s.reqCands ++ [(r, vsVars)]).lookup r = some vsVars := by
      rw [lookup_append_none _ _ _ hnone]; simp [List.lookup_cons]
    refine ⟨⟨⟨hi.extra.inj, ?_, ?_, ?_⟩, hi.wf, hi.root0, hi.fresh, hi.sv, hi.kinds, hi.trk, hi.queue⟩,
      ⟨fun _ _ h => h, fun r' x hr => lookup_append_some _ _ _ _ hr⟩, fun _ _ => by rw [hnew]; rfl⟩
    · intro r' x hr
      show CandVars U s r' x.flatten
      have hr' : (s.reqCands ++ [(r, vsVars)]).lookup r' = some x := hr
      cases hl : s.reqCands.lookup r' with
      | some y =>
        rw [lookup_append_some _ _ _ _ hl] at hr'
        cases hr'
        exact hi.extra.cache r' _ hl
      | none =>
        rw [lookup_append_none _ _ _ hl] at hr'
        simp only [List.lookup_cons, List.lookup_nil] at hr'
        split at hr'
        · next he =>
          have : r' = r := by simpa using he
          subst this
          cases hr'
          exact (h s hi hF).1
        · cases hr'
    · intro r' x hr
      show OrdVars U s r' x.flatten
      have hr' : (s.reqCands ++ [(r, vsVars)]).lookup r' = some x := hr
      cases hl : s.reqCands.lookup r' with
      | some y =>
        rw [lookup_append_some _ _ _ _ hl] at hr'
        cases hr'
        exact hi.extra.order r' _ hl
      | none =>
        rw [lookup_append_none _ _ _ hl] at hr'
        simp only [List.lookup_cons, List.lookup_nil] at hr'
        split at hr'
        · next he =>
          have : r' = r := by simpa using he
          subst this
          cases hr'
          exact (h s hi hF).2
        · cases hr'
    · intro c hcm p r' hk
      have := hi.extra.reqs c hcm p r' hk
      show ((s.reqCands ++ [(r, vsVars)]).lookup r').isSome = true
      cases hl : s.reqCands.lookup r' with
      | none => rw [hl] at this; cases this
      | some y => rw [lookup_append_some _ _ _ _ hl]; rfl

attribute [irreducible] TM

end Resolvo.MDet
