import Resolvo.MDet.TruthSpec
import Resolvo.Abs.Fail
/-!
# The encoder is sound: no clause it adds excludes a real solution (exact model, literal level)

For every valid selection `sel` of the hard problem, the assignment it induces on the model's variables — root true, a
solvable's variable true iff the solvable is selected — satisfies every `requires`, `constrains`, `lock` and `excluded`
clause in the clause arena of the exact model of `Solver::solve`, **read the way the model's propagation reads it**
(`clauseLits`: a requires clause's positive literals come from the cache of candidate variables). Forbid clauses are the
at-most-one encoding, verified on its own (`Enc/AtMostOneProofs.lean`, C15); learnt clauses are derived, not encoded.
The proof uses the invariant `TInv` of `MDet/Truth.lean` (kinds state true facts; solvable variables are unique; the cached
variables of a requirement stand for exactly its candidates; every requires clause finds its requirement in the cache),
established for every run by `solveRun_tinv`.
-/
set_option linter.unusedSimpArgs false
namespace Resolvo.MDet
open Resolvo Resolvo.Sat Resolvo.Abs

/-- the variable map of a model state as a state of the abstract system (no clauses) -/
def orgSt (s : S) : Abs.St := { origins := s.origins }

/-- the assignment a selection induces on the model's variables -/
def muS (s : S) (sel : List Nat) (v : Nat) : Bool := mu (orgSt s) sel v

theorem sinv_orgSt {U : Universe} {P : Problem} {s : S} (h : TInv U P s) : SInv U P (orgSt s) := by
  refine ⟨h.root0, ?_, ?_, ?_⟩
  · intro v v' x hv hv'
    have h1 := h.extra.inj v x hv
    have h2 := h.extra.inj v' x hv'
    rw [h1] at h2
    exact Option.some.inj h2
  · intro cl hcl; cases hcl
  · intro cl1 h1; cases h1

/-- the clause kinds the encoder derives from the provider's data -/
def encoded : Kind → Bool
  | .requires .. => true
  | .constrains .. => true
  | .lock .. => true
  | .excluded .. => true
  | _ => false

theorem clause_sound {U : Universe} {P : Problem} {s : S} (hi : TInv U P s) (sel : List Nat) (hv : Valid U P.hard sel [])
    (c : MClause) (hc : c ∈ s.clauses.toList) (he : encoded c.kind = true) :
    evalClause (muS s sel) (clauseLits s c) = true := by
  have hs := sinv_orgSt hi
  have hk := hi.kinds c hc
  unfold clauseLits
  cases hkind : c.kind with
  | root => rw [hkind] at he; cases he
  | learnt i => rw [hkind] at he; cases he
  | forbid a h pos n => rw [hkind] at he; cases he
  | requires p r =>
    rw [hkind] at hk
    obtain ⟨reqs, cons, h1, h2⟩ := hk
    dsimp only
    cases hmp : muS s sel p with
    | false => simp [Sat.evalClause, Sat.evalLit, hmp]
    | true =>
      have hm := parent_met U P (orgSt s) hs sel hv p reqs cons h1 hmp
      obtain ⟨cand, hcand, hcs⟩ := hm.1 r h2
      have hsome := hi.extra.reqs c hc p r hkind
      cases hl : s.reqCands.lookup r with
      | none => rw [hl] at hsome; cases hsome
      | some vsVars =>
        obtain ⟨v, hvm, hvs⟩ := (hi.extra.cache r vsVars hl).2 cand hcand
        have : muS s sel v = true := by
          unfold muS; rw [mu_solv (orgSt s) sel v cand hvs]; exact List.contains_iff_mem.mpr hcs
        apply List.any_eq_true.mpr
        refine ⟨(v, true), List.mem_cons_of_mem _ (List.mem_map.mpr ⟨v, ?_, rfl⟩), evalLit_pos_of_true _ _ this⟩
        simpa using hvm
  | constrains p cv vs =>
    rw [hkind] at hk
    obtain ⟨⟨reqs, cons, h1, h2⟩, t, h3, h4⟩ := hk
    dsimp only
    cases hmp : muS s sel p with
    | false => simp [Sat.evalClause, Sat.evalLit, hmp]
    | true =>
      have hm := parent_met U P (orgSt s) hs sel hv p reqs cons h1 hmp
      have hnot := hm.2 vs h2 t h4
      have : muS s sel cv = false := by
        unfold muS; rw [mu_solv (orgSt s) sel cv t h3]
        cases hct : sel.contains t with
        | false => rfl
        | true => exact absurd (List.contains_iff_mem.mp hct) hnot
      simp [Sat.evalClause, Sat.evalLit, this]
  | lock l o =>
    rw [hkind] at hk
    obtain ⟨ls, os, p, _, h2, h3, h4, h5⟩ := hk
    dsimp only
    have : muS s sel o = false := by
      unfold muS; rw [mu_solv (orgSt s) sel o os h2]
      cases hct : sel.contains os with
      | false => rfl
      | true =>
        have hos := List.contains_iff_mem.mp hct
        have := (hv.2.2.1 os hos (by simp)).2
        unfold Universe.lockedOut at this
        rw [h3] at this
        simp only [h4] at this
        have hne : (ls != os) = true := by simp [bne_iff_ne, Ne.symm h5]
        rw [hne] at this; cases this
    simp [Sat.evalClause, Sat.evalLit, this]
  | excluded v reason =>
    rw [hkind] at hk
    obtain ⟨x, h1, h2⟩ := hk
    dsimp only
    have : muS s sel v = false := by
      unfold muS; rw [mu_solv (orgSt s) sel v x h1]
      cases hct : sel.contains x with
      | false => rfl
      | true =>
        have hx := List.contains_iff_mem.mp hct
        rcases h2 with hd | ⟨p, hp1, hp2⟩
        · obtain ⟨reqs', cons', hd', _⟩ := hv.2.1 x hx
          rw [hd] at hd'; cases hd'
        · have := (hv.2.2.1 x hx (by simp)).1
          unfold Universe.excluded at this
          rw [hp1] at this
          simp only [] at this
          have hany : p.excluded.any (fun e => e.1 == x) = true :=
            List.any_eq_true.mpr ⟨(x, reason), hp2, by simp⟩
          rw [hany] at this; cases this
    simp [Sat.evalClause, Sat.evalLit, this]

/-- **Encoder soundness for the exact model** (every universe meeting the provider contract, every problem, fuel and
    solver state carried over from earlier solves, synchronous or asynchronous, whatever the outcome): after a solve, every
    valid selection of the hard problem satisfies — under the assignment it induces — every requires, constrains, lock
    and exclusion clause in the model's clause arena, as the model's own propagation reads those clauses. No clause the
    encoder ever adds rules out a real solution. -/
theorem encoder_sound (U : Universe) (hU : WFU U) (P : Problem) (fuel : Nat) (s0 : S) (sel : List Nat)
    (hv : Valid U P.hard sel []) :
    ∀ c ∈ (solveRun U P fuel s0).2.clauses.toList, encoded c.kind = true →
      evalClause (muS (solveRun U P fuel s0).2 sel) (clauseLits (solveRun U P fuel s0).2 c) = true :=
  fun c hc he => clause_sound (solveRun_tinv U hU P fuel s0) sel hv c hc he

/-- the root variable is true under the assignment any selection induces -/
theorem muS_root {U : Universe} {P : Problem} {s : S} (hi : TInv U P s) (sel : List Nat) : muS s sel 0 = true :=
  mu_root U P (orgSt s) (sinv_orgSt hi) sel

/-- **Encoder soundness, the way a verdict uses it** (same quantification as `encoder_sound`): if no assignment that makes
    the root variable true satisfies all the requires, constrains, lock and exclusion clauses the model holds after a
    solve, the hard problem has no valid selection at all. -/
theorem no_solution_of_encoded_unsat (U : Universe) (hU : WFU U) (P : Problem) (fuel : Nat) (s0 : S)
    (hun : ∀ μ : Nat → Bool, μ 0 = true → ∃ c ∈ (solveRun U P fuel s0).2.clauses.toList,
      encoded c.kind = true ∧ evalClause μ (clauseLits (solveRun U P fuel s0).2 c) = false) :
    ¬ ∃ sel, Valid U P.hard sel [] := by
  intro ⟨sel, hv⟩
  have hi := solveRun_tinv U hU P fuel s0
  obtain ⟨c, hc, he, hf⟩ := hun (muS (solveRun U P fuel s0).2 sel) (muS_root hi sel)
  have := clause_sound hi sel hv c hc he
  rw [hf] at this; cases this

theorem filterMap_of_ordered (org : Org) (cs vs : List Nat) (hl : vs.length = cs.length)
    (h : ∀ p ∈ cs.zip vs, oSolv org p.2 = some p.1) : vs.filterMap (oSolv org) = cs := by
  induction cs generalizing vs with
  | nil =>
    cases vs with
    | nil => rfl
    | cons v vs => simp at hl
  | cons c cs ih =>
    cases vs with
    | nil => simp at hl
    | cons v vs =>
      have h0 := h (c, v) (by simp)
      simp only at h0
      simp only [List.filterMap_cons, h0]
      congr 1
      exact ih vs (by simpa using hl) (fun p hp => h p (by simp [hp]))

/-- **The candidates of a requires clause are in the provider's preference order** (exact model): the positive literals of
    every requires clause, read as the model's `decide` and propagation read them, stand — in clause order — for exactly the
    sorted candidates of the requirement's version sets, member after member (`reqSorted`: `sort_candidates` order with
    the favored candidate first). -/
theorem requires_clause_order {U : Universe} {P : Problem} {s : S} (hi : TInv U P s) (c : MClause)
    (hc : c ∈ s.clauses.toList) (p : Nat) (r : Req) (hk : c.kind = .requires p r) :
    ∃ vars : List Nat, clauseLits s c = (p, false) :: vars.map (fun v => (v, true)) ∧ vars.filterMap (oSolv s.origins) = reqSorted U r := by
  have hsome := hi.extra.reqs c hc p r hk
  cases hl : s.reqCands.lookup r with
  | none => rw [hl] at hsome; cases hsome
  | some vsVars =>
    refine ⟨vsVars.flatten, ?_, ?_⟩
    · unfold clauseLits; rw [hk]; simp only [hl, Option.getD_some]
    · obtain ⟨h1, h2⟩ := hi.extra.order r vsVars hl
      exact filterMap_of_ordered s.origins (reqSorted U r) vsVars.flatten h1 h2

theorem model_requires_order (U : Universe) (hU : WFU U) (P : Problem) (fuel : Nat) (s0 : S) :
    ∀ c ∈ (solveRun U P fuel s0).2.clauses.toList, ∀ p r, c.kind = .requires p r →
      ∃ vars : List Nat, clauseLits (solveRun U P fuel s0).2 c = (p, false) :: vars.map (fun v => (v, true)) ∧
        vars.filterMap (oSolv (solveRun U P fuel s0).2.origins) = reqSorted U r :=
  fun c hc p r hk => requires_clause_order (solveRun_tinv U hU P fuel s0) c hc p r hk

end Resolvo.MDet
