import Resolvo.MDet.LogSpec
/-!
# At most once per solver: provider requests of the synchronous model along every history (C09, C13)

`Once s`: with a synchronous provider, the requests recorded in the structured call log are pairwise distinct, and
whatever was requested is in the cache (`fetchedCands` / `fetchedDeps`) — so it is never requested again, in this
solve or in any later solve on the same solver. `Maintains Once` is shown for every function of the model
(`maintains_solve`), hence for every history of solves (`Props/C09.lean`).
-/
set_option linter.unusedSimpArgs false
namespace Resolvo.MDet
open Resolvo Resolvo.Sat Resolvo.Abs

/-- the requests (`call` entries) of a structured call log -/
def callsOf (l : List GEv) : List (Bool × Nat) :=
  l.filterMap (fun e => match e with | .call c i => some (c, i) | _ => none)

structure Once (s : S) : Prop where
  sync : s.asyncMode = false
  nodup : (callsOf s.glog).Nodup
  cands : ∀ n, (true, n) ∈ callsOf s.glog → n ∈ s.fetchedCands
  deps : ∀ sv, (false, sv) ∈ callsOf s.glog → sv ∈ s.fetchedDeps

def MaintainsAt {α : Type} (x : M α) (s : S) : Prop := Once s → Once (runM x s).2
def Maintains {α : Type} (x : M α) : Prop := ∀ s, MaintainsAt x s

theorem maintains_pure {α : Type} (a : α) : Maintains (pure a : M α) := fun _ h => h
theorem maintains_get : Maintains (get : M S) := fun _ h => h
theorem maintains_throw {α : Type} (e : Stop) : Maintains (throw e : M α) := fun _ h => h
theorem maintains_panic {α : Type} (site : String) : Maintains (panic site : M α) := fun _ h => h
theorem maintains_modify (g : S → S) (h : ∀ s, Once s → Once (g s)) : Maintains (modify g : M Unit) := fun s hs => h s hs

theorem maintainsAt_bind {α β : Type} (x : M α) (k : α → M β) (s : S) (hx : MaintainsAt x s)
    (hk : ∀ a s1, runM x s = (.ok a, s1) → MaintainsAt (k a) s1) : MaintainsAt (x >>= k) s := by
  intro hs
  rw [runM_bind]
  cases h : runM x s with
  | mk r s1 =>
    have h1 := hx hs
    rw [h] at h1
    cases r with
    | error e => exact h1
    | ok a => exact hk a s1 h h1

theorem maintains_bind {α β : Type} (x : M α) (k : α → M β) (hx : Maintains x) (hk : ∀ a, Maintains (k a)) :
    Maintains (x >>= k) := fun s => maintainsAt_bind x k s (hx s) (fun a s1 _ => hk a s1)

theorem maintains_get_bind {β : Type} (k : S → M β) (hk : ∀ s, MaintainsAt (k s) s) : Maintains (get >>= k) := by
  intro s
  apply maintainsAt_bind _ _ _ (maintains_get s)
  intro a s1 h
  simp only [runM_get, Prod.mk.injEq, Except.ok.injEq] at h
  obtain ⟨rfl, rfl⟩ := h
  exact hk _

theorem maintainsAt_set_bind {β : Type} (s' s : S) (k : Unit → M β) (h : Once s → Once s') (hk : Maintains (k ())) :
    MaintainsAt (set s' >>= k) s := by
  apply maintainsAt_bind
  · intro hs; exact h hs
  · intro a s1 h1
    simp only [runM_set, Prod.mk.injEq, Except.ok.injEq] at h1
    obtain ⟨_, rfl⟩ := h1
    exact hk _

theorem maintainsAt_quiet {α : Type} (x : M α) (s : S) (h : Once s → Once (runM x s).2) : MaintainsAt x s := h

theorem maintains_forIn {γ δ : Type} (xs : List γ) (init : δ) (body : γ → δ → M (ForInStep δ))
    (h : ∀ x b, Maintains (body x b)) : Maintains (forIn xs init body) := by
  induction xs generalizing init with
  | nil => simp only [List.forIn_nil]; exact maintains_pure _
  | cons x xs ih =>
    simp only [List.forIn_cons]
    apply maintains_bind _ _ (h x init)
    intro r
    cases r with
    | done b => exact maintains_pure b
    | yield b => exact ih b

theorem Maintains.at {α : Type} {x : M α} (h : Maintains x) (s : S) : MaintainsAt x s := h s

/-! ### the functions that touch the log or the cache -/

theorem once_of_view {s s' : S} (h : Once s) (h1 : s'.asyncMode = s.asyncMode) (h2 : s'.glog = s.glog)
    (h3 : s'.fetchedCands = s.fetchedCands) (h4 : s'.fetchedDeps = s.fetchedDeps) : Once s' :=
  ⟨by rw [h1]; exact h.sync, by rw [h2]; exact h.nodup, by rw [h2, h3]; exact h.cands, by rw [h2, h4]; exact h.deps⟩

theorem callsOf_poll (k : Nat) (f : Bool) (l : List GEv) : callsOf (.poll k f :: l) = callsOf l := rfl
theorem callsOf_call (c : Bool) (i : Nat) (l : List GEv) : callsOf (.call c i :: l) = (c, i) :: callsOf l := rfl

theorem maintains_pollCancel : Maintains pollCancel := by
  intro s hs
  rw [runM_pollCancel]
  split
  · exact ⟨hs.sync, hs.nodup, hs.cands, hs.deps⟩
  · exact ⟨hs.sync, hs.nodup, hs.cands, hs.deps⟩

theorem maintains_requestStarted : Maintains requestStarted := maintains_modify _ (fun _ h => once_of_view h rfl rfl rfl rfl)

theorem maintains_getCandidates (U : Universe) (n : Nat) : Maintains (getCandidates U n) := by
  unfold getCandidates
  apply maintains_get_bind
  intro s
  dsimp only
  split
  · next hnot =>
    apply maintainsAt_bind _ _ _ (maintains_pollCancel s)
    intro _ s1 h1
    apply maintainsAt_bind
    · intro hs1
      simp only [runM_modify]
      -- the request is new: its package is not in the cache, so it was never requested
      rw [runM_pollCancel] at h1
      have hfc : s1.fetchedCands = s.fetchedCands := by
        split at h1
        · cases h1
        · simp only [Prod.mk.injEq, Except.ok.injEq, true_and] at h1; rw [← h1]
      have hn : n ∉ s1.fetchedCands := by
        rw [hfc]; intro hm
        rw [List.contains_iff_mem.mpr hm] at hnot; simp at hnot
      refine ⟨hs1.sync, ?_, ?_, ?_⟩
      · show (callsOf (.call true n :: s1.glog)).Nodup
        rw [callsOf_call]
        exact List.nodup_cons.mpr ⟨fun hm => hn (hs1.cands n hm), hs1.nodup⟩
      · intro m hm
        have hm' : (true, m) ∈ callsOf (.call true n :: s1.glog) := hm
        rw [callsOf_call] at hm'
        show m ∈ n :: s1.fetchedCands
        rcases List.mem_cons.mp hm' with h | h
        · cases h; exact List.mem_cons_self
        · exact List.mem_cons_of_mem _ (hs1.cands m h)
      · intro sv hm
        have hm' : (false, sv) ∈ callsOf (.call true n :: s1.glog) := hm
        rw [callsOf_call] at hm'
        rcases List.mem_cons.mp hm' with h | h
        · cases h
        · exact hs1.deps sv h
    · intro _ s2 _
      exact maintains_bind _ _ maintains_requestStarted (fun _ => maintains_pure _) s2
  · exact maintains_bind _ _ (maintains_pure _) (fun _ => maintains_pure _) s

theorem maintains_getDeps (U : Universe) (sv : Nat) : Maintains (getDeps U sv) := by
  unfold getDeps
  apply maintains_get_bind
  intro s
  dsimp only
  split
  · next hnot =>
    apply maintainsAt_bind _ _ _ (maintains_pollCancel s)
    intro _ s1 h1
    apply maintainsAt_bind
    · intro hs1
      simp only [runM_modify]
      rw [runM_pollCancel] at h1
      have hfc : s1.fetchedDeps = s.fetchedDeps := by
        split at h1
        · cases h1
        · simp only [Prod.mk.injEq, Except.ok.injEq, true_and] at h1; rw [← h1]
      have hn : sv ∉ s1.fetchedDeps := by
        rw [hfc]; intro hm
        rw [List.contains_iff_mem.mpr hm] at hnot; simp at hnot
      refine ⟨hs1.sync, ?_, ?_, ?_⟩
      · show (callsOf (.call false sv :: s1.glog)).Nodup
        rw [callsOf_call]
        exact List.nodup_cons.mpr ⟨fun hm => hn (hs1.deps sv hm), hs1.nodup⟩
      · intro m hm
        have hm' : (true, m) ∈ callsOf (.call false sv :: s1.glog) := hm
        rw [callsOf_call] at hm'
        rcases List.mem_cons.mp hm' with h | h
        · cases h
        · exact hs1.cands m h
      · intro m hm
        have hm' : (false, m) ∈ callsOf (.call false sv :: s1.glog) := hm
        rw [callsOf_call] at hm'
        show m ∈ sv :: s1.fetchedDeps
        rcases List.mem_cons.mp hm' with h | h
        · cases h; exact List.mem_cons_self
        · exact List.mem_cons_of_mem _ (hs1.deps m h)
    · intro _ s2 _
      exact maintains_bind _ _ maintains_requestStarted (fun _ => maintains_pure _) s2
  · exact maintains_bind _ _ (maintains_pure _) (fun _ => maintains_pure _) s

attribute [irreducible] Maintains

/-! ### automation (as in `LogSpec.lean`) -/

syntax "ms_lemma" : tactic
macro_rules | `(tactic| ms_lemma) => `(tactic| fail "no Maintains lemma applies")

macro "ms_step" : tactic => `(tactic| first
  | ms_lemma
  | with_reducible exact maintains_pure _
  | with_reducible exact maintains_get
  | with_reducible exact maintains_panic _
  | with_reducible exact maintains_throw _
  | with_reducible exact maintains_pollCancel
  | with_reducible exact maintains_requestStarted
  | with_reducible exact maintains_getCandidates _ _
  | with_reducible exact maintains_getDeps _ _
  | with_reducible assumption
  | ((with_reducible apply maintains_modify); intro _ h; first | exact once_of_view h rfl rfl rfl rfl | (split <;> exact once_of_view h rfl rfl rfl rfl))
  | ((with_reducible apply maintains_forIn); intro _ _)
  | with_reducible apply maintains_bind
  | intro _
  | split
  | dsimp only)

macro "ms" : tactic => `(tactic| repeat ms_step)
macro "ms_ih" ih:ident : tactic => `(tactic| repeat (first | (with_reducible apply $ih) | ms_step))

/-- leaves of a `let s ← get; …` continuation: `pure`, `panic`, or `set { s with … }` followed by quiet code -/
macro "ms_at" : tactic => `(tactic| repeat (first
  | exact (maintains_pure _).at _
  | exact (maintains_panic _).at _
  | exact (maintains_throw _).at _
  | (apply maintainsAt_set_bind
     · intro h; exact once_of_view h rfl rfl rfl rfl
     · ms)
  | split
  | dsimp only))

theorem maintains_emit (e : Ev) : Maintains (emit e) := maintains_modify _ (fun _ h => once_of_view h rfl rfl rfl rfl)
macro_rules | `(tactic| ms_lemma) => `(tactic| with_reducible exact maintains_emit _)
theorem maintains_setWatchList (l : Lit) (cs : List Nat) : Maintains (setWatchList l cs) :=
  maintains_modify _ (fun _ h => once_of_view h rfl rfl rfl rfl)
macro_rules | `(tactic| ms_lemma) => `(tactic| with_reducible exact maintains_setWatchList _ _)

theorem maintains_internSolvable (sv : Nat) : Maintains (internSolvable sv) := by
  unfold internSolvable
  apply maintains_get_bind
  intro s
  ms_at
macro_rules | `(tactic| ms_lemma) => `(tactic| with_reducible exact maintains_internSolvable _)

theorem maintains_internSoR (sid : SoR) : Maintains (internSoR sid) := by
  cases sid with
  | none => exact maintains_pure _
  | some sv => exact maintains_internSolvable sv
macro_rules | `(tactic| ms_lemma) => `(tactic| with_reducible exact maintains_internSoR _)

theorem maintains_allocForbidVar (name : Nat) : Maintains (allocForbidVar name) := by
  unfold allocForbidVar
  apply maintains_get_bind
  intro s
  ms_at
macro_rules | `(tactic| ms_lemma) => `(tactic| with_reducible exact maintains_allocForbidVar _)

theorem maintains_allocClause (k : Kind) (w : Option (Lit × Lit)) : Maintains (allocClause k w) := by
  unfold allocClause
  ms
macro_rules | `(tactic| ms_lemma) => `(tactic| with_reducible exact maintains_allocClause _ _)

theorem maintains_startWatching (id : Nat) : Maintains (startWatching id) := by
  unfold startWatching
  ms
macro_rules | `(tactic| ms_lemma) => `(tactic| with_reducible exact maintains_startWatching _)

theorem maintains_tryAdd (v : Nat) (val : Bool) (reason level : Nat) : Maintains (tryAdd v val reason level) := by
  unfold tryAdd
  ms
macro_rules | `(tactic| ms_lemma) => `(tactic| with_reducible exact maintains_tryAdd _ _ _ _)

theorem maintains_undoLast : Maintains undoLast := by
  unfold undoLast
  apply maintains_get_bind
  intro s
  ms_at
macro_rules | `(tactic| ms_lemma) => `(tactic| with_reducible exact maintains_undoLast)

theorem maintains_undoUntil_loop (n level : Nat) : Maintains (undoUntil.loop level n) := by
  induction n with
  | zero => unfold undoUntil.loop; exact maintains_pure _
  | succ n ih =>
    unfold undoUntil.loop
    ms
macro_rules | `(tactic| ms_lemma) => `(tactic| with_reducible exact maintains_undoUntil_loop _ _)

theorem maintains_undoUntil (level : Nat) : Maintains (undoUntil level) := by
  unfold undoUntil
  ms
macro_rules | `(tactic| ms_lemma) => `(tactic| with_reducible exact maintains_undoUntil _)

theorem maintains_nextUnpropagated : Maintains nextUnpropagated := by
  unfold nextUnpropagated
  apply maintains_get_bind
  intro s
  ms_at
macro_rules | `(tactic| ms_lemma) => `(tactic| with_reducible exact maintains_nextUnpropagated)

theorem maintains_getMatching (U : Universe) (vs : Nat) : Maintains (getMatching U vs) := by
  unfold getMatching
  ms
macro_rules | `(tactic| ms_lemma) => `(tactic| with_reducible exact maintains_getMatching _ _)

theorem maintains_getNonMatching (U : Universe) (vs : Nat) : Maintains (getNonMatching U vs) := by
  unfold getNonMatching
  ms
macro_rules | `(tactic| ms_lemma) => `(tactic| with_reducible exact maintains_getNonMatching _ _)

theorem maintains_getSortedVs (U : Universe) (vs : Nat) : Maintains (getSortedVs U vs) := by
  unfold getSortedVs
  ms
macro_rules | `(tactic| ms_lemma) => `(tactic| with_reducible exact maintains_getSortedVs _ _)

/-! ### the encoder (synchronous) -/

theorem maintains_queueSolvable (sid : SoR) : Maintains (queueSolvable sid) := by
  unfold queueSolvable
  apply maintains_get_bind
  intro s
  ms_at
macro_rules | `(tactic| ms_lemma) => `(tactic| with_reducible exact maintains_queueSolvable _)

theorem maintains_queuePackage (n : Nat) : Maintains (queuePackage n) := by
  unfold queuePackage
  apply maintains_get_bind
  intro s
  ms_at
macro_rules | `(tactic| ms_lemma) => `(tactic| with_reducible exact maintains_queuePackage _)

theorem maintains_pushTask (t : Task) : Maintains (pushTask t) := maintains_modify _ (fun _ h => once_of_view h rfl rfl rfl rfl)
macro_rules | `(tactic| ms_lemma) => `(tactic| with_reducible exact maintains_pushTask _)

theorem maintains_addExclusionClause (sid : SoR) (reason : Nat) : Maintains (addExclusionClause sid reason) := by
  unfold addExclusionClause
  ms
macro_rules | `(tactic| ms_lemma) => `(tactic| with_reducible exact maintains_addExclusionClause _ _)

theorem maintains_addForbidMultiple (U : Universe) (c v : Nat) : Maintains (addForbidMultiple U c v) := by
  unfold addForbidMultiple
  ms
macro_rules | `(tactic| ms_lemma) => `(tactic| with_reducible exact maintains_addForbidMultiple _ _ _)

theorem maintains_onDependencies (U : Universe) (P : Problem) (sid : SoR) (d : Deps) : Maintains (onDependencies U P sid d) := by
  unfold onDependencies
  ms
macro_rules | `(tactic| ms_lemma) => `(tactic| with_reducible exact maintains_onDependencies _ _ _ _)

theorem maintains_onCandidates (name : Nat) (p : Pkg) : Maintains (onCandidates name p) := by
  unfold onCandidates
  ms
macro_rules | `(tactic| ms_lemma) => `(tactic| with_reducible exact maintains_onCandidates _ _)

theorem maintains_onRequirementCandidates (U : Universe) (sid : SoR) (r : Req) (cs : List (List Nat)) :
    Maintains (onRequirementCandidates U sid r cs) := by
  unfold onRequirementCandidates
  ms
macro_rules | `(tactic| ms_lemma) => `(tactic| with_reducible exact maintains_onRequirementCandidates _ _ _ _)

theorem maintains_onConstraintCandidates (sid : SoR) (vs : Nat) (cs : List Nat) : Maintains (onConstraintCandidates sid vs cs) := by
  unfold onConstraintCandidates
  ms
macro_rules | `(tactic| ms_lemma) => `(tactic| with_reducible exact maintains_onConstraintCandidates _ _ _)

theorem maintains_runTask (U : Universe) (P : Problem) (t : Task) : Maintains (runTask U P t) := by
  cases t with
  | deps sid =>
    cases sid with
    | none => unfold runTask; ms
    | some sv => unfold runTask; ms
  | pkg n => unfold runTask; ms
  | req sid r => unfold runTask; ms
  | cons sid vs => unfold runTask; ms
macro_rules | `(tactic| ms_lemma) => `(tactic| with_reducible exact maintains_runTask _ _ _)

theorem maintains_encodeSync_loop (U : Universe) (P : Problem) (n : Nat) : Maintains (encodeSync.loop U P n) := by
  induction n with
  | zero => unfold encodeSync.loop; exact maintains_throw _
  | succ n ih =>
    unfold encodeSync.loop
    apply maintains_get_bind
    intro s
    ms_at
macro_rules | `(tactic| ms_lemma) => `(tactic| with_reducible exact maintains_encodeSync_loop _ _ _)

theorem maintains_encodeSync (U : Universe) (P : Problem) (sv : List SoR) (fuel : Nat) : Maintains (encodeSync U P sv fuel) := by
  unfold encodeSync
  ms

/-- with a synchronous provider `encode` is `encodeSync` -/
theorem maintains_encode (U : Universe) (P : Problem) (sv : List SoR) (fuel : Nat) : Maintains (encode U P sv fuel) := by
  unfold encode
  apply maintains_get_bind
  intro s hs
  have : s.asyncMode = false := hs.sync
  simp only [this, Bool.false_eq_true, if_false]
  exact (maintains_encodeSync U P sv fuel).at s hs
macro_rules | `(tactic| ms_lemma) => `(tactic| with_reducible exact maintains_encode _ _ _ _)

/-! ### propagation, decisions, conflict analysis, the solver loop -/

theorem maintains_decideAssertions (level : Nat) : Maintains (decideAssertions level) := by
  unfold decideAssertions
  ms
macro_rules | `(tactic| ms_lemma) => `(tactic| with_reducible exact maintains_decideAssertions _)

theorem maintains_decideLearned (level : Nat) : Maintains (decideLearned level) := by
  unfold decideLearned
  ms
macro_rules | `(tactic| ms_lemma) => `(tactic| with_reducible exact maintains_decideLearned _)

theorem maintains_propagate_inner (level : Nat) (fl : Lit) (l : List Nat) : Maintains (propagate.outer.inner level fl l) := by
  induction l with
  | nil => unfold propagate.outer.inner; exact maintains_pure _
  | cons cid rest ih =>
    unfold propagate.outer.inner
    ms
macro_rules | `(tactic| ms_lemma) => `(tactic| with_reducible exact maintains_propagate_inner _ _ _)

theorem maintains_propagate_outer (level fuel : Nat) : Maintains (propagate.outer level fuel) := by
  induction fuel with
  | zero => unfold propagate.outer; exact maintains_throw _
  | succ n ih =>
    unfold propagate.outer
    ms
macro_rules | `(tactic| ms_lemma) => `(tactic| with_reducible exact maintains_propagate_outer _ _)

theorem maintains_propagate (level fuel : Nat) : Maintains (propagate level fuel) := by
  unfold propagate
  ms
macro_rules | `(tactic| ms_lemma) => `(tactic| with_reducible exact maintains_propagate _ _)

theorem maintains_decide (U : Universe) : Maintains (decide U) := by
  unfold decide
  ms
macro_rules | `(tactic| ms_lemma) => `(tactic| with_reducible exact maintains_decide _)

theorem maintains_analyzeUnsolvable (cid : Nat) : Maintains (analyzeUnsolvable cid) := by
  unfold analyzeUnsolvable
  ms
macro_rules | `(tactic| ms_lemma) => `(tactic| with_reducible exact maintains_analyzeUnsolvable _)

theorem maintains_analyze_pop (seen : List Nat) (f : Nat) : Maintains (analyze.outer.pop seen f) := by
  induction f with
  | zero => unfold analyze.outer.pop; exact maintains_throw _
  | succ n ih =>
    unfold analyze.outer.pop
    ms
macro_rules | `(tactic| ms_lemma) => `(tactic| with_reducible exact maintains_analyze_pop _ _)

theorem maintains_analyze_outer (fuel curLevel conflVar clauseId : Nat) (seen : List Nat) (causes : Nat) (learnt : List Lit)
    (backTo : Nat) (why : List Nat) (first : Bool) :
    Maintains (analyze.outer fuel curLevel conflVar clauseId seen causes learnt backTo why first) := by
  induction fuel generalizing curLevel conflVar clauseId seen causes learnt backTo why first with
  | zero => unfold analyze.outer; exact maintains_throw _
  | succ n ih =>
    unfold analyze.outer
    ms_ih ih
macro_rules | `(tactic| ms_lemma) => `(tactic| with_reducible exact maintains_analyze_outer _ _ _ _ _ _ _ _ _ _)

theorem maintains_analyze (U : Universe) (level conflVar clauseId fuel : Nat) : Maintains (analyze U level conflVar clauseId fuel) := by
  unfold analyze
  ms
macro_rules | `(tactic| ms_lemma) => `(tactic| with_reducible exact maintains_analyze _ _ _ _ _)

theorem maintains_propagateAndLearn_loop (U : Universe) (fuel f level : Nat) : Maintains (propagateAndLearn.loop U fuel f level) := by
  induction f generalizing level with
  | zero => unfold propagateAndLearn.loop; exact maintains_throw _
  | succ n ih =>
    unfold propagateAndLearn.loop
    ms_ih ih
macro_rules | `(tactic| ms_lemma) => `(tactic| with_reducible exact maintains_propagateAndLearn_loop _ _ _ _)

theorem maintains_propagateAndLearn (U : Universe) (level fuel : Nat) : Maintains (propagateAndLearn U level fuel) := by
  unfold propagateAndLearn
  ms
macro_rules | `(tactic| ms_lemma) => `(tactic| with_reducible exact maintains_propagateAndLearn _ _ _)

theorem maintains_resolveDependencies_loop (U : Universe) (fuel f level : Nat) : Maintains (resolveDependencies.loop U fuel f level) := by
  induction f generalizing level with
  | zero => unfold resolveDependencies.loop; exact maintains_throw _
  | succ n ih =>
    unfold resolveDependencies.loop
    ms_ih ih
macro_rules | `(tactic| ms_lemma) => `(tactic| with_reducible exact maintains_resolveDependencies_loop _ _ _ _)

theorem maintains_resolveDependencies (U : Universe) (level fuel : Nat) : Maintains (resolveDependencies U level fuel) := by
  unfold resolveDependencies
  ms
macro_rules | `(tactic| ms_lemma) => `(tactic| with_reducible exact maintains_resolveDependencies _ _ _)

theorem maintains_processUnsolvable (root : SoR) (startLevel cid : Nat) : Maintains (processUnsolvable root startLevel cid) := by
  unfold processUnsolvable
  ms
macro_rules | `(tactic| ms_lemma) => `(tactic| with_reducible exact maintains_processUnsolvable _ _ _)

theorem maintains_runSat_loop (U : Universe) (P : Problem) (root : SoR) (fuel startLevel f level : Nat) :
    Maintains (runSat.loop U P root fuel startLevel f level) := by
  induction f generalizing level with
  | zero => unfold runSat.loop; exact maintains_throw _
  | succ n ih =>
    unfold runSat.loop
    ms_ih ih
macro_rules | `(tactic| ms_lemma) => `(tactic| with_reducible exact maintains_runSat_loop _ _ _ _ _ _ _)

theorem maintains_runSat (U : Universe) (P : Problem) (root : SoR) (fuel : Nat) : Maintains (runSat U P root fuel) := by
  unfold runSat
  ms
macro_rules | `(tactic| ms_lemma) => `(tactic| with_reducible exact maintains_runSat _ _ _ _)

theorem maintains_solve (U : Universe) (P : Problem) (fuel : Nat) : Maintains (solve U P fuel) := by
  unfold solve
  ms


/-- **No provider request is ever repeated on one solver** (synchronous provider): one solve preserves `Once`. -/
theorem solveRun_once (U : Universe) (P : Problem) (fuel : Nat) (s : S) (h : Once s) : Once (solveRun U P fuel s).2 := by
  have hm := (maintains_solve U P fuel).at s h
  have hrun : (solve U P fuel).run.run s = runM (solve U P fuel) s := rfl
  unfold solveRun
  rw [hrun]
  cases hr : runM (solve U P fuel) s with
  | mk r s' =>
    rw [hr] at hm
    cases r with
    | ok o => cases o <;> exact hm
    | error e => exact hm

end Resolvo.MDet
