import Resolvo.MDet.AsyncProofs
/-!
# Run-level invariant of the asynchronous encoder model (C11)

`asyncStep` (one `pending_futures.next()` + callback) preserves `LoopInv`: every future the encoder has pushed is
either still in the ready queue or has been **started** (polled at least once: finished, its request issued, or
listening / parked on a gate). Hence at every quiescent point — the ready queue is empty, `next()` is `Pending`,
the executor takes its turn — every future pushed so far has been started, and by `pollTask_req_started` every
version set of every requirement among them: no provider request waits for the answer to another one.
-/
set_option linter.unusedSimpArgs false
namespace Resolvo.MDet
open Resolvo

/-- what the polling functions may do to the encoder-local state: tasks and ids untouched, the ready queue only grows -/
structure Frame (a a' : AS) : Prop where
  tasks : a'.tasks = a.tasks
  nextId : a'.nextId = a.nextId
  ready : ∀ x, x ∈ a.ready → x ∈ a'.ready

theorem Frame.refl (a : AS) : Frame a a := ⟨rfl, rfl, fun _ h => h⟩
theorem Frame.trans {a b c : AS} (h1 : Frame a b) (h2 : Frame b c) : Frame a c :=
  ⟨h2.tasks.trans h1.tasks, h2.nextId.trans h1.nextId, fun x hx => h2.ready x (h1.ready x hx)⟩

theorem frame_enqueue (a : AS) (tid : Nat) : Frame a (enqueue a tid) := by
  unfold enqueue
  split
  · exact Frame.refl a
  · exact ⟨rfl, rfl, fun x hx => by simp [hx]⟩

theorem frame_foldl_enqueue (l : List Nat) (a : AS) : Frame a (l.foldl enqueue a) := by
  induction l generalizing a with
  | nil => exact Frame.refl a
  | cons x xs ih => exact (frame_enqueue a x).trans (ih _)

theorem frame_pollCands (U : Universe) (tid n : Nat) (w : CandWait) (a : AS) (s s' : S) (w' : CandWait) (a' : AS)
    (h : runM (pollCands U tid n w a) s = (.ok (w', a'), s')) : Frame a a' := by
  unfold pollCands at h
  simp only [runM_bind, runM_get] at h
  cases w with
  | ready =>
    simp only [runM_pure, Prod.mk.injEq, Except.ok.injEq] at h
    obtain ⟨⟨_, rfl⟩, _⟩ := h; exact Frame.refl _
  | notStarted =>
    simp only at h
    by_cases hf : s.fetchedCands.contains n = true
    · simp only [hf, if_true, runM_pure, Prod.mk.injEq, Except.ok.injEq] at h
      obtain ⟨⟨_, rfl⟩, _⟩ := h; exact Frame.refl _
    · simp only [hf, Bool.false_eq_true, if_false, runM_bind, runM_pollCancel] at h
      by_cases hc : fires s = true
      · simp only [hc, if_true] at h; exact absurd h (by simp)
      · simp only [hc, Bool.false_eq_true, if_false] at h
        by_cases hi : (a.inflight.lookup n).isSome = true
        · simp only [hi, if_true, runM_pure, Prod.mk.injEq, Except.ok.injEq] at h
          obtain ⟨⟨_, rfl⟩, _⟩ := h; exact ⟨rfl, rfl, fun _ hx => hx⟩
        · simp only [hi, Bool.false_eq_true, if_false, runM_bind, runM_logCall, requestStarted, runM_modify] at h
          obtain ⟨⟨_, rfl⟩, _⟩ := h; exact ⟨rfl, rfl, fun _ hx => hx⟩
  | owner =>
    simp only at h
    by_cases ho : a.opened.contains s!"c{n}" = true
    · obtain ⟨s2, hu, _⟩ := runM_finishCands U n s
      simp only [ho, if_true, runM_bind, hu, runM_pure, Prod.mk.injEq, Except.ok.injEq] at h
      obtain ⟨⟨_, rfl⟩, _⟩ := h
      refine Frame.trans ?_ (frame_foldl_enqueue _ _)
      exact ⟨rfl, rfl, fun _ hx => hx⟩
    · simp only [ho, Bool.false_eq_true, if_false, runM_pure, Prod.mk.injEq, Except.ok.injEq] at h
      obtain ⟨⟨_, rfl⟩, _⟩ := h; exact Frame.refl _
  | listener =>
    simp only at h
    by_cases hf : s.fetchedCands.contains n = true
    · simp only [hf, if_true, runM_pure, Prod.mk.injEq, Except.ok.injEq] at h
      obtain ⟨⟨_, rfl⟩, _⟩ := h; exact Frame.refl _
    · simp only [hf, Bool.false_eq_true, if_false, runM_pure, Prod.mk.injEq, Except.ok.injEq] at h
      obtain ⟨⟨_, rfl⟩, _⟩ := h; exact Frame.refl _

theorem frame_pollGate (tid : Nat) (label : String) (e : Bool) (gid : Nat) (a : AS) : Frame a (pollGate tid label e gid a).2.2 := by
  unfold pollGate
  split
  · exact ⟨rfl, rfl, fun _ hx => hx⟩
  · split
    · exact ⟨rfl, rfl, fun _ hx => hx⟩
    · exact Frame.refl a

theorem frame_finishChild (sorted : Bool) (c : Child) (a : AS) (s s' : S) (c' : Child) (a' : AS)
    (h : runM (finishChild sorted c a) s = (.ok (c', a'), s')) : a' = a := by
  unfold finishChild at h
  cases sorted with
  | true =>
    simp only [if_true, runM_bind, runM_modify, runM_pure, Prod.mk.injEq, Except.ok.injEq] at h
    exact h.1.2.symm
  | false =>
    simp only [Bool.false_eq_true, if_false, runM_bind, runM_pure, Prod.mk.injEq, Except.ok.injEq] at h
    exact h.1.2.symm

theorem frame_sortStage (U : Universe) (tid : Nat) (g : Bool) (c : Child) (a : AS) (e : Bool) (s s' : S) (c' : Child) (a' : AS)
    (h : runM (sortStage U tid g c a e) s = (.ok (c', a'), s')) : Frame a a' := by
  unfold sortStage at h
  cases g with
  | false =>
    simp only [Bool.not_false, if_true] at h
    rw [frame_finishChild true c a s s' c' a' h]; exact Frame.refl a
  | true =>
    simp only [Bool.not_true, Bool.false_eq_true, if_false] at h
    by_cases hok : (pollGate tid (sortLabel U c.vs) e c.gate a).1 = true
    · simp only [hok, if_true] at h
      rw [frame_finishChild true c _ s s' c' a' h]; exact frame_pollGate _ _ _ _ _
    · simp only [hok, Bool.false_eq_true, if_false, runM_pure, Prod.mk.injEq, Except.ok.injEq] at h
      obtain ⟨⟨_, rfl⟩, _⟩ := h; exact frame_pollGate _ _ _ _ _

theorem frame_filterStage (U : Universe) (tid : Nat) (g sorted : Bool) (c : Child) (a : AS) (e : Bool) (s s' : S)
    (c' : Child) (a' : AS) (h : runM (filterStage U tid g sorted c a e) s = (.ok (c', a'), s')) : Frame a a' := by
  unfold filterStage at h
  cases g with
  | false =>
    simp only [Bool.not_false, if_true] at h
    cases sorted with
    | true => simp only [if_true] at h; exact frame_sortStage U tid false c a false s s' c' a' h
    | false =>
      simp only [Bool.false_eq_true, if_false] at h
      rw [frame_finishChild false c a s s' c' a' h]; exact Frame.refl a
  | true =>
    simp only [Bool.not_true, Bool.false_eq_true, if_false] at h
    by_cases hok : (pollGate tid (filterLabel sorted c.vs) e c.gate a).1 = true
    · simp only [hok, if_true] at h
      cases sorted with
      | true =>
        simp only [if_true, runM_bind, runM_modify] at h
        exact (frame_pollGate _ _ _ _ _).trans (frame_sortStage U tid true c _ false _ s' c' a' h)
      | false =>
        simp only [Bool.false_eq_true, if_false, runM_bind, runM_modify] at h
        rw [frame_finishChild false c _ _ s' c' a' h]; exact frame_pollGate _ _ _ _ _
    · simp only [hok, Bool.false_eq_true, if_false, runM_pure, Prod.mk.injEq, Except.ok.injEq] at h
      obtain ⟨⟨_, rfl⟩, _⟩ := h; exact frame_pollGate _ _ _ _ _

theorem frame_pollChild (U : Universe) (tid : Nat) (sorted : Bool) (c : Child) (a : AS) (s s' : S) (c' : Child) (a' : AS)
    (h : runM (pollChild U tid sorted c a) s = (.ok (c', a'), s')) : Frame a a' := by
  unfold pollChild at h
  by_cases hd : c.done = true
  · simp only [hd, if_true, runM_pure, Prod.mk.injEq, Except.ok.injEq] at h
    obtain ⟨⟨_, rfl⟩, _⟩ := h; exact Frame.refl _
  · simp only [hd, Bool.false_eq_true, if_false, runM_bind, runM_get] at h
    split at h
    · exact frame_sortStage U tid _ c a true s s' c' a' h
    · split at h
      · exact frame_filterStage U tid _ sorted c a true s s' c' a' h
      · split at h
        · simp only [runM_pure, Prod.mk.injEq, Except.ok.injEq] at h
          obtain ⟨⟨_, rfl⟩, _⟩ := h; exact Frame.refl _
        · split at h
          · simp only [runM_pure, Prod.mk.injEq, Except.ok.injEq] at h
            obtain ⟨⟨_, rfl⟩, _⟩ := h; exact Frame.refl _
          · split at h
            · exact frame_sortStage U tid _ c a false s s' c' a' h
            · simp only [runM_bind] at h
              cases hp : runM (pollCands U tid (U.vsName c.vs) c.wait a) s with
              | mk r s1 =>
                cases r with
                | error e => simp only [hp] at h; exact absurd h (by simp)
                | ok v =>
                  obtain ⟨w, a1⟩ := v
                  have hf := frame_pollCands U tid _ _ _ _ _ _ _ hp
                  simp only [hp] at h
                  by_cases hw : (w == CandWait.ready) = true
                  · simp only [hw, if_true] at h
                    exact hf.trans (frame_filterStage U tid _ sorted _ a1 false s1 s' c' a' h)
                  · simp only [hw, Bool.false_eq_true, if_false, runM_pure, Prod.mk.injEq, Except.ok.injEq] at h
                    obtain ⟨⟨_, rfl⟩, _⟩ := h; exact hf

theorem frame_pollChildren (U : Universe) (tid : Nat) (sorted : Bool) (cs : List Child) (a : AS) (s s' : S)
    (cs' : List Child) (a' : AS) (h : runM (pollChildren U tid sorted cs a) s = (.ok (cs', a'), s')) : Frame a a' := by
  induction cs generalizing a s cs' a' s' with
  | nil =>
    simp only [pollChildren, runM_pure, Prod.mk.injEq, Except.ok.injEq] at h
    obtain ⟨⟨_, rfl⟩, _⟩ := h; exact Frame.refl _
  | cons c cs ih =>
    simp only [pollChildren, runM_bind] at h
    cases hp : runM (pollChild U tid sorted c a) s with
    | mk r s1 =>
      cases r with
      | error e => simp only [hp] at h; exact absurd h (by simp)
      | ok v =>
        obtain ⟨c1, a1⟩ := v
        simp only [hp] at h
        cases hq : runM (pollChildren U tid sorted cs a1) s1 with
        | mk r2 s2 =>
          cases r2 with
          | error e => simp only [hq] at h; exact absurd h (by simp)
          | ok v2 =>
            obtain ⟨cs2, a2⟩ := v2
            simp only [hq, runM_pure, Prod.mk.injEq, Except.ok.injEq] at h
            obtain ⟨⟨_, rfl⟩, _⟩ := h
            exact (frame_pollChild U tid sorted c a s s1 c1 a1 hp).trans (ih a1 s1 s2 cs2 a2 hq)


/-- a future counts as started once it has been polled: finished, or its request issued / listening (`deps`, `pkg`),
    or all its children started (`req`, `cons`) -/
def ATask.started (t : ATask) : Prop :=
  t.finished = true ∨ (match t.task with
    | .req _ _ => ∀ c ∈ t.children, c.started
    | .cons _ _ => ∀ c ∈ t.children, c.started
    | _ => t.wait ≠ .notStarted)

/-- one poll of a future: the encoder-local state is framed, the future keeps its identity and is started afterwards -/
theorem pollTask_spec (U : Universe) (P : Problem) (t : ATask) (a : AS) (s s' : S) (t' : ATask) (a' : AS)
    (res : Option TaskResult) (h : runM (pollTask U P t a) s = (.ok (t', a', res), s')) :
    Frame a a' ∧ t'.id = t.id ∧ t'.started := by
  unfold pollTask at h
  cases ht : t.task with
  | deps sid =>
    rw [ht] at h
    cases sid with
    | none =>
      simp only [runM_pure, Prod.mk.injEq, Except.ok.injEq] at h
      obtain ⟨⟨rfl, rfl, _⟩, _⟩ := h
      exact ⟨Frame.refl _, rfl, Or.inl rfl⟩
    | some sv =>
      simp only [runM_bind, runM_get] at h
      cases hw : t.wait with
      | notStarted =>
        rw [hw] at h
        simp only at h
        by_cases hf : s.fetchedDeps.contains sv = true
        · simp only [hf, if_true, runM_pure, Prod.mk.injEq, Except.ok.injEq] at h
          obtain ⟨⟨rfl, rfl, _⟩, _⟩ := h
          exact ⟨Frame.refl _, rfl, Or.inl rfl⟩
        · simp only [hf, Bool.false_eq_true, if_false, runM_bind, startDeps, runM_pollCancel] at h
          by_cases hc : fires s = true
          · simp only [hc, if_true] at h; exact absurd h (by simp)
          · simp only [hc, Bool.false_eq_true, if_false, runM_bind, runM_logCall, requestStarted, runM_modify, runM_pure,
              Prod.mk.injEq, Except.ok.injEq] at h
            obtain ⟨⟨rfl, rfl, _⟩, _⟩ := h
            refine ⟨⟨rfl, rfl, fun _ hx => hx⟩, rfl, Or.inr ?_⟩
            simp only [ht]; simp
      | owner =>
        rw [hw] at h
        simp only at h
        split at h
        · simp only [runM_bind, finishDeps, runM_modify, runM_pure, Prod.mk.injEq, Except.ok.injEq] at h
          obtain ⟨⟨rfl, rfl, _⟩, _⟩ := h
          exact ⟨⟨rfl, rfl, fun _ hx => hx⟩, rfl, Or.inl rfl⟩
        · simp only [runM_pure, Prod.mk.injEq, Except.ok.injEq] at h
          obtain ⟨⟨rfl, rfl, _⟩, _⟩ := h
          refine ⟨Frame.refl _, rfl, Or.inr ?_⟩
          simp only [ht]; rw [hw]; simp
      | listener =>
        rw [hw] at h
        simp only at h
        split at h
        · simp only [runM_bind, finishDeps, runM_modify, runM_pure, Prod.mk.injEq, Except.ok.injEq] at h
          obtain ⟨⟨rfl, rfl, _⟩, _⟩ := h
          exact ⟨⟨rfl, rfl, fun _ hx => hx⟩, rfl, Or.inl rfl⟩
        · simp only [runM_pure, Prod.mk.injEq, Except.ok.injEq] at h
          obtain ⟨⟨rfl, rfl, _⟩, _⟩ := h
          refine ⟨Frame.refl _, rfl, Or.inr ?_⟩
          simp only [ht]; rw [hw]; simp
      | ready =>
        rw [hw] at h
        simp only at h
        split at h
        · simp only [runM_bind, finishDeps, runM_modify, runM_pure, Prod.mk.injEq, Except.ok.injEq] at h
          obtain ⟨⟨rfl, rfl, _⟩, _⟩ := h
          exact ⟨⟨rfl, rfl, fun _ hx => hx⟩, rfl, Or.inl rfl⟩
        · simp only [runM_pure, Prod.mk.injEq, Except.ok.injEq] at h
          obtain ⟨⟨rfl, rfl, _⟩, _⟩ := h
          refine ⟨Frame.refl _, rfl, Or.inr ?_⟩
          simp only [ht]; rw [hw]; simp
  | pkg n =>
    rw [ht] at h
    simp only [runM_bind] at h
    cases hp : runM (pollCands U t.id n t.wait a) s with
    | mk r s1 =>
      cases r with
      | error e => simp only [hp] at h; exact absurd h (by simp)
      | ok v =>
        obtain ⟨w, a1⟩ := v
        have hf := frame_pollCands U t.id n _ _ _ _ _ _ hp
        have hs := (pollCands_spec U t.id n _ _ _ _ _ _ hp).1
        simp only [hp] at h
        by_cases hw : (w == CandWait.ready) = true
        · simp only [hw, if_true, runM_pure, Prod.mk.injEq, Except.ok.injEq] at h
          obtain ⟨⟨rfl, rfl, _⟩, _⟩ := h
          exact ⟨hf, rfl, Or.inl rfl⟩
        · simp only [hw, Bool.false_eq_true, if_false, runM_pure, Prod.mk.injEq, Except.ok.injEq] at h
          obtain ⟨⟨rfl, rfl, _⟩, _⟩ := h
          refine ⟨hf, rfl, Or.inr ?_⟩
          simp only [ht]; exact hs
  | req sid r =>
    rw [ht] at h
    simp only [runM_bind] at h
    cases hq : runM (pollChildren U t.id true t.children a) s with
    | mk r2 s2 =>
      cases r2 with
      | error e => simp only [hq] at h; exact absurd h (by simp)
      | ok v2 =>
        obtain ⟨cs2, a2⟩ := v2
        have h2 := pollChildren_started U t.id true t.children a s s2 cs2 a2 hq
        have hf := frame_pollChildren U t.id true t.children a s s2 cs2 a2 hq
        simp only [hq] at h
        by_cases hall : (cs2.all (·.done)) = true
        · simp only [hall, if_true, runM_pure, Prod.mk.injEq, Except.ok.injEq] at h
          obtain ⟨⟨rfl, rfl, _⟩, _⟩ := h
          exact ⟨hf, rfl, Or.inl rfl⟩
        · simp only [hall, Bool.false_eq_true, if_false, runM_pure, Prod.mk.injEq, Except.ok.injEq] at h
          obtain ⟨⟨rfl, rfl, _⟩, _⟩ := h
          refine ⟨hf, rfl, Or.inr ?_⟩
          simp only [ht]; exact h2.2
  | cons sid vs =>
    rw [ht] at h
    simp only [runM_bind] at h
    cases hq : runM (pollChildren U t.id false t.children a) s with
    | mk r2 s2 =>
      cases r2 with
      | error e => simp only [hq] at h; exact absurd h (by simp)
      | ok v2 =>
        obtain ⟨cs2, a2⟩ := v2
        have h2 := pollChildren_started U t.id false t.children a s s2 cs2 a2 hq
        have hf := frame_pollChildren U t.id false t.children a s s2 cs2 a2 hq
        simp only [hq] at h
        by_cases hall : (cs2.all (·.done)) = true
        · simp only [hall, if_true, runM_pure, Prod.mk.injEq, Except.ok.injEq] at h
          obtain ⟨⟨rfl, rfl, _⟩, _⟩ := h
          exact ⟨hf, rfl, Or.inl rfl⟩
        · simp only [hall, Bool.false_eq_true, if_false, runM_pure, Prod.mk.injEq, Except.ok.injEq] at h
          obtain ⟨⟨rfl, rfl, _⟩, _⟩ := h
          refine ⟨hf, rfl, Or.inr ?_⟩
          simp only [ht]; exact h2.2


/-- the invariant of the encoder loop: ids are fresh and distinct, and every pushed future is either still in the
    ready queue or has been started -/
structure LoopInv (a : AS) : Prop where
  ids : ∀ t ∈ a.tasks, t.id < a.nextId
  uniq : a.tasks.Pairwise (fun x y => x.id ≠ y.id)
  cover : ∀ t ∈ a.tasks, t.id ∈ a.ready ∨ t.started

theorem loopInv_empty : LoopInv {} := ⟨fun _ h => (by cases h), List.Pairwise.nil, fun _ h => (by cases h)⟩

theorem loopInv_adoptOne (U : Universe) (a : AS) (t : Task) (h : LoopInv a) : LoopInv (adoptOne U a t) := by
  unfold adoptOne
  refine ⟨?_, ?_, ?_⟩
  · intro x hx
    simp only [List.mem_append, List.mem_singleton] at hx
    cases hx with
    | inl hm => have := h.ids x hm; show x.id < a.nextId + 1; omega
    | inr he => subst he; show a.nextId < a.nextId + 1; omega
  · show (a.tasks ++ [_]).Pairwise _
    rw [List.pairwise_append]
    refine ⟨h.uniq, List.pairwise_singleton _ _, ?_⟩
    intro x hx y hy
    simp only [List.mem_singleton] at hy
    subst hy
    have := h.ids x hx
    show x.id ≠ a.nextId
    omega
  · intro x hx
    simp only [List.mem_append, List.mem_singleton] at hx
    cases hx with
    | inl hm =>
      cases h.cover x hm with
      | inl hr => exact Or.inl (by show x.id ∈ a.ready ++ [a.nextId]; simp [hr])
      | inr hs => exact Or.inr hs
    | inr he => subst he; exact Or.inl (by show a.nextId ∈ a.ready ++ [a.nextId]; simp)

theorem loopInv_foldl_adoptOne (U : Universe) (q : List Task) (a : AS) (h : LoopInv a) : LoopInv (q.foldl (adoptOne U) a) := by
  induction q generalizing a with
  | nil => exact h
  | cons t ts ih => exact ih _ (loopInv_adoptOne U a t h)

theorem loopInv_adoptPushed (U : Universe) (a : AS) (s s' : S) (a' : AS) (h : LoopInv a)
    (hr : runM (adoptPushed U a) s = (.ok a', s')) : LoopInv a' := by
  unfold adoptPushed at hr
  simp only [runM_bind, runM_get, runM_set, runM_pure, Prod.mk.injEq, Except.ok.injEq] at hr
  obtain ⟨rfl, _⟩ := hr
  exact loopInv_foldl_adoptOne U _ a h

/-- the invariant survives anything that frames the local state -/
theorem loopInv_frame {a a' : AS} (h : LoopInv a) (f : Frame a a') : LoopInv a' :=
  ⟨fun t ht => by rw [f.nextId]; exact h.ids t (f.tasks ▸ ht), by rw [f.tasks]; exact h.uniq,
   fun t ht => (h.cover t (f.tasks ▸ ht)).elim (fun hr => Or.inl (f.ready _ hr)) Or.inr⟩

theorem frame_executorTurn (a : AS) (s s' : S) (a' : AS) (hr : runM (executorTurn a) s = (.ok a', s')) : Frame a a' := by
  unfold executorTurn at hr
  simp only [runM_bind, runM_modify, runM_get] at hr
  split at hr
  · exact absurd hr (by simp)
  · split at hr
    · simp only [runM_bind, runM_set, runM_pure, Prod.mk.injEq, Except.ok.injEq] at hr
      obtain ⟨rfl, _⟩ := hr
      refine Frame.trans ?_ (frame_enqueue _ _)
      exact ⟨rfl, rfl, fun _ hx => hx⟩
    · split at hr
      · simp only [runM_bind, runM_set, runM_pure, Prod.mk.injEq, Except.ok.injEq] at hr
        obtain ⟨rfl, _⟩ := hr
        refine Frame.trans ?_ (frame_enqueue _ _)
        exact ⟨rfl, rfl, fun _ hx => hx⟩
      · exact absurd hr (by simp)


/-- the callbacks of the encoder run on the solver state only: whatever they do, the encoder-local state passed on is
    the one the poll returned (they push new futures through `S.queue`, adopted at the next step) -/
theorem find?_id {l : List ATask} {tid : Nat} {t : ATask} (h : l.find? (fun t => t.id == tid) = some t) : t ∈ l ∧ t.id = tid := by
  have := List.find?_some h
  exact ⟨List.mem_of_find?_eq_some h, by simpa using this⟩

/-- **one step of the encoder loop preserves the invariant** -/
theorem asyncStep_inv (U : Universe) (P : Problem) (a : AS) (s s' : S) (a' : AS) (hi : LoopInv a)
    (h : runM (asyncStep U P a) s = (.ok (some a'), s')) : LoopInv a' := by
  unfold asyncStep at h
  simp only [runM_bind] at h
  cases hp : runM (adoptPushed U a) s with
  | mk r s1 =>
    cases r with
    | error e => simp only [hp] at h; exact absurd h (by simp)
    | ok a1 =>
      have hi1 := loopInv_adoptPushed U a s s1 a1 hi hp
      simp only [hp] at h
      cases hrd : a1.ready with
      | nil =>
        simp only [hrd] at h
        split at h
        · simp only [runM_pure, Prod.mk.injEq, Except.ok.injEq] at h
          exact absurd h.1 (by simp)
        · simp only [runM_bind] at h
          cases he : runM (executorTurn a1) s1 with
          | mk r2 s2 =>
            cases r2 with
            | error e => simp only [he] at h; exact absurd h (by simp)
            | ok a2 =>
              simp only [he, runM_pure, Prod.mk.injEq, Except.ok.injEq, Option.some.injEq] at h
              obtain ⟨rfl, _⟩ := h
              exact loopInv_frame hi1 (frame_executorTurn a1 s1 s2 a2 he)
      | cons tid rest =>
        simp only [hrd] at h
        -- the local state with `tid` popped
        have hpop : ∀ t ∈ a1.tasks, t.id ≠ tid → (t.id ∈ rest ∨ t.started) := by
          intro t ht hne
          cases hi1.cover t ht with
          | inl hr => rw [hrd] at hr; simp only [List.mem_cons] at hr; exact Or.inl (hr.resolve_left hne)
          | inr hs => exact Or.inr hs
        cases hfd : a1.tasks.find? (fun t => t.id == tid) with
        | none =>
          simp only [hfd, runM_pure, Prod.mk.injEq, Except.ok.injEq, Option.some.injEq] at h
          obtain ⟨rfl, _⟩ := h
          refine ⟨hi1.ids, hi1.uniq, ?_⟩
          intro t ht
          have hne : t.id ≠ tid := by
            intro e
            have := List.find?_eq_none.mp hfd t ht
            simp [e] at this
          exact hpop t ht hne
        | some t =>
          obtain ⟨htm, htid⟩ := find?_id hfd
          simp only [hfd] at h
          -- any task with this id is `t` itself
          have hsame : ∀ x ∈ a1.tasks, x.id = tid → x = t := by
            intro x hx hxid
            apply Classical.byContradiction
            intro hne
            have hp := hi1.uniq
            obtain ⟨i, hi', hix⟩ := List.mem_iff_getElem.mp hx
            obtain ⟨j, hj', hjt⟩ := List.mem_iff_getElem.mp htm
            have hij : i ≠ j := by
              intro e; subst e; exact hne (hix.symm.trans hjt)
            cases Nat.lt_or_gt_of_ne hij with
            | inl hlt =>
              have := List.pairwise_iff_getElem.mp hp i j hi' hj' hlt
              rw [hix, hjt] at this; exact this (hxid.trans htid.symm)
            | inr hgt =>
              have := List.pairwise_iff_getElem.mp hp j i hj' hi' hgt
              rw [hix, hjt] at this; exact this (htid.trans hxid.symm)
          by_cases hfin : t.finished = true
          · simp only [hfin, if_true, runM_pure, Prod.mk.injEq, Except.ok.injEq, Option.some.injEq] at h
            obtain ⟨rfl, _⟩ := h
            refine ⟨hi1.ids, hi1.uniq, ?_⟩
            intro x hx
            by_cases hxid : x.id = tid
            · rw [hsame x hx hxid]; exact Or.inr (Or.inl hfin)
            · exact hpop x hx hxid
          · simp only [hfin, Bool.false_eq_true, if_false, runM_bind] at h
            cases hpt : runM (pollTask U P t { a1 with ready := rest }) s1 with
            | mk r3 s3 =>
              cases r3 with
              | error e => simp only [hpt] at h; exact absurd h (by simp)
              | ok v =>
                obtain ⟨t', a3, res⟩ := v
                obtain ⟨hfr, hid, hst⟩ := pollTask_spec U P t _ s1 s3 t' a3 res hpt
                simp only [hpt] at h
                -- whatever the callback does to the solver state, the local state handed on is fixed
                have ha' : a' = { a3 with tasks := a3.tasks.map (fun x => if x.id == tid then t' else x) } := by
                  cases res with
                  | none =>
                    simp only [runM_pure, Prod.mk.injEq, Except.ok.injEq, Option.some.injEq] at h
                    exact h.1.symm
                  | some r =>
                    simp only [runM_bind] at h
                    cases hcb : runM (runCallback U P r) s3 with
                    | mk r4 s4 =>
                      cases r4 with
                      | error e => simp only [hcb] at h; exact absurd h (by simp)
                      | ok u =>
                        simp only [hcb, runM_pure, Prod.mk.injEq, Except.ok.injEq, Option.some.injEq] at h
                        exact h.1.symm
                subst ha'
                have htasks : a3.tasks = a1.tasks := hfr.tasks
                refine ⟨?_, ?_, ?_⟩
                · intro x hx
                  simp only [List.mem_map] at hx
                  obtain ⟨y, hy, rfl⟩ := hx
                  rw [htasks] at hy
                  show _ < a3.nextId
                  rw [hfr.nextId]
                  split
                  · rw [hid, htid]; have := hi1.ids y hy; next e => rw [← (by simpa using e : y.id = tid)]; exact this
                  · exact hi1.ids y hy
                · show (a3.tasks.map _).Pairwise _
                  rw [htasks, List.pairwise_map]
                  refine hi1.uniq.imp ?_
                  intro x y hxy
                  have e1 : (if (x.id == tid) = true then t' else x).id = x.id := by
                    split
                    · next e => rw [hid, htid]; exact (by simpa using e : x.id = tid).symm
                    · rfl
                  have e2 : (if (y.id == tid) = true then t' else y).id = y.id := by
                    split
                    · next e => rw [hid, htid]; exact (by simpa using e : y.id = tid).symm
                    · rfl
                  rw [e1, e2]; exact hxy
                · intro x hx
                  simp only [List.mem_map] at hx
                  obtain ⟨y, hy, rfl⟩ := hx
                  rw [htasks] at hy
                  by_cases hyid : y.id = tid
                  · have : (y.id == tid) = true := by simpa using hyid
                    simp only [this, if_true]
                    exact Or.inr hst
                  · have : (y.id == tid) = false := by simpa using hyid
                    simp only [this]
                    cases hpop y hy hyid with
                    | inl hr => exact Or.inl (hfr.ready _ hr)
                    | inr hs => exact Or.inr hs

/-- **C11, run level (model).** At a quiescent point — the ready queue is empty, so `next()` returns `Pending` and
    the executor takes its turn — every future pushed so far has been started: its request is outstanding (or it
    listens to one in flight, or is parked on a filter/sort gate), for every version set of every requirement. -/
theorem quiescent_all_started (a : AS) (hi : LoopInv a) (hq : a.ready = []) : ∀ t ∈ a.tasks, t.started := by
  intro t ht
  cases hi.cover t ht with
  | inl hr => rw [hq] at hr; cases hr
  | inr hs => exact hs

/-- the local states the encoder loop can reach from the empty one (any universe, problem, solver state, schedule) -/
inductive Reach (U : Universe) (P : Problem) : AS → S → Prop
  | start (s : S) : Reach U P {} s
  | step {a a' : AS} {s s' : S} : Reach U P a s → runM (asyncStep U P a) s = (.ok (some a'), s') → Reach U P a' s'

theorem reach_inv {U : Universe} {P : Problem} {a : AS} {s : S} (h : Reach U P a s) : LoopInv a := by
  induction h with
  | start s => exact loopInv_empty
  | step _ hs ih => exact asyncStep_inv U P _ _ _ _ ih hs

/-- **C11 for every reachable state of the model's encoder loop**: whenever the ready queue is empty (the executor is
    about to see `Pending`), every future pushed so far has been started -/
theorem reach_quiescent_all_started {U : Universe} {P : Problem} {a : AS} {s : S} (h : Reach U P a s) (hq : a.ready = []) :
    ∀ t ∈ a.tasks, t.started := quiescent_all_started a (reach_inv h) hq

end Resolvo.MDet
