import Resolvo.MDet.AsyncInv
/-!
# Frame facts: the encoder's callbacks never touch the provider cache

`Preserves f x`: whatever `x` does and however it ends, `f` of the solver state is unchanged. Proved here for the
view `cacheView` (answered and requested candidates) and every function on the callback path of the encoder
(`on_dependencies_available`, `on_candidates_available`, `on_requirement_candidates_available`,
`on_constraint_candidates_available` and what they call). Provider requests are therefore issued by the polling
functions of `MDet/Async.lean` only.
-/
set_option linter.unusedSimpArgs false
namespace Resolvo.MDet
open Resolvo Resolvo.Sat Resolvo.Abs

/-- `x` never changes `f` of the solver state, whatever its outcome -/
def Preserves {α β : Type} (f : S → β) (x : M α) : Prop := ∀ s, f (runM x s).2 = f s

theorem preserves_pure {α β : Type} (f : S → β) (a : α) : Preserves f (pure a : M α) := fun _ => rfl
theorem preserves_throw {α β : Type} (f : S → β) (e : Stop) : Preserves f (throw e : M α) := fun _ => rfl
theorem preserves_get {β : Type} (f : S → β) : Preserves f (get : M S) := fun _ => rfl
theorem preserves_modify {β : Type} (f : S → β) (g : S → S) (h : ∀ s, f (g s) = f s) : Preserves f (modify g : M Unit) := fun s => h s

theorem preserves_bind {α γ β : Type} (f : S → β) (x : M α) (k : α → M γ) (hx : Preserves f x) (hk : ∀ a, Preserves f (k a)) :
    Preserves f (x >>= k) := by
  intro s
  rw [runM_bind]
  cases h : runM x s with
  | mk r s1 =>
    have h1 := hx s; rw [h] at h1
    cases r with
    | error e => exact h1
    | ok a => exact (hk a s1).trans h1

/-- `let s ← get; …` where the continuation only has to preserve `f` when run from the state it was handed -/
theorem preserves_get_bind {γ β : Type} (f : S → β) (k : S → M γ) (hk : ∀ s, f (runM (k s) s).2 = f s) :
    Preserves f (get >>= k) := by
  intro s; rw [runM_bind]; exact hk s

theorem preserves_forIn {γ δ β : Type} (f : S → β) (xs : List γ) (init : δ) (body : γ → δ → M (ForInStep δ))
    (h : ∀ x b, Preserves f (body x b)) : Preserves f (forIn xs init body) := by
  induction xs generalizing init with
  | nil => intro s; simp only [List.forIn_nil]; rfl
  | cons x xs ih =>
    simp only [List.forIn_cons]
    apply preserves_bind f _ _ (h x init)
    intro r
    cases r with
    | done b => exact preserves_pure f b
    | yield b => exact ih b

attribute [irreducible] Preserves

/-- what the at-most-once argument looks at: answered and requested candidates -/
def cacheView (s : S) : List Nat × List Nat := (s.fetchedCands, s.issuedCands)

theorem pres_emit (e : Ev) : Preserves cacheView (emit e) := preserves_modify _ _ (fun _ => rfl)
theorem pres_panic {α : Type} (site : String) : Preserves cacheView (panic site : M α) := preserves_throw _ _
theorem pres_pushTask (t : Task) : Preserves cacheView (pushTask t) := preserves_modify _ _ (fun _ => rfl)
theorem pres_setWatchList (l : Lit) (cs : List Nat) : Preserves cacheView (setWatchList l cs) := preserves_modify _ _ (fun _ => rfl)

theorem pres_internSolvable (sv : Nat) : Preserves cacheView (internSolvable sv) := by
  unfold internSolvable
  apply preserves_get_bind
  intro s
  split
  · rfl
  · simp only [runM_bind, runM_set, emit, runM_modify, runM_pure]; rfl

theorem pres_internSoR (sid : SoR) : Preserves cacheView (internSoR sid) := by
  cases sid with
  | none => exact preserves_pure _ _
  | some sv => exact pres_internSolvable sv

theorem pres_allocForbidVar (name : Nat) : Preserves cacheView (allocForbidVar name) := by
  unfold allocForbidVar
  apply preserves_get_bind
  intro s
  simp only [runM_bind, runM_set, emit, runM_modify, runM_pure]; rfl

theorem pres_allocClause (k : Kind) (w : Option (Lit × Lit)) : Preserves cacheView (allocClause k w) := by
  unfold allocClause
  apply preserves_get_bind
  intro s
  simp only [runM_bind, emit, runM_modify, runM_pure]; rfl

theorem pres_queueSolvable (sid : SoR) : Preserves cacheView (queueSolvable sid) := by
  unfold queueSolvable
  apply preserves_get_bind
  intro s
  split
  · rfl
  · simp only [runM_bind, runM_set, emit, runM_modify, runM_pure]; rfl

theorem pres_queuePackage (n : Nat) : Preserves cacheView (queuePackage n) := by
  unfold queuePackage
  apply preserves_get_bind
  intro s
  split
  · rfl
  · simp only [runM_bind, runM_set, emit, runM_modify, runM_pure]; rfl

theorem pres_startWatching (id : Nat) : Preserves cacheView (startWatching id) := by
  unfold startWatching
  apply preserves_bind _ _ _ (preserves_get _)
  intro s
  split
  · apply preserves_bind _ _ _ (pres_setWatchList _ _)
    intro _
    apply preserves_bind _ _ _ (preserves_get _)
    intro _
    exact pres_setWatchList _ _
  · exact preserves_pure _ _

/-- one step of the frame automation -/
macro "pres_step" : tactic => `(tactic| first
  | with_reducible exact preserves_pure _ _
  | with_reducible exact preserves_throw _ _
  | with_reducible exact preserves_get _
  | with_reducible exact pres_emit _
  | with_reducible exact pres_panic _
  | with_reducible exact pres_pushTask _
  | with_reducible exact pres_internSolvable _
  | with_reducible exact pres_internSoR _
  | with_reducible exact pres_allocForbidVar _
  | with_reducible exact pres_allocClause _ _
  | with_reducible exact pres_queueSolvable _
  | with_reducible exact pres_queuePackage _
  | with_reducible exact pres_startWatching _
  | with_reducible exact pres_setWatchList _ _
  | with_reducible assumption
  | ((with_reducible apply preserves_modify); intro _; first | rfl | (split <;> rfl))
  | ((with_reducible apply preserves_forIn); intro _ _)
  | with_reducible apply preserves_bind
  | intro _
  | split)

macro "pres" : tactic => `(tactic| repeat pres_step)

theorem pres_addExclusionClause (sid : SoR) (reason : Nat) : Preserves cacheView (addExclusionClause sid reason) := by
  unfold addExclusionClause
  pres

theorem pres_addForbidMultiple (U : Universe) (c v : Nat) : Preserves cacheView (addForbidMultiple U c v) := by
  unfold addForbidMultiple
  pres

macro "pres2" : tactic => `(tactic| repeat (first
  | with_reducible exact pres_addExclusionClause _ _
  | with_reducible exact pres_addForbidMultiple _ _ _
  | pres_step))

theorem pres_onDependencies (U : Universe) (P : Problem) (sid : SoR) (d : Deps) : Preserves cacheView (onDependencies U P sid d) := by
  unfold onDependencies
  pres2

theorem pres_onCandidates (name : Nat) (p : Pkg) : Preserves cacheView (onCandidates name p) := by
  unfold onCandidates
  pres2

theorem pres_onRequirementCandidates (U : Universe) (sid : SoR) (r : Req) (cs : List (List Nat)) :
    Preserves cacheView (onRequirementCandidates U sid r cs) := by
  unfold onRequirementCandidates
  pres2

theorem pres_onConstraintCandidates (sid : SoR) (vs : Nat) (cs : List Nat) : Preserves cacheView (onConstraintCandidates sid vs cs) := by
  unfold onConstraintCandidates
  pres2

/-- the callbacks of the encoder never issue a provider request and never touch what has been answered -/
theorem pres_runCallback (U : Universe) (P : Problem) (r : TaskResult) : Preserves cacheView (runCallback U P r) := by
  cases r with
  | deps sid d => exact pres_onDependencies U P sid d
  | cands n p => exact pres_onCandidates n p
  | req sid r lists => exact pres_onRequirementCandidates U sid r lists
  | cons sid vs l => exact pres_onConstraintCandidates sid vs l

end Resolvo.MDet
