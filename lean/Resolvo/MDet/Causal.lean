import Resolvo.MDet.TruthSpec
/-!
# Candidates are requested causally (C09, second sentence; every run of the model, synchronous and asynchronous)

`Mentioned U P s n`: the package name `n` is mentioned by dependency information the solver has already **obtained** in
state `s` — a requirement (any member of a union) or a constrains entry of the root, or of a solvable whose dependencies
are in the cache (`fetchedDeps`). Invariant `KInv`: every `get_candidates` request of this solve (`issuedCands`, the ghost
twin of the `c<n>` entries of the call log) was for a mentioned name, and every queued task is causal (`KTask`: a package
task for a mentioned name; a requirement / constraint task for a solvable whose dependencies have been obtained and that
really has that requirement / constraint). The same Hoare logic as `MDet/Truth.lean` (contexts are stable under growth of
the dependency cache) carries it through every function of the model: `solveRun_kinv`.
-/
set_option linter.unusedSimpArgs false
namespace Resolvo.MDet.Causal
open Resolvo Resolvo.Sat Resolvo.Abs Resolvo.MDet

/-- the dependencies of a solvable-or-root have been obtained from the provider -/
def Obtained (s : S) : SoR → Prop
  | none => True
  | some sv => sv ∈ s.fetchedDeps

/-- the dependencies of `sid` mention the package name `n` -/
def MentionedBy (U : Universe) (P : Problem) (sid : SoR) (n : Nat) : Prop :=
  ∃ reqs cons, sidDeps U P sid = some (reqs, cons) ∧
    ((∃ r ∈ reqs, ∃ vs ∈ U.reqVersionSets r, U.vsName vs = n) ∨ ∃ vs ∈ cons, U.vsName vs = n)

def Mentioned (U : Universe) (P : Problem) (s : S) (n : Nat) : Prop := ∃ sid, Obtained s sid ∧ MentionedBy U P sid n

/-- a queued task is causal -/
def KTask (U : Universe) (P : Problem) (s : S) : Task → Prop
  | .deps _ => True
  | .pkg n => Mentioned U P s n
  | .req sid r => Obtained s sid ∧ TaskLegit U P (.req sid r)
  | .cons sid vs => Obtained s sid ∧ TaskLegit U P (.cons sid vs)

structure KInv (U : Universe) (P : Problem) (s : S) : Prop where
  cands : ∀ n ∈ s.issuedCands, Mentioned U P s n
  queue : ∀ t ∈ s.queue, KTask U P s t

/-- the dependency cache only grows -/
def Mono (s s' : S) : Prop := ∀ x ∈ s.fetchedDeps, x ∈ s'.fetchedDeps

theorem Mono.refl (s : S) : Mono s s := fun _ h => h
theorem Mono.trans {a b c : S} (h1 : Mono a b) (h2 : Mono b c) : Mono a c := fun x h => h2 x (h1 x h)

variable {U : Universe} {P : Problem}

theorem obtained_mono {s s' : S} (h : Mono s s') (sid : SoR) (ho : Obtained s sid) : Obtained s' sid := by
  cases sid with
  | none => trivial
  | some sv => exact h sv ho

theorem mentioned_mono {s s' : S} (h : Mono s s') (n : Nat) (hm : Mentioned U P s n) : Mentioned U P s' n := by
  obtain ⟨sid, h1, h2⟩ := hm
  exact ⟨sid, obtained_mono h sid h1, h2⟩

theorem ktask_mono {s s' : S} (h : Mono s s') (t : Task) (hk : KTask U P s t) : KTask U P s' t := by
  cases t with
  | deps sid => trivial
  | pkg n => exact mentioned_mono h n hk
  | req sid r => exact ⟨obtained_mono h sid hk.1, hk.2⟩
  | cons sid vs => exact ⟨obtained_mono h sid hk.1, hk.2⟩

theorem kinv_of_mono {s s' : S} (h : KInv U P s) (hm : Mono s s') (h1 : s'.issuedCands = s.issuedCands) (h2 : s'.queue = s.queue)
    (h4 : s'.asyncMode = s.asyncMode) : KInv U P s' ∧ Mono s s' :=
  ⟨⟨by rw [h1]; exact fun n hn => mentioned_mono hm n (h.cands n hn), by rw [h2]; exact fun t ht => ktask_mono hm t (h.queue t ht)⟩, hm⟩

theorem kinv_of_view {s s' : S} (h : KInv U P s) (h1 : s'.issuedCands = s.issuedCands) (h2 : s'.queue = s.queue)
    (h3 : s'.fetchedDeps = s.fetchedDeps) (h4 : s'.asyncMode = s.asyncMode) : KInv U P s' ∧ Mono s s' :=
  kinv_of_mono h (by intro x hx; rw [h3]; exact hx) h1 h2 h4

theorem kinv_set_queue {s s' : S} (h : KInv U P s) (q : List Task) (hq : ∀ t ∈ q, KTask U P s t) (h1 : s'.issuedCands = s.issuedCands)
    (h2 : s'.queue = q) (h3 : s'.fetchedDeps = s.fetchedDeps) (h4 : s'.asyncMode = s.asyncMode) : KInv U P s' ∧ Mono s s' := by
  have hm : Mono s s' := by intro x hx; rw [h3]; exact hx
  exact ⟨⟨by rw [h1]; exact fun n hn => mentioned_mono hm n (h.cands n hn), by rw [h2]; exact fun t ht => ktask_mono hm t (hq t ht)⟩, hm⟩

/-! ### `KM`: the computation keeps the invariant and only extends the dependency cache -/

def KMAt (U : Universe) (P : Problem) {α : Type} (x : M α) (s : S) : Prop :=
  KInv U P s → KInv U P (runM x s).2 ∧ Mono s (runM x s).2
def KM (U : Universe) (P : Problem) {α : Type} (x : M α) : Prop := ∀ s, KMAt U P x s


theorem km_pure {α : Type} (a : α) : KM U P (pure a : M α) := fun s h => ⟨h, Mono.refl s⟩
theorem km_get : KM U P (get : M S) := fun s h => ⟨h, Mono.refl s⟩
theorem km_throw {α : Type} (e : Stop) : KM U P (throw e : M α) := fun s h => ⟨h, Mono.refl s⟩
theorem km_panic {α : Type} (site : String) : KM U P (panic site : M α) := fun s h => ⟨h, Mono.refl s⟩
theorem km_modify (g : S → S) (h : ∀ s, KInv U P s → KInv U P (g s) ∧ Mono s (g s)) : KM U P (modify g : M Unit) :=
  fun s hs => h s hs

theorem kmAt_bind {α β : Type} (x : M α) (k : α → M β) (s : S) (hx : KMAt U P x s)
    (hk : ∀ a s1, runM x s = (.ok a, s1) → KMAt U P (k a) s1) : KMAt U P (x >>= k) s := by
  intro hs
  rw [runM_bind]
  cases h : runM x s with
  | mk r s1 =>
    have h1 := hx hs
    rw [h] at h1
    cases r with
    | error e => exact h1
    | ok a =>
      obtain ⟨h2, e2⟩ := hk a s1 h h1.1
      exact ⟨h2, h1.2.trans e2⟩

theorem km_bind {α β : Type} (x : M α) (k : α → M β) (hx : KM U P x) (hk : ∀ a, KM U P (k a)) :
    KM U P (x >>= k) := fun s => kmAt_bind x k s (hx s) (fun a s1 _ => hk a s1)

theorem km_get_bind {β : Type} (k : S → M β) (hk : ∀ s, KMAt U P (k s) s) : KM U P (get >>= k) := by
  intro s
  apply kmAt_bind _ _ _ (km_get s)
  intro a s1 h
  simp only [runM_get, Prod.mk.injEq, Except.ok.injEq] at h
  obtain ⟨rfl, rfl⟩ := h
  exact hk _

theorem kmAt_set_bind {β : Type} (s' s : S) (k : Unit → M β) (h : KInv U P s → KInv U P s' ∧ Mono s s') (hk : KM U P (k ())) :
    KMAt U P (set s' >>= k) s := by
  apply kmAt_bind
  · intro hs; exact h hs
  · intro a s1 h1
    simp only [runM_set, Prod.mk.injEq, Except.ok.injEq] at h1
    obtain ⟨_, rfl⟩ := h1
    exact hk _

theorem km_forIn {γ δ : Type} (xs : List γ) (init : δ) (body : γ → δ → M (ForInStep δ))
    (h : ∀ x b, KM U P (body x b)) : KM U P (forIn xs init body) := by
  induction xs generalizing init with
  | nil => simp only [List.forIn_nil]; exact km_pure _
  | cons x xs ih =>
    simp only [List.forIn_cons]
    apply km_bind _ _ (h x init)
    intro r
    cases r with
    | done b => exact km_pure b
    | yield b => exact ih b

theorem km_forIn_mem {γ δ : Type} (xs : List γ) (init : δ) (body : γ → δ → M (ForInStep δ))
    (h : ∀ x b, x ∈ xs → KM U P (body x b)) : KM U P (forIn xs init body) := by
  induction xs generalizing init with
  | nil => simp only [List.forIn_nil]; exact km_pure _
  | cons x xs ih =>
    simp only [List.forIn_cons]
    apply km_bind _ _ (h x init List.mem_cons_self)
    intro r
    cases r with
    | done b => exact km_pure b
    | yield b => exact ih b (fun x b hx => h x b (List.mem_cons_of_mem _ hx))

theorem KM.at {α : Type} {x : M α} (h : KM U P x) (s : S) : KMAt U P x s := h s
theorem KM.mk {α : Type} {x : M α} (h : ∀ s, KMAt U P x s) : KM U P x := h

/-! ### `Kr`: the same with a context of facts that survive growth of the dependency cache, and a postcondition -/

/-- a state predicate that survives any growth of the dependency cache -/
def KStable (F : S → Prop) : Prop := ∀ s s', Mono s s' → F s → F s'

theorem kstable_const (p : Prop) : KStable (fun _ => p) := fun _ _ _ h => h
theorem kstable_and {F G : S → Prop} (hF : KStable F) (hG : KStable G) : KStable (fun s => F s ∧ G s) :=
  fun s s' e h => ⟨hF s s' e h.1, hG s s' e h.2⟩

def Kr (U : Universe) (P : Problem) {α : Type} (F : S → Prop) (x : M α) (G : α → S → Prop) : Prop :=
  ∀ s, KInv U P s → F s → KInv U P (runM x s).2 ∧ Mono s (runM x s).2 ∧ ∀ a, (runM x s).1 = .ok a → G a (runM x s).2

theorem kr_of_tm {α : Type} {x : M α} (F : S → Prop) (h : KM U P x) : Kr U P F x (fun _ _ => True) :=
  fun s hi _ => ⟨(h s hi).1, (h s hi).2, fun _ _ => trivial⟩

theorem km_of_tr {α : Type} {x : M α} {G : α → S → Prop} (h : Kr U P (fun _ => True) x G) : KM U P x :=
  fun s hi => ⟨(h s hi trivial).1, (h s hi trivial).2.1⟩

theorem kr_weaken {α : Type} {F F' : S → Prop} {x : M α} {G G' : α → S → Prop}
    (h : Kr U P F x G) (hpre : ∀ s, F' s → F s) (hpost : ∀ a s, G a s → G' a s) : Kr U P F' x G' :=
  fun s hi hp => let ⟨a, b, c⟩ := h s hi (hpre s hp); ⟨a, b, fun r hr => hpost r _ (c r hr)⟩

theorem kr_drop {α : Type} {F : S → Prop} {x : M α} {G : α → S → Prop} (h : Kr U P F x G) : Kr U P F x (fun _ _ => True) :=
  kr_weaken h (fun _ h => h) (fun _ _ _ => trivial)

theorem kr_at {α : Type} {F : S → Prop} {x : M α} {G : α → S → Prop} (h : Kr U P F x G) {s0 s1 : S} (hi : KInv U P s1) (hF : F s1)
    (he : Mono s0 s1) : KInv U P (runM x s1).2 ∧ Mono s0 (runM x s1).2 ∧ ∀ a, (runM x s1).1 = .ok a → G a (runM x s1).2 :=
  let ⟨a, b, c⟩ := h s1 hi hF; ⟨a, he.trans b, c⟩

theorem kr_panic_bind {α β : Type} (F : S → Prop) (site : String) (k : α → M β) (G : β → S → Prop) :
    Kr U P F ((panic site : M α) >>= k) G := by
  intro s hi _
  simp only [panic, runM_bind, runM_throw]
  exact ⟨hi, Mono.refl s, fun a ha => by cases ha⟩

/-- a fact the context implies (in any state) may be assumed outright -/
theorem kr_assume {α : Type} {F : S → Prop} {x : M α} {G : α → S → Prop} {p : Prop} (hp : ∀ s, F s → p) (h : p → Kr U P F x G) :
    Kr U P F x G := fun s hi hF => h (hp s hF) s hi hF

/-- a maintained computation together with a fact about the values it can return -/
theorem kr_of_tm_spec {α : Type} {x : M α} (F : S → Prop) (Q : α → Prop) (h : KM U P x)
    (hspec : ∀ s s' v, runM x s = (.ok v, s') → Q v) : Kr U P F x (fun v _ => Q v) := by
  intro s hi _
  refine ⟨(h s hi).1, (h s hi).2, fun a ha => ?_⟩
  apply hspec s (runM x s).2 a
  cases hr : runM x s with
  | mk r s' => rw [hr] at ha; simp only at ha; rw [ha]

theorem km_panic_bind {α β : Type} (site : String) (k : α → M β) : KM U P ((panic site : M α) >>= k) :=
  km_of_tr (kr_panic_bind (fun _ => True) site k (fun _ _ => True))

theorem kmAt_of_tr {α : Type} {F : S → Prop} {x : M α} {G : α → S → Prop} {s : S} (h : Kr U P F x G) (hF : KInv U P s → F s) :
    KMAt U P x s := fun hi => ⟨(h s hi (hF hi)).1, (h s hi (hF hi)).2.1⟩

theorem kmAt_of_imp {α : Type} {x : M α} {s : S} (h : KInv U P s → KMAt U P x s) : KMAt U P x s := fun hi => h hi hi

theorem kr_pure_ctx {α : Type} {F : S → Prop} (a : α) {G : α → S → Prop} (h : ∀ s, F s → G a s) : Kr U P F (pure a : M α) G :=
  fun s hi hF => ⟨hi, Mono.refl s, fun r hr => by cases hr; exact h s hF⟩

theorem kr_pure {α : Type} (F : S → Prop) (a : α) : Kr U P F (pure a : M α) (fun r _ => r = a) :=
  fun s hi _ => ⟨hi, Mono.refl s, fun r hr => by cases hr; rfl⟩

/-- sequencing: the context is carried across (it is stable) and the postcondition of the first joins it -/
theorem kr_bind {α β : Type} {F : S → Prop} {x : M α} {G : α → S → Prop} {k : α → M β} {H : β → S → Prop}
    (hF : KStable F) (hx : Kr U P F x G) (hk : ∀ a, Kr U P (fun s => F s ∧ G a s) (k a) H) : Kr U P F (x >>= k) H := by
  intro s hi hp
  obtain ⟨i1, e1, p1⟩ := hx s hi hp
  rw [runM_bind]
  cases h : runM x s with
  | mk r s1 =>
    rw [h] at i1 e1 p1
    cases r with
    | error e => exact ⟨i1, e1, fun a ha => by cases ha⟩
    | ok a =>
      obtain ⟨i2, e2, p2⟩ := hk a s1 i1 ⟨hF s s1 e1 hp, p1 a rfl⟩
      exact ⟨i2, Mono.trans e1 e2, p2⟩

theorem kr_forIn {γ δ : Type} {F : S → Prop} (hF : KStable F) (xs : List γ) (init : δ) (body : γ → δ → M (ForInStep δ))
    (h : ∀ x b, x ∈ xs → Kr U P F (body x b) (fun _ _ => True)) :
    Kr U P F (forIn xs init body) (fun _ _ => True) := by
  induction xs generalizing init with
  | nil => simp only [List.forIn_nil]; exact kr_drop (kr_pure F init)
  | cons x xs ih =>
    simp only [List.forIn_cons]
    apply kr_bind hF (h x init List.mem_cons_self)
    intro r
    apply kr_weaken (F := F) _ (fun _ h => h.1) (fun _ _ h => h)
    cases r with
    | done b => exact kr_drop (kr_pure F b)
    | yield b => exact ih b (fun x b hx => h x b (List.mem_cons_of_mem _ hx))

/-- a loop with an accumulator: `I done acc` relates the accumulator to the elements processed so far -/
theorem kr_forIn_inv {γ δ : Type} {F : S → Prop} (hF : KStable F) (I : List γ → δ → S → Prop)
    (body : γ → δ → M (ForInStep δ)) (xs : List γ) (pre : List γ) (init : δ)
    (h : ∀ pre' x b, x ∈ xs → Kr U P (fun s => F s ∧ I pre' b s) (body x b) (fun r s => ∃ b', r = .yield b' ∧ I (pre' ++ [x]) b' s)) :
    Kr U P (fun s => F s ∧ I pre init s) (forIn xs init body) (fun b s => I (pre ++ xs) b s) := by
  induction xs generalizing pre init with
  | nil =>
    intro s hi hp
    simp only [List.forIn_nil, runM_pure, List.append_nil]
    exact ⟨hi, Mono.refl s, fun a ha => by cases ha; exact hp.2⟩
  | cons x xs ih =>
    intro s hi hp
    simp only [List.forIn_cons]
    rw [runM_bind]
    obtain ⟨i1, e1, p1⟩ := h pre x init List.mem_cons_self s hi hp
    cases hr : runM (body x init) s with
    | mk r s1 =>
      rw [hr] at i1 e1 p1
      cases r with
      | error e => exact ⟨i1, e1, fun a ha => by cases ha⟩
      | ok r =>
        obtain ⟨b', rfl, hI⟩ := p1 r rfl
        dsimp only
        obtain ⟨i2, e2, p2⟩ := ih (pre ++ [x]) b' (fun pre' y b hy => h pre' y b (List.mem_cons_of_mem _ hy)) s1 i1 ⟨hF s s1 e1 hp.1, hI⟩
        refine ⟨i2, e1.trans e2, fun a ha => ?_⟩
        have := p2 a ha
        simpa [List.append_assoc] using this


theorem km_pollCancel : KM U P pollCancel := by
  intro s hs
  rw [runM_pollCancel]
  split <;> exact kinv_of_view hs rfl rfl rfl rfl

theorem kstable_obtained (sid : SoR) : KStable (fun s => Obtained s sid) := fun _ _ e h => obtained_mono e sid h
theorem kstable_mentioned (n : Nat) : KStable (fun s => Mentioned U P s n) := fun _ _ e h => mentioned_mono e n h
theorem kstable_ktask (t : Task) : KStable (fun s => KTask U P s t) := fun _ _ e h => ktask_mono e t h
theorem kstable_mem (sv : Nat) : KStable (fun s => sv ∈ s.fetchedDeps) := fun _ _ e h => e sv h

theorem kr_modify {F : S → Prop} (g : S → S) (h : ∀ s, KInv U P s → F s → KInv U P (g s) ∧ Mono s (g s)) :
    Kr U P F (modify g : M Unit) (fun _ _ => True) := by
  intro s hi hF
  simp only [runM_modify]
  exact ⟨(h s hi hF).1, (h s hi hF).2, fun _ _ => trivial⟩

attribute [irreducible] KM

/-! ### automation -/

syntax "ks_lemma" : tactic
macro_rules | `(tactic| ks_lemma) => `(tactic| fail "no KM lemma applies")

macro "ks_step" : tactic => `(tactic| first
  | ks_lemma
  | with_reducible exact km_pure _
  | with_reducible exact km_get
  | with_reducible exact km_panic _
  | with_reducible exact km_throw _
  | with_reducible exact km_pollCancel
  | with_reducible assumption
  | ((with_reducible apply km_modify); intro _ h; first | exact kinv_of_view h rfl rfl rfl rfl | (split <;> exact kinv_of_view h rfl rfl rfl rfl))
  | ((with_reducible apply km_forIn); intro _ _)
  | with_reducible apply km_bind
  | intro _
  | split
  | dsimp only)

macro "ks" : tactic => `(tactic| repeat ks_step)
macro "ks_ih" ih:ident : tactic => `(tactic| repeat (first | (with_reducible apply $ih) | ks_step))

macro "ks_at" : tactic => `(tactic| repeat (first
  | exact (km_pure _).at _
  | exact (km_panic _).at _
  | exact (km_throw _).at _
  | (apply kmAt_set_bind
     · intro h; exact kinv_of_view h rfl rfl rfl rfl
     · ks)
  | split
  | dsimp only))

macro "kr_quiet" : tactic => `(tactic| (apply kr_of_tm; ks))
macro "kstab" : tactic => `(tactic| repeat (first | assumption | exact kstable_const _ | exact kstable_obtained _ | exact kstable_mentioned _ | exact kstable_ktask _ | exact kstable_mem _ | apply kstable_and))


/-! ### the functions of the model -/

theorem km_emit (e : Ev) : KM U P (emit e) := km_modify _ (fun _ h => kinv_of_view h rfl rfl rfl rfl)
macro_rules | `(tactic| ks_lemma) => `(tactic| with_reducible exact km_emit _)
theorem km_setWatchList (l : Lit) (cs : List Nat) : KM U P (setWatchList l cs) :=
  km_modify _ (fun _ h => kinv_of_view h rfl rfl rfl rfl)
macro_rules | `(tactic| ks_lemma) => `(tactic| with_reducible exact km_setWatchList _ _)

theorem km_internSolvable (sv : Nat) : KM U P (internSolvable sv) := by
  unfold internSolvable
  apply km_get_bind
  intro s
  ks_at
macro_rules | `(tactic| ks_lemma) => `(tactic| with_reducible exact km_internSolvable _)

theorem km_internSoR (sid : SoR) : KM U P (internSoR sid) := by
  cases sid with
  | none => exact km_pure _
  | some sv => exact km_internSolvable sv
macro_rules | `(tactic| ks_lemma) => `(tactic| with_reducible exact km_internSoR _)

theorem km_allocForbidVar (name : Nat) : KM U P (allocForbidVar name) := by
  unfold allocForbidVar
  apply km_get_bind
  intro s
  ks_at
macro_rules | `(tactic| ks_lemma) => `(tactic| with_reducible exact km_allocForbidVar _)

theorem km_allocClause (k : Kind) (w : Option (Lit × Lit)) : KM U P (allocClause k w) := by
  unfold allocClause
  ks
macro_rules | `(tactic| ks_lemma) => `(tactic| with_reducible exact km_allocClause _ _)

theorem km_startWatching (id : Nat) : KM U P (startWatching id) := by
  unfold startWatching
  ks
macro_rules | `(tactic| ks_lemma) => `(tactic| with_reducible exact km_startWatching _)

theorem km_tryAdd (v : Nat) (val : Bool) (reason level : Nat) : KM U P (tryAdd v val reason level) := by
  unfold tryAdd
  ks
macro_rules | `(tactic| ks_lemma) => `(tactic| with_reducible exact km_tryAdd _ _ _ _)

theorem km_undoLast : KM U P undoLast := by
  unfold undoLast
  apply km_get_bind
  intro s
  ks_at
macro_rules | `(tactic| ks_lemma) => `(tactic| with_reducible exact km_undoLast)

theorem km_undoUntil_loop (n level : Nat) : KM U P (undoUntil.loop level n) := by
  induction n with
  | zero => unfold undoUntil.loop; exact km_pure _
  | succ n ih =>
    unfold undoUntil.loop
    ks
macro_rules | `(tactic| ks_lemma) => `(tactic| with_reducible exact km_undoUntil_loop _ _)

theorem km_undoUntil (level : Nat) : KM U P (undoUntil level) := by
  unfold undoUntil
  ks
macro_rules | `(tactic| ks_lemma) => `(tactic| with_reducible exact km_undoUntil _)

theorem km_nextUnpropagated : KM U P nextUnpropagated := by
  unfold nextUnpropagated
  apply km_get_bind
  intro s
  ks_at
macro_rules | `(tactic| ks_lemma) => `(tactic| with_reducible exact km_nextUnpropagated)

/-! ### the provider requests -/

theorem km_requestStarted : KM U P requestStarted := by unfold requestStarted; ks
macro_rules | `(tactic| ks_lemma) => `(tactic| with_reducible exact km_requestStarted)

theorem kinv_view' {s s' : S} (h : KInv U P s) (h1 : s'.issuedCands = s.issuedCands) (h2 : s'.queue = s.queue)
    (h3 : s'.fetchedDeps = s.fetchedDeps) (h4 : s'.asyncMode = s.asyncMode) : KInv U P s' := (kinv_of_view h h1 h2 h3 h4).1
theorem kinv_mono' {s s' : S} (h : KInv U P s) (hm : Mono s s') (h1 : s'.issuedCands = s.issuedCands) (h2 : s'.queue = s.queue)
    (h4 : s'.asyncMode = s.asyncMode) : KInv U P s' := (kinv_of_mono h hm h1 h2 h4).1

/-- `get_candidates` for a mentioned name -/
theorem kr_getCandidates (F : S → Prop) (hF : KStable F) (U : Universe) (n : Nat) (hn : ∀ s, F s → Mentioned U P s n) :
    Kr U P F (getCandidates U n) (fun _ _ => True) := by
  unfold getCandidates
  apply kr_bind hF (kr_of_tm _ km_get)
  intro s0
  dsimp only
  split
  · refine kr_bind (by kstab) (kr_of_tm _ km_pollCancel) (fun _ => ?_)
    refine kr_bind (by kstab) (G := fun _ _ => True) ?_ (fun _ => ?_)
    · apply kr_modify
      intro s hi hF'
      refine ⟨⟨?_, hi.queue⟩, fun _ h => h⟩
      intro x hx
      rcases List.mem_cons.mp hx with rfl | hx
      · exact hn s hF'.1.1
      · exact hi.cands x hx
    · kr_quiet
  · kr_quiet

theorem kr_getMatching (F : S → Prop) (hF : KStable F) (U : Universe) (vs : Nat) (hn : ∀ s, F s → Mentioned U P s (U.vsName vs)) :
    Kr U P F (getMatching U vs) (fun _ _ => True) := by
  unfold getMatching
  refine kr_bind hF (kr_getCandidates F hF U _ hn) (fun _ => ?_)
  kr_quiet

theorem kr_getNonMatching (F : S → Prop) (hF : KStable F) (U : Universe) (vs : Nat) (hn : ∀ s, F s → Mentioned U P s (U.vsName vs)) :
    Kr U P F (getNonMatching U vs) (fun _ _ => True) := by
  unfold getNonMatching
  refine kr_bind hF (kr_getCandidates F hF U _ hn) (fun _ => ?_)
  kr_quiet

theorem kr_getSortedVs (F : S → Prop) (hF : KStable F) (U : Universe) (vs : Nat) (hn : ∀ s, F s → Mentioned U P s (U.vsName vs)) :
    Kr U P F (getSortedVs U vs) (fun _ _ => True) := by
  unfold getSortedVs
  apply kr_bind hF (kr_of_tm _ km_get)
  intro s0
  dsimp only
  split
  · refine kr_bind (by kstab) (kr_getMatching _ (by kstab) U vs (fun s h => hn s h.1)) (fun _ => ?_)
    kr_quiet
  · kr_quiet

/-- `get_dependencies`: the provider's answer, and it is in the cache afterwards -/
theorem kr_getDeps (F : S → Prop) (U : Universe) (sv : Nat) :
    Kr U P F (getDeps U sv) (fun d s => d = U.deps sv ∧ sv ∈ s.fetchedDeps) := by
  intro s hi _
  unfold getDeps
  simp only [runM_bind, runM_get]
  by_cases hc : s.fetchedDeps.contains sv = true
  · simp only [hc, Bool.not_true, Bool.false_eq_true, if_false, runM_pure]
    exact ⟨hi, Mono.refl s, fun a ha => by cases ha; exact ⟨rfl, List.contains_iff_mem.mp hc⟩⟩
  · simp only [hc, Bool.not_false, if_true, runM_bind, runM_pollCancel]
    by_cases hf : fires s = true
    · simp only [hf, if_true]
      exact ⟨kinv_view' hi rfl rfl rfl rfl, fun _ h => h, fun a ha => by cases ha⟩
    · simp only [hf, Bool.false_eq_true, if_false, runM_modify, requestStarted, runM_pure]
      refine ⟨kinv_mono' hi (fun x hx => List.mem_cons_of_mem _ hx) rfl rfl rfl, fun x hx => List.mem_cons_of_mem _ hx,
        fun a ha => by cases ha; exact ⟨rfl, List.mem_cons_self⟩⟩



/-! ### the encoder (synchronous) -/

theorem kinv_push_queue {s s' : S} (h : KInv U P s) (t : Task) (ht : KTask U P s t) (h1 : s'.issuedCands = s.issuedCands)
    (h2 : s'.queue = s.queue ++ [t]) (h3 : s'.fetchedDeps = s.fetchedDeps) (h4 : s'.asyncMode = s.asyncMode) : KInv U P s' ∧ Mono s s' :=
  kinv_set_queue h (s.queue ++ [t]) (by
    intro x hx
    rcases List.mem_append.mp hx with hx | hx
    · exact h.queue x hx
    · rw [List.mem_singleton.mp hx]; exact ht) h1 h2 h3 h4

theorem km_queueSolvable (sid : SoR) : KM U P (queueSolvable sid) := by
  unfold queueSolvable
  apply km_get_bind
  intro s
  split
  · exact (km_pure _).at _
  · apply kmAt_set_bind
    · intro h; exact kinv_push_queue h (.deps sid) trivial rfl rfl rfl rfl
    · ks
macro_rules | `(tactic| ks_lemma) => `(tactic| with_reducible exact km_queueSolvable _)

theorem kr_queuePackage (F : S → Prop) (n : Nat) (hn : ∀ s, F s → Mentioned U P s n) : Kr U P F (queuePackage n) (fun _ _ => True) := by
  intro s hi hF
  unfold queuePackage
  simp only [runM_bind, runM_get]
  split
  · simp only [runM_pure]; exact ⟨hi, Mono.refl s, fun _ _ => trivial⟩
  · simp only [runM_bind, runM_set, emit, runM_modify]
    exact ⟨(kinv_push_queue (s' := { s with addedPkg := n :: s.addedPkg, queue := s.queue ++ [Task.pkg n], trace := Ev.queuedPkg n :: s.trace })
      hi (.pkg n) (hn s hF) rfl rfl rfl rfl).1, fun _ h => h, fun _ _ => trivial⟩

theorem kr_pushTask (F : S → Prop) (t : Task) (ht : ∀ s, F s → KTask U P s t) : Kr U P F (pushTask t) (fun _ _ => True) := by
  apply kr_modify
  intro s hi hF
  exact kinv_push_queue hi t (ht s hF) rfl rfl rfl rfl

theorem km_addExclusionClause (sid : SoR) (reason : Nat) : KM U P (addExclusionClause sid reason) := by
  unfold addExclusionClause
  ks
macro_rules | `(tactic| ks_lemma) => `(tactic| with_reducible exact km_addExclusionClause _ _)

theorem km_addForbidMultiple (U : Universe) (c v : Nat) : KM U P (addForbidMultiple U c v) := by
  unfold addForbidMultiple
  ks
macro_rules | `(tactic| ks_lemma) => `(tactic| with_reducible exact km_addForbidMultiple _ _ _)

/-- `on_dependencies_available` with the provider's answer, for a solvable whose dependencies have been obtained -/
theorem kr_onDependencies (F : S → Prop) (hF : KStable F) (U : Universe) (P : Problem) (sid : SoR) (d : Deps)
    (hO : ∀ s, F s → Obtained s sid) (hd : d = depsAnswer U P sid) : Kr U P F (onDependencies U P sid d) (fun _ _ => True) := by
  unfold onDependencies
  cases d with
  | unknown reason => dsimp only; kr_quiet
  | known reqs cons =>
    dsimp only
    have hs : sidDeps U P sid = some (reqs, cons) := by
      cases sid with
      | none => simp only [depsAnswer, Deps.known.injEq] at hd; simp [sidDeps, hd.1, hd.2]
      | some x => simp only [depsAnswer] at hd; simp [sidDeps, ← hd]
    refine kr_bind hF (G := fun _ _ => True) ?_ (fun _ => ?_)
    · apply kr_forIn hF
      intro vs b hvs
      refine kr_bind hF (G := fun _ _ => True) ?_ (fun _ => ?_)
      · apply kr_queuePackage
        intro s hFs
        refine ⟨sid, hO s hFs, reqs, cons, hs, ?_⟩
        rcases List.mem_append.mp hvs with h1 | h1
        · obtain ⟨r, hr, hv⟩ := List.mem_flatMap.mp h1
          exact Or.inl ⟨r, hr, vs, hv, rfl⟩
        · exact Or.inr ⟨vs, h1, rfl⟩
      · kr_quiet
    · refine kr_bind (by kstab) (G := fun _ _ => True) ?_ (fun _ => ?_)
      · apply kr_forIn (by kstab)
        intro r b hr
        refine kr_bind (by kstab) (G := fun _ _ => True) ?_ (fun _ => ?_)
        · apply kr_pushTask
          intro s hFs
          exact ⟨hO s hFs.1, reqs, cons, hs, hr⟩
        · kr_quiet
      · refine kr_bind (by kstab) (G := fun _ _ => True) ?_ (fun _ => ?_)
        · apply kr_forIn (by kstab)
          intro c b hc
          refine kr_bind (by kstab) (G := fun _ _ => True) ?_ (fun _ => ?_)
          · apply kr_pushTask
            intro s hFs
            exact ⟨hO s hFs.1.1, reqs, cons, hs, hc⟩
          · kr_quiet
        · kr_quiet

theorem km_onCandidates (name : Nat) (p : Pkg) : KM U P (onCandidates name p) := by
  unfold onCandidates
  ks
macro_rules | `(tactic| ks_lemma) => `(tactic| with_reducible exact km_onCandidates _ _)

theorem km_onRequirementCandidates (U : Universe) (sid : SoR) (r : Req) (cs : List (List Nat)) :
    KM U P (onRequirementCandidates U sid r cs) := by
  unfold onRequirementCandidates
  ks
macro_rules | `(tactic| ks_lemma) => `(tactic| with_reducible exact km_onRequirementCandidates _ _ _ _)

theorem km_onConstraintCandidates (sid : SoR) (vs : Nat) (cs : List Nat) : KM U P (onConstraintCandidates sid vs cs) := by
  unfold onConstraintCandidates
  ks
macro_rules | `(tactic| ks_lemma) => `(tactic| with_reducible exact km_onConstraintCandidates _ _ _)

/-- one task of the synchronous encoder, if it is causal -/
theorem kr_runTask (F : S → Prop) (hF : KStable F) (U : Universe) (P : Problem) (t : Task) (ht : ∀ s, F s → KTask U P s t) :
    Kr U P F (runTask U P t) (fun _ _ => True) := by
  cases t with
  | deps sid =>
    cases sid with
    | none => unfold runTask; exact kr_onDependencies F hF U P none _ (fun _ _ => trivial) rfl
    | some sv =>
      unfold runTask
      apply kr_bind hF (kr_getDeps F U sv)
      intro d
      apply kr_assume (p := d = U.deps sv) (fun _ h => h.2.1)
      intro hd
      exact kr_onDependencies _ (by kstab) U P (some sv) d (fun s h => h.2.2) hd
  | pkg n =>
    unfold runTask
    refine kr_bind hF (kr_getCandidates F hF U n (fun s h => ht s h)) (fun _ => ?_)
    kr_quiet
  | req sid r =>
    unfold runTask
    refine kr_bind hF (G := fun _ _ => True) ?_ (fun _ => ?_)
    · apply kr_drop
      apply kr_forIn hF
      intro vs b hvs
      refine kr_bind hF (kr_getSortedVs F hF U vs ?_) (fun _ => ?_)
      · intro s hFs
        obtain ⟨ho, reqs, cons, h1, h2⟩ := ht s hFs
        exact ⟨sid, ho, reqs, cons, h1, Or.inl ⟨r, h2, vs, hvs, rfl⟩⟩
      · kr_quiet
    · kr_quiet
  | cons sid vs =>
    unfold runTask
    refine kr_bind hF (kr_getNonMatching F hF U vs ?_) (fun _ => ?_)
    · intro s hFs
      obtain ⟨ho, reqs, cons, h1, h2⟩ := ht s hFs
      exact ⟨sid, ho, reqs, cons, h1, Or.inr ⟨vs, h2, rfl⟩⟩
    · kr_quiet

theorem kmAt_set_kr {β : Type} {F : S → Prop} {G : β → S → Prop} (s' s : S) (k : Unit → M β)
    (h : KInv U P s → KInv U P s' ∧ Mono s s') (hF : KInv U P s → F s') (hk : Kr U P F (k ()) G) : KMAt U P (set s' >>= k) s := by
  intro hs
  rw [runM_bind, runM_set]
  obtain ⟨i, m, _⟩ := hk s' (h hs).1 (hF hs)
  exact ⟨i, (h hs).2.trans m⟩

theorem km_encodeSync_loop (U : Universe) (P : Problem) (n : Nat) : KM U P (encodeSync.loop U P n) := by
  induction n with
  | zero => unfold encodeSync.loop; exact km_throw _
  | succ n ih =>
    unfold encodeSync.loop
    apply km_get_bind
    intro s
    split
    · exact (km_pure _).at _
    · next t rest hq =>
      apply kmAt_set_kr (F := fun s' => KTask U P s' t) (G := fun _ _ => True)
      · intro h
        exact kinv_set_queue h rest (fun x hx => h.queue x (by rw [hq]; exact List.mem_cons_of_mem _ hx)) rfl rfl rfl rfl
      · intro h
        exact ktask_mono (s := s) (fun _ hx => hx) t (h.queue t (by rw [hq]; exact List.mem_cons_self))
      · refine kr_bind (by kstab) (kr_runTask _ (by kstab) U P t (fun s h => h)) (fun _ => ?_)
        exact kr_of_tm _ ih
macro_rules | `(tactic| ks_lemma) => `(tactic| with_reducible exact km_encodeSync_loop _ _ _)

theorem km_resetQueue : KM U P (modify fun s => { s with queue := [], conflicting := [] } : M Unit) :=
  km_modify _ (fun _ h => kinv_set_queue h [] (fun _ hx => by cases hx) rfl rfl rfl rfl)
macro_rules | `(tactic| ks_lemma) => `(tactic| with_reducible exact km_resetQueue)

theorem km_encodeSync (U : Universe) (P : Problem) (sv : List SoR) (fuel : Nat) : KM U P (encodeSync U P sv fuel) := by
  unfold encodeSync
  ks
macro_rules | `(tactic| ks_lemma) => `(tactic| with_reducible exact km_encodeSync _ _ _ _)


/-! ### the encoder with an asynchronous provider -/

theorem km_logCall (w : String) (g : GEv) : KM U P (logCall w g) := by unfold logCall; ks
macro_rules | `(tactic| ks_lemma) => `(tactic| with_reducible exact km_logCall _ _)
theorem km_startDeps (sv : Nat) : KM U P (startDeps sv) := by unfold startDeps; ks
macro_rules | `(tactic| ks_lemma) => `(tactic| with_reducible exact km_startDeps _)
theorem km_finishCands (U : Universe) (n : Nat) : KM U P (finishCands U n) := by unfold finishCands; ks
macro_rules | `(tactic| ks_lemma) => `(tactic| with_reducible exact km_finishCands _ _)

/-- the answer to `get_dependencies` has arrived: the dependency cache grows -/
theorem kr_finishDeps (F : S → Prop) (sv : Nat) : Kr U P F (finishDeps sv) (fun _ s => sv ∈ s.fetchedDeps) := by
  intro s hi _
  unfold finishDeps
  simp only [runM_modify]
  exact ⟨kinv_mono' hi (fun x hx => List.mem_cons_of_mem _ hx) rfl rfl rfl, fun x hx => List.mem_cons_of_mem _ hx,
    fun _ _ => List.mem_cons_self⟩

theorem km_finishChild (sorted : Bool) (c : Child) (a : AS) : KM U P (finishChild sorted c a) := by
  unfold finishChild
  ks
macro_rules | `(tactic| ks_lemma) => `(tactic| with_reducible exact km_finishChild _ _ _)

theorem km_sortStage (U : Universe) (tid : Nat) (g : Bool) (c : Child) (a : AS) (e : Bool) :
    KM U P (sortStage U tid g c a e) := by
  unfold sortStage
  ks
macro_rules | `(tactic| ks_lemma) => `(tactic| with_reducible exact km_sortStage _ _ _ _ _ _)

theorem km_filterStage (U : Universe) (tid : Nat) (g sorted : Bool) (c : Child) (a : AS) (e : Bool) :
    KM U P (filterStage U tid g sorted c a e) := by
  unfold filterStage
  ks
macro_rules | `(tactic| ks_lemma) => `(tactic| with_reducible exact km_filterStage _ _ _ _ _ _ _)

/-- one poll of a `get_or_cache_candidates` await for a mentioned name -/
theorem kr_pollCands (F : S → Prop) (hF : KStable F) (U : Universe) (tid n : Nat) (w : CandWait) (a : AS)
    (hn : ∀ s, F s → Mentioned U P s n) : Kr U P F (pollCands U tid n w a) (fun _ _ => True) := by
  unfold pollCands
  apply kr_bind hF (kr_of_tm _ km_get)
  intro s0
  cases w with
  | ready => dsimp only; kr_quiet
  | notStarted =>
    dsimp only
    split
    · kr_quiet
    · refine kr_bind (by kstab) (kr_of_tm _ km_pollCancel) (fun _ => ?_)
      split
      · kr_quiet
      · refine kr_bind (by kstab) (kr_of_tm _ (km_logCall _ _)) (fun _ => ?_)
        refine kr_bind (by kstab) (G := fun _ _ => True) ?_ (fun _ => ?_)
        · apply kr_modify
          intro s hi hF'
          refine ⟨⟨?_, hi.queue⟩, fun _ h => h⟩
          intro x hx
          rcases List.mem_cons.mp hx with rfl | hx
          · exact hn s hF'.1.1.1
          · exact hi.cands x hx
        · kr_quiet
  | owner => dsimp only; kr_quiet
  | listener => dsimp only; kr_quiet

/-- a postcondition about the returned value that holds of every normal result -/
theorem kr_spec {α : Type} {F : S → Prop} {x : M α} {G : α → S → Prop} (Q : α → Prop) (h : Kr U P F x G)
    (hspec : ∀ s s' v, runM x s = (.ok v, s') → Q v) : Kr U P F x (fun v s => G v s ∧ Q v) := by
  intro s hi hF
  obtain ⟨i, m, p⟩ := h s hi hF
  refine ⟨i, m, fun a ha => ⟨p a ha, ?_⟩⟩
  apply hspec s (runM x s).2 a
  cases hr : runM x s with
  | mk r s' => rw [hr] at ha; simp only at ha; rw [ha]

/-- one poll of a child whose package name is mentioned -/
theorem kr_pollChild (F : S → Prop) (hF : KStable F) (U : Universe) (tid : Nat) (sorted : Bool) (c : Child) (a : AS)
    (hn : ∀ s, F s → Mentioned U P s (U.vsName c.vs)) : Kr U P F (pollChild U tid sorted c a) (fun _ _ => True) := by
  unfold pollChild
  split
  · kr_quiet
  · apply kr_bind hF (kr_of_tm _ km_get)
    intro s0
    dsimp only
    split
    · kr_quiet
    · split
      · kr_quiet
      · split
        · kr_quiet
        · split
          · kr_quiet
          · split
            · kr_quiet
            · refine kr_bind (by kstab) (kr_pollCands _ (by kstab) U tid _ c.wait a (fun s h => hn s h.1)) (fun r => ?_)
              kr_quiet

theorem kr_pollChildren (F : S → Prop) (hF : KStable F) (U : Universe) (tid : Nat) (sorted : Bool) (cs : List Child) (a : AS)
    (hn : ∀ s, F s → ∀ c ∈ cs, Mentioned U P s (U.vsName c.vs)) : Kr U P F (pollChildren U tid sorted cs a) (fun _ _ => True) := by
  induction cs generalizing a with
  | nil => unfold pollChildren; kr_quiet
  | cons c cs ih =>
    unfold pollChildren
    refine kr_bind hF (kr_pollChild F hF U tid sorted c a (fun s h => hn s h c List.mem_cons_self)) (fun r => ?_)
    refine kr_bind (by kstab) (kr_weaken (ih r.2 (fun s h x hx => hn s h x (List.mem_cons_of_mem _ hx))) (fun s h => h.1) (fun _ _ h => h)) (fun r2 => ?_)
    kr_quiet

/-- the version sets a future's children stand for -/
def taskVsets (U : Universe) : Task → List Nat
  | .req _ r => U.reqVersionSets r
  | .cons _ vs => [vs]
  | _ => []

/-- a future is causal: its task is, and its children are the version sets of its task -/
def KATask (U : Universe) (P : Problem) (s : S) (t : ATask) : Prop :=
  KTask U P s t.task ∧ ((∃ sid r, t.task = .req sid r) ∨ (∃ sid vs, t.task = .cons sid vs) → t.children.map (·.vs) = taskVsets U t.task)

def KALegit (U : Universe) (P : Problem) (s : S) (a : AS) : Prop := ∀ t ∈ a.tasks, KATask U P s t

theorem kstable_katask (t : ATask) : KStable (fun s => KATask U P s t) := fun _ _ e h => ⟨ktask_mono e _ h.1, h.2⟩
theorem kstable_kalegit (a : AS) : KStable (fun s => KALegit U P s a) := fun s s' e h t ht => kstable_katask t s s' e (h t ht)

theorem mentioned_of_req {s : S} {sid : SoR} {r : Req} (h : KTask U P s (.req sid r)) (vs : Nat) (hvs : vs ∈ U.reqVersionSets r) :
    Mentioned U P s (U.vsName vs) := by
  obtain ⟨ho, reqs, cons, h1, h2⟩ := h
  exact ⟨sid, ho, reqs, cons, h1, Or.inl ⟨r, h2, vs, hvs, rfl⟩⟩

theorem mentioned_of_cons {s : S} {sid : SoR} {vs : Nat} (h : KTask U P s (.cons sid vs)) : Mentioned U P s (U.vsName vs) := by
  obtain ⟨ho, reqs, cons, h1, h2⟩ := h
  exact ⟨sid, ho, reqs, cons, h1, Or.inr ⟨vs, h2, rfl⟩⟩

theorem pollTask_cons_vs (U : Universe) (P : Problem) (t : ATask) (sid : SoR) (vs : Nat) (a : AS) (s s' : S)
    (t' : ATask) (a' : AS) (res : Option TaskResult) (ht : t.task = .cons sid vs)
    (h : runM (pollTask U P t a) s = (.ok (t', a', res), s')) : t'.children.map (·.vs) = t.children.map (·.vs) := by
  unfold pollTask at h
  rw [ht] at h
  simp only [runM_bind] at h
  cases hq : runM (pollChildren U t.id false t.children a) s with
  | mk r2 s2 =>
    cases r2 with
    | error e => simp only [hq] at h; exact absurd h (by simp)
    | ok v2 =>
      obtain ⟨cs2, a2⟩ := v2
      have h2 := (pollChildren_started U t.id false t.children a s s2 cs2 a2 hq).1
      simp only [hq] at h
      by_cases hall : (cs2.all (·.done)) = true
      · simp only [hall, if_true, runM_pure, Prod.mk.injEq, Except.ok.injEq] at h
        obtain ⟨⟨rfl, rfl, rfl⟩, rfl⟩ := h
        exact h2
      · simp only [hall, Bool.false_eq_true, if_false, runM_pure, Prod.mk.injEq, Except.ok.injEq] at h
        obtain ⟨⟨rfl, rfl, rfl⟩, rfl⟩ := h
        exact h2

/-- the dependencies a finished `deps` future hands over have been obtained -/
def ResObtained (s : S) : TaskResult → Prop
  | .deps sid _ => Obtained s sid
  | _ => True

theorem kstable_resObtained (res : Option TaskResult) : KStable (fun s => ∀ r, res = some r → ResObtained s r) := by
  intro s s' e h r hr
  have := h r hr
  cases r with
  | deps sid d => exact obtained_mono e sid this
  | cands _ _ => trivial
  | req _ _ _ => trivial
  | cons _ _ _ => trivial

macro "kstab2" : tactic => `(tactic| repeat (first | assumption | exact kstable_const _ | exact kstable_kalegit _ | exact kstable_resObtained _ | exact kstable_obtained _ | exact kstable_mentioned _ | exact kstable_ktask _ | exact kstable_mem _ | apply kstable_and))

/-- one poll of a causal future: the invariant is kept; a `deps` result is for a solvable whose dependencies are now cached -/
theorem kr_pollTask (F : S → Prop) (hF : KStable F) (U : Universe) (P : Problem) (t : ATask) (a : AS)
    (ht : ∀ s, F s → KATask U P s t) :
    Kr U P F (pollTask U P t a) (fun v s => ∀ r, v.2.2 = some r → ResObtained s r) := by
  unfold pollTask
  cases htask : t.task with
  | deps sid =>
    cases sid with
    | none =>
      dsimp only
      apply kr_pure_ctx
      intro s _ r hr
      cases hr; trivial
    | some sv =>
      dsimp only
      -- the state read by `get` decides whether the answer is already cached
      intro s hi hFs
      rw [runM_bind, runM_get]
      dsimp only
      cases hw : t.wait with
      | notStarted =>
        dsimp only
        by_cases hc : s.fetchedDeps.contains sv = true
        · simp only [hc, if_true, runM_pure]
          exact ⟨hi, Mono.refl s, fun v hv r hr => by cases hv; cases hr; exact List.contains_iff_mem.mp hc⟩
        · simp only [hc, Bool.false_eq_true, if_false]
          refine (?_ : Kr U P F _ (fun (v : ATask × AS × Option TaskResult) s => ∀ r, v.2.2 = some r → ResObtained s r)) s hi hFs
          refine kr_bind hF (kr_of_tm F (km_startDeps sv)) (fun _ => ?_)
          apply kr_pure_ctx
          intro _ _ r hr
          cases hr
      | owner =>
        dsimp only
        split
        · refine (?_ : Kr U P F _ (fun (v : ATask × AS × Option TaskResult) s => ∀ r, v.2.2 = some r → ResObtained s r)) s hi hFs
          refine kr_bind hF (kr_finishDeps F sv) (fun _ => ?_)
          apply kr_pure_ctx
          intro s' h r hr
          cases hr
          exact h.2
        · simp only [runM_pure]
          exact ⟨hi, Mono.refl s, fun v hv r hr => by cases hv; cases hr⟩
      | listener =>
        dsimp only
        split
        · refine (?_ : Kr U P F _ (fun (v : ATask × AS × Option TaskResult) s => ∀ r, v.2.2 = some r → ResObtained s r)) s hi hFs
          refine kr_bind hF (kr_finishDeps F sv) (fun _ => ?_)
          apply kr_pure_ctx
          intro s' h r hr
          cases hr
          exact h.2
        · simp only [runM_pure]
          exact ⟨hi, Mono.refl s, fun v hv r hr => by cases hv; cases hr⟩
      | ready =>
        dsimp only
        split
        · refine (?_ : Kr U P F _ (fun (v : ATask × AS × Option TaskResult) s => ∀ r, v.2.2 = some r → ResObtained s r)) s hi hFs
          refine kr_bind hF (kr_finishDeps F sv) (fun _ => ?_)
          apply kr_pure_ctx
          intro s' h r hr
          cases hr
          exact h.2
        · simp only [runM_pure]
          exact ⟨hi, Mono.refl s, fun v hv r hr => by cases hv; cases hr⟩
  | pkg n =>
    dsimp only
    refine kr_bind hF (kr_pollCands F hF U t.id n t.wait a (fun s h => by have := (ht s h).1; rw [htask] at this; exact this)) (fun r => ?_)
    split
    · exact kr_pure_ctx _ (fun _ _ r hr => by cases hr; trivial)
    · exact kr_pure_ctx _ (fun _ _ r hr => by cases hr)
  | req sid r =>
    dsimp only
    refine kr_bind hF (kr_pollChildren F hF U t.id true t.children a ?_) (fun r => ?_)
    · intro s h c hc
      obtain ⟨hk, hch⟩ := ht s h
      rw [htask] at hk
      have hvs : c.vs ∈ U.reqVersionSets r := by
        have := hch (Or.inl ⟨sid, r, htask⟩)
        rw [htask] at this
        have hm : c.vs ∈ t.children.map (·.vs) := List.mem_map.mpr ⟨c, hc, rfl⟩
        rw [this] at hm; exact hm
      exact mentioned_of_req hk c.vs hvs
    · split
      · exact kr_pure_ctx _ (fun _ _ r hr => by cases hr; trivial)
      · exact kr_pure_ctx _ (fun _ _ r hr => by cases hr)
  | cons sid vs =>
    dsimp only
    refine kr_bind hF (kr_pollChildren F hF U t.id false t.children a ?_) (fun r => ?_)
    · intro s h c hc
      obtain ⟨hk, hch⟩ := ht s h
      rw [htask] at hk
      have hvs : c.vs = vs := by
        have := hch (Or.inr ⟨sid, vs, htask⟩)
        rw [htask] at this
        have hm : c.vs ∈ t.children.map (·.vs) := List.mem_map.mpr ⟨c, hc, rfl⟩
        rw [this] at hm; simpa [taskVsets] using hm
      rw [hvs]; exact mentioned_of_cons hk
    · split
      · exact kr_pure_ctx _ (fun _ _ r hr => by cases hr; trivial)
      · exact kr_pure_ctx _ (fun _ _ r hr => by cases hr)

/-- the callback of a finished causal future -/
theorem kr_runCallback (F : S → Prop) (hF : KStable F) (U : Universe) (P : Problem) (t : Task) (r : TaskResult)
    (hr : ResFor U P t r) (ho : ∀ s, F s → ResObtained s r) : Kr U P F (runCallback U P r) (fun _ _ => True) := by
  cases t <;> cases r <;> simp only [ResFor] at hr
  · obtain ⟨rfl, rfl⟩ := hr
    exact kr_onDependencies F hF U P _ _ (fun s h => ho s h) rfl
  · unfold runCallback; kr_quiet
  · unfold runCallback; kr_quiet
  · unfold runCallback; kr_quiet

theorem kalegit_adoptOne (U : Universe) (s : S) (a : AS) (t : Task) (h : KALegit U P s a) (ht : KTask U P s t) :
    KALegit U P s (adoptOne U a t) := by
  intro x hx
  unfold adoptOne at hx
  simp only [List.mem_append, List.mem_singleton] at hx
  rcases hx with hx | rfl
  · exact h x hx
  · refine ⟨ht, ?_⟩
    intro _
    cases t with
    | deps sid => simp [taskVsets]
    | pkg n => simp [taskVsets]
    | req sid r => simp [taskVsets, List.map_map, Function.comp_def]
    | cons sid vs => simp [taskVsets]

theorem kalegit_foldl_adoptOne (U : Universe) (s : S) (q : List Task) (a : AS) (h : KALegit U P s a) (hq : ∀ t ∈ q, KTask U P s t) :
    KALegit U P s (q.foldl (adoptOne U) a) := by
  induction q generalizing a with
  | nil => exact h
  | cons t q ih =>
    exact ih _ (kalegit_adoptOne U s a t h (hq t List.mem_cons_self)) (fun x hx => hq x (List.mem_cons_of_mem _ hx))

theorem kr_adoptPushed (F : S → Prop) (U : Universe) (a : AS) (ha : ∀ s, F s → KALegit U P s a) :
    Kr U P F (adoptPushed U a) (fun a1 s => KALegit U P s a1) := by
  intro s hi hFs
  unfold adoptPushed
  simp only [runM_bind, runM_get, runM_set, runM_pure]
  refine ⟨(kinv_set_queue (s' := { s with queue := [] }) hi [] (fun _ hx => by cases hx) rfl rfl rfl rfl).1, fun _ h => h, fun a1 h1 => ?_⟩
  cases h1
  exact kalegit_foldl_adoptOne U s s.queue a (ha s hFs) hi.queue

theorem km_executorTurn (a : AS) : KM U P (executorTurn a) := by
  unfold executorTurn
  dsimp only
  apply km_bind
  · apply km_modify; intro _ h; exact kinv_of_view h rfl rfl rfl rfl
  · intro _
    apply km_get_bind
    intro s
    ks_at

/-- one iteration of the asynchronous encoder loop keeps the invariant, and the futures it leaves are causal -/
theorem kr_asyncStep (F : S → Prop) (hF : KStable F) (U : Universe) (P : Problem) (a : AS) (ha : ∀ s, F s → KALegit U P s a) :
    Kr U P F (asyncStep U P a) (fun r s => ∀ a', r = some a' → KALegit U P s a') := by
  unfold asyncStep
  apply kr_bind hF (kr_adoptPushed F U a ha)
  intro a1
  apply kr_weaken (F := fun s => KALegit U P s a1) _ (fun s h => h.2) (fun _ _ h => h)
  cases hrd : a1.ready with
  | nil =>
    dsimp only
    split
    · exact kr_pure_ctx _ (fun _ _ a' h => by cases h)
    · apply kr_bind (kstable_kalegit a1) (kr_of_tm_spec _ (fun a2 : AS => a2.tasks = a1.tasks) (km_executorTurn a1)
        (fun s s' v h => (frame_executorTurn a1 s s' v h).tasks))
      intro a2
      apply kr_pure_ctx
      intro s h a' ha'
      cases ha'
      intro t ht; rw [h.2] at ht; exact h.1 t ht
  | cons tid rest =>
    dsimp only
    cases hfd : a1.tasks.find? (fun t => t.id == tid) with
    | none =>
      dsimp only
      apply kr_pure_ctx
      intro s h a' ha'
      cases ha'
      exact h
    | some t =>
      dsimp only
      obtain ⟨htm, htid⟩ := find?_id hfd
      split
      · apply kr_pure_ctx
        intro s h a' ha'
        cases ha'
        exact h
      · apply kr_bind (kstable_kalegit a1) (kr_spec
          (fun v : ATask × AS × Option TaskResult => v.2.1.tasks = a1.tasks ∧ v.1.task = t.task ∧
            (∀ r, v.2.2 = some r → ResFor U P t.task r) ∧
            ((∃ sid r, t.task = .req sid r) ∨ (∃ sid vs, t.task = .cons sid vs) → v.1.children.map (·.vs) = t.children.map (·.vs)))
          (kr_pollTask _ (kstable_kalegit a1) U P t { a1 with ready := rest } (fun s h => h t htm))
          (fun s s' v h => ⟨(pollTask_spec U P t _ s s' v.1 v.2.1 v.2.2 h).1.tasks, (pollTask_dspec U P t _ s s' v.1 v.2.1 v.2.2 h).1,
            pollTask_res U P t _ s s' v.1 v.2.1 v.2.2 h,
            fun hk => by
              rcases hk with ⟨sid, r, hq⟩ | ⟨sid, vs, hq⟩
              · exact (pollTask_req_started U P t sid r _ s s' v.1 v.2.1 v.2.2 hq h).1
              · exact pollTask_cons_vs U P t sid vs _ s s' v.1 v.2.1 v.2.2 hq h⟩))
        intro v
        obtain ⟨t', a3, res⟩ := v
        dsimp only
        apply kr_assume (p := a3.tasks = a1.tasks ∧ t'.task = t.task ∧ (∀ r, res = some r → ResFor U P t.task r) ∧
            ((∃ sid r, t.task = .req sid r) ∨ (∃ sid vs, t.task = .cons sid vs) → t'.children.map (·.vs) = t.children.map (·.vs)))
          (fun _ h => h.2.2)
        intro ⟨h1, h2, h3, h4⟩
        have hfin : ∀ s, KALegit U P s a1 → KALegit U P s { a3 with tasks := a3.tasks.map (fun x => if x.id == tid then t' else x) } := by
          intro s hl x hx
          simp only [List.mem_map] at hx
          obtain ⟨y, hy, rfl⟩ := hx
          rw [h1] at hy
          split
          · refine ⟨by rw [h2]; exact (hl t htm).1, fun hk => ?_⟩
            rw [h2] at hk ⊢
            rw [h4 hk]; exact (hl t htm).2 hk
          · exact hl y hy
        cases res with
        | none =>
          dsimp only
          apply kr_pure_ctx
          intro s h a' ha'
          cases ha'
          exact hfin s h.1
        | some r =>
          dsimp only
          apply kr_bind (by kstab2) (G := fun _ _ => True)
          · apply kr_runCallback _ (by kstab2) U P t.task r (h3 r rfl)
            intro s h
            exact h.2.1 r rfl
          · intro _
            apply kr_pure_ctx
            intro s h a' ha'
            cases ha'
            exact hfin s h.1.1

theorem km_encodeAsync_loop (U : Universe) (P : Problem) (n : Nat) (a : AS) :
    Kr U P (fun s => KALegit U P s a) (encodeAsync.loop U P n a) (fun _ _ => True) := by
  induction n generalizing a with
  | zero => unfold encodeAsync.loop; exact kr_of_tm _ (km_throw _)
  | succ n ih =>
    unfold encodeAsync.loop
    apply kr_bind (kstable_kalegit a) (kr_asyncStep _ (kstable_kalegit a) U P a (fun _ h => h))
    intro r
    cases r with
    | none => dsimp only; kr_quiet
    | some a' =>
      dsimp only
      exact kr_weaken (ih a') (fun s h => h.2 a' rfl) (fun _ _ h => h)

theorem km_encodeAsync_loop0 (U : Universe) (P : Problem) (n : Nat) : KM U P (encodeAsync.loop U P n {}) :=
  km_of_tr (kr_weaken (km_encodeAsync_loop U P n {}) (fun _ _ t ht => by cases ht) (fun _ _ h => h))
macro_rules | `(tactic| ks_lemma) => `(tactic| with_reducible exact km_encodeAsync_loop0 _ _ _)

theorem km_encodeAsync (U : Universe) (P : Problem) (sv : List SoR) (fuel : Nat) : KM U P (encodeAsync U P sv fuel) := by
  unfold encodeAsync
  ks
macro_rules | `(tactic| ks_lemma) => `(tactic| with_reducible exact km_encodeAsync _ _ _ _)

/-- `Encoder::encode` -/
theorem km_encode (U : Universe) (P : Problem) (sv : List SoR) (fuel : Nat) : KM U P (encode U P sv fuel) := by
  unfold encode
  ks
macro_rules | `(tactic| ks_lemma) => `(tactic| with_reducible exact km_encode _ _ _ _)

/-! ### propagation, decisions, conflict analysis, the solver loop -/

theorem km_decideAssertions (level : Nat) : KM U P (decideAssertions level) := by
  unfold decideAssertions
  ks
macro_rules | `(tactic| ks_lemma) => `(tactic| with_reducible exact km_decideAssertions _)

theorem km_decideLearned (level : Nat) : KM U P (decideLearned level) := by
  unfold decideLearned
  ks
macro_rules | `(tactic| ks_lemma) => `(tactic| with_reducible exact km_decideLearned _)

theorem km_propagate_inner (level : Nat) (fl : Lit) (l : List Nat) : KM U P (propagate.outer.inner level fl l) := by
  induction l with
  | nil => unfold propagate.outer.inner; exact km_pure _
  | cons cid rest ih =>
    unfold propagate.outer.inner
    ks
macro_rules | `(tactic| ks_lemma) => `(tactic| with_reducible exact km_propagate_inner _ _ _)

theorem km_propagate_outer (level fuel : Nat) : KM U P (propagate.outer level fuel) := by
  induction fuel with
  | zero => unfold propagate.outer; exact km_throw _
  | succ n ih =>
    unfold propagate.outer
    ks
macro_rules | `(tactic| ks_lemma) => `(tactic| with_reducible exact km_propagate_outer _ _)

theorem km_propagate (level fuel : Nat) : KM U P (propagate level fuel) := by
  unfold propagate
  ks
macro_rules | `(tactic| ks_lemma) => `(tactic| with_reducible exact km_propagate _ _)

theorem km_decide (U : Universe) : KM U P (decide U) := by
  unfold decide
  ks
macro_rules | `(tactic| ks_lemma) => `(tactic| with_reducible exact km_decide _)

theorem km_analyzeUnsolvable (cid : Nat) : KM U P (analyzeUnsolvable cid) := by
  unfold analyzeUnsolvable
  ks
macro_rules | `(tactic| ks_lemma) => `(tactic| with_reducible exact km_analyzeUnsolvable _)

theorem km_analyze_pop (seen : List Nat) (f : Nat) : KM U P (analyze.outer.pop seen f) := by
  induction f with
  | zero => unfold analyze.outer.pop; exact km_throw _
  | succ n ih =>
    unfold analyze.outer.pop
    ks
macro_rules | `(tactic| ks_lemma) => `(tactic| with_reducible exact km_analyze_pop _ _)

theorem km_analyze_outer (fuel curLevel conflVar clauseId : Nat) (seen : List Nat) (causes : Nat) (learnt : List Lit)
    (backTo : Nat) (why : List Nat) (first : Bool) :
    KM U P (analyze.outer fuel curLevel conflVar clauseId seen causes learnt backTo why first) := by
  induction fuel generalizing curLevel conflVar clauseId seen causes learnt backTo why first with
  | zero => unfold analyze.outer; exact km_throw _
  | succ n ih =>
    unfold analyze.outer
    ks_ih ih
macro_rules | `(tactic| ks_lemma) => `(tactic| with_reducible exact km_analyze_outer _ _ _ _ _ _ _ _ _ _)

theorem km_analyze (U : Universe) (level conflVar clauseId fuel : Nat) : KM U P (analyze U level conflVar clauseId fuel) := by
  unfold analyze
  ks
macro_rules | `(tactic| ks_lemma) => `(tactic| with_reducible exact km_analyze _ _ _ _ _)

theorem km_propagateAndLearn_loop (U : Universe) (fuel f level : Nat) : KM U P (propagateAndLearn.loop U fuel f level) := by
  induction f generalizing level with
  | zero => unfold propagateAndLearn.loop; exact km_throw _
  | succ n ih =>
    unfold propagateAndLearn.loop
    ks_ih ih
macro_rules | `(tactic| ks_lemma) => `(tactic| with_reducible exact km_propagateAndLearn_loop _ _ _ _)

theorem km_propagateAndLearn (U : Universe) (level fuel : Nat) : KM U P (propagateAndLearn U level fuel) := by
  unfold propagateAndLearn
  ks
macro_rules | `(tactic| ks_lemma) => `(tactic| with_reducible exact km_propagateAndLearn _ _ _)

theorem km_resolveDependencies_loop (U : Universe) (fuel f level : Nat) : KM U P (resolveDependencies.loop U fuel f level) := by
  induction f generalizing level with
  | zero => unfold resolveDependencies.loop; exact km_throw _
  | succ n ih =>
    unfold resolveDependencies.loop
    ks_ih ih
macro_rules | `(tactic| ks_lemma) => `(tactic| with_reducible exact km_resolveDependencies_loop _ _ _ _)

theorem km_resolveDependencies (U : Universe) (level fuel : Nat) : KM U P (resolveDependencies U level fuel) := by
  unfold resolveDependencies
  ks
macro_rules | `(tactic| ks_lemma) => `(tactic| with_reducible exact km_resolveDependencies _ _ _)

theorem km_processUnsolvable (root : SoR) (startLevel cid : Nat) : KM U P (processUnsolvable root startLevel cid) := by
  unfold processUnsolvable
  ks
macro_rules | `(tactic| ks_lemma) => `(tactic| with_reducible exact km_processUnsolvable _ _ _)

theorem km_runSat_loop (U : Universe) (P : Problem) (root : SoR) (fuel startLevel f level : Nat) :
    KM U P (runSat.loop U P root fuel startLevel f level) := by
  induction f generalizing level with
  | zero => unfold runSat.loop; exact km_throw _
  | succ n ih =>
    unfold runSat.loop
    ks_ih ih
macro_rules | `(tactic| ks_lemma) => `(tactic| with_reducible exact km_runSat_loop _ _ _ _ _ _ _)

theorem km_runSat (U : Universe) (P : Problem) (root : SoR) (fuel : Nat) : KM U P (runSat U P root fuel) := by
  unfold runSat
  ks
macro_rules | `(tactic| ks_lemma) => `(tactic| with_reducible exact km_runSat _ _ _ _)

theorem kinv_solve (U : Universe) (P : Problem) (fuel : Nat) (s : S) :
    KInv U P (runM (solve U P fuel) s).2 := by
  unfold solve
  rw [runM_bind, runM_modify]
  dsimp only
  refine (KM.at ?_ _ ?_).1
  · ks
  · refine ⟨?_, ?_⟩
    · intro n hn
      have hn' : n ∈ ([] : List Nat) := hn
      cases hn'
    · intro t ht
      have ht' : t ∈ ([] : List Task) := ht
      cases ht'

/-- **Candidates are requested causally** (every universe, problem, fuel and solver state carried over from earlier solves
    — cache, hints, cancellation plan, completion order of an asynchronous provider —; whatever the outcome): after a solve, every `get_candidates`
    request issued during it was for a package name mentioned by dependency information the solver holds — a requirement
    or constrains entry of the root, or of a solvable whose dependencies are in the cache. The invariant holds in every
    intermediate state as well (it is maintained by every function of the model), so the dependencies had been obtained
    when the request was issued. -/
theorem solveRun_kinv (U : Universe) (P : Problem) (fuel : Nat) (s : S) :
    KInv U P (solveRun U P fuel s).2 := by
  have hm := kinv_solve U P fuel s
  have hrun : (solve U P fuel).run.run s = runM (solve U P fuel) s := rfl
  unfold solveRun
  rw [hrun]
  cases hr : runM (solve U P fuel) s with
  | mk r s' =>
    rw [hr] at hm
    cases r with
    | ok o => cases o <;> exact hm
    | error e => exact hm

end Resolvo.MDet.Causal
