import Resolvo.MDet.Checked
import Resolvo.Abs.Fail
import Resolvo.Abs.Preferred
import Resolvo.Abs.BestDirect
import Resolvo.RenderTruth
import Resolvo.Props.C05
namespace Resolvo.MDet
open Resolvo Resolvo.Abs

theorem checkOutcome_ok (U : Universe) (P : Problem) (o : Outcome) (h : List Ev) (sol : List Nat)
    (hc : checkOutcome U P o h = .ok sol) :
    o = .ok sol ∧ validB U P sol (exemptOf P sol) = true ∧ supportedB U P sol = true ∧
      ∃ st, runOptD U P (absEvents h) = some st ∧ sol = st.trueSolvables := by
  unfold checkOutcome at hc
  cases o with
  | stop w => cases hc
  | unsat c =>
    simp only [] at hc
    cases hr : runOptD U P (absEvents h) with
    | none => rw [hr] at hc; cases hc
    | some st =>
      rw [hr] at hc; simp only [] at hc
      split at hc
      · cases hc
      · split at hc
        · cases hc
        · split at hc <;> cases hc
  | ok s0 =>
    simp only [] at hc
    cases hr : runOptD U P (absEvents h) with
    | none => rw [hr] at hc; cases hc
    | some st =>
      rw [hr] at hc
      simp only [] at hc
      split at hc
      · cases hc
      · next hne =>
        split at hc
        · next hv =>
          split at hc
          · next hs =>
            cases hc
            refine ⟨rfl, hv, hs, st, rfl, ?_⟩
            simpa using hne
          · cases hc
        · cases hc

theorem checkOutcome_unsat (U : Universe) (P : Problem) (o : Outcome) (h : List Ev) (c : List Nat)
    (hc : checkOutcome U P o h = .unsat c) :
    ∃ st, runOpt U P (absEvents h) = some st ∧ st.failed.isSome = true ∧ (∀ id ∈ c, id < st.db.length) ∧
      graphSelfContainedB (conflictGraphOf U st c) = true := by
  unfold checkOutcome at hc
  cases o with
  | stop w => cases hc
  | ok s0 =>
    simp only [] at hc
    cases hr : runOptD U P (absEvents h) with
    | none => rw [hr] at hc; cases hc
    | some st =>
      rw [hr] at hc; simp only [] at hc
      split at hc
      · cases hc
      · split at hc
        · split at hc <;> cases hc
        · cases hc
  | unsat c0 =>
    simp only [] at hc
    cases hr : runOptD U P (absEvents h) with
    | none => rw [hr] at hc; cases hc
    | some st =>
      rw [hr] at hc
      simp only [] at hc
      split at hc
      · cases hc
      · next hf =>
        split at hc
        · cases hc
        · next hids =>
          split at hc
          · cases hc
          · next hg =>
            cases hc
            refine ⟨st, runOptD_runOpt U P _ {} st hr, ?_, ?_, ?_⟩
            · cases hfs : st.failed with
              | none => rw [hfs] at hf; simp at hf
              | some x => rfl
            · intro id hid
              have : (c.all fun id => Decidable.decide (id < st.db.length)) = true := by simpa using hids
              simpa using List.all_eq_true.mp this id hid
            · simpa using hg

/-- **C01 for the checked model**: every solution it returns is valid (full statement, with the
    soft exemption) — for all universes, problems, cancellation plans, cache states and fuel. -/
theorem solveChecked_ok_valid (U : Universe) (P : Problem) (fuel : Nat) (s : S) (sol : List Nat)
    (h : (solveChecked U P fuel s).1 = .ok sol) : Valid U P sol (exemptOf P sol) := by
  unfold solveChecked at h
  simp only [] at h
  exact (validB_iff U P sol _).mp (checkOutcome_ok U P _ _ sol h).2.1

/-- **C05 for the checked model**: every returned solvable is supported. -/
theorem solveChecked_ok_supported (U : Universe) (P : Problem) (fuel : Nat) (s : S) (sol : List Nat)
    (h : (solveChecked U P fuel s).1 = .ok sol) : ∀ x ∈ sol, Resolvo.C05.Supported U P sol x := by
  unfold solveChecked at h
  simp only [] at h
  exact Resolvo.C05.supportedB_sound U P sol (checkOutcome_ok U P _ _ sol h).2.2.1

/-- **C02(a) for the checked model**: Unsolvable is only reported when the hard problem has no solution. -/
theorem solveChecked_unsat_sound (U : Universe) (P : Problem) (fuel : Nat) (s : S) (c : List Nat)
    (h : (solveChecked U P fuel s).1 = .unsat c) : ¬ Solvable U P := by
  unfold solveChecked at h
  simp only [] at h
  obtain ⟨st, hr, hf, _, _⟩ := checkOutcome_unsat U P _ _ c h
  exact fail_sound U P _ st hr hf

/-- **C14(a) for the checked model**: soft requirements never turn a solvable problem into an error. -/
theorem solveChecked_soft_never_error (U : Universe) (P : Problem) (fuel : Nat) (s : S)
    (hs : Solvable U P) : ∀ c, (solveChecked U P fuel s).1 ≠ .unsat c := by
  intro c hc
  exact solveChecked_unsat_sound U P fuel s c hc hs

/-- The two verdicts are exclusive with the truth: a returned solution of a problem without soft
    requirements witnesses solvability. -/
theorem solveChecked_ok_solvable (U : Universe) (P : Problem) (fuel : Nat) (s : S) (sol : List Nat)
    (hsoft : P.soft = []) (h : (solveChecked U P fuel s).1 = .ok sol) : Solvable U P := by
  have hv := solveChecked_ok_valid U P fuel s sol h
  have he : exemptOf P sol = [] := by simp [exemptOf, hsoft]
  rw [he] at hv
  refine ⟨sol, ?_⟩
  have : P.hard = P := by cases P; simp [Problem.hard] at *; exact hsoft
  rw [this]; exact hv

/-- **C07 for the checked model**: when the first choices are mutually compatible, the checked model returns
    exactly them — for all universes, problems without soft requirements, solver states and fuel. -/
theorem solveChecked_preferred (U : Universe) (P : Problem) (fuel : Nat) (s : S) (sol pref : List Nat)
    (hsoft : P.soft = []) (hpc : preferredConsistent U P = some pref)
    (h : (solveChecked U P fuel s).1 = .ok sol) : ∀ x, x ∈ sol ↔ x ∈ pref := by
  unfold solveChecked at h
  simp only [] at h
  obtain ⟨_, hv, _, st, hrun, hsol⟩ := checkOutcome_ok U P _ _ sol h
  have he : exemptOf P sol = [] := by simp [exemptOf, hsoft]
  rw [he] at hv
  exact preferred_exact U P hsoft pref hpc _ st hrun sol hsol ((validB_iff U P sol []).mp hv)

/-- **C08 for the checked model**: if all root requirements are single version sets and some valid selection contains
    the first-ranked candidate of each, the checked model's solution contains all of them. -/
theorem solveChecked_best_direct (U : Universe) (P : Problem) (fuel : Nat) (s : S) (sol sstar : List Nat)
    (hsoft : P.soft = []) (hb : BestHyp U P sstar)
    (h : (solveChecked U P fuel s).1 = .ok sol) : ∀ r ∈ P.reqs, ∀ c, firstChoice U r = some c → c ∈ sol := by
  unfold solveChecked at h
  simp only [] at h
  obtain ⟨_, hv, _, st, hrun, hsol⟩ := checkOutcome_ok U P _ _ sol h
  have he : exemptOf P sol = [] := by simp [exemptOf, hsoft]
  rw [he] at hv
  exact best_direct U P hsoft sstar hb _ st hrun sol hsol ((validB_iff U P sol []).mp hv)

/-- **C03 for the checked model**: an Unsolvable answer comes with a conflict graph (the exact model of `Conflict::graph`
    applied to the blamed clauses of the accepted history) in which every edge states a true fact of the provider's data,
    every node is reachable from the root, and the facts shown in the graph alone — with one-solvable-per-package for the
    nodes joined by forbid edges — admit no selection that installs the root. -/
theorem solveChecked_unsat_graph (U : Universe) (P : Problem) (fuel : Nat) (s : S) (c : List Nat)
    (h : (solveChecked U P fuel s).1 = .unsat c) :
    ∃ st, runOpt U P (absEvents (solveRun U P fuel { s with trace := [] }).2.trace.reverse) = some st ∧
      (∀ x ∈ Resolvo.Render.nodeEdges (conflictGraphOf U st c), Resolvo.Render.EdgeTrue U P x.1 x.2.1 x.2.2) ∧
      Resolvo.Graph.reachableB (graphEdges (conflictGraphOf U st c)) (conflictGraphOf U st c).nodes.toList = true ∧
      ¬ ∃ a, Resolvo.Sat.evalCnf a (Resolvo.Graph.cnfOfGraph (graphEdges (conflictGraphOf U st c))) = true := by
  unfold solveChecked at h
  simp only [] at h
  obtain ⟨st, hr, _, hids, hg⟩ := checkOutcome_unsat U P _ _ c h
  unfold graphSelfContainedB at hg
  simp only [Bool.and_eq_true] at hg
  obtain ⟨_, hsi⟩ := run_inv U P _ {} st ⟨linv_init, sinv_init U P⟩ hr
  exact ⟨st, hr, Resolvo.Render.buildGraph_edges_true U P st hsi c hids, hg.1,
    (Resolvo.Graph.graphRefutes_iff _).mp hg.2⟩

end Resolvo.MDet
