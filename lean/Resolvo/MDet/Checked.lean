import Resolvo.MDet.Solve
import Resolvo.Oracles
import Resolvo.Abs.Decide
/-!
# The checked model

`solveChecked` runs the deterministic model `MDet.solve` and then subjects its own history and
answer to the verified checkers: the decision-guarded abstract system (`Abs.runOptD`, for the history, for an
Unsolvable verdict and for the decisions that led to a solution) and the validity / support oracles (for a solution). If a checker objects the
outcome is `checkFailed` — an explicit outcome, so the theorems about `solveChecked` hold for
**every** universe, problem, cancellation plan and fuel, with no unproved assumption about the
search. What is *not* proved is that `checkFailed` never occurs (refinement obligations R1–R6 of
DESIGN §3.6); the check reports any case in which it does, and the exact correspondence ties
`MDet.solve` (the thing being checked here) to the real `Solver::solve`.
-/
namespace Resolvo.MDet
open Resolvo Resolvo.Abs

inductive Checked where
  | ok (solution : List Nat)
  | unsat (conflict : List Nat)
  | stop (why : Stop)
  | checkFailed (what : String)
deriving Repr, Inhabited

/-- soft requirements that made it into the solution: the documented exemption applies to them -/
def exemptOf (P : Problem) (sol : List Nat) : List Nat := P.soft.filter (fun s => sol.contains s)

def checkOutcome (U : Universe) (P : Problem) (o : Outcome) (history : List Ev) : Checked :=
  match o with
  | .stop w => .stop w
  | .unsat c =>
    (match runOptD U P (absEvents history) with
     | some st => if st.failed.isSome then .unsat c else .checkFailed "Unsolvable without a recorded root-level failure"
     | none => .checkFailed "history rejected by the abstract system (with the decision guard)")
  | .ok sol =>
    (match runOptD U P (absEvents history) with
     | some st =>
       if sol != st.trueSolvables then .checkFailed "solution differs from the solvables that are true at the end of the history"
       else if validB U P sol (exemptOf P sol) then
         if supportedB U P sol then .ok sol else .checkFailed "solution contains an unsupported solvable"
       else .checkFailed "solution is not valid"
     | none => .checkFailed "history rejected by the abstract system (with the decision guard)")

/-- One solve of the checked model on a solver state `s` (cache contents, cancellation plan,
    activity parameters); returns the checked outcome and the new solver state. -/
def solveChecked (U : Universe) (P : Problem) (fuel : Nat) (s : S) : Checked × S :=
  let (o, s') := solveRun U P fuel { s with trace := [] }
  (checkOutcome U P o s'.trace.reverse, s')

end Resolvo.MDet
