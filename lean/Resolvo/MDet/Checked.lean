import Resolvo.MDet.Solve
import Resolvo.Oracles
import Resolvo.Abs.Decide
import Resolvo.Render
/-!
# The checked model

`solveChecked` runs the deterministic model `MDet.solve` and then subjects its own history and
answer to the verified checkers: the decision-guarded abstract system (`Abs.runOptD`, for the history, for an
Unsolvable verdict and for the decisions that led to a solution) and the validity / support oracles (for a solution). If a checker objects the
outcome is `checkFailed` — an explicit outcome, so the theorems about `solveChecked` hold for
**every** universe, problem, cancellation plan and fuel, with no unproved assumption about the
search. What is *not* proved is that `checkFailed` never occurs (refinement obligations R1–R6 of
DESIGN §3.6); the check reports any case in which it does, and the exact correspondence ties
`MDet.solve` (the thing being checked here) to the real `Solver::solve`.
-/
namespace Resolvo.MDet
open Resolvo Resolvo.Abs

inductive Checked where
  | ok (solution : List Nat)
  | unsat (conflict : List Nat)
  | stop (why : Stop)
  | checkFailed (what : String)
deriving Repr, Inhabited

/-- soft requirements that made it into the solution: the documented exemption applies to them -/
def exemptOf (P : Problem) (sol : List Nat) : List Nat := P.soft.filter (fun s => sol.contains s)

/-- the conflict graph of an Unsolvable answer: the exact model of `Conflict::graph` applied to the blamed clauses of the
    accepted history -/
def conflictGraphOf (U : Universe) (st : St) (conflict : List Nat) : Resolvo.Render.RG :=
  Resolvo.Render.buildGraph U st.origins (conflict.map (fun id => (st.db.getD id default).kind))

/-- the graph as the list of edges the C03 oracles read -/
def graphEdges (g : Resolvo.Render.RG) : Resolvo.Graph.G :=
  (Resolvo.Render.nodeEdges g).map (fun x => ⟨x.1, x.2.1, x.2.2⟩)

/-- second and third sentence of C03, decided on the graph: every node reachable from the root, and the facts shown in
    the graph alone (with one-solvable-per-package for forbid-joined nodes) refute the root -/
def graphSelfContainedB (g : Resolvo.Render.RG) : Bool :=
  Resolvo.Graph.reachableB (graphEdges g) g.nodes.toList && Resolvo.Graph.graphRefutes (graphEdges g)

def checkOutcome (U : Universe) (P : Problem) (o : Outcome) (history : List Ev) : Checked :=
  match o with
  | .stop w => .stop w
  | .unsat c =>
    (match runOptD U P (absEvents history) with
     | some st =>
       if st.failed.isNone then .checkFailed "Unsolvable without a recorded root-level failure"
       else if !c.all (fun id => id < st.db.length) then .checkFailed "the conflict blames a clause that does not exist"
       else if !graphSelfContainedB (conflictGraphOf U st c) then .checkFailed "the conflict graph is not a self-contained refutation (unreachable node, or the facts shown do not refute the root)"
       else .unsat c
     | none => .checkFailed "history rejected by the abstract system (with the decision guard)")
  | .ok sol =>
    (match runOptD U P (absEvents history) with
     | some st =>
       if sol != st.trueSolvables then .checkFailed "solution differs from the solvables that are true at the end of the history"
       else if validB U P sol (exemptOf P sol) then
         if supportedB U P sol then .ok sol else .checkFailed "solution contains an unsupported solvable"
       else .checkFailed "solution is not valid"
     | none => .checkFailed "history rejected by the abstract system (with the decision guard)")

/-- One solve of the checked model on a solver state `s` (cache contents, cancellation plan,
    activity parameters); returns the checked outcome and the new solver state. -/
def solveChecked (U : Universe) (P : Problem) (fuel : Nat) (s : S) : Checked × S :=
  let (o, s') := solveRun U P fuel { s with trace := [] }
  (checkOutcome U P o s'.trace.reverse, s')

end Resolvo.MDet
