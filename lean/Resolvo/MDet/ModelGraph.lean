import Resolvo.MDet.TruthSpec
import Resolvo.RenderTruth
/-!
# The conflict graph of the exact model's own state has only true edges

`modelGraph U s ids` is the exact model of `Conflict::graph` (`Render.buildGraph`: petgraph insertion order and all)
applied to the clause arena and variable map of a state of the exact model of `Solver::solve`. Since every clause that
state holds states a true fact (`solveRun_tinv`), every edge of the graph does — whatever clauses are blamed, with no
checker in between. The correspondence compares this very graph (from the model's own final state and its own conflict)
with the implementation's on every generated unsolvable case, and the model's clause kinds / variable origins with the
implementation's on every case.
-/
namespace Resolvo.MDet
open Resolvo Resolvo.Sat Resolvo.Abs

/-- decidable form of the provider contract `WFU` (part of the driver's well-formedness check of generated universes) -/
def wfuB (U : Universe) : Bool :=
  U.pkgs.all (fun np => np.2.cands.all (fun c => U.nameOf c == np.1)) &&
  U.pkgs.all (fun np => (match np.2.locked with | some f => np.2.cands.contains f | none => true) &&
                        np.2.excluded.all (fun e => np.2.cands.contains e.1))

theorem wfuB_sound (U : Universe) (h : wfuB U = true) : WFU U := by
  unfold wfuB at h
  simp only [Bool.and_eq_true, List.all_eq_true] at h
  obtain ⟨h1, h2⟩ := h
  refine ⟨?_, ?_, ?_⟩
  · intro n p hp c hc
    have hm : (n, p) ∈ U.pkgs := Resolvo.mem_of_lookup _ _ _ hp
    simpa using h1 (n, p) hm c hc
  · intro n p hp e he
    have hm : (n, p) ∈ U.pkgs := Resolvo.mem_of_lookup _ _ _ hp
    have := (h2 (n, p) hm).2 e he
    simpa using this
  · intro n p l hp hl
    have hm : (n, p) ∈ U.pkgs := Resolvo.mem_of_lookup _ _ _ hp
    have := (h2 (n, p) hm).1
    simp only [hl] at this
    simpa using this

/-- the kinds of the clauses with the given ids (ids outside the arena contribute nothing) -/
def kindsOf (s : S) (ids : List Nat) : List Kind := ids.filterMap (fun id => (s.clauses[id]?).map (·.kind))

/-- `Conflict::graph` on a state of the exact model -/
def modelGraph (U : Universe) (s : S) (ids : List Nat) : Render.RG := Render.buildGraph U s.origins (kindsOf s ids)

theorem kindsOf_true {U : Universe} {P : Problem} {s : S} (h : TInv U P s) (ids : List Nat) :
    ∀ k ∈ kindsOf s ids, KindTrue U P s.origins k := by
  intro k hk
  unfold kindsOf at hk
  obtain ⟨id, _, hid⟩ := List.mem_filterMap.mp hk
  cases hc : s.clauses[id]? with
  | none => rw [hc] at hid; cases hid
  | some c =>
    rw [hc] at hid
    cases hid
    exact h.kinds c (Array.mem_def.mp (Array.mem_of_getElem? hc))

/-- **Every edge of the conflict graph of the exact model states a true fact of the provider's data**: for every universe
    that respects the provider contract, every problem, every solver state carried over from earlier solves (cache, cancellation
    plan, asynchronous completion order, activity parameters), every fuel and whatever clauses are blamed. -/
theorem modelGraph_edges_true (U : Universe) (hU : WFU U) (P : Problem) (fuel : Nat) (s : S) (ids : List Nat) :
    ∀ x ∈ Render.nodeEdges (modelGraph U (solveRun U P fuel s).2 ids), Render.EdgeTrue U P x.1 x.2.1 x.2.2 :=
  Render.buildGraph_kinds_true U P _ _ (kindsOf_true (solveRun_tinv U hU P fuel s) ids)

end Resolvo.MDet
