import Resolvo.Cache
import Resolvo.Enc.AtMostOne
import Resolvo.Abs.Check
/-!
# MDet — deterministic executable model of the synchronous solver (`src/solver/*`)

One Lean function per Rust function, same control flow, same data layout where it is observable
(variable numbering, clause numbering, watch-list order, trail order, decision tie-breaks, provider
call order, cancellation polls). Every `assert!`/`unreachable!`/indexing site of the Rust code is an
explicit `panic` outcome. Loops are fuelled; running out of fuel is the outcome `outOfFuel`.

This file: state, variable map, decision tracker, watch map, cache, trace emission.
The trace lines are exactly the lines the `verif-hooks` feature of the implementation records.
-/
namespace Resolvo.MDet
open Resolvo Resolvo.Sat Resolvo.Abs

/-- `Literal`: variable and the value that satisfies it (`(v, true)` = `v.positive()`). -/
abbrev Lit := Nat × Bool

structure MClause where
  kind : Kind
  /-- the two watched literals (`None` for assertions) -/
  watch : Option (Lit × Lit)
deriving Repr, Inhabited

structure Dec where
  var : Nat
  val : Bool
  reason : Nat
deriving Repr, Inhabited

/-- why a run stopped abnormally -/
inductive Stop where
  | cancelled (value : Nat)
  | panic (site : String)
  | outOfFuel
deriving Repr, Inhabited, DecidableEq

/-- `SolvableOrRootId`: `none` = root -/
abbrev SoR := Option Nat

inductive Task where
  | deps (s : SoR)
  | pkg (n : Nat)
  | req (p : SoR) (r : Req)
  | cons (p : SoR) (vs : Nat)
deriving Repr, Inhabited

structure S where
  -- VariableMap
  nextVar : Nat := 1
  solvVar : List (Nat × Nat) := []          -- solvable ↦ variable
  origins : List (Nat × Origin) := [(0, .root)]
  -- Clauses
  clauses : Array MClause := #[]
  learntLits : Array (List Lit) := #[]
  learntWhy : Array (List Nat) := #[]
  learntIds : List Nat := []                -- clause ids of learnt clauses, oldest first
  reqCands : List (Req × List (List Nat)) := []   -- requirement_to_sorted_candidates (first insert wins)
  requiresClauses : List (Nat × List (Req × Nat)) := []  -- IndexMap: insertion order of keys
  watches : List (Lit × List Nat) := []     -- literal ↦ clauses watching it, head first
  negAssertions : List (Nat × Nat) := []    -- (variable, clause), oldest first
  addedPkg : List Nat := []
  addedSolv : List SoR := []
  trackers : List (Nat × Amo.Tracker) := []
  -- DecisionTracker
  stack : List Dec := []                    -- newest first
  amap : List (Nat × (Bool × Nat)) := []    -- variable ↦ (value, level)
  propIdx : Nat := 0                        -- number of propagated entries (from the bottom)
  activity : Array Float32 := #[]
  activityAdd : Float32 := 1.0
  activityDecay : Float32 := 0.95
  -- SolverCache (persists across solves)
  fetchedCands : List Nat := []
  fetchedDeps : List Nat := []
  hinted : List Nat := []
  cachedSorted : List Nat := []
  log : List String := []                   -- provider call log, newest first: c<n> d<s> p<k>/P<k>
  polls : Nat := 0
  cancelAt : Option Nat := none
  cancelTransient : Bool := false
  -- Encoder
  queue : List Task := []
  conflicting : List Nat := []              -- oldest first
  -- hook trace, newest first
  trace : List String := []
deriving Inhabited

abbrev M := ExceptT Stop (StateM S)

def emit (l : String) : M Unit := modify fun s => { s with trace := l :: s.trace }
def panic {α : Type} (site : String) : M α := throw (.panic site)

/-! ### VariableMap -/

def internSolvable (sv : Nat) : M Nat := do
  let s ← get
  match s.solvVar.lookup sv with
  | some v => pure v
  | none =>
    let v := s.nextVar
    set { s with nextVar := v + 1, solvVar := (sv, v) :: s.solvVar, origins := (v, .solvable sv) :: s.origins }
    emit s!"var {v} solvable {sv}"
    pure v

def internSoR : SoR → M Nat
  | none => pure 0
  | some sv => internSolvable sv

def allocForbidVar (name : Nat) : M Nat := do
  let s ← get
  let v := s.nextVar
  set { s with nextVar := v + 1, origins := (v, .forbid name) :: s.origins }
  emit s!"var {v} forbid {name}"
  pure v

def originOf (s : S) (v : Nat) : Option Origin := s.origins.lookup v
def solvOfVar (s : S) (v : Nat) : Option Nat := match originOf s v with | some (.solvable x) => some x | _ => none

/-! ### DecisionTracker -/

def valueOf (s : S) (v : Nat) : Option Bool := (s.amap.lookup v).map (·.1)
def levelOf (s : S) (v : Nat) : Nat := match s.amap.lookup v with | some (_, l) => l | none => 0
def evalLit (s : S) (l : Lit) : Option Bool := (valueOf s l.1).map (fun b => b == l.2)

/-- `try_add_decision`: `some true` newly decided, `some false` already had that value, `none` conflict -/
def tryAdd (v : Nat) (val : Bool) (reason : Nat) (level : Nat) : M (Option Bool) := do
  let s ← get
  match valueOf s v with
  | none =>
    emit s!"assign {v} {if val then 1 else 0} {level} {reason}"
    modify fun s => { s with amap := (v, (val, level)) :: s.amap, stack := ⟨v, val, reason⟩ :: s.stack }
    pure (some true)
  | some b => if b == val then pure (some false) else pure none

/-- `undo_last`: returns the removed decision and the level of the new top -/
def undoLast : M (Dec × Nat) := do
  let s ← get
  match s.stack with
  | [] => panic "decision_tracker.rs:undo_last:unwrap#1"
  | d :: rest =>
    set { s with stack := rest, amap := s.amap.filter (fun e => e.1 != d.var), propIdx := rest.length }
    emit s!"undo {d.var}"
    match rest with
    | [] => panic "decision_tracker.rs:undo_last:unwrap#2"
    | top :: _ => pure (d, levelOf { s with amap := s.amap.filter (fun e => e.1 != d.var) } top.var)

def undoUntil (level : Nat) : M Unit := do
  if level == 0 then
    emit "clear"
    modify fun s => { s with stack := [], amap := [], propIdx := 0 }
  else
    let s ← get
    let rec loop : Nat → M Unit
      | 0 => pure ()
      | fuel + 1 => do
        let s ← get
        match s.stack with
        | [] => pure ()
        | d :: _ =>
          if levelOf s d.var ≤ level then pure ()
          else do
            let _ ← undoLast
            loop fuel
    loop (s.stack.length + 1)

/-- `next_unpropagated` -/
def nextUnpropagated : M (Option Dec) := do
  let s ← get
  let n := s.stack.length
  if s.propIdx < n then
    -- the stack is newest-first: entry number `propIdx` from the bottom
    match s.stack[n - 1 - s.propIdx]? with
    | some d =>
      set { s with propIdx := s.propIdx + 1 }
      pure (some d)
    | none => pure none
  else pure none

/-! ### clauses, literals, watches -/

def litStr (l : Lit) : String := (if l.2 then "+" else "-") ++ toString l.1

def reqStr : Req → String
  | .single vs => s!"single {vs}"
  | .union u => s!"union {u}"

def kindStr (id : Nat) : Kind → String
  | .root => s!"clause {id} root"
  | .requires p r => s!"clause {id} requires {p} {reqStr r}"
  | .forbid a h pos n => s!"clause {id} forbid {a} {litStr (h, pos)} {n}"
  | .constrains p c vs => s!"clause {id} constrains {p} {c} {vs}"
  | .lock l o => s!"clause {id} lock {l} {o}"
  | .learnt i => s!"clause {id} learnt {i}"
  | .excluded v r => s!"clause {id} excluded {v} {r}"

/-- `Clauses::alloc` -/
def allocClause (kind : Kind) (watch : Option (Lit × Lit)) : M Nat := do
  let s ← get
  let id := s.clauses.size
  emit (kindStr id kind)
  modify fun s => { s with clauses := s.clauses.push ⟨kind, watch⟩ }
  pure id

def watchList (s : S) (l : Lit) : List Nat := (s.watches.lookup l).getD []

def setWatchList (l : Lit) (cs : List Nat) : M Unit :=
  modify fun s => { s with watches := (l, cs) :: s.watches.filter (fun e => e.1 != l) }

/-- `WatchMap::start_watching`: the clause becomes the head of the list of each watched literal -/
def startWatching (id : Nat) : M Unit := do
  let s ← get
  match s.clauses[id]? with
  | some ⟨_, some (w0, w1)⟩ =>
    setWatchList w0 (id :: watchList s w0)
    let s ← get
    setWatchList w1 (id :: watchList s w1)
  | _ => pure ()

/-- literals of a clause in `try_fold_literals` order -/
def clauseLits (s : S) (c : MClause) : List Lit :=
  match c.kind with
  | .root => []
  | .excluded v _ => [(v, false)]
  | .learnt i => s.learntLits.getD i []
  | .requires p r => (p, false) :: (((s.reqCands.lookup r).getD []).flatten.map (fun v => (v, true)))
  | .constrains a b _ => [(a, false), (b, false)]
  | .forbid a h pos _ => [(a, false), (h, pos)]
  | .lock _ o => [(o, false), (0, false)]

/-! ### SolverCache (sync) -/

/-- `should_cancel_with_value` as seen by the solver: poll number k fires according to the plan -/
def pollCancel : M Unit := do
  let s ← get
  let k := s.polls
  let fire := match s.cancelAt with
    | some at_ => if s.cancelTransient then k == at_ else k ≥ at_
    | none => false
  set { s with polls := k + 1, log := (if fire then s!"P{k}" else s!"p{k}") :: s.log }
  if fire then throw (.cancelled (7000 + k))

def getCandidates (U : Universe) (n : Nat) : M Pkg := do
  let s ← get
  if !s.fetchedCands.contains n then
    pollCancel
    let p := (U.pkg? n).getD { cands := [] }
    modify fun s => { s with fetchedCands := n :: s.fetchedCands, hinted := s.hinted ++ hintedBy p, log := s!"c{n}" :: s.log }
  pure ((U.pkg? n).getD { cands := [] })

def getMatching (U : Universe) (vs : Nat) : M (List Nat) := do
  let _ ← getCandidates U (U.vsName vs)
  pure (U.candsOf vs)

def getNonMatching (U : Universe) (vs : Nat) : M (List Nat) := do
  let _ ← getCandidates U (U.vsName vs)
  pure (U.nonMatching vs)

def getSortedVs (U : Universe) (vs : Nat) : M (List Nat) := do
  let s ← get
  if !s.cachedSorted.contains vs then
    let _ ← getMatching U vs
    modify fun s => { s with cachedSorted := vs :: s.cachedSorted }
  pure (sortedCands U vs)

def getDeps (U : Universe) (sv : Nat) : M Deps := do
  let s ← get
  if !s.fetchedDeps.contains sv then
    pollCancel
    modify fun s => { s with fetchedDeps := sv :: s.fetchedDeps, log := s!"d{sv}" :: s.log }
  pure (U.deps sv)

def depsAvailable (s : S) (sv : Nat) : Bool := s.fetchedDeps.contains sv || s.hinted.contains sv

end Resolvo.MDet
