import Resolvo.Cache
import Resolvo.Enc.AtMostOne
import Resolvo.Abs.Check
/-!
# MDet — deterministic executable model of the synchronous solver (`src/solver/*`)

One Lean function per Rust function, same control flow, same data layout where it is observable
(variable numbering, clause numbering, watch-list order, trail order, decision tie-breaks, provider
call order, cancellation polls). Every `assert!`/`unreachable!`/indexing site of the Rust code is an
explicit `panic` outcome. Loops are fuelled; running out of fuel is the outcome `outOfFuel`.

This file: state, variable map, decision tracker, watch map, cache, trace emission.
The trace lines are exactly the lines the `verif-hooks` feature of the implementation records.
-/
namespace Resolvo.MDet
open Resolvo Resolvo.Sat Resolvo.Abs

/-- `Literal`: variable and the value that satisfies it (`(v, true)` = `v.positive()`). -/
abbrev Lit := Nat × Bool

structure MClause where
  kind : Kind
  /-- the two watched literals (`None` for assertions) -/
  watch : Option (Lit × Lit)
deriving Repr, Inhabited

structure Dec where
  var : Nat
  val : Bool
  reason : Nat
deriving Repr, Inhabited

/-- One event of the history the `verif-hooks` feature records (same granularity, same order). -/
inductive Ev where
  | var (v : Nat) (o : Origin)
  | clause (id : Nat) (k : Kind)
  | cands (id : Nat) (conflict : Bool) (groups : List (List Nat))
  | learnt (idx : Nat) (lits : List Lit) (why : List Nat)
  | assign (v : Nat) (val : Bool) (level : Nat) (reason : Nat)
  | undo (v : Nat)
  | clear
  | runsat (root : Option Nat) (start : Nat)
  | softfail (root : Option Nat) (clause : Nat)
  | conflicting (clause : Nat)
  | unsolvable (clause : Nat)
  /-- `queue_solvable` marked the solvable (root = `none`) as processed and queued its dependency request -/
  | queuedSolv (s : Option Nat)
  /-- `queue_package` marked the package as processed and queued its candidates request -/
  | queuedPkg (n : Nat)
  /-- `analyze_unsolvable` follows the literals of the reason clause of an involved assignment -/
  | blame (clause : Nat)
deriving Repr, Inhabited

/-- why a run stopped abnormally -/
inductive Stop where
  | cancelled (value : Nat)
  | panic (site : String)
  | outOfFuel
deriving Repr, Inhabited, DecidableEq

/-- structured twin of one entry of the provider call log (ghost; the driver compares its rendering with the log) -/
inductive GEv where
  /-- `should_cancel_with_value` polled: poll number, whether it returned a value -/
  | poll (k : Nat) (fired : Bool)
  /-- a `get_candidates` (`cands = true`) / `get_dependencies` request is started -/
  | call (cands : Bool) (id : Nat)
  /-- the answer of a request has been obtained (asynchronous provider only) -/
  | got (cands : Bool) (id : Nat)
deriving Repr, Inhabited, DecidableEq

/-- `SolvableOrRootId`: `none` = root -/
abbrev SoR := Option Nat

inductive Task where
  | deps (s : SoR)
  | pkg (n : Nat)
  | req (p : SoR) (r : Req)
  | cons (p : SoR) (vs : Nat)
deriving Repr, Inhabited

structure S where
  -- VariableMap
  nextVar : Nat := 1
  solvVar : List (Nat × Nat) := []          -- solvable ↦ variable
  origins : List (Nat × Origin) := [(0, .root)]
  -- Clauses
  clauses : Array MClause := #[]
  learntLits : Array (List Lit) := #[]
  learntWhy : Array (List Nat) := #[]
  learntIds : List Nat := []                -- clause ids of learnt clauses, oldest first
  reqCands : List (Req × List (List Nat)) := []   -- requirement_to_sorted_candidates (first insert wins)
  requiresClauses : List (Nat × List (Req × Nat)) := []  -- IndexMap: insertion order of keys
  watches : List (Lit × List Nat) := []     -- literal ↦ clauses watching it, head first
  negAssertions : List (Nat × Nat) := []    -- (variable, clause), oldest first
  addedPkg : List Nat := []
  addedSolv : List SoR := []
  trackers : List (Nat × Amo.Tracker) := []
  -- DecisionTracker
  stack : List Dec := []                    -- newest first
  amap : List (Nat × (Bool × Nat)) := []    -- variable ↦ (value, level)
  propIdx : Nat := 0                        -- number of propagated entries (from the bottom)
  activity : Array Float32 := #[]
  activityAdd : Float32 := 1.0
  activityDecay : Float32 := 0.95
  -- SolverCache (persists across solves)
  fetchedCands : List Nat := []
  fetchedDeps : List Nat := []
  hinted : List Nat := []
  cachedSorted : List Nat := []
  log : List String := []                   -- provider call log, newest first: c<n> d<s> p<k>/P<k>
  issuedCands : List Nat := []              -- ghost: packages whose candidates were requested in this solve, newest first
                                            -- (updated exactly where `c<n>` is logged; the driver compares the two)
  issuedDeps : List Nat := []               -- ghost: solvables whose dependencies were requested in this solve, newest first
  glog : List GEv := []                     -- ghost: structured twin of `log`, newest first (updated exactly where `log` is)
  polls : Nat := 0
  cancelAt : Option Nat := none             -- signal up at this poll number
  cancelAtCall : Option Nat := none         -- signal goes up when this provider request starts
  cancelTransient : Bool := false
  callsStarted : Nat := 0
  raised : Bool := false
  -- asynchronous provider (MDet/Async.lean): completion order of the outstanding requests, executor event log
  asyncMode : Bool := false
  gateFs : Bool := false                    -- filter_candidates / sort_candidates suspend as well
  cachedMatching : List Nat := []           -- version_set_candidates (observable only when filtering suspends)
  cachedInverse : List Nat := []            -- version_set_inverse_candidates
  sched : List String := []                 -- labels of the requests the executor completes, in order
  aevents : List String := []               -- `pending …` / `complete <label>`, newest first
  runStart : Nat := 0                       -- `SolverState::starting_level` of the current run_sat
  -- Encoder
  queue : List Task := []
  conflicting : List Nat := []              -- oldest first
  -- hook trace (structured), newest first
  trace : List Ev := []
deriving Inhabited

abbrev M := ExceptT Stop (StateM S)

def emit (e : Ev) : M Unit := modify fun s => { s with trace := e :: s.trace }
def panic {α : Type} (site : String) : M α := throw (.panic site)

/-! ### VariableMap -/

def internSolvable (sv : Nat) : M Nat := do
  let s ← get
  match s.solvVar.lookup sv with
  | some v => pure v
  | none =>
    let v := s.nextVar
    set { s with nextVar := v + 1, solvVar := (sv, v) :: s.solvVar, origins := (v, .solvable sv) :: s.origins }
    emit (.var v (.solvable sv))
    pure v

def internSoR : SoR → M Nat
  | none => pure 0
  | some sv => internSolvable sv

def allocForbidVar (name : Nat) : M Nat := do
  let s ← get
  let v := s.nextVar
  set { s with nextVar := v + 1, origins := (v, .forbid name) :: s.origins }
  emit (.var v (.forbid name))
  pure v

def originOf (s : S) (v : Nat) : Option Origin := s.origins.lookup v
def solvOfVar (s : S) (v : Nat) : Option Nat := match originOf s v with | some (.solvable x) => some x | _ => none

/-! ### DecisionTracker -/

def valueOf (s : S) (v : Nat) : Option Bool := (s.amap.lookup v).map (·.1)
def levelOf (s : S) (v : Nat) : Nat := match s.amap.lookup v with | some (_, l) => l | none => 0
def evalLit (s : S) (l : Lit) : Option Bool := (valueOf s l.1).map (fun b => b == l.2)

/-- `try_add_decision`: `some true` newly decided, `some false` already had that value, `none` conflict -/
def tryAdd (v : Nat) (val : Bool) (reason : Nat) (level : Nat) : M (Option Bool) := do
  let s ← get
  match valueOf s v with
  | none =>
    emit (.assign v val level reason)
    modify fun s => { s with amap := (v, (val, level)) :: s.amap, stack := ⟨v, val, reason⟩ :: s.stack }
    pure (some true)
  | some b => if b == val then pure (some false) else pure none

/-- `undo_last`: returns the removed decision and the level of the new top -/
def undoLast : M (Dec × Nat) := do
  let s ← get
  match s.stack with
  | [] => panic "decision_tracker.rs:undo_last:unwrap#1"
  | d :: rest =>
    set { s with stack := rest, amap := s.amap.filter (fun e => e.1 != d.var), propIdx := Nat.min s.propIdx rest.length }
    emit (.undo d.var)
    match rest with
    | [] => panic "decision_tracker.rs:undo_last:unwrap#2"
    | top :: _ => pure (d, levelOf { s with amap := s.amap.filter (fun e => e.1 != d.var) } top.var)

def undoUntil (level : Nat) : M Unit := do
  if level == 0 then
    emit .clear
    modify fun s => { s with stack := [], amap := [], propIdx := 0 }
  else
    let s ← get
    let rec loop : Nat → M Unit
      | 0 => pure ()
      | fuel + 1 => do
        let s ← get
        match s.stack with
        | [] => pure ()
        | d :: _ =>
          if levelOf s d.var ≤ level then pure ()
          else do
            let _ ← undoLast
            loop fuel
    loop (s.stack.length + 1)

/-- `next_unpropagated` -/
def nextUnpropagated : M (Option Dec) := do
  let s ← get
  let n := s.stack.length
  if s.propIdx < n then
    -- the stack is newest-first: entry number `propIdx` from the bottom
    match s.stack[n - 1 - s.propIdx]? with
    | some d =>
      set { s with propIdx := s.propIdx + 1 }
      pure (some d)
    | none => pure none
  else pure none

/-! ### clauses, literals, watches -/

def litStr (l : Lit) : String := (if l.2 then "+" else "-") ++ toString l.1

def reqStr : Req → String
  | .single vs => s!"single {vs}"
  | .union u => s!"union {u}"

def kindStr (id : Nat) : Kind → String
  | .root => s!"clause {id} root"
  | .requires p r => s!"clause {id} requires {p} {reqStr r}"
  | .forbid a h pos n => s!"clause {id} forbid {a} {litStr (h, pos)} {n}"
  | .constrains p c vs => s!"clause {id} constrains {p} {c} {vs}"
  | .lock l o => s!"clause {id} lock {l} {o}"
  | .learnt i => s!"clause {id} learnt {i}"
  | .excluded v r => s!"clause {id} excluded {v} {r}"

def rootStr : Option Nat → String
  | none => "root"
  | some sv => toString sv

/-- the log entry a ghost entry stands for -/
def gevStr : GEv → String
  | .poll k true => s!"P{k}"
  | .poll k false => s!"p{k}"
  | .call true n => s!"c{n}"
  | .call false sv => s!"d{sv}"
  | .got true n => s!"C{n}"
  | .got false sv => s!"D{sv}"

/-- the line the hook prints for an event -/
def evLine : Ev → String
  | .var v (.solvable sv) => s!"var {v} solvable {sv}"
  | .var v (.forbid n) => s!"var {v} forbid {n}"
  | .var v .root => s!"var {v} root"
  | .clause id k => kindStr id k
  | .cands id conflict groups =>
    s!"cands {id} {if conflict then 1 else 0}" ++ groups.foldl (fun acc g => acc ++ " |" ++ g.foldl (fun a v => a ++ s!" {v}") "") ""
  | .learnt idx lits why =>
    s!"learnt {idx} lits" ++ lits.foldl (fun a l => a ++ " " ++ litStr l) "" ++ " why" ++ why.foldl (fun a c => a ++ s!" {c}") ""
  | .assign v val level reason => s!"assign {v} {if val then 1 else 0} {level} {reason}"
  | .undo v => s!"undo {v}"
  | .clear => "clear"
  | .runsat r start => s!"runsat {rootStr r} {start}"
  | .softfail r c => s!"softfail {rootStr r} {c}"
  | .conflicting c => s!"conflicting {c}"
  | .unsolvable c => s!"unsolvable {c}"
  | .queuedSolv r => s!"queued solvable {rootStr r}"
  | .queuedPkg n => s!"queued package {n}"
  | .blame c => s!"blame {c}"

/-- the history as events of the abstract system (`cands` completes the preceding `requires` clause) -/
def absEvents (evs : List Ev) : List Abs.Event :=
  (evs.foldl (fun (acc : List Abs.Event) e =>
    match e with
    | .var v o => .var v o :: acc
    | .clause id k => .clause id k [] :: acc
    | .cands _ _ groups =>
      (match acc with
       | .clause id (.requires p r) _ :: rest => .clause id (.requires p r) groups :: rest
       | _ => .note :: acc)
    | .learnt idx lits why => .learntLits idx lits why :: acc
    | .assign v val level reason => .assign v val level reason :: acc
    | .undo v => .undo v :: acc
    | .clear => .clear :: acc
    | .unsolvable c => .unsolvable c :: acc
    | _ => .note :: acc) []).reverse

/-- `Clauses::alloc` -/
def allocClause (kind : Kind) (watch : Option (Lit × Lit)) : M Nat := do
  let s ← get
  let id := s.clauses.size
  emit (.clause id kind)
  modify fun s => { s with clauses := s.clauses.push ⟨kind, watch⟩ }
  pure id

def watchList (s : S) (l : Lit) : List Nat := (s.watches.lookup l).getD []

def setWatchList (l : Lit) (cs : List Nat) : M Unit :=
  modify fun s => { s with watches := (l, cs) :: s.watches.filter (fun e => e.1 != l) }

/-- `WatchMap::start_watching`: the clause becomes the head of the list of each watched literal -/
def startWatching (id : Nat) : M Unit := do
  let s ← get
  match s.clauses[id]? with
  | some ⟨_, some (w0, w1)⟩ =>
    setWatchList w0 (id :: watchList s w0)
    let s ← get
    setWatchList w1 (id :: watchList s w1)
  | _ => pure ()

/-- literals of a clause in `try_fold_literals` order -/
def clauseLits (s : S) (c : MClause) : List Lit :=
  match c.kind with
  | .root => []
  | .excluded v _ => [(v, false)]
  | .learnt i => s.learntLits.getD i []
  | .requires p r => (p, false) :: (((s.reqCands.lookup r).getD []).flatten.map (fun v => (v, true)))
  | .constrains a b _ => [(a, false), (b, false)]
  | .forbid a h pos _ => [(a, false), (h, pos)]
  | .lock _ o => [(o, false), (0, false)]

/-! ### SolverCache (sync) -/

/-- the cancellation signal is up at the next poll of state `s` -/
def fires (s : S) : Bool :=
  (match s.cancelAt with
   | some at_ => if s.cancelTransient then s.polls == at_ else s.polls ≥ at_
   | none => false) || s.raised

/-- `should_cancel_with_value` as seen by the solver: poll number k fires according to the plan -/
def pollCancel : M Unit := fun s =>
  if fires s then (.error (.cancelled (7000 + s.polls)), { s with polls := s.polls + 1, log := s!"P{s.polls}" :: s.log, glog := .poll s.polls true :: s.glog })
  else (.ok (), { s with polls := s.polls + 1, log := s!"p{s.polls}" :: s.log, glog := .poll s.polls false :: s.glog })

/-- a provider request starts: the call-indexed cancellation plan may raise / withdraw the signal -/
def requestStarted : M Unit := modify fun s =>
  let n := s.callsStarted
  let raised := match s.cancelAtCall with
    | some j => if n == j then true else if s.cancelTransient && n > j then false else s.raised
    | none => s.raised
  { s with callsStarted := n + 1, raised := raised }

def getCandidates (U : Universe) (n : Nat) : M Pkg := do
  let s ← get
  if !s.fetchedCands.contains n then
    pollCancel
    let p := (U.pkg? n).getD { cands := [] }
    modify fun s => { s with fetchedCands := n :: s.fetchedCands, hinted := s.hinted ++ hintedBy p, log := s!"c{n}" :: s.log,
                             glog := .call true n :: s.glog, issuedCands := n :: s.issuedCands }
    requestStarted
  pure ((U.pkg? n).getD { cands := [] })

def getMatching (U : Universe) (vs : Nat) : M (List Nat) := do
  let _ ← getCandidates U (U.vsName vs)
  pure (U.candsOf vs)

def getNonMatching (U : Universe) (vs : Nat) : M (List Nat) := do
  let _ ← getCandidates U (U.vsName vs)
  pure (U.nonMatching vs)

def getSortedVs (U : Universe) (vs : Nat) : M (List Nat) := do
  let s ← get
  if !s.cachedSorted.contains vs then
    let _ ← getMatching U vs
    modify fun s => { s with cachedSorted := vs :: s.cachedSorted }
  pure (sortedCands U vs)

def getDeps (U : Universe) (sv : Nat) : M Deps := do
  let s ← get
  if !s.fetchedDeps.contains sv then
    pollCancel
    modify fun s => { s with fetchedDeps := sv :: s.fetchedDeps, log := s!"d{sv}" :: s.log, glog := .call false sv :: s.glog,
                             issuedDeps := sv :: s.issuedDeps }
    requestStarted
  pure (U.deps sv)

def depsAvailable (s : S) (sv : Nat) : Bool := s.fetchedDeps.contains sv || s.hinted.contains sv

end Resolvo.MDet
