import Resolvo.MDet.Async
/-!
# Step-level facts about the asynchronous encoder model (C10, C11)
-/
set_option linter.unusedSimpArgs false
namespace Resolvo.MDet
open Resolvo

/-- running a model computation from a state -/
def runM {α : Type} (x : M α) (s : S) : Except Stop α × S := x.run.run s

@[simp] theorem runM_pure {α : Type} (a : α) (s : S) : runM (pure a : M α) s = (.ok a, s) := rfl

@[simp] theorem runM_bind {α β : Type} (x : M α) (f : α → M β) (s : S) :
    runM (x >>= f) s = match runM x s with
      | (.ok a, s') => runM (f a) s'
      | (.error e, s') => (.error e, s') := by
  unfold runM
  simp only [ExceptT.run_bind, StateT.run_bind]
  cases h : (ExceptT.run x).run s with
  | mk r s' => cases r <;> simp <;> rfl

@[simp] theorem runM_map {α β : Type} (f : α → β) (x : M α) (s : S) :
    runM (f <$> x) s = match runM x s with
      | (.ok a, s') => (.ok (f a), s')
      | (.error e, s') => (.error e, s') := by
  have : f <$> x = x >>= fun a => pure (f a) := (bind_pure_comp f x).symm
  rw [this, runM_bind]
  cases runM x s with
  | mk r s' => cases r <;> rfl

@[simp] theorem runM_get (s : S) : runM (get : M S) s = (.ok s, s) := rfl
@[simp] theorem runM_set (s' s : S) : runM (set s' : M Unit) s = (.ok (), s') := rfl
@[simp] theorem runM_modify (f : S → S) (s : S) : runM (modify f : M Unit) s = (.ok (), f s) := rfl
@[simp] theorem runM_throw {α : Type} (e : Stop) (s : S) : runM (throw e : M α) s = (.error e, s) := rfl

theorem runM_pollCancel (s : S) : runM pollCancel s =
    if fires s then (.error (.cancelled (7000 + s.polls)), { s with polls := s.polls + 1, log := s!"P{s.polls}" :: s.log, glog := .poll s.polls true :: s.glog })
    else (.ok (), { s with polls := s.polls + 1, log := s!"p{s.polls}" :: s.log, glog := .poll s.polls false :: s.glog }) := by
  show (if fires s then _ else _) = _
  split <;> rfl


@[simp] theorem runM_logCall (w : String) (g : GEv) (s : S) : runM (logCall w g) s = (.ok (), { s with log := w :: s.log, glog := g :: s.glog }) := rfl

theorem runM_finishCands (U : Universe) (n : Nat) (s : S) :
    ∃ s', runM (finishCands U n) s = (.ok (), s') ∧ s'.fetchedCands = n :: s.fetchedCands := ⟨_, rfl, rfl⟩

theorem runM_requestStarted (s : S) : ∃ s', runM requestStarted s = (.ok (), s') ∧ s'.fetchedCands = s.fetchedCands :=
  ⟨_, rfl, rfl⟩

/-- what one poll of `get_or_cache_candidates` can do -/
theorem pollCands_spec (U : Universe) (tid n : Nat) (w : CandWait) (a : AS) (s s' : S) (w' : CandWait) (a' : AS)
    (h : runM (pollCands U tid n w a) s = (.ok (w', a'), s')) :
    w' ≠ .notStarted ∧
    (w = .notStarted → w' = .owner →
        s.fetchedCands.contains n = false ∧ a.inflight.lookup n = none ∧ a'.inflight.lookup n = some tid ∧ (s!"c{n}", tid) ∈ a'.gates) ∧
    (w = .notStarted → w' = .listener → (a.inflight.lookup n).isSome = true ∧ (n, tid) ∈ a'.listeners ∧ a'.gates = a.gates) ∧
    (w ≠ .ready → w' = .ready → s'.fetchedCands.contains n = true) := by
  unfold pollCands at h
  simp only [runM_bind, runM_get] at h
  cases w with
  | ready =>
    simp only [runM_pure, Prod.mk.injEq, Except.ok.injEq] at h
    obtain ⟨⟨rfl, rfl⟩, rfl⟩ := h
    simp
  | notStarted =>
    simp only at h
    by_cases hf : s.fetchedCands.contains n = true
    · simp only [hf, if_true, runM_pure, Prod.mk.injEq, Except.ok.injEq] at h
      obtain ⟨⟨rfl, rfl⟩, rfl⟩ := h
      exact ⟨(by simp), fun _ h => (by cases h), fun _ h => (by cases h), fun _ _ => hf⟩
    · simp only [hf, Bool.false_eq_true, if_false, runM_bind, runM_pollCancel] at h
      by_cases hc : fires s = true
      · simp only [hc, if_true] at h
        exact absurd h (by simp)
      · simp only [hc, Bool.false_eq_true, if_false] at h
        by_cases hi : (a.inflight.lookup n).isSome = true
        · simp only [hi, if_true, runM_pure, Prod.mk.injEq, Except.ok.injEq] at h
          obtain ⟨⟨rfl, rfl⟩, rfl⟩ := h
          simp [hi]
        · simp only [hi, Bool.false_eq_true, if_false, runM_bind, runM_logCall, requestStarted, runM_modify] at h
          obtain ⟨⟨rfl, rfl⟩, rfl⟩ := h
          have hn : a.inflight.lookup n = none := by
            cases hl : a.inflight.lookup n with
            | none => rfl
            | some v => simp [hl] at hi
          have hfb : s.fetchedCands.contains n = false := by
            cases hb : s.fetchedCands.contains n with
            | false => rfl
            | true => exact absurd hb hf
          refine ⟨(by simp), fun _ _ => ⟨hfb, hn, ?_, ?_⟩, fun _ h => (by cases h), fun _ h => (by cases h)⟩
          · simp [List.lookup]
          · simp
  | owner =>
    simp only at h
    by_cases ho : a.opened.contains s!"c{n}" = true
    · obtain ⟨s2, hu, hfc⟩ := runM_finishCands U n s
      simp only [ho, if_true, runM_bind, hu, runM_pure, Prod.mk.injEq, Except.ok.injEq] at h
      obtain ⟨⟨rfl, rfl⟩, rfl⟩ := h
      exact ⟨(by simp), fun h => (by cases h), fun h => (by cases h), fun _ _ => by rw [hfc]; simp⟩
    · simp only [ho, Bool.false_eq_true, if_false, runM_pure, Prod.mk.injEq, Except.ok.injEq] at h
      obtain ⟨⟨rfl, rfl⟩, rfl⟩ := h
      simp
  | listener =>
    simp only at h
    by_cases hf : s.fetchedCands.contains n = true
    · simp only [hf, if_true, runM_pure, Prod.mk.injEq, Except.ok.injEq] at h
      obtain ⟨⟨rfl, rfl⟩, rfl⟩ := h
      exact ⟨(by simp), fun h => (by cases h), fun h => (by cases h), fun _ _ => hf⟩
    · simp only [hf, Bool.false_eq_true, if_false, runM_pure, Prod.mk.injEq, Except.ok.injEq] at h
      obtain ⟨⟨rfl, rfl⟩, rfl⟩ := h
      simp


/-- a child counts as started once it is done, its `get_or_cache_candidates` await has been entered, or it is
    parked on a filter / sort gate -/
def Child.started (c : Child) : Prop := c.done = true ∨ c.wait ≠ .notStarted ∨ c.stage ≠ 0

theorem finishChild_spec (sorted : Bool) (c : Child) (a : AS) (s s' : S) (c' : Child) (a' : AS)
    (h : runM (finishChild sorted c a) s = (.ok (c', a'), s')) : c'.vs = c.vs ∧ c'.started := by
  unfold finishChild at h
  cases sorted with
  | true =>
    simp only [if_true, runM_bind, runM_modify, runM_pure, Prod.mk.injEq, Except.ok.injEq] at h
    obtain ⟨⟨rfl, rfl⟩, rfl⟩ := h
    exact ⟨rfl, Or.inl rfl⟩
  | false =>
    simp only [Bool.false_eq_true, if_false, runM_bind, runM_pure, Prod.mk.injEq, Except.ok.injEq] at h
    obtain ⟨⟨rfl, rfl⟩, rfl⟩ := h
    exact ⟨rfl, Or.inl rfl⟩

theorem sortStage_spec (U : Universe) (tid : Nat) (g : Bool) (c : Child) (a : AS) (e : Bool) (s s' : S) (c' : Child) (a' : AS)
    (h : runM (sortStage U tid g c a e) s = (.ok (c', a'), s')) : c'.vs = c.vs ∧ c'.started := by
  unfold sortStage at h
  cases g with
  | false =>
    simp only [Bool.not_false, if_true] at h
    exact finishChild_spec true c a s s' c' a' h
  | true =>
    simp only [Bool.not_true, Bool.false_eq_true, if_false] at h
    by_cases hok : (pollGate tid (sortLabel U c.vs) e c.gate a).1 = true
    · simp only [hok, if_true] at h
      exact finishChild_spec true c _ s s' c' a' h
    · simp only [hok, Bool.false_eq_true, if_false, runM_pure, Prod.mk.injEq, Except.ok.injEq] at h
      obtain ⟨⟨rfl, rfl⟩, rfl⟩ := h
      exact ⟨rfl, Or.inr (Or.inr (by simp))⟩

theorem filterStage_spec (U : Universe) (tid : Nat) (g sorted : Bool) (c : Child) (a : AS) (e : Bool) (s s' : S)
    (c' : Child) (a' : AS) (h : runM (filterStage U tid g sorted c a e) s = (.ok (c', a'), s')) :
    c'.vs = c.vs ∧ c'.started := by
  unfold filterStage at h
  cases g with
  | false =>
    simp only [Bool.not_false, if_true] at h
    cases sorted with
    | true => simp only [if_true] at h; exact sortStage_spec U tid false c a false s s' c' a' h
    | false => simp only [Bool.false_eq_true, if_false] at h; exact finishChild_spec false c a s s' c' a' h
  | true =>
    simp only [Bool.not_true, Bool.false_eq_true, if_false] at h
    by_cases hok : (pollGate tid (filterLabel sorted c.vs) e c.gate a).1 = true
    · simp only [hok, if_true] at h
      cases sorted with
      | true =>
        simp only [if_true, runM_bind, runM_modify] at h
        exact sortStage_spec U tid true c _ false _ s' c' a' h
      | false =>
        simp only [Bool.false_eq_true, if_false, runM_bind, runM_modify] at h
        exact finishChild_spec false c _ _ s' c' a' h
    · simp only [hok, Bool.false_eq_true, if_false, runM_pure, Prod.mk.injEq, Except.ok.injEq] at h
      obtain ⟨⟨rfl, rfl⟩, rfl⟩ := h
      exact ⟨rfl, Or.inr (Or.inr (by simp))⟩

theorem pollChild_started (U : Universe) (tid : Nat) (sorted : Bool) (c : Child) (a : AS) (s s' : S) (c' : Child) (a' : AS)
    (h : runM (pollChild U tid sorted c a) s = (.ok (c', a'), s')) : c'.vs = c.vs ∧ c'.started := by
  unfold pollChild at h
  by_cases hd : c.done = true
  · simp only [hd, if_true, runM_pure, Prod.mk.injEq, Except.ok.injEq] at h
    obtain ⟨⟨rfl, rfl⟩, rfl⟩ := h
    exact ⟨rfl, Or.inl hd⟩
  · simp only [hd, Bool.false_eq_true, if_false, runM_bind, runM_get] at h
    split at h
    · exact sortStage_spec U tid _ c a true s s' c' a' h
    · split at h
      · exact filterStage_spec U tid _ sorted c a true s s' c' a' h
      · split at h
        · simp only [runM_pure, Prod.mk.injEq, Except.ok.injEq] at h
          obtain ⟨⟨rfl, rfl⟩, rfl⟩ := h
          exact ⟨rfl, Or.inl rfl⟩
        · split at h
          · simp only [runM_pure, Prod.mk.injEq, Except.ok.injEq] at h
            obtain ⟨⟨rfl, rfl⟩, rfl⟩ := h
            exact ⟨rfl, Or.inl rfl⟩
          · split at h
            · exact sortStage_spec U tid _ c a false s s' c' a' h
            · simp only [runM_bind] at h
              cases hp : runM (pollCands U tid (U.vsName c.vs) c.wait a) s with
              | mk r s1 =>
                cases r with
                | error e => simp only [hp] at h; exact absurd h (by simp)
                | ok v =>
                  obtain ⟨w, a1⟩ := v
                  have hs := (pollCands_spec U tid _ _ _ _ _ _ _ hp).1
                  simp only [hp] at h
                  by_cases hw : (w == CandWait.ready) = true
                  · simp only [hw, if_true] at h
                    have := filterStage_spec U tid _ sorted _ a1 false s1 s' c' a' h
                    exact ⟨this.1, this.2⟩
                  · simp only [hw, Bool.false_eq_true, if_false, runM_pure, Prod.mk.injEq, Except.ok.injEq] at h
                    obtain ⟨⟨rfl, rfl⟩, rfl⟩ := h
                    exact ⟨rfl, Or.inr (Or.inl hs)⟩

/-- `try_join_all`: one poll of a requirement (or constraint) future polls **every** unfinished child, so the
    candidates of every version set of the requirement are known, requested or awaited before control returns
    to the executor — the requests of one requirement are never issued one after the other's answer -/
theorem pollChildren_started (U : Universe) (tid : Nat) (sorted : Bool) (cs : List Child) (a : AS) (s s' : S)
    (cs' : List Child) (a' : AS) (h : runM (pollChildren U tid sorted cs a) s = (.ok (cs', a'), s')) :
    cs'.map (·.vs) = cs.map (·.vs) ∧ ∀ c ∈ cs', c.started := by
  induction cs generalizing a s cs' a' s' with
  | nil =>
    simp only [pollChildren, runM_pure, Prod.mk.injEq, Except.ok.injEq] at h
    obtain ⟨⟨rfl, rfl⟩, rfl⟩ := h
    exact ⟨rfl, fun _ hc => by cases hc⟩
  | cons c cs ih =>
    simp only [pollChildren, runM_bind] at h
    cases hp : runM (pollChild U tid sorted c a) s with
    | mk r s1 =>
      cases r with
      | error e => simp only [hp] at h; exact absurd h (by simp)
      | ok v =>
        obtain ⟨c1, a1⟩ := v
        simp only [hp] at h
        cases hq : runM (pollChildren U tid sorted cs a1) s1 with
        | mk r2 s2 =>
          cases r2 with
          | error e => simp only [hq] at h; exact absurd h (by simp)
          | ok v2 =>
            obtain ⟨cs2, a2⟩ := v2
            simp only [hq, runM_pure, Prod.mk.injEq, Except.ok.injEq] at h
            obtain ⟨⟨rfl, rfl⟩, rfl⟩ := h
            have h1 := pollChild_started U tid sorted c a s s1 c1 a1 hp
            have h2 := ih a1 s1 s2 cs2 a2 hq
            refine ⟨by simp [h1.1, h2.1], ?_⟩
            intro x hx
            cases hx with
            | head => exact h1.2
            | tail _ hm => exact h2.2 x hm


/-- C11 at the level of one future: when the future of a requirement `r` of solvable `sid` is polled, **all** version
    sets of `r` have been started when the poll returns — each is finished (candidates known), has issued its
    `get_candidates` request, or listens to a request already in flight. Together with the ready-queue discipline of
    `encodeAsync` (every pushed future is polled before the executor sees `Pending`) this is why no request waits for
    the answer to another one. -/
theorem pollTask_req_started (U : Universe) (P : Problem) (t : ATask) (sid : SoR) (r : Req) (a : AS) (s s' : S)
    (t' : ATask) (a' : AS) (res : Option TaskResult) (ht : t.task = .req sid r)
    (h : runM (pollTask U P t a) s = (.ok (t', a', res), s')) :
    t'.children.map (·.vs) = t.children.map (·.vs) ∧ ∀ c ∈ t'.children, c.started := by
  unfold pollTask at h
  rw [ht] at h
  simp only [runM_bind] at h
  cases hq : runM (pollChildren U t.id true t.children a) s with
  | mk r2 s2 =>
    cases r2 with
    | error e => simp only [hq] at h; exact absurd h (by simp)
    | ok v2 =>
      obtain ⟨cs2, a2⟩ := v2
      have h2 := pollChildren_started U t.id true t.children a s s2 cs2 a2 hq
      simp only [hq] at h
      by_cases hall : (cs2.all (·.done)) = true
      · simp only [hall, if_true, runM_pure, Prod.mk.injEq, Except.ok.injEq] at h
        obtain ⟨⟨rfl, rfl, rfl⟩, rfl⟩ := h
        exact h2
      · simp only [hall, Bool.false_eq_true, if_false, runM_pure, Prod.mk.injEq, Except.ok.injEq] at h
        obtain ⟨⟨rfl, rfl, rfl⟩, rfl⟩ := h
        exact h2

/-- C10 at the level of one await: a `get_candidates` request for package `n` is issued only if the answer is neither
    cached nor already requested, and from then on it is marked in flight (so every later await of the same package
    listens instead of asking again) -/
theorem request_only_if_unknown (U : Universe) (tid n : Nat) (a : AS) (s s' : S) (a' : AS)
    (h : runM (pollCands U tid n .notStarted a) s = (.ok (.owner, a'), s')) :
    s.fetchedCands.contains n = false ∧ a.inflight.lookup n = none ∧ a'.inflight.lookup n = some tid :=
  let p := (pollCands_spec U tid n .notStarted a s s' .owner a' h).2.1 rfl rfl
  ⟨p.1, p.2.1, p.2.2.1⟩

/-- … and an await that finds a request in flight never issues one: it becomes a listener and the set of outstanding
    requests is unchanged -/
theorem listener_issues_nothing (U : Universe) (tid n : Nat) (a : AS) (s s' : S) (a' : AS)
    (h : runM (pollCands U tid n .notStarted a) s = (.ok (.listener, a'), s')) :
    (a.inflight.lookup n).isSome = true ∧ a'.gates = a.gates :=
  let p := (pollCands_spec U tid n .notStarted a s s' .listener a' h).2.2.1 rfl rfl
  ⟨p.1, p.2.2⟩

end Resolvo.MDet
