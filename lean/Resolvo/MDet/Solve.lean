import Resolvo.MDet.Async
/-!
# MDet — propagate, decide, analyze, run_sat, solve (`src/solver/mod.rs`)
-/
namespace Resolvo.MDet
open Resolvo Resolvo.Sat Resolvo.Abs

inductive PropResult where
  | ok
  | conflict (var : Nat) (val : Bool) (clause : Nat)
deriving Repr, Inhabited

/-- `next_unwatched_literal` -/
def nextUnwatched (s : S) (c : MClause) (w : Lit × Lit) (watchIndex : Nat) : Option Lit :=
  match c.kind with
  | .constrains .. | .forbid .. | .lock .. => none
  | .root | .excluded .. => none   -- unreachable in the source (such clauses are never watched)
  | _ =>
    let other := if watchIndex == 0 then w.2 else w.1
    (clauseLits s c).find? (fun l => l != other && (evalLit s l).getD true)

/-- `decide_assertions` -/
def decideAssertions (level : Nat) : M PropResult := do
  let s ← get
  for (v, cl) in s.negAssertions do
    match ← tryAdd v false cl level with
    | none => return .conflict v false cl
    | some _ => pure ()
  pure .ok

/-- `decide_learned` -/
def decideLearned (level : Nat) : M PropResult := do
  let s ← get
  for cid in s.learntIds do
    let s ← get
    match s.clauses[cid]? with
    | some ⟨.learnt idx, _⟩ =>
      match s.learntLits.getD idx [] with
      | [l] =>
        match ← tryAdd l.1 l.2 cid level with
        | none => return .conflict l.1 l.2 cid
        | some _ => pure ()
      | _ => pure ()
    | _ => panic "mod.rs:decide_learned:unreachable#1"
  pure .ok

/-- `propagate` -/
def propagate (level : Nat) (fuel : Nat) : M PropResult := do
  pollCancel
  match ← decideAssertions level with
  | .conflict v b c => return .conflict v b c
  | .ok => pure ()
  match ← decideLearned level with
  | .conflict v b c => return .conflict v b c
  | .ok => pure ()
  let rec outer : Nat → M PropResult
    | 0 => throw .outOfFuel
    | fuel + 1 => do
      match ← nextUnpropagated with
      | none => pure .ok
      | some d =>
        -- the literal that just became false
        let falseLit : Lit := (d.var, !d.val)
        let s ← get
        let rec inner : List Nat → M PropResult
          | [] => pure .ok
          | cid :: rest => do
            let s ← get
            match s.clauses[cid]? with
            | some c =>
              match c.watch with
              | some w =>
                let idx := if w.1 == falseLit then 0 else 1
                let other := if idx == 0 then w.2 else w.1
                if evalLit s other == some true then inner rest
                else match nextUnwatched s c w idx with
                  | some nl =>
                    -- `cursor.update`: unlink from this list, watch `nl`, become head of its list
                    let s ← get
                    setWatchList falseLit ((watchList s falseLit).filter (· != cid))
                    let w' := if idx == 0 then (nl, w.2) else (w.1, nl)
                    modify fun s => { s with clauses := s.clauses.set! cid { c with watch := some w' } }
                    let s ← get
                    setWatchList nl (cid :: watchList s nl)
                    inner rest
                  | none =>
                    match ← tryAdd other.1 other.2 cid level with
                    | none => pure (.conflict other.1 true cid)
                    | some _ => inner rest
              | none => panic "watch_map.rs:cursor:expect#1"
            | none => panic "watch_map.rs:cursor:index"
        match ← inner (watchList s falseLit) with
        | .conflict v b c => pure (.conflict v b c)
        | .ok => outer fuel
  outer fuel

structure PD where
  activity : Float32
  explicit : Bool
  count : Nat
  cand : Nat
  parent : Nat
  clause : Nat

/-- the `try_fold` over the candidates of one version set -/
def foldCands (s : S) (U : Universe) (vs : Nat) (cands : List Nat)
    (init : Option (Nat × Nat × Nat × Float32)) : Except String (Option (Option (Nat × Nat × Nat × Float32))) :=
  -- result: `none` = Break (a candidate is true); `some x` = Continue x
  cands.foldlM (fun (acc : Option (Option (Nat × Nat × Nat × Float32))) c =>
    match acc with
    | none => pure none
    | some first =>
      match valueOf s c with
      | some true => pure none
      | some false => pure (some first)
      | none =>
        match first with
        | some (fc, cvs, cnt, act) => pure (some (some (fc, cvs, if cvs == vs then cnt + 1 else cnt, act)))
        | none =>
          let name := U.vsName vs
          match s.activity[name]? with
          | some act => pure (some (some (c, vs, 1, act)))
          | none => throw "mod.rs:decide:index#1") (some init)

/-- `decide` -/
def decide (U : Universe) : M (Option (Nat × Nat × Nat)) := do
  let s ← get
  let mut best : Option PD := none
  for (pv, reqs) in s.requiresClauses do
    let isExplicit := pv == 0
    let skip := match best with | some b => b.explicit && !isExplicit | none => false
    if skip then continue
    if valueOf s pv != some true then continue
    for (r, cid) in reqs do
      let vsCands := (s.reqCands.lookup r).getD []
      -- zip the requirement's version sets with the cached per-version-set variable lists
      let mut cand : Option (Option (Nat × Nat × Nat × Float32)) := none   -- Break
      let mut first := true
      for (vs, cs) in (U.reqVersionSets r).zip vsCands do
        let init := if first then none else (match cand with | some x => x | none => none)
        first := false
        match foldCands s U vs cs init with
        | .error site => panic site
        | .ok res => cand := res
        if cand.isNone then break
      match cand with
      | none => continue
      | some none => panic "mod.rs:decide:unreachable#1"
      | some (some (c, _, cnt, act)) =>
        best := some (match best with
          | none => ⟨act, isExplicit, cnt, c, pv, cid⟩
          | some b =>
            if b.explicit && !isExplicit then b
            else if b.activity >= act then b
            else if b.count ≤ cnt then b
            else ⟨act, isExplicit, cnt, c, pv, cid⟩)
  pure (best.map (fun b => (b.cand, b.parent, b.clause)))

/-- `analyze_unsolvable_clause` (the recursion descends to strictly older clauses; fuelled) -/
def blame (s : S) : Nat → Nat → List Nat → List Nat → List Nat × List Nat
  | 0, _, conflict, seen => (conflict, seen)
  | fuel + 1, cid, conflict, seen =>
    match s.clauses[cid]? with
    | some ⟨.learnt idx, _⟩ =>
      if seen.contains cid then (conflict, seen)
      else (s.learntWhy.getD idx []).foldl (fun (acc : List Nat × List Nat) cause => blame s fuel cause acc.1 acc.2) (conflict, cid :: seen)
    | _ => (if conflict.contains cid then conflict else conflict ++ [cid], seen)

/-- `analyze_unsolvable`: the clause ids blamed for the conflict -/
def analyzeUnsolvable (cid : Nat) : M (List Nat) := do
  emit (.unsolvable cid)
  let s ← get
  let c0 := s.clauses.getD cid default
  let mut involved : List Nat := (clauseLits s c0).map (·.1)
  let (conflict0, seen0) := blame s (s.clauses.size + 1) cid [] []
  let mut conflict := conflict0
  let mut seen := seen0
  for d in s.stack do   -- newest first = `stack().rev()`
    if d.var == 0 then continue
    if !involved.contains d.var then continue
    if d.reason == 0 then panic "mod.rs:analyze_unsolvable:assert_ne#1"
    let (c', s') := blame s (s.clauses.size + 1) d.reason conflict seen
    conflict := c'
    seen := s'
    emit (.blame d.reason)
    for l in clauseLits s (s.clauses.getD d.reason default) do
      if evalLit s l == some true then
        if l.1 != d.var then panic "mod.rs:analyze_unsolvable:assert_eq#1"
      else involved := involved ++ [l.1]
  pure conflict

/-- `analyze`: returns (level to backtrack to, learnt clause id, asserting literal) -/
def analyze (U : Universe) (level : Nat) (conflVar : Nat) (clauseId : Nat) (fuel : Nat) : M (Nat × Nat × Lit) := do
  let rec outer : Nat → Nat → Nat → Nat → List Nat → Nat → List Lit → Nat → List Nat → Bool →
      M (Nat × Bool × List Lit × Nat × List Nat)
    | 0, _, _, _, _, _, _, _, _, _ => throw .outOfFuel
    | fuel + 1, curLevel, conflVar, clauseId, seen, causes, learnt, backTo, why, firstIter => do
      let why := why ++ [clauseId]
      let s ← get
      let lits := clauseLits s (s.clauses.getD clauseId default)
      let mut seen := seen
      let mut causes := causes
      let mut learnt := learnt
      let mut backTo := backTo
      for l in lits do
        if !firstIter && l.1 == conflVar then continue
        if seen.contains l.1 then continue
        seen := l.1 :: seen
        let dl := levelOf s l.1
        if dl == curLevel then causes := causes + 1
        else if curLevel > 1 then
          match valueOf s l.1 with
          | some b =>
            learnt := learnt ++ [(l.1, !b)]
            backTo := Nat.max backTo dl
          | none => panic "mod.rs:analyze:unwrap#1"
        else panic "mod.rs:analyze:unreachable#1"
      -- select the next literal to look at
      let rec pop : Nat → M (Dec × Nat)
        | 0 => throw .outOfFuel
        | f + 1 => do
          let (d, lvl) ← undoLast
          if seen.contains d.var then pure (d, lvl) else pop f
      let s ← get
      let (d, lvl) ← pop (s.stack.length + 1)
      causes := causes - 1
      if causes == 0 then pure (d.var, d.val, learnt, backTo, why)
      else outer fuel lvl d.var d.reason seen causes learnt backTo why false
  let (cv, sval, learnt0, backTo, why) ← outer fuel level conflVar clauseId [] 0 [] 0 [] true
  let lastLit : Lit := (cv, !sval)
  let learnt := learnt0 ++ [lastLit]
  -- bump the activity of the packages in the learnt clause
  for l in learnt do
    let s ← get
    match solvOfVar s l.1 with
    | some sv =>
      let name := U.nameOf sv
      modify fun s =>
        let act := if s.activity.size ≤ name then s.activity ++ Array.replicate (name + 1 - s.activity.size) (0.0 : Float32) else s.activity
        { s with activity := act.set! name (act.getD name 0.0 + s.activityAdd) }
    | none => pure ()
  let s ← get
  let lid := s.learntLits.size
  modify fun s => { s with learntLits := s.learntLits.push learnt }
  emit (.learnt lid learnt why)
  modify fun s => { s with learntWhy := s.learntWhy.push why }
  let watch : Option (Lit × Lit) := match learnt with
    | [] => none
    | [_] => none
    | f :: _ => some (f, learnt.getLast!)
  let cid ← allocClause (.learnt lid) watch
  modify fun s => { s with learntIds := s.learntIds ++ [cid] }
  startWatching cid
  -- never below the level the current run started from (the solution found before a soft requirement is tried)
  let sl := (← get).runStart
  let target := Nat.max (Nat.max backTo sl) 1
  undoUntil target
  modify fun s => { s with activity := s.activity.map (fun a => a * s.activityDecay) }
  pure (target, cid, lastLit)

inductive LearnResult where
  | level (l : Nat)
  | unsolvable (conflict : List Nat)

/-- `propagate_and_learn` (with `learn_from_conflict` inlined) -/
def propagateAndLearn (U : Universe) (level : Nat) (fuel : Nat) : M LearnResult := do
  let rec loop : Nat → Nat → M LearnResult
    | 0, _ => throw .outOfFuel
    | f + 1, level => do
      match ← propagate level fuel with
      | .ok => pure (.level level)
      | .conflict v _ cid =>
        if level == 1 then
          let c ← analyzeUnsolvable cid
          pure (.unsolvable c)
        else
          let (newLevel, lcid, lit) ← analyze U level v cid fuel
          match ← tryAdd lit.1 lit.2 lcid newLevel with
          | some _ => loop f newLevel
          | none => panic "mod.rs:learn_from_conflict:expect#1"
  loop fuel level

/-- `resolve_dependencies` -/
def resolveDependencies (U : Universe) (level : Nat) (fuel : Nat) : M LearnResult := do
  let rec loop : Nat → Nat → M LearnResult
    | 0, _ => throw .outOfFuel
    | f + 1, level => do
      match ← decide U with
      | none => pure (.level level)
      | some (cand, _parent, cid) =>
        -- set_propagate_learn
        let level := level + 1
        match ← tryAdd cand true cid level with
        | some _ => pure ()
        | none => panic "mod.rs:set_propagate_learn:expect#1"
        match ← propagateAndLearn U level fuel with
        | .level l => loop f l
        | .unsolvable c => pure (.unsolvable c)
  loop fuel level

inductive SatResult where
  | sat (ok : Bool)
  | unsolvable (conflict : List Nat)

/-- `run_sat_process_unsolvable` -/
def processUnsolvable (root : SoR) (startLevel : Nat) (cid : Nat) : M SatResult := do
  if startLevel == 0 then
    let c ← analyzeUnsolvable cid
    pure (.unsolvable c)
  else
    emit (.softfail root cid)
    undoUntil startLevel
    let v ← internSoR root
    match ← tryAdd v false 0 (startLevel + 1) with
    | some _ => pure (.sat false)
    | none => panic "mod.rs:run_sat_process_unsolvable:expect#1"

/-- `run_sat` -/
def runSat (U : Universe) (P : Problem) (root : SoR) (fuel : Nat) : M SatResult := do
  let s ← get
  let startLevel := match s.stack with | d :: _ => levelOf s d.var | [] => 0
  emit (.runsat root startLevel)
  modify fun s => { s with runStart := startLevel }
  let rec loop : Nat → Nat → M SatResult
    | 0, _ => throw .outOfFuel
    | f + 1, level => do
      let mut level := level
      if level == startLevel then
        level := startLevel + 1
        let v ← internSoR root
        match ← tryAdd v true 0 level with
        | some _ => pure ()
        | none =>
          -- a restarted soft run whose solvable a learnt clause has refuted in the meantime
          if startLevel == 0 then panic "mod.rs:run_sat:assert_ne#1" else return .sat false
        let conflicting ← encode U P [root] fuel
        match conflicting with
        | cid :: _ => return (← processUnsolvable root startLevel cid)
        | [] => pure ()
      match ← propagate level fuel with
      | .ok => pure ()
      | .conflict _ _ cid =>
        if level == startLevel + 1 then return (← processUnsolvable root startLevel cid)
        else
          undoUntil startLevel
          return (← loop f startLevel)
      match ← resolveDependencies U level fuel with
      | .unsolvable c => return .unsolvable c
      | .level l => level := l
      -- a conflict undid everything this run decided (incl. the installation of the root): start over
      if level == startLevel then return (← loop f startLevel)
      -- newly selected solvables whose clauses have not been added yet
      let s ← get
      let newSolvs : List SoR := (s.stack.reverse.filter (fun d => d.val)).filterMap (fun d =>
        match originOf s d.var with
        | some (.solvable sv) => if s.addedSolv.contains (some sv) then none else some (some sv)
        | some .root => none   -- the root is a solvable-or-root but `origin.as_solvable()` drops it
        | _ => none)
      -- (the emptiness test in the source also counts the root when it has not been encoded; it always has)
      if newSolvs.isEmpty then return .sat true
      let conflicting ← encode U P newSolvs fuel
      match conflicting with
      | _ :: _ =>
        undoUntil startLevel
        loop f startLevel
      | [] => loop f level
  loop fuel startLevel

inductive Outcome where
  | ok (solution : List Nat)
  | unsat (conflict : List Nat)
  | stop (why : Stop)
deriving Repr, Inhabited

/-- what `Solver::solve` returns when it returns normally -/
inductive Answer where
  | ok (solution : List Nat)
  | unsat (conflict : List Nat)

/-- `Solver::solve`: resets the per-solve state, keeps the cache -/
def solve (U : Universe) (P : Problem) (fuel : Nat) : M Answer := do
  modify fun s => { (default : S) with
    fetchedCands := s.fetchedCands, fetchedDeps := s.fetchedDeps, hinted := s.hinted, cachedSorted := s.cachedSorted,
    log := s.log, glog := s.glog, polls := s.polls, cancelAt := s.cancelAt, cancelAtCall := s.cancelAtCall, cancelTransient := s.cancelTransient,
    callsStarted := s.callsStarted, raised := s.raised,
    activityAdd := s.activityAdd, activityDecay := s.activityDecay, trace := s.trace,
    asyncMode := s.asyncMode, sched := s.sched, aevents := s.aevents,
    gateFs := s.gateFs, cachedMatching := s.cachedMatching, cachedInverse := s.cachedInverse }
  let _ ← allocClause .root none
  match ← runSat U P none fuel with
  | .unsolvable c => return .unsat c
  | .sat false => panic "mod.rs:solve:assert#1"
  | .sat true => pure ()
  for sv in P.soft do
    let v ← internSolvable sv
    let s ← get
    if (valueOf s v).isNone then
      addForbidMultiple U sv v
      match ← runSat U P (some sv) fuel with
      | .unsolvable c => return .unsat c
      | .sat _ => pure ()
  let s ← get
  pure (.ok ((s.stack.reverse.filter (·.val)).filterMap (fun d => solvOfVar s d.var)))

/-- Runs one solve on a solver state; abnormal stops become an outcome, the state is kept. -/
def solveRun (U : Universe) (P : Problem) (fuel : Nat) (s : S) : Outcome × S :=
  match (solve U P fuel).run.run s with
  | (.ok (.ok sol), s') => (.ok sol, s')
  | (.ok (.unsat c), s') => (.unsat c, s')
  | (.error e, s') => (.stop e, s')

end Resolvo.MDet
