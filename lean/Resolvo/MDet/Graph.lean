import Resolvo.MDet.Solve
import Resolvo.Graph
/-!
# MDet — `Conflict::graph` (`src/conflict.rs`): nodes and edges from the blamed clauses
-/
namespace Resolvo.MDet
open Resolvo Resolvo.Abs Resolvo.Graph

def nodeOfVar (s : S) (v : Nat) : Node :=
  match originOf s v with
  | some (.solvable sv) => .solv sv
  | _ => .root

/-- edges in clause order, plus the nodes touched (root first) -/
def conflictGraph (U : Universe) (s : S) (conflict : List Nat) : List Node × List Edge :=
  let step (acc : List Node × List Edge × List (Nat × Node)) (cid : Nat) : List Node × List Edge × List (Nat × Node) :=
    let (nodes, edges, lastByName) := acc
    let addN (ns : List Node) (n : Node) := if ns.contains n then ns else ns ++ [n]
    match (s.clauses.getD cid default).kind with
    | .root => acc
    | .learnt _ => acc    -- unreachable in the source: learnt clauses are expanded before
    | .excluded v reason =>
      let n := nodeOfVar s v
      (addN (addN nodes n) (.excl reason), edges ++ [⟨n, .excl reason, .excluded⟩], lastByName)
    | .requires p r =>
      let pn := nodeOfVar s p
      let cands := reqSorted U r
      if cands.isEmpty then (addN (addN nodes pn) .unresolved, edges ++ [⟨pn, .unresolved, .req r⟩], lastByName)
      else (cands.foldl (fun ns c => addN ns (.solv c)) (addN nodes pn), edges ++ cands.map (fun c => ⟨pn, .solv c, .req r⟩), lastByName)
    | .lock l o =>
      let on := nodeOfVar s o
      let ls := match solvOfVar s l with | some x => x | none => 0
      (addN nodes on, edges ++ [⟨.root, on, .locked ls⟩], lastByName)
    | .forbid a _ _ name =>
      let an := nodeOfVar s a
      let prev := lastByName.lookup name
      let lastByName := (name, an) :: lastByName.filter (fun e => e.1 != name)
      (addN nodes an, (match prev with | some pn => edges ++ [⟨pn, an, .forbid⟩] | none => edges), lastByName)
    | .constrains p c vs =>
      let pn := nodeOfVar s p
      let cn := nodeOfVar s c
      (addN (addN nodes pn) cn, edges ++ [⟨pn, cn, .constrains vs⟩], lastByName)
  let (nodes, edges, _) := conflict.foldl step ([.root], [], [])
  (nodes, edges)

def nodeStr : Node → String
  | .root => "root"
  | .solv s => s!"s{s}"
  | .unresolved => "unresolved"
  | .excl r => s!"excl{r}"

def edgeStr (e : Edge) : String :=
  s!"{nodeStr e.src}>{nodeStr e.dst}:" ++ (match e.kind with
    | .req (.single v) => s!"req:v{v}"
    | .req (.union u) => s!"req:u{u}"
    | .locked l => s!"locked:{l}"
    | .constrains vs => s!"constrains:{vs}"
    | .forbid => "forbid"
    | .excluded => "excluded")

def insertStr (x : String) : List String → List String
  | [] => [x]
  | y :: ys => if x ≤ y then x :: y :: ys else y :: insertStr x ys

def sortStr (l : List String) : List String := l.foldl (fun acc x => insertStr x acc) []

end Resolvo.MDet
