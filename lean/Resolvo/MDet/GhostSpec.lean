import Resolvo.MDet.LogSpec
/-!
# The structured call log and the request records are faithful twins of the call log (all runs of the model)

`Ghost s`: the provider call log `s.log` (the strings the correspondence compares with the real solver's log) is the
rendering of the structured log `s.glog` that the theorems of C09 / C12 speak about. `Maintains' Ghost` is shown for
every function of the model, synchronous and asynchronous (`ghost_solve`), so the twin relation holds after every
history of solves: the theorems about `glog` are theorems about the compared call log.
-/
set_option linter.unusedSimpArgs false
namespace Resolvo.MDet
open Resolvo Resolvo.Sat Resolvo.Abs

def Ghost (s : S) : Prop := s.log = s.glog.map gevStr

def GMaintainsAt {α : Type} (x : M α) (s : S) : Prop := Ghost s → Ghost (runM x s).2
def GMaintains {α : Type} (x : M α) : Prop := ∀ s, GMaintainsAt x s

theorem ghost_of_view {s s' : S} (h : Ghost s) (h1 : s'.log = s.log) (h2 : s'.glog = s.glog) : Ghost s' := by
  unfold Ghost at *; rw [h1, h2]; exact h

theorem gm_pure {α : Type} (a : α) : GMaintains (pure a : M α) := fun _ h => h
theorem gm_get : GMaintains (get : M S) := fun _ h => h
theorem gm_throw {α : Type} (e : Stop) : GMaintains (throw e : M α) := fun _ h => h
theorem gm_panic {α : Type} (site : String) : GMaintains (panic site : M α) := fun _ h => h
theorem gm_modify (g : S → S) (h : ∀ s, Ghost s → Ghost (g s)) : GMaintains (modify g : M Unit) := fun s hs => h s hs

theorem gmAt_bind {α β : Type} (x : M α) (k : α → M β) (s : S) (hx : GMaintainsAt x s)
    (hk : ∀ a s1, runM x s = (.ok a, s1) → GMaintainsAt (k a) s1) : GMaintainsAt (x >>= k) s := by
  intro hs
  rw [runM_bind]
  cases h : runM x s with
  | mk r s1 =>
    have h1 := hx hs
    rw [h] at h1
    cases r with
    | error e => exact h1
    | ok a => exact hk a s1 h h1

theorem gm_bind {α β : Type} (x : M α) (k : α → M β) (hx : GMaintains x) (hk : ∀ a, GMaintains (k a)) :
    GMaintains (x >>= k) := fun s => gmAt_bind x k s (hx s) (fun a s1 _ => hk a s1)

theorem gm_get_bind {β : Type} (k : S → M β) (hk : ∀ s, GMaintainsAt (k s) s) : GMaintains (get >>= k) := by
  intro s
  apply gmAt_bind _ _ _ (gm_get s)
  intro a s1 h
  simp only [runM_get, Prod.mk.injEq, Except.ok.injEq] at h
  obtain ⟨rfl, rfl⟩ := h
  exact hk _

theorem gmAt_set_bind {β : Type} (s' s : S) (k : Unit → M β) (h : Ghost s → Ghost s') (hk : GMaintains (k ())) :
    GMaintainsAt (set s' >>= k) s := by
  apply gmAt_bind
  · intro hs; exact h hs
  · intro a s1 h1
    simp only [runM_set, Prod.mk.injEq, Except.ok.injEq] at h1
    obtain ⟨_, rfl⟩ := h1
    exact hk _

theorem gm_forIn {γ δ : Type} (xs : List γ) (init : δ) (body : γ → δ → M (ForInStep δ))
    (h : ∀ x b, GMaintains (body x b)) : GMaintains (forIn xs init body) := by
  induction xs generalizing init with
  | nil => simp only [List.forIn_nil]; exact gm_pure _
  | cons x xs ih =>
    simp only [List.forIn_cons]
    apply gm_bind _ _ (h x init)
    intro r
    cases r with
    | done b => exact gm_pure b
    | yield b => exact ih b

theorem GMaintains.at {α : Type} {x : M α} (h : GMaintains x) (s : S) : GMaintainsAt x s := h s

/-! ### the functions that write the logs -/

theorem gm_pollCancel : GMaintains pollCancel := by
  intro s hs
  rw [runM_pollCancel]
  unfold Ghost at *
  split
  · show _ :: s.log = (GEv.poll s.polls true :: s.glog).map gevStr
    rw [List.map_cons, ← hs]; rfl
  · show _ :: s.log = (GEv.poll s.polls false :: s.glog).map gevStr
    rw [List.map_cons, ← hs]; rfl

theorem gm_requestStarted : GMaintains requestStarted := gm_modify _ (fun _ h => ghost_of_view h rfl rfl)

theorem gm_logBoth (g : S → S) (w : String) (e : GEv) (hw : w = gevStr e) (hl : ∀ s, (g s).log = w :: s.log)
    (hg : ∀ s, (g s).glog = e :: s.glog) : GMaintains (modify g : M Unit) := by
  apply gm_modify
  intro s hs
  unfold Ghost at *
  rw [hl, hg, List.map_cons, ← hs, hw]

theorem gm_getCandidates (U : Universe) (n : Nat) : GMaintains (getCandidates U n) := by
  unfold getCandidates
  apply gm_get_bind
  intro s
  dsimp only
  split
  · apply gmAt_bind _ _ _ (gm_pollCancel s)
    intro _ s1 _
    apply gmAt_bind
    · exact gm_logBoth _ _ (.call true n) rfl (fun _ => rfl) (fun _ => rfl) s1
    · intro _ s2 _
      exact gm_bind _ _ gm_requestStarted (fun _ => gm_pure _) s2
  · exact gm_bind _ _ (gm_pure _) (fun _ => gm_pure _) s

theorem gm_getDeps (U : Universe) (sv : Nat) : GMaintains (getDeps U sv) := by
  unfold getDeps
  apply gm_get_bind
  intro s
  dsimp only
  split
  · apply gmAt_bind _ _ _ (gm_pollCancel s)
    intro _ s1 _
    apply gmAt_bind
    · exact gm_logBoth _ _ (.call false sv) rfl (fun _ => rfl) (fun _ => rfl) s1
    · intro _ s2 _
      exact gm_bind _ _ gm_requestStarted (fun _ => gm_pure _) s2
  · exact gm_bind _ _ (gm_pure _) (fun _ => gm_pure _) s

theorem gm_startDeps (sv : Nat) : GMaintains (startDeps sv) := by
  unfold startDeps logCall
  apply gm_bind _ _ gm_pollCancel
  intro _
  apply gm_bind
  · exact gm_logBoth _ _ (.call false sv) rfl (fun _ => rfl) (fun _ => rfl)
  · intro _
    apply gm_bind
    · exact gm_modify _ (fun _ h => ghost_of_view h rfl rfl)
    · intro _; exact gm_requestStarted

theorem gm_finishDeps (sv : Nat) : GMaintains (finishDeps sv) := by
  unfold finishDeps
  exact gm_logBoth _ _ (.got false sv) rfl (fun _ => rfl) (fun _ => rfl)

theorem gm_finishCands (U : Universe) (n : Nat) : GMaintains (finishCands U n) := by
  unfold finishCands
  exact gm_logBoth _ _ (.got true n) rfl (fun _ => rfl) (fun _ => rfl)

theorem gm_pollCands (U : Universe) (tid n : Nat) (w : CandWait) (a : AS) : GMaintains (pollCands U tid n w a) := by
  unfold pollCands
  apply gm_get_bind
  intro s
  cases w with
  | ready => exact gm_pure _ s
  | notStarted =>
    dsimp only
    split
    · exact gm_pure _ s
    · apply gmAt_bind _ _ _ (gm_pollCancel s)
      intro _ s1 _
      split
      · exact gm_pure _ s1
      · unfold logCall
        apply gmAt_bind
        · exact gm_logBoth _ _ (.call true n) rfl (fun _ => rfl) (fun _ => rfl) s1
        · intro _ s2 _
          apply gmAt_bind
          · exact gm_modify _ (fun _ h => ghost_of_view h rfl rfl) s2
          · intro _ s3 _
            apply gmAt_bind
            · exact gm_requestStarted s3
            · intro _ s4 _; exact gm_pure _ s4
  | owner =>
    dsimp only
    split
    · exact gm_bind _ _ (gm_finishCands U n) (fun _ => gm_pure _) s
    · exact gm_pure _ s
  | listener =>
    dsimp only
    split
    · exact gm_pure _ s
    · exact gm_pure _ s

attribute [irreducible] GMaintains

/-! ### automation (as in `LogSpec.lean`) -/

syntax "gs_lemma" : tactic
macro_rules | `(tactic| gs_lemma) => `(tactic| fail "no GMaintains lemma applies")

macro "gs_step" : tactic => `(tactic| first
  | gs_lemma
  | with_reducible exact gm_pure _
  | with_reducible exact gm_get
  | with_reducible exact gm_panic _
  | with_reducible exact gm_throw _
  | with_reducible exact gm_pollCancel
  | with_reducible exact gm_requestStarted
  | with_reducible exact gm_getCandidates _ _
  | with_reducible exact gm_getDeps _ _
  | with_reducible exact gm_startDeps _
  | with_reducible exact gm_finishDeps _
  | with_reducible exact gm_finishCands _ _
  | with_reducible exact gm_pollCands _ _ _ _ _
  | with_reducible assumption
  | ((with_reducible apply gm_modify); intro _ h; first | exact ghost_of_view h rfl rfl | (split <;> exact ghost_of_view h rfl rfl))
  | ((with_reducible apply gm_forIn); intro _ _)
  | with_reducible apply gm_bind
  | intro _
  | split
  | dsimp only)

macro "gs" : tactic => `(tactic| repeat gs_step)
macro "gs_ih" ih:ident : tactic => `(tactic| repeat (first | (with_reducible apply $ih) | gs_step))

macro "gs_at" : tactic => `(tactic| repeat (first
  | exact (gm_pure _).at _
  | exact (gm_panic _).at _
  | exact (gm_throw _).at _
  | (apply gmAt_set_bind
     · intro h; exact ghost_of_view h rfl rfl
     · gs)
  | split
  | dsimp only))

theorem gm_emit (e : Ev) : GMaintains (emit e) := gm_modify _ (fun _ h => ghost_of_view h rfl rfl)
macro_rules | `(tactic| gs_lemma) => `(tactic| with_reducible exact gm_emit _)
theorem gm_setWatchList (l : Lit) (cs : List Nat) : GMaintains (setWatchList l cs) :=
  gm_modify _ (fun _ h => ghost_of_view h rfl rfl)
macro_rules | `(tactic| gs_lemma) => `(tactic| with_reducible exact gm_setWatchList _ _)

theorem gm_internSolvable (sv : Nat) : GMaintains (internSolvable sv) := by
  unfold internSolvable
  apply gm_get_bind
  intro s
  gs_at
macro_rules | `(tactic| gs_lemma) => `(tactic| with_reducible exact gm_internSolvable _)

theorem gm_internSoR (sid : SoR) : GMaintains (internSoR sid) := by
  cases sid with
  | none => exact gm_pure _
  | some sv => exact gm_internSolvable sv
macro_rules | `(tactic| gs_lemma) => `(tactic| with_reducible exact gm_internSoR _)

theorem gm_allocForbidVar (name : Nat) : GMaintains (allocForbidVar name) := by
  unfold allocForbidVar
  apply gm_get_bind
  intro s
  gs_at
macro_rules | `(tactic| gs_lemma) => `(tactic| with_reducible exact gm_allocForbidVar _)

theorem gm_allocClause (k : Kind) (w : Option (Lit × Lit)) : GMaintains (allocClause k w) := by
  unfold allocClause
  gs
macro_rules | `(tactic| gs_lemma) => `(tactic| with_reducible exact gm_allocClause _ _)

theorem gm_startWatching (id : Nat) : GMaintains (startWatching id) := by
  unfold startWatching
  gs
macro_rules | `(tactic| gs_lemma) => `(tactic| with_reducible exact gm_startWatching _)

theorem gm_tryAdd (v : Nat) (val : Bool) (reason level : Nat) : GMaintains (tryAdd v val reason level) := by
  unfold tryAdd
  gs
macro_rules | `(tactic| gs_lemma) => `(tactic| with_reducible exact gm_tryAdd _ _ _ _)

theorem gm_undoLast : GMaintains undoLast := by
  unfold undoLast
  apply gm_get_bind
  intro s
  gs_at
macro_rules | `(tactic| gs_lemma) => `(tactic| with_reducible exact gm_undoLast)

theorem gm_undoUntil_loop (n level : Nat) : GMaintains (undoUntil.loop level n) := by
  induction n with
  | zero => unfold undoUntil.loop; exact gm_pure _
  | succ n ih =>
    unfold undoUntil.loop
    gs
macro_rules | `(tactic| gs_lemma) => `(tactic| with_reducible exact gm_undoUntil_loop _ _)

theorem gm_undoUntil (level : Nat) : GMaintains (undoUntil level) := by
  unfold undoUntil
  gs
macro_rules | `(tactic| gs_lemma) => `(tactic| with_reducible exact gm_undoUntil _)

theorem gm_nextUnpropagated : GMaintains nextUnpropagated := by
  unfold nextUnpropagated
  apply gm_get_bind
  intro s
  gs_at
macro_rules | `(tactic| gs_lemma) => `(tactic| with_reducible exact gm_nextUnpropagated)

theorem gm_getMatching (U : Universe) (vs : Nat) : GMaintains (getMatching U vs) := by
  unfold getMatching
  gs
macro_rules | `(tactic| gs_lemma) => `(tactic| with_reducible exact gm_getMatching _ _)

theorem gm_getNonMatching (U : Universe) (vs : Nat) : GMaintains (getNonMatching U vs) := by
  unfold getNonMatching
  gs
macro_rules | `(tactic| gs_lemma) => `(tactic| with_reducible exact gm_getNonMatching _ _)

theorem gm_getSortedVs (U : Universe) (vs : Nat) : GMaintains (getSortedVs U vs) := by
  unfold getSortedVs
  gs
macro_rules | `(tactic| gs_lemma) => `(tactic| with_reducible exact gm_getSortedVs _ _)

/-! ### the encoder (synchronous) -/

theorem gm_queueSolvable (sid : SoR) : GMaintains (queueSolvable sid) := by
  unfold queueSolvable
  apply gm_get_bind
  intro s
  gs_at
macro_rules | `(tactic| gs_lemma) => `(tactic| with_reducible exact gm_queueSolvable _)

theorem gm_queuePackage (n : Nat) : GMaintains (queuePackage n) := by
  unfold queuePackage
  apply gm_get_bind
  intro s
  gs_at
macro_rules | `(tactic| gs_lemma) => `(tactic| with_reducible exact gm_queuePackage _)

theorem gm_pushTask (t : Task) : GMaintains (pushTask t) := gm_modify _ (fun _ h => ghost_of_view h rfl rfl)
macro_rules | `(tactic| gs_lemma) => `(tactic| with_reducible exact gm_pushTask _)

theorem gm_addExclusionClause (sid : SoR) (reason : Nat) : GMaintains (addExclusionClause sid reason) := by
  unfold addExclusionClause
  gs
macro_rules | `(tactic| gs_lemma) => `(tactic| with_reducible exact gm_addExclusionClause _ _)

theorem gm_addForbidMultiple (U : Universe) (c v : Nat) : GMaintains (addForbidMultiple U c v) := by
  unfold addForbidMultiple
  gs
macro_rules | `(tactic| gs_lemma) => `(tactic| with_reducible exact gm_addForbidMultiple _ _ _)

theorem gm_onDependencies (U : Universe) (P : Problem) (sid : SoR) (d : Deps) : GMaintains (onDependencies U P sid d) := by
  unfold onDependencies
  gs
macro_rules | `(tactic| gs_lemma) => `(tactic| with_reducible exact gm_onDependencies _ _ _ _)

theorem gm_onCandidates (name : Nat) (p : Pkg) : GMaintains (onCandidates name p) := by
  unfold onCandidates
  gs
macro_rules | `(tactic| gs_lemma) => `(tactic| with_reducible exact gm_onCandidates _ _)

theorem gm_onRequirementCandidates (U : Universe) (sid : SoR) (r : Req) (cs : List (List Nat)) :
    GMaintains (onRequirementCandidates U sid r cs) := by
  unfold onRequirementCandidates
  gs
macro_rules | `(tactic| gs_lemma) => `(tactic| with_reducible exact gm_onRequirementCandidates _ _ _ _)

theorem gm_onConstraintCandidates (sid : SoR) (vs : Nat) (cs : List Nat) : GMaintains (onConstraintCandidates sid vs cs) := by
  unfold onConstraintCandidates
  gs
macro_rules | `(tactic| gs_lemma) => `(tactic| with_reducible exact gm_onConstraintCandidates _ _ _)

theorem gm_runTask (U : Universe) (P : Problem) (t : Task) : GMaintains (runTask U P t) := by
  cases t with
  | deps sid =>
    cases sid with
    | none => unfold runTask; gs
    | some sv => unfold runTask; gs
  | pkg n => unfold runTask; gs
  | req sid r => unfold runTask; gs
  | cons sid vs => unfold runTask; gs
macro_rules | `(tactic| gs_lemma) => `(tactic| with_reducible exact gm_runTask _ _ _)

theorem gm_encodeSync_loop (U : Universe) (P : Problem) (n : Nat) : GMaintains (encodeSync.loop U P n) := by
  induction n with
  | zero => unfold encodeSync.loop; exact gm_throw _
  | succ n ih =>
    unfold encodeSync.loop
    apply gm_get_bind
    intro s
    gs_at
macro_rules | `(tactic| gs_lemma) => `(tactic| with_reducible exact gm_encodeSync_loop _ _ _)

theorem gm_encodeSync (U : Universe) (P : Problem) (sv : List SoR) (fuel : Nat) : GMaintains (encodeSync U P sv fuel) := by
  unfold encodeSync
  gs
macro_rules | `(tactic| gs_lemma) => `(tactic| with_reducible exact gm_encodeSync _ _ _ _)


/-! ### the encoder with an asynchronous provider -/

theorem gm_finishChild (sorted : Bool) (c : Child) (a : AS) : GMaintains (finishChild sorted c a) := by
  unfold finishChild
  gs
macro_rules | `(tactic| gs_lemma) => `(tactic| with_reducible exact gm_finishChild _ _ _)

theorem gm_sortStage (U : Universe) (tid : Nat) (g : Bool) (c : Child) (a : AS) (e : Bool) :
    GMaintains (sortStage U tid g c a e) := by
  unfold sortStage
  gs
macro_rules | `(tactic| gs_lemma) => `(tactic| with_reducible exact gm_sortStage _ _ _ _ _ _)

theorem gm_filterStage (U : Universe) (tid : Nat) (g sorted : Bool) (c : Child) (a : AS) (e : Bool) :
    GMaintains (filterStage U tid g sorted c a e) := by
  unfold filterStage
  gs
macro_rules | `(tactic| gs_lemma) => `(tactic| with_reducible exact gm_filterStage _ _ _ _ _ _ _)

theorem gm_pollChild (U : Universe) (tid : Nat) (sorted : Bool) (c : Child) (a : AS) :
    GMaintains (pollChild U tid sorted c a) := by
  unfold pollChild
  gs
macro_rules | `(tactic| gs_lemma) => `(tactic| with_reducible exact gm_pollChild _ _ _ _ _)

theorem gm_pollChildren (U : Universe) (tid : Nat) (sorted : Bool) (cs : List Child) (a : AS) :
    GMaintains (pollChildren U tid sorted cs a) := by
  induction cs generalizing a with
  | nil => unfold pollChildren; exact gm_pure _
  | cons c cs ih =>
    unfold pollChildren
    apply gm_bind _ _ (gm_pollChild U tid sorted c a)
    intro r
    apply gm_bind _ _ (ih _)
    intro r2
    exact gm_pure _
macro_rules | `(tactic| gs_lemma) => `(tactic| with_reducible exact gm_pollChildren _ _ _ _ _)

theorem gm_pollTask (U : Universe) (P : Problem) (t : ATask) (a : AS) : GMaintains (pollTask U P t a) := by
  unfold pollTask
  gs
macro_rules | `(tactic| gs_lemma) => `(tactic| with_reducible exact gm_pollTask _ _ _ _)

theorem gm_runCallback (U : Universe) (P : Problem) (r : TaskResult) : GMaintains (runCallback U P r) := by
  cases r with
  | deps sid d => exact gm_onDependencies U P sid d
  | cands n p => exact gm_onCandidates n p
  | req sid r lists => exact gm_onRequirementCandidates U sid r lists
  | cons sid vs l => exact gm_onConstraintCandidates sid vs l
macro_rules | `(tactic| gs_lemma) => `(tactic| with_reducible exact gm_runCallback _ _ _)

theorem gm_adoptPushed (U : Universe) (a : AS) : GMaintains (adoptPushed U a) := by
  unfold adoptPushed
  apply gm_get_bind
  intro s
  apply gmAt_set_bind
  · intro h; exact ghost_of_view h rfl rfl
  · exact gm_pure _
macro_rules | `(tactic| gs_lemma) => `(tactic| with_reducible exact gm_adoptPushed _ _)

theorem gm_executorTurn (a : AS) : GMaintains (executorTurn a) := by
  unfold executorTurn
  dsimp only
  apply gm_bind
  · apply gm_modify; intro _ h; exact ghost_of_view h rfl rfl
  · intro _
    apply gm_get_bind
    intro s
    gs_at
macro_rules | `(tactic| gs_lemma) => `(tactic| with_reducible exact gm_executorTurn _)

theorem gm_asyncStep (U : Universe) (P : Problem) (a : AS) : GMaintains (asyncStep U P a) := by
  unfold asyncStep
  gs
macro_rules | `(tactic| gs_lemma) => `(tactic| with_reducible exact gm_asyncStep _ _ _)

theorem gm_encodeAsync_loop (U : Universe) (P : Problem) (n : Nat) (a : AS) : GMaintains (encodeAsync.loop U P n a) := by
  induction n generalizing a with
  | zero => unfold encodeAsync.loop; exact gm_throw _
  | succ n ih =>
    unfold encodeAsync.loop
    apply gm_bind _ _ (gm_asyncStep U P a)
    intro r
    split
    · exact gm_pure _
    · exact ih _
macro_rules | `(tactic| gs_lemma) => `(tactic| with_reducible exact gm_encodeAsync_loop _ _ _ _)

theorem gm_encodeAsync (U : Universe) (P : Problem) (sv : List SoR) (fuel : Nat) : GMaintains (encodeAsync U P sv fuel) := by
  unfold encodeAsync
  gs
macro_rules | `(tactic| gs_lemma) => `(tactic| with_reducible exact gm_encodeAsync _ _ _ _)

theorem gm_encode (U : Universe) (P : Problem) (sv : List SoR) (fuel : Nat) : GMaintains (encode U P sv fuel) := by
  unfold encode
  gs
macro_rules | `(tactic| gs_lemma) => `(tactic| with_reducible exact gm_encode _ _ _ _)

/-! ### propagation, decisions, conflict analysis, the solver loop -/

theorem gm_decideAssertions (level : Nat) : GMaintains (decideAssertions level) := by
  unfold decideAssertions
  gs
macro_rules | `(tactic| gs_lemma) => `(tactic| with_reducible exact gm_decideAssertions _)

theorem gm_decideLearned (level : Nat) : GMaintains (decideLearned level) := by
  unfold decideLearned
  gs
macro_rules | `(tactic| gs_lemma) => `(tactic| with_reducible exact gm_decideLearned _)

theorem gm_propagate_inner (level : Nat) (fl : Lit) (l : List Nat) : GMaintains (propagate.outer.inner level fl l) := by
  induction l with
  | nil => unfold propagate.outer.inner; exact gm_pure _
  | cons cid rest ih =>
    unfold propagate.outer.inner
    gs
macro_rules | `(tactic| gs_lemma) => `(tactic| with_reducible exact gm_propagate_inner _ _ _)

theorem gm_propagate_outer (level fuel : Nat) : GMaintains (propagate.outer level fuel) := by
  induction fuel with
  | zero => unfold propagate.outer; exact gm_throw _
  | succ n ih =>
    unfold propagate.outer
    gs
macro_rules | `(tactic| gs_lemma) => `(tactic| with_reducible exact gm_propagate_outer _ _)

theorem gm_propagate (level fuel : Nat) : GMaintains (propagate level fuel) := by
  unfold propagate
  gs
macro_rules | `(tactic| gs_lemma) => `(tactic| with_reducible exact gm_propagate _ _)

theorem gm_decide (U : Universe) : GMaintains (decide U) := by
  unfold decide
  gs
macro_rules | `(tactic| gs_lemma) => `(tactic| with_reducible exact gm_decide _)

theorem gm_analyzeUnsolvable (cid : Nat) : GMaintains (analyzeUnsolvable cid) := by
  unfold analyzeUnsolvable
  gs
macro_rules | `(tactic| gs_lemma) => `(tactic| with_reducible exact gm_analyzeUnsolvable _)

theorem gm_analyze_pop (seen : List Nat) (f : Nat) : GMaintains (analyze.outer.pop seen f) := by
  induction f with
  | zero => unfold analyze.outer.pop; exact gm_throw _
  | succ n ih =>
    unfold analyze.outer.pop
    gs
macro_rules | `(tactic| gs_lemma) => `(tactic| with_reducible exact gm_analyze_pop _ _)

theorem gm_analyze_outer (fuel curLevel conflVar clauseId : Nat) (seen : List Nat) (causes : Nat) (learnt : List Lit)
    (backTo : Nat) (why : List Nat) (first : Bool) :
    GMaintains (analyze.outer fuel curLevel conflVar clauseId seen causes learnt backTo why first) := by
  induction fuel generalizing curLevel conflVar clauseId seen causes learnt backTo why first with
  | zero => unfold analyze.outer; exact gm_throw _
  | succ n ih =>
    unfold analyze.outer
    gs_ih ih
macro_rules | `(tactic| gs_lemma) => `(tactic| with_reducible exact gm_analyze_outer _ _ _ _ _ _ _ _ _ _)

theorem gm_analyze (U : Universe) (level conflVar clauseId fuel : Nat) : GMaintains (analyze U level conflVar clauseId fuel) := by
  unfold analyze
  gs
macro_rules | `(tactic| gs_lemma) => `(tactic| with_reducible exact gm_analyze _ _ _ _ _)

theorem gm_propagateAndLearn_loop (U : Universe) (fuel f level : Nat) : GMaintains (propagateAndLearn.loop U fuel f level) := by
  induction f generalizing level with
  | zero => unfold propagateAndLearn.loop; exact gm_throw _
  | succ n ih =>
    unfold propagateAndLearn.loop
    gs_ih ih
macro_rules | `(tactic| gs_lemma) => `(tactic| with_reducible exact gm_propagateAndLearn_loop _ _ _ _)

theorem gm_propagateAndLearn (U : Universe) (level fuel : Nat) : GMaintains (propagateAndLearn U level fuel) := by
  unfold propagateAndLearn
  gs
macro_rules | `(tactic| gs_lemma) => `(tactic| with_reducible exact gm_propagateAndLearn _ _ _)

theorem gm_resolveDependencies_loop (U : Universe) (fuel f level : Nat) : GMaintains (resolveDependencies.loop U fuel f level) := by
  induction f generalizing level with
  | zero => unfold resolveDependencies.loop; exact gm_throw _
  | succ n ih =>
    unfold resolveDependencies.loop
    gs_ih ih
macro_rules | `(tactic| gs_lemma) => `(tactic| with_reducible exact gm_resolveDependencies_loop _ _ _ _)

theorem gm_resolveDependencies (U : Universe) (level fuel : Nat) : GMaintains (resolveDependencies U level fuel) := by
  unfold resolveDependencies
  gs
macro_rules | `(tactic| gs_lemma) => `(tactic| with_reducible exact gm_resolveDependencies _ _ _)

theorem gm_processUnsolvable (root : SoR) (startLevel cid : Nat) : GMaintains (processUnsolvable root startLevel cid) := by
  unfold processUnsolvable
  gs
macro_rules | `(tactic| gs_lemma) => `(tactic| with_reducible exact gm_processUnsolvable _ _ _)

theorem gm_runSat_loop (U : Universe) (P : Problem) (root : SoR) (fuel startLevel f level : Nat) :
    GMaintains (runSat.loop U P root fuel startLevel f level) := by
  induction f generalizing level with
  | zero => unfold runSat.loop; exact gm_throw _
  | succ n ih =>
    unfold runSat.loop
    gs_ih ih
macro_rules | `(tactic| gs_lemma) => `(tactic| with_reducible exact gm_runSat_loop _ _ _ _ _ _ _)

theorem gm_runSat (U : Universe) (P : Problem) (root : SoR) (fuel : Nat) : GMaintains (runSat U P root fuel) := by
  unfold runSat
  gs
macro_rules | `(tactic| gs_lemma) => `(tactic| with_reducible exact gm_runSat _ _ _ _)

theorem gm_solve (U : Universe) (P : Problem) (fuel : Nat) : GMaintains (solve U P fuel) := by
  unfold solve
  gs



/-- **The call log is the rendering of the structured log after every solve** (sync and async, every state). -/
theorem solveRun_ghost (U : Universe) (P : Problem) (fuel : Nat) (s : S) (h : Ghost s) : Ghost (solveRun U P fuel s).2 := by
  have hm := (gm_solve U P fuel).at s h
  have hrun : (solve U P fuel).run.run s = runM (solve U P fuel) s := rfl
  unfold solveRun
  rw [hrun]
  cases hr : runM (solve U P fuel) s with
  | mk r s' =>
    rw [hr] at hm
    cases r with
    | ok o => cases o <;> exact hm
    | error e => exact hm

theorem history_ghost (U : Universe) (fuel : Nat) (ps : List Problem) (s : S) (h : Ghost s) :
    Ghost (ps.foldl (fun st p => (solveRun U p fuel st).2) s) := by
  induction ps generalizing s with
  | nil => exact h
  | cons p ps ih => exact ih _ (solveRun_ghost U p fuel s h)

end Resolvo.MDet
