import Resolvo.Cache
/-!
# `SolverCache` as a state machine (`src/solver/cache.rs`)

State = what has been fetched so far + the provider call log. Each public method is an
operation returning its answer and the new state. Insert-only maps keep the first value
(`FrozenMap`/`FrozenCopyMap` semantics), so answers never change.
-/
namespace Resolvo.CacheM

inductive Call where
  | cands (n : Nat)        -- get_candidates(n)
  | deps (s : Nat)         -- get_dependencies(s)
  | filter (vs : Nat) (inverse : Bool)
  | sort (vs : Nat)
deriving DecidableEq, Repr, Inhabited

/-- a `get_or_cache_candidates` future that has been polled and is not finished: it either sent the request itself
    (`gateOpen`: the provider has answered, the future has not been polled since) or waits for the request of another future
    (`notified`: that request has ended - answered or abandoned - and the future has not been polled since) -/
inductive Slot where
  | owner (n : Nat) (gateOpen : Bool)
  | waiter (n : Nat) (notified : Bool)
deriving DecidableEq, Repr, Inhabited

def Slot.isOwnerOf (n : Nat) : Slot → Bool
  | .owner m _ => m == n
  | _ => false

/-- the request for `n` has ended: everybody waiting for it is notified -/
def notify (n : Nat) (slots : List (Nat × Slot)) : List (Nat × Slot) :=
  slots.map fun p => match p.2 with
    | .waiter m false => if m == n then (p.1, .waiter m true) else p
    | _ => p

/-- the provider answers the request for `n`: the future that sent it can finish at its next poll -/
def openGate (n : Nat) (slots : List (Nat × Slot)) : List (Nat × Slot) :=
  slots.map fun p => match p.2 with
    | .owner m false => if m == n then (p.1, .owner m true) else p
    | _ => p

structure St where
  fetchedCands : List Nat := []     -- names whose candidates are cached
  fetchedDeps : List Nat := []      -- solvables whose dependencies are cached
  hinted : List Nat := []           -- hint bit-vector (set bits)
  matching : List Nat := []         -- version sets with cached matching list
  nonMatching : List Nat := []
  sorted : List Nat := []           -- version sets with cached sorted list
  sortedUnion : List Nat := []      -- unions with cached sorted list
  inflightDeps : List Nat := []     -- solvables whose `get_dependencies` request has been sent and not yet answered
  slots : List (Nat × Slot) := []   -- the unfinished `get_or_cache_candidates` futures, by the caller's handle
  log : List Call := []
deriving Repr, Inhabited

/-- the in-flight marker of package `n` is set exactly while a future that sent the request for it is alive -/
def St.marker (st : St) (n : Nat) : Bool := st.slots.any fun p => p.2.isOwnerOf n

inductive Op where
  | candidates (n : Nat)
  | matching (vs : Nat)
  | nonMatching (vs : Nat)
  | sorted (r : Req)
  | deps (s : Nat)
  | available (s : Nat)
  -- a `get_or_cache_dependencies` future that is polled once, later dropped or completed (asynchronous provider)
  | depsStart (s : Nat)
  | depsDrop (s : Nat)
  | depsFinish (s : Nat)
  -- `get_or_cache_candidates` futures under the caller's handle `k`: first poll, drop, the provider answers, another poll
  | candStart (n k : Nat)
  | candDrop (k : Nat)
  | candOpen (n : Nat)
  | candPoll (k : Nat)
deriving Repr, Inhabited

inductive Ans where
  | cands (p : Option (List Nat))   -- candidate list (none: unknown package → default/empty)
  | list (l : List Nat)
  | deps (d : Deps)
  | bool (b : Bool)
  | word (w : String)
deriving Repr, Inhabited, DecidableEq

def fetchCands (U : Universe) (st : St) (n : Nat) : St :=
  if st.fetchedCands.contains n then st
  else
    let h := match U.pkg? n with | some p => hintedBy p | none => []
    { st with fetchedCands := n :: st.fetchedCands, hinted := st.hinted ++ h, log := st.log ++ [.cands n] }

/-- the provider's answer is stored (the request itself was logged when it was sent) -/
def storeCands (U : Universe) (st : St) (n : Nat) : St :=
  let h := match U.pkg? n with | some p => hintedBy p | none => []
  { st with fetchedCands := n :: st.fetchedCands, hinted := st.hinted ++ h }

/-- a future for `n` looks at the cache state (its first poll, or a poll after the request it waited for was abandoned):
    an in-flight request is waited for, otherwise the request is sent -/
def candEnter (st : St) (n k : Nat) (others : List (Nat × Slot)) : St × Ans :=
  if st.marker n then ({ st with slots := others ++ [(k, .waiter n false)] }, .word "pending")
  else ({ st with slots := others ++ [(k, .owner n false)], log := st.log ++ [.cands n] }, .word "pending")

def fetchMatching (U : Universe) (st : St) (vs : Nat) : St :=
  if st.matching.contains vs then st
  else
    let st := fetchCands U st (U.vsName vs)
    { st with matching := vs :: st.matching, log := st.log ++ [.filter vs false] }

def fetchNonMatching (U : Universe) (st : St) (vs : Nat) : St :=
  if st.nonMatching.contains vs then st
  else
    let st := fetchCands U st (U.vsName vs)
    { st with nonMatching := vs :: st.nonMatching, log := st.log ++ [.filter vs true] }

def fetchDeps (st : St) (s : Nat) : St :=
  if st.fetchedDeps.contains s then st
  else { st with fetchedDeps := s :: st.fetchedDeps, log := st.log ++ [.deps s] }

/-- `peek`: the provider's `sort_candidates` calls back into the cache for the dependencies of
    every candidate it is asked to sort (as real providers do). -/
def fetchSortedVs (U : Universe) (peek : Bool) (st : St) (vs : Nat) : St :=
  if st.sorted.contains vs then st
  else
    let st := fetchMatching U st vs
    let st := fetchCands U st (U.vsName vs)
    let st := { st with log := st.log ++ [.sort vs] }
    let st := if peek then (U.candsOf vs).foldl fetchDeps st else st
    { st with sorted := vs :: st.sorted }

def step (U : Universe) (peek : Bool) (st : St) : Op → St × Ans
  | .candidates n => (fetchCands U st n, .cands ((U.pkg? n).map (·.cands)))
  | .matching vs => (fetchMatching U st vs, .list (U.candsOf vs))
  | .nonMatching vs => (fetchNonMatching U st vs, .list (U.nonMatching vs))
  | .sorted (.single vs) => (fetchSortedVs U peek st vs, .list (sortedCands U vs))
  | .sorted (.union u) =>
    if st.sortedUnion.contains u then (st, .list (reqSorted U (.union u)))
    else
      let st := (U.unionOf u).foldl (fetchSortedVs U peek) st
      ({ st with sortedUnion := u :: st.sortedUnion }, .list (reqSorted U (.union u)))
  | .deps s => (fetchDeps st s, .deps (U.deps s))
  | .available s => (st, .bool (st.fetchedDeps.contains s || st.hinted.contains s))
  -- the first poll of the future: answered from the cache, or the request goes out and the future parks on it
  | .depsStart s =>
    if st.fetchedDeps.contains s then (st, .word "ready")
    else if st.inflightDeps.contains s then (st, .word "busy")
    else ({ st with inflightDeps := s :: st.inflightDeps, log := st.log ++ [.deps s] }, .word "pending")
  -- the future is dropped before the provider answered: the in-flight marker goes away, nothing is cached
  | .depsDrop s =>
    if st.inflightDeps.contains s then ({ st with inflightDeps := st.inflightDeps.erase s }, .word "dropped") else (st, .word "none")
  -- the provider answers and the future runs to completion: the answer is cached
  | .depsFinish s =>
    if st.inflightDeps.contains s then
      ({ st with inflightDeps := st.inflightDeps.erase s, fetchedDeps := s :: st.fetchedDeps }, .word "finished")
    else (st, .word "none")
  | .candStart n k =>
    if (st.slots.lookup k).isSome then (st, .word "busy")
    else if st.fetchedCands.contains n then (st, .word "ready")
    else candEnter st n k st.slots
  -- an abandoned request takes its marker along and notifies its waiters; an abandoned waiter changes nothing else
  | .candDrop k =>
    match st.slots.lookup k with
    | none => (st, .word "none")
    | some (.owner n _) => ({ st with slots := notify n (st.slots.filter (·.1 != k)) }, .word "dropped")
    | some (.waiter _ _) => ({ st with slots := st.slots.filter (·.1 != k) }, .word "dropped")
  | .candOpen n =>
    ({ st with slots := openGate n st.slots }, .word "ok")
  | .candPoll k =>
    match st.slots.lookup k with
    | none => (st, .word "none")
    | some (.owner _ false) => (st, .word "pending")
    | some (.owner n true) =>
      ({ storeCands U st n with slots := notify n (st.slots.filter (·.1 != k)) }, .word "ready")
    | some (.waiter _ false) => (st, .word "pending")
    | some (.waiter n true) =>
      let others := st.slots.filter (·.1 != k)
      if st.fetchedCands.contains n then ({ st with slots := others }, .word "ready")
      else candEnter { st with slots := others } n k others

def run (U : Universe) (peek : Bool) (st : St) (ops : List Op) : St × List Ans :=
  ops.foldl (fun (acc : St × List Ans) op => let (st', a) := step U peek acc.1 op; (st', acc.2 ++ [a])) (st, [])

end Resolvo.CacheM
