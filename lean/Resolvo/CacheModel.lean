import Resolvo.Cache
/-!
# `SolverCache` as a state machine (`src/solver/cache.rs`)

State = what has been fetched so far + the provider call log. Each public method is an
operation returning its answer and the new state. Insert-only maps keep the first value
(`FrozenMap`/`FrozenCopyMap` semantics), so answers never change.
-/
namespace Resolvo.CacheM

inductive Call where
  | cands (n : Nat)        -- get_candidates(n)
  | deps (s : Nat)         -- get_dependencies(s)
  | filter (vs : Nat) (inverse : Bool)
  | sort (vs : Nat)
deriving DecidableEq, Repr, Inhabited

structure St where
  fetchedCands : List Nat := []     -- names whose candidates are cached
  fetchedDeps : List Nat := []      -- solvables whose dependencies are cached
  hinted : List Nat := []           -- hint bit-vector (set bits)
  matching : List Nat := []         -- version sets with cached matching list
  nonMatching : List Nat := []
  sorted : List Nat := []           -- version sets with cached sorted list
  sortedUnion : List Nat := []      -- unions with cached sorted list
  inflightDeps : List Nat := []     -- solvables whose `get_dependencies` request has been sent and not yet answered
  log : List Call := []
deriving Repr, Inhabited

inductive Op where
  | candidates (n : Nat)
  | matching (vs : Nat)
  | nonMatching (vs : Nat)
  | sorted (r : Req)
  | deps (s : Nat)
  | available (s : Nat)
  -- a `get_or_cache_dependencies` future that is polled once, later dropped or completed (asynchronous provider)
  | depsStart (s : Nat)
  | depsDrop (s : Nat)
  | depsFinish (s : Nat)
deriving Repr, Inhabited

inductive Ans where
  | cands (p : Option (List Nat))   -- candidate list (none: unknown package → default/empty)
  | list (l : List Nat)
  | deps (d : Deps)
  | bool (b : Bool)
  | word (w : String)
deriving Repr, Inhabited, DecidableEq

def fetchCands (U : Universe) (st : St) (n : Nat) : St :=
  if st.fetchedCands.contains n then st
  else
    let h := match U.pkg? n with | some p => hintedBy p | none => []
    { st with fetchedCands := n :: st.fetchedCands, hinted := st.hinted ++ h, log := st.log ++ [.cands n] }

def fetchMatching (U : Universe) (st : St) (vs : Nat) : St :=
  if st.matching.contains vs then st
  else
    let st := fetchCands U st (U.vsName vs)
    { st with matching := vs :: st.matching, log := st.log ++ [.filter vs false] }

def fetchNonMatching (U : Universe) (st : St) (vs : Nat) : St :=
  if st.nonMatching.contains vs then st
  else
    let st := fetchCands U st (U.vsName vs)
    { st with nonMatching := vs :: st.nonMatching, log := st.log ++ [.filter vs true] }

def fetchDeps (st : St) (s : Nat) : St :=
  if st.fetchedDeps.contains s then st
  else { st with fetchedDeps := s :: st.fetchedDeps, log := st.log ++ [.deps s] }

/-- `peek`: the provider's `sort_candidates` calls back into the cache for the dependencies of
    every candidate it is asked to sort (as real providers do). -/
def fetchSortedVs (U : Universe) (peek : Bool) (st : St) (vs : Nat) : St :=
  if st.sorted.contains vs then st
  else
    let st := fetchMatching U st vs
    let st := fetchCands U st (U.vsName vs)
    let st := { st with log := st.log ++ [.sort vs] }
    let st := if peek then (U.candsOf vs).foldl fetchDeps st else st
    { st with sorted := vs :: st.sorted }

def step (U : Universe) (peek : Bool) (st : St) : Op → St × Ans
  | .candidates n => (fetchCands U st n, .cands ((U.pkg? n).map (·.cands)))
  | .matching vs => (fetchMatching U st vs, .list (U.candsOf vs))
  | .nonMatching vs => (fetchNonMatching U st vs, .list (U.nonMatching vs))
  | .sorted (.single vs) => (fetchSortedVs U peek st vs, .list (sortedCands U vs))
  | .sorted (.union u) =>
    if st.sortedUnion.contains u then (st, .list (reqSorted U (.union u)))
    else
      let st := (U.unionOf u).foldl (fetchSortedVs U peek) st
      ({ st with sortedUnion := u :: st.sortedUnion }, .list (reqSorted U (.union u)))
  | .deps s => (fetchDeps st s, .deps (U.deps s))
  | .available s => (st, .bool (st.fetchedDeps.contains s || st.hinted.contains s))
  -- the first poll of the future: answered from the cache, or the request goes out and the future parks on it
  | .depsStart s =>
    if st.fetchedDeps.contains s then (st, .word "ready")
    else if st.inflightDeps.contains s then (st, .word "busy")
    else ({ st with inflightDeps := s :: st.inflightDeps, log := st.log ++ [.deps s] }, .word "pending")
  -- the future is dropped before the provider answered: the in-flight marker goes away, nothing is cached
  | .depsDrop s =>
    if st.inflightDeps.contains s then ({ st with inflightDeps := st.inflightDeps.erase s }, .word "dropped") else (st, .word "none")
  -- the provider answers and the future runs to completion: the answer is cached
  | .depsFinish s =>
    if st.inflightDeps.contains s then
      ({ st with inflightDeps := st.inflightDeps.erase s, fetchedDeps := s :: st.fetchedDeps }, .word "finished")
    else (st, .word "none")

def run (U : Universe) (peek : Bool) (st : St) (ops : List Op) : St × List Ans :=
  ops.foldl (fun (acc : St × List Ans) op => let (st', a) := step U peek acc.1 op; (st', acc.2 ++ [a])) (st, [])

end Resolvo.CacheM
