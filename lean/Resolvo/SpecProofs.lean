import Resolvo.Spec
namespace Resolvo

theorem depsMetB_iff (U : Universe) (sel : List Nat) (reqs : List Req) (cons : List Nat) :
    depsMetB U sel reqs cons = true ↔ DepsMet U sel reqs cons := by
  unfold depsMetB DepsMet
  simp only [Bool.and_eq_true, List.all_eq_true, List.any_eq_true, List.contains_iff_mem,
    Bool.not_eq_true', decide_eq_false_iff_not]
  constructor
  · rintro ⟨h1, h2⟩
    refine ⟨fun r hr => ?_, fun vs hvs t ht => ?_⟩
    · obtain ⟨c, hc, hcs⟩ := h1 r hr; exact ⟨c, hc, hcs⟩
    · have := h2 vs hvs t ht
      intro hm
      rw [List.contains_iff_mem.mpr hm] at this; cases this
  · rintro ⟨h1, h2⟩
    refine ⟨fun r hr => ?_, fun vs hvs t ht => ?_⟩
    · obtain ⟨c, hc, hcs⟩ := h1 r hr; exact ⟨c, hc, hcs⟩
    · have := h2 vs hvs t ht
      cases h : sel.contains t with
      | false => rfl
      | true => exact absurd (List.contains_iff_mem.mp h) this

/-- The Boolean checker decides `Valid`. -/
theorem validB_iff (U : Universe) (P : Problem) (sel exempt : List Nat) :
    validB U P sel exempt = true ↔ Valid U P sel exempt := by
  unfold validB Valid
  simp only [Bool.and_eq_true, depsMetB_iff]
  constructor
  · rintro ⟨⟨⟨h1, h2⟩, h3⟩, h4⟩
    refine ⟨h1, ?_, ?_, ?_⟩
    · intro s hs
      have := List.all_eq_true.mp h2 s hs
      cases hd : U.deps s with
      | known reqs cons => rw [hd] at this; exact ⟨reqs, cons, rfl, (depsMetB_iff _ _ _ _).mp this⟩
      | unknown r => rw [hd] at this; cases this
    · intro s hs hne
      have := List.all_eq_true.mp h3 s hs
      simp only [Bool.or_eq_true, Bool.and_eq_true, Bool.not_eq_true'] at this
      rcases this with h | h
      · exact absurd (List.contains_iff_mem.mp h) hne
      · exact h
    · intro s hs t ht hn
      have := List.all_eq_true.mp (List.all_eq_true.mp h4 s hs) t ht
      simp only [Bool.or_eq_true, bne_iff_ne, ne_eq, beq_iff_eq] at this
      rcases this with h | h
      · exact absurd hn h
      · exact h
  · rintro ⟨h1, h2, h3, h4⟩
    refine ⟨⟨⟨h1, ?_⟩, ?_⟩, ?_⟩
    · apply List.all_eq_true.mpr
      intro s hs
      obtain ⟨reqs, cons, hd, hm⟩ := h2 s hs
      rw [hd]; exact (depsMetB_iff _ _ _ _).mpr hm
    · apply List.all_eq_true.mpr
      intro s hs
      simp only [Bool.or_eq_true, Bool.and_eq_true, Bool.not_eq_true']
      by_cases he : s ∈ exempt
      · exact Or.inl (List.contains_iff_mem.mpr he)
      · exact Or.inr (h3 s hs he)
    · apply List.all_eq_true.mpr
      intro s hs
      apply List.all_eq_true.mpr
      intro t ht
      simp only [Bool.or_eq_true, bne_iff_ne, ne_eq, beq_iff_eq]
      by_cases hn : U.nameOf s = U.nameOf t
      · exact Or.inr (h4 s hs t ht hn)
      · exact Or.inl hn

end Resolvo
