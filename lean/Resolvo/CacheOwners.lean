import Resolvo.CacheModel
/-!
# At most one request per package is in flight (`get_or_cache_candidates`, every history)

Invariant of the cache state machine over every sequence of operations: for every package at most one live future has sent
the `get_candidates` request (is an *owner*); all other live futures for the package wait for it.
-/
namespace Resolvo.CacheM

def owners (n : Nat) (slots : List (Nat × Slot)) : Nat := slots.countP (fun p => p.2.isOwnerOf n)

def OwnerUnique (st : St) : Prop := ∀ n, owners n st.slots ≤ 1

theorem owners_zero_of_marker {st : St} {n : Nat} (h : ¬ st.marker n = true) : owners n st.slots = 0 := by
  unfold owners
  rw [List.countP_eq_zero]
  intro p hp hq
  exact h (List.any_eq_true.mpr ⟨p, hp, hq⟩)

theorem owners_filter_le (n k : Nat) (slots : List (Nat × Slot)) : owners n (slots.filter (·.1 != k)) ≤ owners n slots := by
  unfold owners
  rw [List.countP_filter]
  exact List.countP_mono_left (fun p _ h => by simp only [Bool.and_eq_true] at h; exact h.1)

theorem owners_notify (n m : Nat) (slots : List (Nat × Slot)) : owners n (notify m slots) = owners n slots := by
  unfold owners notify
  rw [List.countP_map]
  congr 1
  funext p
  simp only [Function.comp]
  split
  · next m' h => split <;> simp [Slot.isOwnerOf, h]
  · rfl

theorem owners_open (n m : Nat) (slots : List (Nat × Slot)) : owners n (openGate m slots) = owners n slots := by
  unfold owners openGate
  rw [List.countP_map]
  congr 1
  funext p
  simp only [Function.comp]
  split
  · next m' h => split <;> simp [Slot.isOwnerOf, h]
  · rfl

theorem owners_append_waiter (n m k : Nat) (b : Bool) (slots : List (Nat × Slot)) :
    owners n (slots ++ [(k, .waiter m b)]) = owners n slots := by
  unfold owners; simp [List.countP_append, Slot.isOwnerOf]

theorem owners_append_owner (n m k : Nat) (b : Bool) (slots : List (Nat × Slot)) :
    owners n (slots ++ [(k, .owner m b)]) = owners n slots + (if m == n then 1 else 0) := by
  unfold owners; simp only [List.countP_append, List.countP_singleton, Slot.isOwnerOf]

theorem candEnter_unique (st : St) (n k : Nat) (others : List (Nat × Slot)) (hs : st.slots = others)
    (h : OwnerUnique st) : OwnerUnique (candEnter st n k others).1 := by
  unfold candEnter
  intro m
  split
  · show owners m (others ++ [(k, .waiter n false)]) ≤ 1
    rw [owners_append_waiter, ← hs]; exact h m
  · next hm =>
    show owners m (others ++ [(k, .owner n false)]) ≤ 1
    rw [owners_append_owner, ← hs]
    by_cases hnm : (n == m) = true
    · have : n = m := by simpa using hnm
      subst this
      rw [owners_zero_of_marker hm]; simp
    · simp only [hnm, Bool.false_eq_true, if_false, Nat.add_zero]; exact h m

theorem fetchCands_slots (U : Universe) (st : St) (n : Nat) : (fetchCands U st n).slots = st.slots := by
  unfold fetchCands; split <;> rfl
theorem fetchMatching_slots (U : Universe) (st : St) (v : Nat) : (fetchMatching U st v).slots = st.slots := by
  unfold fetchMatching; split
  · rfl
  · exact fetchCands_slots U st _
theorem fetchNonMatching_slots (U : Universe) (st : St) (v : Nat) : (fetchNonMatching U st v).slots = st.slots := by
  unfold fetchNonMatching; split
  · rfl
  · exact fetchCands_slots U st _
theorem fetchDeps_slots (st : St) (s : Nat) : (fetchDeps st s).slots = st.slots := by
  unfold fetchDeps; split <;> rfl
theorem foldl_slots {α : Type} (f : St → α → St) (hf : ∀ st a, (f st a).slots = st.slots) (l : List α) (st : St) :
    (l.foldl f st).slots = st.slots := by
  induction l generalizing st with
  | nil => rfl
  | cons a l ih => rw [List.foldl_cons, ih, hf]
theorem fetchSortedVs_slots (U : Universe) (peek : Bool) (st : St) (v : Nat) : (fetchSortedVs U peek st v).slots = st.slots := by
  unfold fetchSortedVs; split
  · rfl
  · dsimp only
    split
    · show (List.foldl fetchDeps _ _).slots = _
      rw [foldl_slots fetchDeps fetchDeps_slots]
      show (fetchCands U (fetchMatching U st v) _).slots = _
      rw [fetchCands_slots, fetchMatching_slots]
    · show (fetchCands U (fetchMatching U st v) _).slots = _
      rw [fetchCands_slots, fetchMatching_slots]

/-- one operation keeps the invariant -/
theorem step_ownerUnique (U : Universe) (peek : Bool) (st : St) (op : Op) (h : OwnerUnique st) :
    OwnerUnique (step U peek st op).1 := by
  have keep : ∀ st' : St, st'.slots = st.slots → OwnerUnique st' := fun st' e n => by rw [e]; exact h n
  cases op with
  | candidates n => exact keep _ (fetchCands_slots U st n)
  | matching vs => exact keep _ (fetchMatching_slots U st vs)
  | nonMatching vs => exact keep _ (fetchNonMatching_slots U st vs)
  | sorted r =>
    cases r with
    | single vs => exact keep _ (fetchSortedVs_slots U peek st vs)
    | union u =>
      simp only [step]; split
      · exact h
      · exact keep _ (foldl_slots _ (fetchSortedVs_slots U peek) _ st)
  | deps s => exact keep _ (fetchDeps_slots st s)
  | available s => exact h
  | depsStart s => simp only [step]; split; exact h; split; exact h; exact keep _ rfl
  | depsDrop s => simp only [step]; split; exact keep _ rfl; exact h
  | depsFinish s => simp only [step]; split; exact keep _ rfl; exact h
  | candStart n k =>
    simp only [step]; split; exact h; split; exact h
    exact candEnter_unique st n k st.slots rfl h
  | candDrop k =>
    simp only [step]; split
    · exact h
    · intro m; show owners m (notify _ _) ≤ 1
      rw [owners_notify]; exact Nat.le_trans (owners_filter_le m k st.slots) (h m)
    · intro m; exact Nat.le_trans (owners_filter_le m k st.slots) (h m)
  | candOpen n => simp only [step]; intro m; show owners m (openGate _ _) ≤ 1; rw [owners_open]; exact h m
  | candPoll k =>
    have hf : OwnerUnique { st with slots := st.slots.filter (·.1 != k) } :=
      fun m => Nat.le_trans (owners_filter_le m k st.slots) (h m)
    simp only [step]; split
    · exact h
    · exact h
    · intro m; show owners m (notify _ _) ≤ 1
      rw [owners_notify]; exact hf m
    · exact h
    · split
      · exact hf
      · exact candEnter_unique _ _ k _ rfl hf

/-- **Every history**: whatever operations are applied to a fresh cache - queries, futures started, polled, answered and
    dropped in any order - at most one `get_candidates` request per package is in flight. -/
theorem run_ownerUnique (U : Universe) (peek : Bool) (ops : List Op) (st : St) (h : OwnerUnique st) :
    OwnerUnique (run U peek st ops).1 := by
  unfold run
  suffices ∀ (acc : St × List Ans), OwnerUnique acc.1 →
      OwnerUnique (ops.foldl (fun (acc : St × List Ans) op => let (st', a) := step U peek acc.1 op; (st', acc.2 ++ [a])) acc).1 from
    this (st, []) h
  induction ops with
  | nil => intro acc ha; exact ha
  | cons op ops ih =>
    intro acc ha
    rw [List.foldl_cons]
    exact ih _ (step_ownerUnique U peek acc.1 op ha)

theorem init_ownerUnique : OwnerUnique {} := fun _ => Nat.zero_le 1

end Resolvo.CacheM
