/-!
# Model of `AtMostOnceTracker::add` (`src/solver/binary_encoding.rs`)

Literal transcription: `variables` (an insertion-ordered set), `helpers`, the
`while variables.len() > (1 << helpers.len()) - 1` loop (fuelled; the fuel is
proved sufficient), clause emission in source order. A clause `(a, b, pos)`
stands for `¬a ∨ (b if pos else ¬b)`. Helper variables are drawn from a
counter `next` that the caller owns (in the solver it is `VariableMap::next_id`,
shared with solvable variables).
-/
namespace Resolvo.Amo



structure FClause where
  a : Nat
  b : Nat
  pos : Bool
deriving DecidableEq, Repr

structure Tracker where
  vars : List Nat := []
  helpers : List Nat := []
deriving Repr

/-- Tracker plus allocator counter plus the clauses emitted so far (oldest first). -/
structure St where
  t : Tracker := {}
  next : Nat
  out : List FClause := []
deriving Repr

/-- `for (idx, var) in variables.iter().enumerate() { alloc_clause(var, helper, (idx & mask) == mask) }` -/
def emitExisting (vars : List Nat) (h : Nat) (bit : Nat) (start : Nat) : List FClause :=
  match vars with
  | [] => []
  | v :: vs => ⟨v, h, start.testBit bit⟩ :: emitExisting vs h bit (start + 1)

/-- `for (bit_idx, helper) in helpers.iter().enumerate() { alloc_clause(variable, helper, ((var_idx >> bit_idx) & 1) == 1) }` -/
def emitNew (v : Nat) (idx : Nat) (helpers : List Nat) (bit : Nat) : List FClause :=
  match helpers with
  | [] => []
  | h :: hs => ⟨v, h, idx.testBit bit⟩ :: emitNew v idx hs (bit + 1)

/-- The `while` loop. -/
def growLoop : Nat → St → St
  | 0, s => s
  | fuel + 1, s =>
    if s.t.vars.length > 2 ^ s.t.helpers.length - 1 then
      let h := s.next
      let bit := s.t.helpers.length
      growLoop fuel { t := { s.t with helpers := s.t.helpers ++ [h] }, next := s.next + 1,
                      out := s.out ++ emitExisting s.t.vars h bit 0 }
    else s

/-- `AtMostOnceTracker::add`. -/
def add (s : St) (v : Nat) : St :=
  if v ∈ s.t.vars then s
  else if s.t.vars = [] then { s with t := { s.t with vars := [v] } }
  else
    let s1 := growLoop (s.t.vars.length + 1) s
    let idx := s1.t.vars.length
    { s1 with t := { s1.t with vars := s1.t.vars ++ [v] },
              out := s1.out ++ emitNew v idx s1.t.helpers 0 }

def addAll (s : St) (vs : List Nat) : St := vs.foldl add s

/-- An assignment satisfies a clause. -/
def sat (σ : Nat → Bool) (c : FClause) : Bool := !σ c.a || (σ c.b == c.pos)

end Resolvo.Amo
