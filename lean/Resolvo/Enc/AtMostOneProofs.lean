import Resolvo.Enc.AtMostOne
namespace Resolvo.Amo

theorem emitExisting_mem (vars : List Nat) (h : Nat) (bit start i : Nat) (x : Nat)
    (hx : vars[i]? = some x) : ⟨x, h, (start + i).testBit bit⟩ ∈ emitExisting vars h bit start := by
  induction vars generalizing start i with
  | nil => simp at hx
  | cons v vs ih =>
    cases i with
    | zero => simp at hx; subst hx; simp [emitExisting]
    | succ j =>
      simp at hx
      have := ih (start + 1) j hx
      simp [emitExisting]
      right
      have e : start + 1 + j = start + (j + 1) := by omega
      rw [e] at this; exact this

theorem emitExisting_exact (vars : List Nat) (h : Nat) (bit start : Nat) (c : FClause)
    (hc : c ∈ emitExisting vars h bit start) :
    ∃ i, vars[i]? = some c.a ∧ c.b = h ∧ c.pos = (start + i).testBit bit := by
  induction vars generalizing start with
  | nil => simp [emitExisting] at hc
  | cons v vs ih =>
    simp only [emitExisting, List.mem_cons] at hc
    rcases hc with rfl | hc
    · exact ⟨0, by simp, rfl, by simp⟩
    · obtain ⟨i, h1, h2, h3⟩ := ih (start + 1) hc
      refine ⟨i + 1, by simpa using h1, h2, ?_⟩
      have e : start + 1 + i = start + (i + 1) := by omega
      rw [← e]; exact h3

theorem emitNew_mem (v : Nat) (idx : Nat) (helpers : List Nat) (bit0 b : Nat) (h : Nat)
    (hh : helpers[b]? = some h) : ⟨v, h, idx.testBit (bit0 + b)⟩ ∈ emitNew v idx helpers bit0 := by
  induction helpers generalizing bit0 b with
  | nil => simp at hh
  | cons g gs ih =>
    cases b with
    | zero => simp at hh; subst hh; simp [emitNew]
    | succ j =>
      simp at hh
      have := ih (bit0 + 1) j hh
      simp [emitNew]; right
      have e : bit0 + 1 + j = bit0 + (j + 1) := by omega
      rw [e] at this; exact this

theorem emitNew_exact (v : Nat) (idx : Nat) (helpers : List Nat) (bit0 : Nat) (c : FClause)
    (hc : c ∈ emitNew v idx helpers bit0) :
    ∃ b, helpers[b]? = some c.b ∧ c.a = v ∧ c.pos = idx.testBit (bit0 + b) := by
  induction helpers generalizing bit0 with
  | nil => simp [emitNew] at hc
  | cons g gs ih =>
    simp only [emitNew, List.mem_cons] at hc
    rcases hc with rfl | hc
    · exact ⟨0, by simp, rfl, by simp⟩
    · obtain ⟨b, h1, h2, h3⟩ := ih (bit0 + 1) hc
      refine ⟨b + 1, by simpa using h1, h2, ?_⟩
      have e : bit0 + 1 + b = bit0 + (b + 1) := by omega
      rw [← e]; exact h3

/-- every (variable index, helper bit) pair has its clause -/
abbrev Cover (s : St) : Prop :=
  ∀ (i b : Nat) (x h : Nat), s.t.vars[i]? = some x → s.t.helpers[b]? = some h →
    ⟨x, h, Nat.testBit i b⟩ ∈ s.out

/-- every emitted clause is one of those -/
abbrev Exact (s : St) : Prop :=
  ∀ c ∈ s.out, ∃ i b, s.t.vars[i]? = some c.a ∧ s.t.helpers[b]? = some c.b ∧ c.pos = Nat.testBit i b

/-- enough helper bits for the indices in use (the loop's exit condition, kept between calls) -/
abbrev Enough (s : St) : Prop := s.t.vars.length ≤ 2 ^ s.t.helpers.length

/-- allocator freshness: helpers are below `next` and strictly increasing (hence distinct) -/
abbrev Fresh (s : St) : Prop := s.t.helpers.Pairwise (· < ·) ∧ ∀ h ∈ s.t.helpers, h < s.next

structure Inv (s : St) : Prop where
  cover : Cover s
  exact : Exact s
  enough : Enough s
  nodup : s.t.vars.Nodup
  fresh : Fresh s
  helpersLe : s.t.helpers.length ≤ s.t.vars.length

theorem growLoop_succ (n : Nat) (s : St) : growLoop (n + 1) s =
    if s.t.vars.length > 2 ^ s.t.helpers.length - 1 then
      growLoop n { t := { s.t with helpers := s.t.helpers ++ [s.next] }, next := s.next + 1,
                   out := s.out ++ emitExisting s.t.vars s.next s.t.helpers.length 0 }
    else s := rfl

theorem growLoop_vars (fuel : Nat) (s : St) : (growLoop fuel s).t.vars = s.t.vars := by
  induction fuel generalizing s with
  | zero => rfl
  | succ n ih => rw [growLoop_succ]; split <;> simp [ih]

theorem growLoop_cover (fuel : Nat) (s : St) (hc : Cover s) : Cover (growLoop fuel s) := by
  induction fuel generalizing s with
  | zero => exact hc
  | succ n ih =>
    rw [growLoop_succ]; split
    · apply ih
      intro i b x h hx hh
      simp only [] at hx hh ⊢
      by_cases hb : b < s.t.helpers.length
      · rw [List.getElem?_append_left hb] at hh
        exact List.mem_append_left _ (hc i b x h hx hh)
      · have hb' : b = s.t.helpers.length := by
          have := (List.getElem?_eq_some_iff.mp hh).1
          simp at this; omega
        subst hb'
        simp at hh; subst hh
        apply List.mem_append_right
        have := emitExisting_mem s.t.vars s.next s.t.helpers.length 0 i x hx
        simpa using this
    · exact hc

theorem growLoop_exact (fuel : Nat) (s : St) (hc : Exact s) : Exact (growLoop fuel s) := by
  induction fuel generalizing s with
  | zero => exact hc
  | succ n ih =>
    rw [growLoop_succ]; split
    · apply ih
      intro c hcm
      simp only [List.mem_append] at hcm
      rcases hcm with hcm | hcm
      · obtain ⟨i, b, h1, h2, h3⟩ := hc c hcm
        refine ⟨i, b, h1, ?_, h3⟩
        have hb := (List.getElem?_eq_some_iff.mp h2).1
        simp only []
        rw [List.getElem?_append_left hb]; exact h2
      · obtain ⟨i, h1, h2, h3⟩ := emitExisting_exact _ _ _ _ _ hcm
        refine ⟨i, s.t.helpers.length, h1, ?_, by simpa using h3⟩
        simp [h2]
    · exact hc

theorem growLoop_fresh (fuel : Nat) (s : St) (hf : Fresh s) : Fresh (growLoop fuel s) := by
  induction fuel generalizing s with
  | zero => exact hf
  | succ n ih =>
    rw [growLoop_succ]; split
    · apply ih
      obtain ⟨h1, h2⟩ := hf
      constructor
      · simp only []
        rw [List.pairwise_append]
        refine ⟨h1, by simp, ?_⟩
        intro a ha b hb
        simp at hb; subst hb
        exact h2 a ha
      · intro h hh
        simp only [List.mem_append, List.mem_singleton] at hh
        rcases hh with hh | rfl
        · have := h2 h hh; show h < s.next + 1; omega
        · show s.next < s.next + 1; omega
    · exact hf

theorem growLoop_helpersLe (fuel : Nat) (s : St) (hl : s.t.helpers.length ≤ s.t.vars.length) :
    (growLoop fuel s).t.helpers.length ≤ (growLoop fuel s).t.vars.length := by
  induction fuel generalizing s with
  | zero => exact hl
  | succ n ih =>
    rw [growLoop_succ]; split
    · next hgt =>
      apply ih
      simp only [List.length_append, List.length_singleton]
      have : s.t.helpers.length < 2 ^ s.t.helpers.length := Nat.lt_two_pow_self
      omega
    · exact hl

/-- The loop's exit condition holds after `vars.length + 1` iterations at the latest. -/
theorem growLoop_enough (fuel : Nat) (s : St) (hf : s.t.vars.length + 1 ≤ fuel + s.t.helpers.length) :
    (growLoop fuel s).t.vars.length ≤ 2 ^ (growLoop fuel s).t.helpers.length - 1 := by
  induction fuel generalizing s with
  | zero =>
    have h1 : s.t.helpers.length < 2 ^ s.t.helpers.length := Nat.lt_two_pow_self
    show s.t.vars.length ≤ 2 ^ s.t.helpers.length - 1
    omega
  | succ n ih =>
    rw [growLoop_succ]; split
    · apply ih
      simp only [List.length_append, List.length_singleton]
      omega
    · next hng => omega

theorem growLoop_out_prefix (fuel : Nat) (s : St) : ∃ l, (growLoop fuel s).out = s.out ++ l := by
  induction fuel generalizing s with
  | zero => exact ⟨[], by simp [growLoop]⟩
  | succ n ih =>
    rw [growLoop_succ]; split
    · obtain ⟨l, hl⟩ := ih (St.mk { s.t with helpers := s.t.helpers ++ [s.next] } (s.next + 1) (s.out ++ emitExisting s.t.vars s.next s.t.helpers.length 0))
      exact ⟨_, by rw [hl, List.append_assoc]⟩
    · exact ⟨[], by simp⟩

theorem growLoop_helpers_prefix (fuel : Nat) (s : St) : ∃ l, (growLoop fuel s).t.helpers = s.t.helpers ++ l := by
  induction fuel generalizing s with
  | zero => exact ⟨[], by simp [growLoop]⟩
  | succ n ih =>
    rw [growLoop_succ]; split
    · obtain ⟨l, hl⟩ := ih (St.mk { s.t with helpers := s.t.helpers ++ [s.next] } (s.next + 1) (s.out ++ emitExisting s.t.vars s.next s.t.helpers.length 0))
      exact ⟨_, by rw [hl, List.append_assoc]⟩
    · exact ⟨[], by simp⟩

theorem inv_init (next : Nat) : Inv { next := next } := by
  refine ⟨?_, ?_, ?_, ?_, ?_, ?_⟩
  · intro i b x h hx; simp at hx
  · intro c hc; simp at hc
  · exact Nat.zero_le _
  · exact List.nodup_nil
  · exact ⟨List.Pairwise.nil, by intro h hh; simp at hh⟩
  · exact Nat.le_refl _

theorem add_inv (s : St) (v : Nat) (hi : Inv s) : Inv (add s v) := by
  unfold add
  split
  · exact hi
  · next hmem =>
    split
    · next hnil =>
      have hh0 : s.t.helpers = [] := by
        have := hi.helpersLe; rw [hnil] at this
        exact List.eq_nil_of_length_eq_zero (by simpa using this)
      refine ⟨?_, ?_, ?_, by simp, hi.fresh, by simp [hh0]⟩
      · intro i b x h hx hh
        simp only [hh0] at hh; simp at hh
      · intro c hc
        obtain ⟨i, b, h1, _, _⟩ := hi.exact c hc
        rw [hnil] at h1; simp at h1
      · show [v].length ≤ _
        simp; exact Nat.one_le_two_pow
    · next hne =>
      have hvars := growLoop_vars (s.t.vars.length + 1) s
      have hcov := growLoop_cover (s.t.vars.length + 1) s hi.cover
      have hex := growLoop_exact (s.t.vars.length + 1) s hi.exact
      have hfr := growLoop_fresh (s.t.vars.length + 1) s hi.fresh
      have hle := growLoop_helpersLe (s.t.vars.length + 1) s hi.helpersLe
      have hen := growLoop_enough (s.t.vars.length + 1) s (by omega)
      generalize growLoop (s.t.vars.length + 1) s = s1 at *
      refine ⟨?_, ?_, ?_, ?_, hfr, ?_⟩
      · intro i b x h hx hh
        simp only [] at hx hh ⊢
        by_cases hlt : i < s1.t.vars.length
        · rw [List.getElem?_append_left hlt] at hx
          exact List.mem_append_left _ (hcov i b x h hx hh)
        · have hieq : i = s1.t.vars.length := by
            have := (List.getElem?_eq_some_iff.mp hx).1
            simp at this; omega
          subst hieq
          simp at hx; subst hx
          apply List.mem_append_right
          have := emitNew_mem v s1.t.vars.length s1.t.helpers 0 b h hh
          simpa using this
      · intro c hc
        simp only [List.mem_append] at hc
        rcases hc with hc | hc
        · obtain ⟨i, b, h1, h2, h3⟩ := hex c hc
          have hlt := (List.getElem?_eq_some_iff.mp h1).1
          exact ⟨i, b, by simp only []; rw [List.getElem?_append_left hlt]; exact h1, h2, h3⟩
        · obtain ⟨b, h1, h2, h3⟩ := emitNew_exact _ _ _ _ _ hc
          refine ⟨s1.t.vars.length, b, ?_, h1, by simpa using h3⟩
          simp [h2]
      · show (s1.t.vars ++ [v]).length ≤ _
        simp only [List.length_append, List.length_singleton]
        have : 1 ≤ 2 ^ s1.t.helpers.length := Nat.one_le_two_pow
        omega
      · show (s1.t.vars ++ [v]).Nodup
        rw [hvars]
        rw [List.nodup_append]
        refine ⟨hi.nodup, by simp, ?_⟩
        intro a ha b hb
        simp at hb; subst hb
        intro e; subst e; exact hmem ha
      · show s1.t.helpers.length ≤ (s1.t.vars ++ [v]).length
        simp only [List.length_append, List.length_singleton]; omega

theorem addAll_inv (s : St) (vs : List Nat) (hi : Inv s) : Inv (addAll s vs) := by
  induction vs generalizing s with
  | nil => exact hi
  | cons v vs ih => exact ih _ (add_inv s v hi)

/-- `add` only appends: earlier variable indices, helper bits and clauses never change. -/
theorem add_stable (s : St) (v : Nat) :
    (∃ l, (add s v).t.vars = s.t.vars ++ l) ∧ (∃ l, (add s v).t.helpers = s.t.helpers ++ l) ∧
    (∃ l, (add s v).out = s.out ++ l) := by
  unfold add
  split
  · exact ⟨⟨[], by simp⟩, ⟨[], by simp⟩, ⟨[], by simp⟩⟩
  · split
    · next hnil => exact ⟨⟨[v], by simp [hnil]⟩, ⟨[], by simp⟩, ⟨[], by simp⟩⟩
    · have hvars := growLoop_vars (s.t.vars.length + 1) s
      obtain ⟨lh, hlh⟩ := growLoop_helpers_prefix (s.t.vars.length + 1) s
      obtain ⟨lo, hlo⟩ := growLoop_out_prefix (s.t.vars.length + 1) s
      refine ⟨⟨[v], ?_⟩, ⟨lh, hlh⟩, ⟨lo ++ emitNew v (growLoop (s.t.vars.length + 1) s).t.vars.length (growLoop (s.t.vars.length + 1) s).t.helpers 0, ?_⟩⟩
      · simp only [hvars]
      · simp only [hlo, List.append_assoc]

theorem mem_vars_add (s : St) (v : Nat) : v ∈ (add s v).t.vars := by
  unfold add
  split
  · next h => exact h
  · split
    · simp
    · simp

/-! ### soundness and completeness of the emitted clause set -/

theorem testBit_eq_of_lt_two_pow {i k b : Nat} (hi : i < 2 ^ k) (hb : k ≤ b) : i.testBit b = false := by
  apply Nat.testBit_lt_two_pow
  exact Nat.lt_of_lt_of_le hi (Nat.pow_le_pow_right (by omega) hb)

/-- Any assignment satisfying the emitted clauses makes at most one tracked variable true. -/
theorem inv_sound (s : St) (hi : Inv s) (σ : Nat → Bool) (hsat : ∀ c ∈ s.out, sat σ c = true)
    (i j : Nat) (x y : Nat) (hx : s.t.vars[i]? = some x) (hy : s.t.vars[j]? = some y)
    (sx : σ x = true) (sy : σ y = true) : i = j := by
  apply Nat.eq_of_testBit_eq
  intro b
  have hil := (List.getElem?_eq_some_iff.mp hx).1
  have hjl := (List.getElem?_eq_some_iff.mp hy).1
  have hen : s.t.vars.length ≤ 2 ^ s.t.helpers.length := hi.enough
  by_cases hb : b < s.t.helpers.length
  · have hh : s.t.helpers[b]? = some s.t.helpers[b] := List.getElem?_eq_getElem hb
    have c1 := hsat _ (hi.cover i b x _ hx hh)
    have c2 := hsat _ (hi.cover j b y _ hy hh)
    simp only [sat, sx, sy, Bool.not_true, Bool.false_or, beq_iff_eq] at c1 c2
    rw [← c1, ← c2]
  · rw [testBit_eq_of_lt_two_pow (Nat.lt_of_lt_of_le hil hen) (by omega),
        testBit_eq_of_lt_two_pow (Nat.lt_of_lt_of_le hjl hen) (by omega)]

theorem pairwise_lt_getElem?_inj {l : List Nat} (hp : l.Pairwise (· < ·)) {a b : Nat} {x : Nat}
    (ha : l[a]? = some x) (hb : l[b]? = some x) : a = b := by
  have hal := (List.getElem?_eq_some_iff.mp ha).1
  have hbl := (List.getElem?_eq_some_iff.mp hb).1
  have ea := (List.getElem?_eq_some_iff.mp ha).2
  have eb := (List.getElem?_eq_some_iff.mp hb).2
  rcases Nat.lt_trichotomy a b with h | h | h
  · have := List.pairwise_iff_getElem.mp hp a b hal hbl h
    rw [ea, eb] at this; exact absurd this (Nat.lt_irrefl _)
  · exact h
  · have := List.pairwise_iff_getElem.mp hp b a hbl hal h
    rw [ea, eb] at this; exact absurd this (Nat.lt_irrefl _)

theorem nodup_getElem?_inj {l : List Nat} (hp : l.Nodup) {a b : Nat} {x : Nat}
    (ha : l[a]? = some x) (hb : l[b]? = some x) : a = b := by
  have hal := (List.getElem?_eq_some_iff.mp ha).1
  have hbl := (List.getElem?_eq_some_iff.mp hb).1
  have ea := (List.getElem?_eq_some_iff.mp ha).2
  have eb := (List.getElem?_eq_some_iff.mp hb).2
  rcases Nat.lt_trichotomy a b with h | h | h
  · have := List.pairwise_iff_getElem.mp hp a b hal hbl h
    rw [ea, eb] at this; exact absurd rfl this
  · exact h
  · have := List.pairwise_iff_getElem.mp hp b a hbl hal h
    rw [ea, eb] at this; exact absurd rfl this

/-- The canonical helper assignment: variable at index `i0` true, every other tracked
    variable false, helper bit `b` set to bit `b` of `i0`. -/
def canon (s : St) (i0 : Nat) (base : Nat → Bool) (v : Nat) : Bool :=
  if v ∈ s.t.vars then decide (s.t.vars[i0]? = some v)
  else if v ∈ s.t.helpers then (List.range s.t.helpers.length).any (fun b => decide (s.t.helpers[b]? = some v) && i0.testBit b)
  else base v

/-- For every tracked variable there is an assignment of the helpers (leaving all
    untracked variables as in `base`) that satisfies all emitted clauses and makes exactly
    that variable true. -/
theorem inv_complete_some (s : St) (hi : Inv s) (hdisj : ∀ h ∈ s.t.helpers, h ∉ s.t.vars)
    (i0 : Nat) (base : Nat → Bool) :
    (∀ c ∈ s.out, sat (canon s i0 base) c = true) ∧
    (∀ i x, s.t.vars[i]? = some x → canon s i0 base x = decide (i = i0)) ∧
    (∀ v, v ∉ s.t.vars → v ∉ s.t.helpers → canon s i0 base v = base v) := by
  refine ⟨?_, ?_, ?_⟩
  · intro c hc
    obtain ⟨i, b, h1, h2, h3⟩ := hi.exact c hc
    have ha : c.a ∈ s.t.vars := List.mem_of_getElem? h1
    have hbm : c.b ∈ s.t.helpers := List.mem_of_getElem? h2
    have hbv : c.b ∉ s.t.vars := hdisj _ hbm
    unfold sat
    by_cases hsel : s.t.vars[i0]? = some c.a
    · have hii : i = i0 := nodup_getElem?_inj hi.nodup h1 hsel
      subst hii
      have hb : canon s i base c.b = c.pos := by
        unfold canon
        simp only [hbv, if_false, hbm, if_true]
        rw [h3]
        have hbl := (List.getElem?_eq_some_iff.mp h2).1
        cases htb : Nat.testBit i b with
        | true =>
          rw [List.any_eq_true]
          exact ⟨b, List.mem_range.mpr hbl, by simp [h2, htb]⟩
        | false =>
          rw [List.any_eq_false]
          intro b' _ hb'
          simp only [Bool.and_eq_true, decide_eq_true_eq] at hb'
          have : b' = b := pairwise_lt_getElem?_inj hi.fresh.1 hb'.1 h2
          subst this
          rw [htb] at hb'; exact absurd hb'.2 (by simp)
      rw [hb]; simp
    · have : canon s i0 base c.a = false := by
        unfold canon; simp [ha, hsel]
      rw [this]; simp
  · intro i x hx
    have hm : x ∈ s.t.vars := List.mem_of_getElem? hx
    unfold canon
    simp only [hm, if_true]
    by_cases he : i = i0
    · subst he; simp [hx]
    · simp only [he, decide_false, decide_eq_false_iff_not]
      intro h0
      exact he (nodup_getElem?_inj hi.nodup hx h0)
  · intro v h1 h2
    unfold canon; simp [h1, h2]

/-- … and one that makes none of them true. -/
theorem inv_complete_none (s : St) (hi : Inv s)
    (base : Nat → Bool) :
    ∃ σ, (∀ c ∈ s.out, sat σ c = true) ∧ (∀ x ∈ s.t.vars, σ x = false) ∧
      (∀ v, v ∉ s.t.vars → v ∉ s.t.helpers → σ v = base v) := by
  refine ⟨fun v => if v ∈ s.t.vars then false else base v, ?_, ?_, ?_⟩
  · intro c hc
    obtain ⟨i, b, h1, _, _⟩ := hi.exact c hc
    have ha : c.a ∈ s.t.vars := List.mem_of_getElem? h1
    simp [sat, ha]
  · intro x hx; simp [hx]
  · intro v h1 _; simp [h1]

end Resolvo.Amo

namespace Resolvo.Amo

theorem growLoop_next_ge (fuel : Nat) (s : St) (lo : Nat) (h1 : lo ≤ s.next) (h2 : ∀ h ∈ s.t.helpers, lo ≤ h) :
    lo ≤ (growLoop fuel s).next ∧ ∀ h ∈ (growLoop fuel s).t.helpers, lo ≤ h := by
  induction fuel generalizing s with
  | zero => exact ⟨h1, h2⟩
  | succ n ih =>
    rw [growLoop_succ]; split
    · apply ih
      · show lo ≤ s.next + 1; omega
      · intro h hh
        simp only [List.mem_append, List.mem_singleton] at hh
        rcases hh with hh | rfl
        · exact h2 h hh
        · exact h1
    · exact ⟨h1, h2⟩

theorem add_next_ge (s : St) (v : Nat) (lo : Nat) (h1 : lo ≤ s.next) (h2 : ∀ h ∈ s.t.helpers, lo ≤ h) :
    lo ≤ (add s v).next ∧ ∀ h ∈ (add s v).t.helpers, lo ≤ h := by
  unfold add
  split
  · exact ⟨h1, h2⟩
  · split
    · exact ⟨h1, h2⟩
    · exact growLoop_next_ge _ s lo h1 h2

theorem addAll_next_ge (s : St) (vs : List Nat) (lo : Nat) (h1 : lo ≤ s.next) (h2 : ∀ h ∈ s.t.helpers, lo ≤ h) :
    lo ≤ (addAll s vs).next ∧ ∀ h ∈ (addAll s vs).t.helpers, lo ≤ h := by
  induction vs generalizing s with
  | nil => exact ⟨h1, h2⟩
  | cons v vs ih =>
    obtain ⟨a, b⟩ := add_next_ge s v lo h1 h2
    exact ih (add s v) a b

theorem vars_add_subset (s : St) (v x : Nat) (hx : x ∈ (add s v).t.vars) : x ∈ s.t.vars ∨ x = v := by
  unfold add at hx
  split at hx
  · exact Or.inl hx
  · split at hx
    · simp at hx; exact Or.inr hx
    · simp only [List.mem_append, List.mem_singleton] at hx
      rw [growLoop_vars] at hx
      exact hx

theorem vars_addAll_subset (s : St) (vs : List Nat) (x : Nat) (hx : x ∈ (addAll s vs).t.vars) :
    x ∈ s.t.vars ∨ x ∈ vs := by
  induction vs generalizing s with
  | nil => exact Or.inl hx
  | cons v vs ih =>
    rcases ih (add s v) hx with h | h
    · rcases vars_add_subset s v x h with h | h
      · exact Or.inl h
      · exact Or.inr (by simp [h])
    · exact Or.inr (List.mem_cons_of_mem _ h)

theorem vars_mono_addAll (s : St) (vs : List Nat) (x : Nat) (hx : x ∈ s.t.vars) : x ∈ (addAll s vs).t.vars := by
  induction vs generalizing s with
  | nil => exact hx
  | cons v vs ih =>
    apply ih
    obtain ⟨⟨l, hl⟩, _, _⟩ := add_stable s v
    rw [hl]; exact List.mem_append_left _ hx

theorem mem_vars_addAll (s : St) (vs : List Nat) (x : Nat) (hx : x ∈ vs) : x ∈ (addAll s vs).t.vars := by
  induction vs generalizing s with
  | nil => cases hx
  | cons v vs ih =>
    simp only [List.mem_cons] at hx
    rcases hx with rfl | hx
    · exact vars_mono_addAll (add s x) vs x (mem_vars_add s x)
    · exact ih (add s v) hx

end Resolvo.Amo
